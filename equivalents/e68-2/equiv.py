"""Equivalence check for refactoring 2 (ceos_alos2/dicttoolz.py).

Run as

    cd /tmp/wt8/e68 && PYTHONPATH=/tmp/wt8/e68 /venv/bin/python _eq/2/equiv.py

(or through pytest). ``EXPECTED`` was recorded from the unchanged code at HEAD
with ``equiv.py --record``; the script has to pass with and without the patch.
"""

import collections
import copy
import pprint
import sys

import numpy as np

from ceos_alos2 import dicttoolz


def canon(obj):
    """type-preserving, order-preserving textual form"""
    if isinstance(obj, dict):
        items = ", ".join(f"{canon(k)}: {canon(v)}" for k, v in obj.items())
        return f"{type(obj).__name__}{{{items}}}"
    if isinstance(obj, (list, tuple)):
        items = ", ".join(canon(v) for v in obj)
        return f"{type(obj).__name__}[{items}]"
    if obj is dicttoolz.sentinel:
        return "<sentinel>"
    return f"{type(obj).__name__}:{obj!r}"


def outcome(func, *args, **kwargs):
    try:
        result = func(*args, **kwargs)
    except Exception as e:  # noqa: BLE001
        return f"raises {type(e).__name__}({str(e)!r})"
    return canon(result)


class Recorder:
    """predicate wrapper recording the order and the arguments of the calls"""

    def __init__(self, func):
        self.func = func
        self.calls = []

    def __call__(self, arg):
        self.calls.append(arg)
        return self.func(arg)


class Items3:
    """not a dict: items() yields triples"""

    def items(self):
        return [(1, 2, 3), (4, 5, 6)]


class Seq:
    """sequence which only knows __getitem__ / __len__"""

    def __init__(self, *values):
        self.values = values

    def __getitem__(self, index):
        return self.values[index]

    def __len__(self):
        return len(self.values)

    def __repr__(self):
        return f"Seq{self.values!r}"


class Boom(Exception):
    pass


class Exploding(dict):
    def __getitem__(self, key):
        raise Boom(key)


def raiser(exc):
    def func(*args):
        raise exc

    return func


numbers = {1: 0, 2: 1, 3: 2, 4: 0, 5: 7, 0: 0}
letters = {"b": 2, "a": 1, "d": None, "c": [3], "": 0}

split_predicates = {
    "bool": lambda x: x != 0,
    "always-true": lambda x: True,
    "always-false": lambda x: False,
    "int-0-1": lambda x: 1 if x else 0,
    "float-0-1": lambda x: 1.0 if x else 0.0,
    "int-other": lambda x: 2 if x else 0,
    "none": lambda x: None,
    "str": lambda x: "yes" if x else "",
    "numpy-bool": lambda x: np.bool_(bool(x)),
    "numpy-int": lambda x: np.int64(bool(x)),
    "identity": lambda x: x,
    "unhashable": lambda x: [x],
    "raising": raiser(Boom("predicate")),
    "mixed-true": lambda x: (True, 1, 1.0, np.True_, False, 0)[x] if isinstance(x, int) else x,
}

nested = {"a": 1, "b": {"c": 2, "d": {"e": 4}}, "l": [10, {"x": 1}], "t": (1, 2), "s": "xyz", "n": None}

copy_instructions = {
    "empty": {},
    "multiple_dest": {("b", "d"): ["a"]},
    "multiple_src": {("d",): ["b", "c"]},
    "missing": {("d",): ["e"]},
    "missing_multiple": {("d",): ["e", "f"]},
    "several": {("x",): ["a"], ("y", "z"): ["b", "d", "e"], ("q",): ["nope"], ("b", "c"): ["l", 0]},
    "chain": {("x",): ["a"], ("y",): ["x"]},
    "through-list": {("x",): ["l", 1, "x"], ("y",): ["l", 5], ("z",): ["l", "k"]},
    "through-tuple-str": {("x",): ["t", 1], ("y",): ["s", 0], ("z",): ["s", 0, 0, 0]},
    "through-none": {("x",): ["n", "a"]},
    "through-int": {("x",): ["a", "b"]},
    "value-none": {("x",): ["n"]},
    "source-empty": {("x",): []},
    "source-tuple": {("x",): ("b", "c")},
    "source-str": {("x",): "b", ("y",): "bc"},
    "source-int": {("x",): 5},
    "source-none": {("x",): None},
    "source-generator-like": {("x",): iter(["b", "c"])},
    "source-unhashable-key": {("x",): [["a"]]},
    "dest-str": {"xy": ["a"]},
    "dest-long": {("p", "q", "r", "s"): ["b", "d"]},
    "dest-overwrite": {("a",): ["b"], ("b",): ["a"]},
    "dest-into-scalar": {("a", "k"): ["s"]},
    "dest-into-list": {("l", 0): ["a"]},
    "dest-into-list-str": {("l", "k"): ["a"]},
    "dest-empty": {(): ["a"]},
    "dest-int": {5: ["a"]},
}

move_instructions = dict(copy_instructions)
move_instructions.update(
    {
        "pop-from-list": {("x",): ["l", 0]},
        "pop-from-tuple": {("x",): ["t", 0]},
        "pop-from-str": {("x",): ["s", 0]},
        "pop-missing-tail": {("x",): ["b", "zzz"]},
        "pop-missing-head": {("x",): ["zzz", "c"]},
        "move-twice": {("x",): ["b", "c"], ("y",): ["b", "c"]},
        "move-parent-and-child": {("x",): ["b"], ("y",): ["b", "c"]},
        "move-child-and-parent": {("y",): ["b", "c"], ("x",): ["b"]},
        "move-into-itself": {("b", "d", "copy"): ["b"]},
        "unhashable-tail": {("x",): ["b", ["c"]]},
    }
)

key_exists_cases = {
    "flat-existing": "a",
    "flat-missing": "z",
    "nested_dot-existing": "b.c",
    "nested_dot-deep": "b.d.e",
    "nested_dot-missing": "a.b",
    "nested_dot-too-deep": "b.d.e.f",
    "nested_list-existing": ["b", "d", "e"],
    "nested_list-missing": ["a", "b"],
    "empty-str": "",
    "dot-only": ".",
    "trailing-dot": "b.",
    "leading-dot": ".b",
    "double-dot": "b..c",
    "empty-list": [],
    "list-with-dot-element": ["b", "."],
    "list-with-dotted-element": ["b.c"],
    "list-index": ["l", 0],
    "list-index-negative": ["l", -1],
    "list-index-missing": ["l", 7],
    "list-index-as-str": "l.0",
    "list-nested": ["l", 1, "x"],
    "tuple-key": ("b", "c"),
    "tuple-with-dot": ("b", "."),
    "int-key": 5,
    "none-key": None,
    "none-value": "n",
    "below-none": "n.x",
    "str-index": ["s", 1],
    "str-below": "s.x",
    "unhashable-in-list": ["b", ["c"]],
    "bytes-key": b"a.b",
    "set-key": {"a"},
    "set-with-dot": {"."},
}


def collect():
    results = {}

    for name, predicate in split_predicates.items():
        for data_name, data in (("numbers", numbers), ("letters", letters), ("empty", {})):
            recorder = Recorder(predicate)
            results[f"itemsplit/{name}/{data_name}"] = outcome(
                dicttoolz.itemsplit, Recorder(lambda item: predicate(item[1])), data
            )
            results[f"valsplit/{name}/{data_name}"] = outcome(dicttoolz.valsplit, recorder, data)
            results[f"valsplit-calls/{name}/{data_name}"] = canon(recorder.calls)
            recorder = Recorder(predicate)
            results[f"keysplit/{name}/{data_name}"] = outcome(dicttoolz.keysplit, recorder, data)
            results[f"keysplit-calls/{name}/{data_name}"] = canon(recorder.calls)
    results["itemsplit/test-suite"] = outcome(
        dicttoolz.itemsplit, lambda item: item[0] % 2 == 1 and item[1] != 0, {1: 0, 2: 1, 3: 2}
    )
    results["valsplit/ordereddict"] = outcome(
        dicttoolz.valsplit, bool, collections.OrderedDict([("b", 0), ("a", 1)])
    )
    results["valsplit/triples"] = outcome(dicttoolz.valsplit, lambda v: v == 2, Items3())
    results["keysplit/triples"] = outcome(dicttoolz.keysplit, lambda k: k == 1, Items3())
    results["valsplit/not-a-mapping"] = outcome(dicttoolz.valsplit, bool, [1, 2])
    results["keysplit/not-a-mapping"] = outcome(dicttoolz.keysplit, bool, None)
    results["valsplit/not-callable"] = outcome(dicttoolz.valsplit, None, {"a": 1})
    results["keysplit/not-callable"] = outcome(dicttoolz.keysplit, 0, {"a": 1})
    results["keysplit/not-callable-empty"] = outcome(dicttoolz.keysplit, 0, {})

    results["assoc"] = outcome(dicttoolz.assoc, "b", "abc", {"a": 1})

    mapping = {"a": 1, "b": 2, "c": 3, "e": 4, "f": 5, 1: 6, None: 7}
    dissoc_keys = {
        "list": ["c", "e"],
        "missing": ["x", "y"],
        "empty": [],
        "all": list(mapping),
        "str": "abz",
        "set": {"a", 1},
        "tuple": ("f", None),
        "dict": {"a": None},
        "iterator": iter(["c", "a"]),
        "iterator-late": iter(["f", "a"]),
        "generator": (k for k in ["b", "c"]),
        "range": range(3),
        "int": 5,
        "none": None,
        "frozenset-empty": frozenset(),
    }
    for name, keys in dissoc_keys.items():
        results[f"dissoc/{name}"] = outcome(dicttoolz.dissoc, keys, mapping)
    results["dissoc/ordereddict"] = outcome(
        dicttoolz.dissoc, ["a"], collections.OrderedDict([("b", 1), ("a", 2), ("c", 3)])
    )
    results["dissoc/empty-mapping"] = outcome(dicttoolz.dissoc, ["a"], {})
    results["dissoc/not-a-mapping"] = outcome(dicttoolz.dissoc, ["a"], ["a", "b"])
    results["dissoc/none-mapping"] = outcome(dicttoolz.dissoc, ["a"], None)
    results["dissoc/unhashable-keys-container"] = outcome(dicttoolz.dissoc, {"a": 1}.keys(), mapping)
    original = {"a": [1], "b": 2}
    result = dicttoolz.dissoc(["b"], original)
    results["dissoc/new-object"] = str(
        (result is not original, result["a"] is original["a"], original == {"a": [1], "b": 2})
    )
    result = dicttoolz.dissoc([], original)
    results["dissoc/new-object-nothing-removed"] = str((result is not original, result == original))

    zip_cases = {
        "none": [],
        "one": [{"b": 1, "a": 2}],
        "one-empty": [{}],
        "two-empty": [{}, {}],
        "left": [{"a": 1}, {}],
        "right": [{}, {"a": 1}],
        "both": [{"a": 1}, {"a": 2}],
        "disjoint": [{"a": 1}, {"b": 1}],
        "order": [{"c": 1, "a": 2}, {"b": 3, "a": 4, "d": 5}, {"e": 6, "c": 7}],
        "non-str-keys": [{1: "a", None: "b"}, {(1, 2): "c", 1.0: "d", True: "e"}],
        "default-valued": [{"a": None}, {"b": None}],
        "ordereddict": [collections.OrderedDict([("z", 1), ("y", 2)]), {"y": 3, "x": 4}],
        "defaultdict": [collections.defaultdict(list, a=1), {"b": 2}],
        "list-of-pairs": [{"a": 1}, [("b", 2)]],
        "not-iterable": [{"a": 1}, 5],
        "none-mapping": [None, {"a": 1}],
        "str-mapping": ["ab", {"a": 1}],
        "empty-str-mapping": ["", {}],
    }
    marker = object()
    for name, mappings in zip_cases.items():
        results[f"zip_default/{name}"] = outcome(dicttoolz.zip_default, *mappings)
        results[f"zip_default/{name}/False"] = outcome(dicttoolz.zip_default, *mappings, default=False)
        try:
            zipped = dicttoolz.zip_default(*mappings, default=marker)
        except Exception as e:  # noqa: BLE001
            results[f"zip_default/{name}/marker"] = f"raises {type(e).__name__}"
        else:
            results[f"zip_default/{name}/marker"] = str(
                {k: [v is marker for v in values] for k, values in zipped.items()}
            )
    defaulting = collections.defaultdict(list, a=1)
    dicttoolz.zip_default(defaulting, {"b": 2})
    results["zip_default/defaultdict-untouched"] = canon(dict(defaulting))

    results["apply_to_items"] = outcome(
        dicttoolz.apply_to_items, {"b": str}, {"a": "1", "b": 6.4, "c": 4}, default=lambda x: x * 2
    )

    for name, instructions in copy_instructions.items():
        mapping = copy.deepcopy(nested)
        results[f"copy_items/{name}"] = outcome(dicttoolz.copy_items, instructions, mapping)
        results[f"copy_items/{name}/input-untouched"] = str(mapping == nested)
    mapping = copy.deepcopy(nested)
    results["copy_items/identity-nothing-copied"] = str(
        (
            dicttoolz.copy_items({}, mapping) is mapping,
            dicttoolz.copy_items({("x",): ["zzz"]}, mapping) is mapping,
            dicttoolz.copy_items({("x",): ["a"]}, mapping) is mapping,
        )
    )
    copied = dicttoolz.copy_items({("x",): ["b", "d"], ("y", "z"): ["l"]}, mapping)
    results["copy_items/shares-values"] = str(
        (copied["x"] is mapping["b"]["d"], copied["y"]["z"] is mapping["l"], copied["b"] is mapping["b"])
    )
    results["copy_items/test-suite"] = outcome(
        dicttoolz.copy_items, {("d",): ["b", "c"]}, {"a": 1, "b": {"c": 2}}
    )
    results["copy_items/exploding"] = outcome(
        dicttoolz.copy_items, {("x",): ["a"]}, Exploding(a=1)
    )
    results["copy_items/seq-mapping"] = outcome(
        dicttoolz.copy_items, {("x",): [1], ("y",): [9], ("z",): ["k"]}, {"q": 0} | {}
    )
    results["copy_items/custom-sequence"] = outcome(
        dicttoolz.copy_items, {("x",): ["q", 1], ("y",): ["q", 9], ("z",): ["q", "k"]}, {"q": Seq(1, 2)}
    )
    results["copy_items/instructions-none"] = outcome(dicttoolz.copy_items, None, {})
    results["copy_items/mapping-none"] = outcome(dicttoolz.copy_items, {("x",): ["a"]}, None)
    results["copy_items/mapping-none-empty-source"] = outcome(dicttoolz.copy_items, {("x",): []}, None)

    for name, instructions in move_instructions.items():
        mapping = copy.deepcopy(nested)
        # the iterator in this case has to be fresh
        if name == "source-generator-like":
            instructions = {("x",): iter(["b", "c"])}
        results[f"move_items/{name}"] = outcome(dicttoolz.move_items, instructions, mapping)
        results[f"move_items/{name}/input-untouched"] = str(mapping == nested)
    mapping = copy.deepcopy(nested)
    moved = dicttoolz.move_items({}, mapping)
    results["move_items/deep-copy"] = str(
        (moved is not mapping, moved == mapping, moved["b"] is not mapping["b"], moved["l"] is not mapping["l"])
    )
    results["move_items/test-suite"] = outcome(
        dicttoolz.move_items, {("b", "d"): ["a"]}, {"a": 1, "b": {"c": 2}}
    )
    results["move_items/custom-sequence"] = outcome(
        lambda: canon(dicttoolz.move_items({("x",): ["q", 1]}, {"q": Seq(1, 2)})["x"])
    )
    results["move_items/empty-source"] = outcome(dicttoolz.move_items, {("x",): []}, {"a": 1})
    results["move_items/instructions-none"] = outcome(dicttoolz.move_items, None, {})

    for name, key in key_exists_cases.items():
        results[f"key_exists/{name}"] = outcome(dicttoolz.key_exists, key, nested)
    results["key_exists/dotted-key-present-literally"] = outcome(dicttoolz.key_exists, "a.b", {"a.b": 1})
    results["key_exists/mapping-none"] = outcome(dicttoolz.key_exists, "a", None)
    results["key_exists/mapping-list"] = outcome(dicttoolz.key_exists, [0], [1])
    results["key_exists/mapping-list-int"] = outcome(dicttoolz.key_exists, 0, [1])
    results["key_exists/exploding"] = outcome(dicttoolz.key_exists, "a", Exploding(a=1))
    results["key_exists/sentinel-value"] = outcome(dicttoolz.key_exists, "a", {"a": dicttoolz.sentinel})
    key = ["b", "c"]
    dicttoolz.key_exists(key, nested)
    results["key_exists/list-key-untouched"] = canon(key)

    results["names"] = str(
        sorted(
            name
            for name in (
                "sentinel", "itemsplit", "valsplit", "keysplit", "assoc", "dissoc", "zip_default",
                "apply_to_items", "copy_items", "move_items", "key_exists", "passthrough", "assoc_",
            )
            if hasattr(dicttoolz, name)
        )
    )
    return results


EXPECTED = {'itemsplit/bool/numbers': 'tuple[dict{int:2: int:1, int:3: int:2, int:5: int:7}, dict{int:1: int:0, int:4: int:0, '
                           'int:0: int:0}]',
 'valsplit/bool/numbers': 'tuple[dict{int:2: int:1, int:3: int:2, int:5: int:7}, dict{int:1: int:0, int:4: int:0, '
                          'int:0: int:0}]',
 'valsplit-calls/bool/numbers': 'list[int:0, int:1, int:2, int:0, int:7, int:0]',
 'keysplit/bool/numbers': 'tuple[dict{int:1: int:0, int:2: int:1, int:3: int:2, int:4: int:0, int:5: int:7}, '
                          'dict{int:0: int:0}]',
 'keysplit-calls/bool/numbers': 'list[int:1, int:2, int:3, int:4, int:5, int:0]',
 'itemsplit/bool/letters': "tuple[dict{str:'b': int:2, str:'a': int:1, str:'d': NoneType:None, str:'c': list[int:3]}, "
                           "dict{str:'': int:0}]",
 'valsplit/bool/letters': "tuple[dict{str:'b': int:2, str:'a': int:1, str:'d': NoneType:None, str:'c': list[int:3]}, "
                          "dict{str:'': int:0}]",
 'valsplit-calls/bool/letters': 'list[int:2, int:1, NoneType:None, list[int:3], int:0]',
 'keysplit/bool/letters': "tuple[dict{str:'b': int:2, str:'a': int:1, str:'d': NoneType:None, str:'c': list[int:3], "
                          "str:'': int:0}, dict{}]",
 'keysplit-calls/bool/letters': "list[str:'b', str:'a', str:'d', str:'c', str:'']",
 'itemsplit/bool/empty': 'tuple[dict{}, dict{}]',
 'valsplit/bool/empty': 'tuple[dict{}, dict{}]',
 'valsplit-calls/bool/empty': 'list[]',
 'keysplit/bool/empty': 'tuple[dict{}, dict{}]',
 'keysplit-calls/bool/empty': 'list[]',
 'itemsplit/always-true/numbers': 'tuple[dict{int:1: int:0, int:2: int:1, int:3: int:2, int:4: int:0, int:5: int:7, '
                                  'int:0: int:0}, dict{}]',
 'valsplit/always-true/numbers': 'tuple[dict{int:1: int:0, int:2: int:1, int:3: int:2, int:4: int:0, int:5: int:7, '
                                 'int:0: int:0}, dict{}]',
 'valsplit-calls/always-true/numbers': 'list[int:0, int:1, int:2, int:0, int:7, int:0]',
 'keysplit/always-true/numbers': 'tuple[dict{int:1: int:0, int:2: int:1, int:3: int:2, int:4: int:0, int:5: int:7, '
                                 'int:0: int:0}, dict{}]',
 'keysplit-calls/always-true/numbers': 'list[int:1, int:2, int:3, int:4, int:5, int:0]',
 'itemsplit/always-true/letters': "tuple[dict{str:'b': int:2, str:'a': int:1, str:'d': NoneType:None, str:'c': "
                                  "list[int:3], str:'': int:0}, dict{}]",
 'valsplit/always-true/letters': "tuple[dict{str:'b': int:2, str:'a': int:1, str:'d': NoneType:None, str:'c': "
                                 "list[int:3], str:'': int:0}, dict{}]",
 'valsplit-calls/always-true/letters': 'list[int:2, int:1, NoneType:None, list[int:3], int:0]',
 'keysplit/always-true/letters': "tuple[dict{str:'b': int:2, str:'a': int:1, str:'d': NoneType:None, str:'c': "
                                 "list[int:3], str:'': int:0}, dict{}]",
 'keysplit-calls/always-true/letters': "list[str:'b', str:'a', str:'d', str:'c', str:'']",
 'itemsplit/always-true/empty': 'tuple[dict{}, dict{}]',
 'valsplit/always-true/empty': 'tuple[dict{}, dict{}]',
 'valsplit-calls/always-true/empty': 'list[]',
 'keysplit/always-true/empty': 'tuple[dict{}, dict{}]',
 'keysplit-calls/always-true/empty': 'list[]',
 'itemsplit/always-false/numbers': 'tuple[dict{}, dict{int:1: int:0, int:2: int:1, int:3: int:2, int:4: int:0, int:5: '
                                   'int:7, int:0: int:0}]',
 'valsplit/always-false/numbers': 'tuple[dict{}, dict{int:1: int:0, int:2: int:1, int:3: int:2, int:4: int:0, int:5: '
                                  'int:7, int:0: int:0}]',
 'valsplit-calls/always-false/numbers': 'list[int:0, int:1, int:2, int:0, int:7, int:0]',
 'keysplit/always-false/numbers': 'tuple[dict{}, dict{int:1: int:0, int:2: int:1, int:3: int:2, int:4: int:0, int:5: '
                                  'int:7, int:0: int:0}]',
 'keysplit-calls/always-false/numbers': 'list[int:1, int:2, int:3, int:4, int:5, int:0]',
 'itemsplit/always-false/letters': "tuple[dict{}, dict{str:'b': int:2, str:'a': int:1, str:'d': NoneType:None, "
                                   "str:'c': list[int:3], str:'': int:0}]",
 'valsplit/always-false/letters': "tuple[dict{}, dict{str:'b': int:2, str:'a': int:1, str:'d': NoneType:None, str:'c': "
                                  "list[int:3], str:'': int:0}]",
 'valsplit-calls/always-false/letters': 'list[int:2, int:1, NoneType:None, list[int:3], int:0]',
 'keysplit/always-false/letters': "tuple[dict{}, dict{str:'b': int:2, str:'a': int:1, str:'d': NoneType:None, str:'c': "
                                  "list[int:3], str:'': int:0}]",
 'keysplit-calls/always-false/letters': "list[str:'b', str:'a', str:'d', str:'c', str:'']",
 'itemsplit/always-false/empty': 'tuple[dict{}, dict{}]',
 'valsplit/always-false/empty': 'tuple[dict{}, dict{}]',
 'valsplit-calls/always-false/empty': 'list[]',
 'keysplit/always-false/empty': 'tuple[dict{}, dict{}]',
 'keysplit-calls/always-false/empty': 'list[]',
 'itemsplit/int-0-1/numbers': 'tuple[dict{int:2: int:1, int:3: int:2, int:5: int:7}, dict{int:1: int:0, int:4: int:0, '
                              'int:0: int:0}]',
 'valsplit/int-0-1/numbers': 'tuple[dict{int:2: int:1, int:3: int:2, int:5: int:7}, dict{int:1: int:0, int:4: int:0, '
                             'int:0: int:0}]',
 'valsplit-calls/int-0-1/numbers': 'list[int:0, int:1, int:2, int:0, int:7, int:0]',
 'keysplit/int-0-1/numbers': 'tuple[dict{int:1: int:0, int:2: int:1, int:3: int:2, int:4: int:0, int:5: int:7}, '
                             'dict{int:0: int:0}]',
 'keysplit-calls/int-0-1/numbers': 'list[int:1, int:2, int:3, int:4, int:5, int:0]',
 'itemsplit/int-0-1/letters': "tuple[dict{str:'b': int:2, str:'a': int:1, str:'c': list[int:3]}, dict{str:'d': "
                              "NoneType:None, str:'': int:0}]",
 'valsplit/int-0-1/letters': "tuple[dict{str:'b': int:2, str:'a': int:1, str:'c': list[int:3]}, dict{str:'d': "
                             "NoneType:None, str:'': int:0}]",
 'valsplit-calls/int-0-1/letters': 'list[int:2, int:1, NoneType:None, list[int:3], int:0]',
 'keysplit/int-0-1/letters': "tuple[dict{str:'b': int:2, str:'a': int:1, str:'d': NoneType:None, str:'c': "
                             "list[int:3]}, dict{str:'': int:0}]",
 'keysplit-calls/int-0-1/letters': "list[str:'b', str:'a', str:'d', str:'c', str:'']",
 'itemsplit/int-0-1/empty': 'tuple[dict{}, dict{}]',
 'valsplit/int-0-1/empty': 'tuple[dict{}, dict{}]',
 'valsplit-calls/int-0-1/empty': 'list[]',
 'keysplit/int-0-1/empty': 'tuple[dict{}, dict{}]',
 'keysplit-calls/int-0-1/empty': 'list[]',
 'itemsplit/float-0-1/numbers': 'tuple[dict{int:2: int:1, int:3: int:2, int:5: int:7}, dict{int:1: int:0, int:4: '
                                'int:0, int:0: int:0}]',
 'valsplit/float-0-1/numbers': 'tuple[dict{int:2: int:1, int:3: int:2, int:5: int:7}, dict{int:1: int:0, int:4: int:0, '
                               'int:0: int:0}]',
 'valsplit-calls/float-0-1/numbers': 'list[int:0, int:1, int:2, int:0, int:7, int:0]',
 'keysplit/float-0-1/numbers': 'tuple[dict{int:1: int:0, int:2: int:1, int:3: int:2, int:4: int:0, int:5: int:7}, '
                               'dict{int:0: int:0}]',
 'keysplit-calls/float-0-1/numbers': 'list[int:1, int:2, int:3, int:4, int:5, int:0]',
 'itemsplit/float-0-1/letters': "tuple[dict{str:'b': int:2, str:'a': int:1, str:'c': list[int:3]}, dict{str:'d': "
                                "NoneType:None, str:'': int:0}]",
 'valsplit/float-0-1/letters': "tuple[dict{str:'b': int:2, str:'a': int:1, str:'c': list[int:3]}, dict{str:'d': "
                               "NoneType:None, str:'': int:0}]",
 'valsplit-calls/float-0-1/letters': 'list[int:2, int:1, NoneType:None, list[int:3], int:0]',
 'keysplit/float-0-1/letters': "tuple[dict{str:'b': int:2, str:'a': int:1, str:'d': NoneType:None, str:'c': "
                               "list[int:3]}, dict{str:'': int:0}]",
 'keysplit-calls/float-0-1/letters': "list[str:'b', str:'a', str:'d', str:'c', str:'']",
 'itemsplit/float-0-1/empty': 'tuple[dict{}, dict{}]',
 'valsplit/float-0-1/empty': 'tuple[dict{}, dict{}]',
 'valsplit-calls/float-0-1/empty': 'list[]',
 'keysplit/float-0-1/empty': 'tuple[dict{}, dict{}]',
 'keysplit-calls/float-0-1/empty': 'list[]',
 'itemsplit/int-other/numbers': 'tuple[dict{}, dict{int:1: int:0, int:4: int:0, int:0: int:0}]',
 'valsplit/int-other/numbers': 'tuple[dict{}, dict{int:1: int:0, int:4: int:0, int:0: int:0}]',
 'valsplit-calls/int-other/numbers': 'list[int:0, int:1, int:2, int:0, int:7, int:0]',
 'keysplit/int-other/numbers': 'tuple[dict{}, dict{int:0: int:0}]',
 'keysplit-calls/int-other/numbers': 'list[int:1, int:2, int:3, int:4, int:5, int:0]',
 'itemsplit/int-other/letters': "tuple[dict{}, dict{str:'d': NoneType:None, str:'': int:0}]",
 'valsplit/int-other/letters': "tuple[dict{}, dict{str:'d': NoneType:None, str:'': int:0}]",
 'valsplit-calls/int-other/letters': 'list[int:2, int:1, NoneType:None, list[int:3], int:0]',
 'keysplit/int-other/letters': "tuple[dict{}, dict{str:'': int:0}]",
 'keysplit-calls/int-other/letters': "list[str:'b', str:'a', str:'d', str:'c', str:'']",
 'itemsplit/int-other/empty': 'tuple[dict{}, dict{}]',
 'valsplit/int-other/empty': 'tuple[dict{}, dict{}]',
 'valsplit-calls/int-other/empty': 'list[]',
 'keysplit/int-other/empty': 'tuple[dict{}, dict{}]',
 'keysplit-calls/int-other/empty': 'list[]',
 'itemsplit/none/numbers': 'tuple[dict{}, dict{}]',
 'valsplit/none/numbers': 'tuple[dict{}, dict{}]',
 'valsplit-calls/none/numbers': 'list[int:0, int:1, int:2, int:0, int:7, int:0]',
 'keysplit/none/numbers': 'tuple[dict{}, dict{}]',
 'keysplit-calls/none/numbers': 'list[int:1, int:2, int:3, int:4, int:5, int:0]',
 'itemsplit/none/letters': 'tuple[dict{}, dict{}]',
 'valsplit/none/letters': 'tuple[dict{}, dict{}]',
 'valsplit-calls/none/letters': 'list[int:2, int:1, NoneType:None, list[int:3], int:0]',
 'keysplit/none/letters': 'tuple[dict{}, dict{}]',
 'keysplit-calls/none/letters': "list[str:'b', str:'a', str:'d', str:'c', str:'']",
 'itemsplit/none/empty': 'tuple[dict{}, dict{}]',
 'valsplit/none/empty': 'tuple[dict{}, dict{}]',
 'valsplit-calls/none/empty': 'list[]',
 'keysplit/none/empty': 'tuple[dict{}, dict{}]',
 'keysplit-calls/none/empty': 'list[]',
 'itemsplit/str/numbers': 'tuple[dict{}, dict{}]',
 'valsplit/str/numbers': 'tuple[dict{}, dict{}]',
 'valsplit-calls/str/numbers': 'list[int:0, int:1, int:2, int:0, int:7, int:0]',
 'keysplit/str/numbers': 'tuple[dict{}, dict{}]',
 'keysplit-calls/str/numbers': 'list[int:1, int:2, int:3, int:4, int:5, int:0]',
 'itemsplit/str/letters': 'tuple[dict{}, dict{}]',
 'valsplit/str/letters': 'tuple[dict{}, dict{}]',
 'valsplit-calls/str/letters': 'list[int:2, int:1, NoneType:None, list[int:3], int:0]',
 'keysplit/str/letters': 'tuple[dict{}, dict{}]',
 'keysplit-calls/str/letters': "list[str:'b', str:'a', str:'d', str:'c', str:'']",
 'itemsplit/str/empty': 'tuple[dict{}, dict{}]',
 'valsplit/str/empty': 'tuple[dict{}, dict{}]',
 'valsplit-calls/str/empty': 'list[]',
 'keysplit/str/empty': 'tuple[dict{}, dict{}]',
 'keysplit-calls/str/empty': 'list[]',
 'itemsplit/numpy-bool/numbers': 'tuple[dict{int:2: int:1, int:3: int:2, int:5: int:7}, dict{int:1: int:0, int:4: '
                                 'int:0, int:0: int:0}]',
 'valsplit/numpy-bool/numbers': 'tuple[dict{int:2: int:1, int:3: int:2, int:5: int:7}, dict{int:1: int:0, int:4: '
                                'int:0, int:0: int:0}]',
 'valsplit-calls/numpy-bool/numbers': 'list[int:0, int:1, int:2, int:0, int:7, int:0]',
 'keysplit/numpy-bool/numbers': 'tuple[dict{int:1: int:0, int:2: int:1, int:3: int:2, int:4: int:0, int:5: int:7}, '
                                'dict{int:0: int:0}]',
 'keysplit-calls/numpy-bool/numbers': 'list[int:1, int:2, int:3, int:4, int:5, int:0]',
 'itemsplit/numpy-bool/letters': "tuple[dict{str:'b': int:2, str:'a': int:1, str:'c': list[int:3]}, dict{str:'d': "
                                 "NoneType:None, str:'': int:0}]",
 'valsplit/numpy-bool/letters': "tuple[dict{str:'b': int:2, str:'a': int:1, str:'c': list[int:3]}, dict{str:'d': "
                                "NoneType:None, str:'': int:0}]",
 'valsplit-calls/numpy-bool/letters': 'list[int:2, int:1, NoneType:None, list[int:3], int:0]',
 'keysplit/numpy-bool/letters': "tuple[dict{str:'b': int:2, str:'a': int:1, str:'d': NoneType:None, str:'c': "
                                "list[int:3]}, dict{str:'': int:0}]",
 'keysplit-calls/numpy-bool/letters': "list[str:'b', str:'a', str:'d', str:'c', str:'']",
 'itemsplit/numpy-bool/empty': 'tuple[dict{}, dict{}]',
 'valsplit/numpy-bool/empty': 'tuple[dict{}, dict{}]',
 'valsplit-calls/numpy-bool/empty': 'list[]',
 'keysplit/numpy-bool/empty': 'tuple[dict{}, dict{}]',
 'keysplit-calls/numpy-bool/empty': 'list[]',
 'itemsplit/numpy-int/numbers': 'tuple[dict{int:2: int:1, int:3: int:2, int:5: int:7}, dict{int:1: int:0, int:4: '
                                'int:0, int:0: int:0}]',
 'valsplit/numpy-int/numbers': 'tuple[dict{int:2: int:1, int:3: int:2, int:5: int:7}, dict{int:1: int:0, int:4: int:0, '
                               'int:0: int:0}]',
 'valsplit-calls/numpy-int/numbers': 'list[int:0, int:1, int:2, int:0, int:7, int:0]',
 'keysplit/numpy-int/numbers': 'tuple[dict{int:1: int:0, int:2: int:1, int:3: int:2, int:4: int:0, int:5: int:7}, '
                               'dict{int:0: int:0}]',
 'keysplit-calls/numpy-int/numbers': 'list[int:1, int:2, int:3, int:4, int:5, int:0]',
 'itemsplit/numpy-int/letters': "tuple[dict{str:'b': int:2, str:'a': int:1, str:'c': list[int:3]}, dict{str:'d': "
                                "NoneType:None, str:'': int:0}]",
 'valsplit/numpy-int/letters': "tuple[dict{str:'b': int:2, str:'a': int:1, str:'c': list[int:3]}, dict{str:'d': "
                               "NoneType:None, str:'': int:0}]",
 'valsplit-calls/numpy-int/letters': 'list[int:2, int:1, NoneType:None, list[int:3], int:0]',
 'keysplit/numpy-int/letters': "tuple[dict{str:'b': int:2, str:'a': int:1, str:'d': NoneType:None, str:'c': "
                               "list[int:3]}, dict{str:'': int:0}]",
 'keysplit-calls/numpy-int/letters': "list[str:'b', str:'a', str:'d', str:'c', str:'']",
 'itemsplit/numpy-int/empty': 'tuple[dict{}, dict{}]',
 'valsplit/numpy-int/empty': 'tuple[dict{}, dict{}]',
 'valsplit-calls/numpy-int/empty': 'list[]',
 'keysplit/numpy-int/empty': 'tuple[dict{}, dict{}]',
 'keysplit-calls/numpy-int/empty': 'list[]',
 'itemsplit/identity/numbers': 'tuple[dict{int:2: int:1}, dict{int:1: int:0, int:4: int:0, int:0: int:0}]',
 'valsplit/identity/numbers': 'tuple[dict{int:2: int:1}, dict{int:1: int:0, int:4: int:0, int:0: int:0}]',
 'valsplit-calls/identity/numbers': 'list[int:0, int:1, int:2, int:0, int:7, int:0]',
 'keysplit/identity/numbers': 'tuple[dict{int:1: int:0}, dict{int:0: int:0}]',
 'keysplit-calls/identity/numbers': 'list[int:1, int:2, int:3, int:4, int:5, int:0]',
 'itemsplit/identity/letters': 'raises TypeError("unhashable type: \'list\'")',
 'valsplit/identity/letters': 'raises TypeError("unhashable type: \'list\'")',
 'valsplit-calls/identity/letters': 'list[int:2, int:1, NoneType:None, list[int:3]]',
 'keysplit/identity/letters': 'tuple[dict{}, dict{}]',
 'keysplit-calls/identity/letters': "list[str:'b', str:'a', str:'d', str:'c', str:'']",
 'itemsplit/identity/empty': 'tuple[dict{}, dict{}]',
 'valsplit/identity/empty': 'tuple[dict{}, dict{}]',
 'valsplit-calls/identity/empty': 'list[]',
 'keysplit/identity/empty': 'tuple[dict{}, dict{}]',
 'keysplit-calls/identity/empty': 'list[]',
 'itemsplit/unhashable/numbers': 'raises TypeError("unhashable type: \'list\'")',
 'valsplit/unhashable/numbers': 'raises TypeError("unhashable type: \'list\'")',
 'valsplit-calls/unhashable/numbers': 'list[int:0]',
 'keysplit/unhashable/numbers': 'raises TypeError("unhashable type: \'list\'")',
 'keysplit-calls/unhashable/numbers': 'list[int:1]',
 'itemsplit/unhashable/letters': 'raises TypeError("unhashable type: \'list\'")',
 'valsplit/unhashable/letters': 'raises TypeError("unhashable type: \'list\'")',
 'valsplit-calls/unhashable/letters': 'list[int:2]',
 'keysplit/unhashable/letters': 'raises TypeError("unhashable type: \'list\'")',
 'keysplit-calls/unhashable/letters': "list[str:'b']",
 'itemsplit/unhashable/empty': 'tuple[dict{}, dict{}]',
 'valsplit/unhashable/empty': 'tuple[dict{}, dict{}]',
 'valsplit-calls/unhashable/empty': 'list[]',
 'keysplit/unhashable/empty': 'tuple[dict{}, dict{}]',
 'keysplit-calls/unhashable/empty': 'list[]',
 'itemsplit/raising/numbers': "raises Boom('predicate')",
 'valsplit/raising/numbers': "raises Boom('predicate')",
 'valsplit-calls/raising/numbers': 'list[int:0]',
 'keysplit/raising/numbers': "raises Boom('predicate')",
 'keysplit-calls/raising/numbers': 'list[int:1]',
 'itemsplit/raising/letters': "raises Boom('predicate')",
 'valsplit/raising/letters': "raises Boom('predicate')",
 'valsplit-calls/raising/letters': 'list[int:2]',
 'keysplit/raising/letters': "raises Boom('predicate')",
 'keysplit-calls/raising/letters': "list[str:'b']",
 'itemsplit/raising/empty': 'tuple[dict{}, dict{}]',
 'valsplit/raising/empty': 'tuple[dict{}, dict{}]',
 'valsplit-calls/raising/empty': 'list[]',
 'keysplit/raising/empty': 'tuple[dict{}, dict{}]',
 'keysplit-calls/raising/empty': 'list[]',
 'itemsplit/mixed-true/numbers': "raises IndexError('tuple index out of range')",
 'valsplit/mixed-true/numbers': "raises IndexError('tuple index out of range')",
 'valsplit-calls/mixed-true/numbers': 'list[int:0, int:1, int:2, int:0, int:7]',
 'keysplit/mixed-true/numbers': 'tuple[dict{int:1: int:0, int:2: int:1, int:3: int:2, int:0: int:0}, dict{int:4: '
                                'int:0, int:5: int:7}]',
 'keysplit-calls/mixed-true/numbers': 'list[int:1, int:2, int:3, int:4, int:5, int:0]',
 'itemsplit/mixed-true/letters': 'raises TypeError("unhashable type: \'list\'")',
 'valsplit/mixed-true/letters': 'raises TypeError("unhashable type: \'list\'")',
 'valsplit-calls/mixed-true/letters': 'list[int:2, int:1, NoneType:None, list[int:3]]',
 'keysplit/mixed-true/letters': 'tuple[dict{}, dict{}]',
 'keysplit-calls/mixed-true/letters': "list[str:'b', str:'a', str:'d', str:'c', str:'']",
 'itemsplit/mixed-true/empty': 'tuple[dict{}, dict{}]',
 'valsplit/mixed-true/empty': 'tuple[dict{}, dict{}]',
 'valsplit-calls/mixed-true/empty': 'list[]',
 'keysplit/mixed-true/empty': 'tuple[dict{}, dict{}]',
 'keysplit-calls/mixed-true/empty': 'list[]',
 'itemsplit/test-suite': 'tuple[dict{int:3: int:2}, dict{int:1: int:0, int:2: int:1}]',
 'valsplit/ordereddict': "tuple[dict{str:'a': int:1}, dict{str:'b': int:0}]",
 'valsplit/triples': "raises ValueError('dictionary update sequence element #0 has length 3; 2 is required')",
 'keysplit/triples': "raises ValueError('dictionary update sequence element #0 has length 3; 2 is required')",
 'valsplit/not-a-mapping': 'raises AttributeError("\'list\' object has no attribute \'items\'")',
 'keysplit/not-a-mapping': 'raises AttributeError("\'NoneType\' object has no attribute \'items\'")',
 'valsplit/not-callable': 'raises TypeError("\'NoneType\' object is not callable")',
 'keysplit/not-callable': 'raises TypeError("\'int\' object is not callable")',
 'keysplit/not-callable-empty': 'tuple[dict{}, dict{}]',
 'assoc': "dict{str:'a': int:1, str:'b': str:'abc'}",
 'dissoc/list': "dict{str:'a': int:1, str:'b': int:2, str:'f': int:5, int:1: int:6, NoneType:None: int:7}",
 'dissoc/missing': "dict{str:'a': int:1, str:'b': int:2, str:'c': int:3, str:'e': int:4, str:'f': int:5, int:1: int:6, "
                   'NoneType:None: int:7}',
 'dissoc/empty': "dict{str:'a': int:1, str:'b': int:2, str:'c': int:3, str:'e': int:4, str:'f': int:5, int:1: int:6, "
                 'NoneType:None: int:7}',
 'dissoc/all': 'dict{}',
 'dissoc/str': 'raises TypeError("\'in <string>\' requires string as left operand, not int")',
 'dissoc/set': "dict{str:'b': int:2, str:'c': int:3, str:'e': int:4, str:'f': int:5, NoneType:None: int:7}",
 'dissoc/tuple': "dict{str:'a': int:1, str:'b': int:2, str:'c': int:3, str:'e': int:4, int:1: int:6}",
 'dissoc/dict': "dict{str:'b': int:2, str:'c': int:3, str:'e': int:4, str:'f': int:5, int:1: int:6, NoneType:None: "
                'int:7}',
 'dissoc/iterator': "dict{str:'b': int:2, str:'c': int:3, str:'e': int:4, str:'f': int:5, int:1: int:6, NoneType:None: "
                    'int:7}',
 'dissoc/iterator-late': "dict{str:'b': int:2, str:'c': int:3, str:'e': int:4, str:'f': int:5, int:1: int:6, "
                         'NoneType:None: int:7}',
 'dissoc/generator': "dict{str:'a': int:1, str:'b': int:2, str:'c': int:3, str:'e': int:4, str:'f': int:5, int:1: "
                     'int:6, NoneType:None: int:7}',
 'dissoc/range': "dict{str:'a': int:1, str:'b': int:2, str:'c': int:3, str:'e': int:4, str:'f': int:5, NoneType:None: "
                 'int:7}',
 'dissoc/int': 'raises TypeError("argument of type \'int\' is not iterable")',
 'dissoc/none': 'raises TypeError("argument of type \'NoneType\' is not iterable")',
 'dissoc/frozenset-empty': "dict{str:'a': int:1, str:'b': int:2, str:'c': int:3, str:'e': int:4, str:'f': int:5, "
                           'int:1: int:6, NoneType:None: int:7}',
 'dissoc/ordereddict': "dict{str:'b': int:1, str:'c': int:3}",
 'dissoc/empty-mapping': 'dict{}',
 'dissoc/not-a-mapping': 'raises AttributeError("\'list\' object has no attribute \'items\'")',
 'dissoc/none-mapping': 'raises AttributeError("\'NoneType\' object has no attribute \'items\'")',
 'dissoc/unhashable-keys-container': "dict{str:'b': int:2, str:'c': int:3, str:'e': int:4, str:'f': int:5, int:1: "
                                     'int:6, NoneType:None: int:7}',
 'dissoc/new-object': '(True, True, True)',
 'dissoc/new-object-nothing-removed': '(True, True)',
 'zip_default/none': 'dict{}',
 'zip_default/none/False': 'dict{}',
 'zip_default/none/marker': '{}',
 'zip_default/one': "dict{str:'b': list[int:1], str:'a': list[int:2]}",
 'zip_default/one/False': "dict{str:'b': list[int:1], str:'a': list[int:2]}",
 'zip_default/one/marker': "{'b': [False], 'a': [False]}",
 'zip_default/one-empty': 'dict{}',
 'zip_default/one-empty/False': 'dict{}',
 'zip_default/one-empty/marker': '{}',
 'zip_default/two-empty': 'dict{}',
 'zip_default/two-empty/False': 'dict{}',
 'zip_default/two-empty/marker': '{}',
 'zip_default/left': "dict{str:'a': list[int:1, NoneType:None]}",
 'zip_default/left/False': "dict{str:'a': list[int:1, bool:False]}",
 'zip_default/left/marker': "{'a': [False, True]}",
 'zip_default/right': "dict{str:'a': list[NoneType:None, int:1]}",
 'zip_default/right/False': "dict{str:'a': list[bool:False, int:1]}",
 'zip_default/right/marker': "{'a': [True, False]}",
 'zip_default/both': "dict{str:'a': list[int:1, int:2]}",
 'zip_default/both/False': "dict{str:'a': list[int:1, int:2]}",
 'zip_default/both/marker': "{'a': [False, False]}",
 'zip_default/disjoint': "dict{str:'a': list[int:1, NoneType:None], str:'b': list[NoneType:None, int:1]}",
 'zip_default/disjoint/False': "dict{str:'a': list[int:1, bool:False], str:'b': list[bool:False, int:1]}",
 'zip_default/disjoint/marker': "{'a': [False, True], 'b': [True, False]}",
 'zip_default/order': "dict{str:'c': list[int:1, NoneType:None, int:7], str:'a': list[int:2, int:4, NoneType:None], "
                      "str:'b': list[NoneType:None, int:3, NoneType:None], str:'d': list[NoneType:None, int:5, "
                      "NoneType:None], str:'e': list[NoneType:None, NoneType:None, int:6]}",
 'zip_default/order/False': "dict{str:'c': list[int:1, bool:False, int:7], str:'a': list[int:2, int:4, bool:False], "
                            "str:'b': list[bool:False, int:3, bool:False], str:'d': list[bool:False, int:5, "
                            "bool:False], str:'e': list[bool:False, bool:False, int:6]}",
 'zip_default/order/marker': "{'c': [False, True, False], 'a': [False, False, True], 'b': [True, False, True], 'd': "
                             "[True, False, True], 'e': [True, True, False]}",
 'zip_default/non-str-keys': "dict{int:1: list[str:'a', str:'e'], NoneType:None: list[str:'b', NoneType:None], "
                             "tuple[int:1, int:2]: list[NoneType:None, str:'c']}",
 'zip_default/non-str-keys/False': "dict{int:1: list[str:'a', str:'e'], NoneType:None: list[str:'b', bool:False], "
                                   "tuple[int:1, int:2]: list[bool:False, str:'c']}",
 'zip_default/non-str-keys/marker': '{1: [False, False], None: [False, True], (1, 2): [True, False]}',
 'zip_default/default-valued': "dict{str:'a': list[NoneType:None, NoneType:None], str:'b': list[NoneType:None, "
                               'NoneType:None]}',
 'zip_default/default-valued/False': "dict{str:'a': list[NoneType:None, bool:False], str:'b': list[bool:False, "
                                     'NoneType:None]}',
 'zip_default/default-valued/marker': "{'a': [False, True], 'b': [True, False]}",
 'zip_default/ordereddict': "dict{str:'z': list[int:1, NoneType:None], str:'y': list[int:2, int:3], str:'x': "
                            'list[NoneType:None, int:4]}',
 'zip_default/ordereddict/False': "dict{str:'z': list[int:1, bool:False], str:'y': list[int:2, int:3], str:'x': "
                                  'list[bool:False, int:4]}',
 'zip_default/ordereddict/marker': "{'z': [False, True], 'y': [False, False], 'x': [True, False]}",
 'zip_default/defaultdict': "dict{str:'a': list[int:1, NoneType:None], str:'b': list[NoneType:None, int:2]}",
 'zip_default/defaultdict/False': "dict{str:'a': list[int:1, bool:False], str:'b': list[bool:False, int:2]}",
 'zip_default/defaultdict/marker': "{'a': [False, True], 'b': [True, False]}",
 'zip_default/list-of-pairs': 'raises AttributeError("\'list\' object has no attribute \'get\'")',
 'zip_default/list-of-pairs/False': 'raises AttributeError("\'list\' object has no attribute \'get\'")',
 'zip_default/list-of-pairs/marker': 'raises AttributeError',
 'zip_default/not-iterable': 'raises TypeError("\'int\' object is not iterable")',
 'zip_default/not-iterable/False': 'raises TypeError("\'int\' object is not iterable")',
 'zip_default/not-iterable/marker': 'raises TypeError',
 'zip_default/none-mapping': 'raises TypeError("\'NoneType\' object is not iterable")',
 'zip_default/none-mapping/False': 'raises TypeError("\'NoneType\' object is not iterable")',
 'zip_default/none-mapping/marker': 'raises TypeError',
 'zip_default/str-mapping': 'raises AttributeError("\'str\' object has no attribute \'get\'")',
 'zip_default/str-mapping/False': 'raises AttributeError("\'str\' object has no attribute \'get\'")',
 'zip_default/str-mapping/marker': 'raises AttributeError',
 'zip_default/empty-str-mapping': 'dict{}',
 'zip_default/empty-str-mapping/False': 'dict{}',
 'zip_default/empty-str-mapping/marker': '{}',
 'zip_default/defaultdict-untouched': "dict{str:'a': int:1}",
 'apply_to_items': "dict{str:'a': str:'11', str:'b': str:'6.4', str:'c': int:8}",
 'copy_items/empty': "dict{str:'a': int:1, str:'b': dict{str:'c': int:2, str:'d': dict{str:'e': int:4}}, str:'l': "
                     "list[int:10, dict{str:'x': int:1}], str:'t': tuple[int:1, int:2], str:'s': str:'xyz', str:'n': "
                     'NoneType:None}',
 'copy_items/empty/input-untouched': 'True',
 'copy_items/multiple_dest': "dict{str:'a': int:1, str:'b': dict{str:'c': int:2, str:'d': int:1}, str:'l': "
                             "list[int:10, dict{str:'x': int:1}], str:'t': tuple[int:1, int:2], str:'s': str:'xyz', "
                             "str:'n': NoneType:None}",
 'copy_items/multiple_dest/input-untouched': 'True',
 'copy_items/multiple_src': "dict{str:'a': int:1, str:'b': dict{str:'c': int:2, str:'d': dict{str:'e': int:4}}, "
                            "str:'l': list[int:10, dict{str:'x': int:1}], str:'t': tuple[int:1, int:2], str:'s': "
                            "str:'xyz', str:'n': NoneType:None, str:'d': int:2}",
 'copy_items/multiple_src/input-untouched': 'True',
 'copy_items/missing': "dict{str:'a': int:1, str:'b': dict{str:'c': int:2, str:'d': dict{str:'e': int:4}}, str:'l': "
                       "list[int:10, dict{str:'x': int:1}], str:'t': tuple[int:1, int:2], str:'s': str:'xyz', str:'n': "
                       'NoneType:None}',
 'copy_items/missing/input-untouched': 'True',
 'copy_items/missing_multiple': "dict{str:'a': int:1, str:'b': dict{str:'c': int:2, str:'d': dict{str:'e': int:4}}, "
                                "str:'l': list[int:10, dict{str:'x': int:1}], str:'t': tuple[int:1, int:2], str:'s': "
                                "str:'xyz', str:'n': NoneType:None}",
 'copy_items/missing_multiple/input-untouched': 'True',
 'copy_items/several': "dict{str:'a': int:1, str:'b': dict{str:'c': int:10, str:'d': dict{str:'e': int:4}}, str:'l': "
                       "list[int:10, dict{str:'x': int:1}], str:'t': tuple[int:1, int:2], str:'s': str:'xyz', str:'n': "
                       "NoneType:None, str:'x': int:1, str:'y': dict{str:'z': int:4}}",
 'copy_items/several/input-untouched': 'True',
 'copy_items/chain': "dict{str:'a': int:1, str:'b': dict{str:'c': int:2, str:'d': dict{str:'e': int:4}}, str:'l': "
                     "list[int:10, dict{str:'x': int:1}], str:'t': tuple[int:1, int:2], str:'s': str:'xyz', str:'n': "
                     "NoneType:None, str:'x': int:1}",
 'copy_items/chain/input-untouched': 'True',
 'copy_items/through-list': "dict{str:'a': int:1, str:'b': dict{str:'c': int:2, str:'d': dict{str:'e': int:4}}, "
                            "str:'l': list[int:10, dict{str:'x': int:1}], str:'t': tuple[int:1, int:2], str:'s': "
                            "str:'xyz', str:'n': NoneType:None, str:'x': int:1}",
 'copy_items/through-list/input-untouched': 'True',
 'copy_items/through-tuple-str': "dict{str:'a': int:1, str:'b': dict{str:'c': int:2, str:'d': dict{str:'e': int:4}}, "
                                 "str:'l': list[int:10, dict{str:'x': int:1}], str:'t': tuple[int:1, int:2], str:'s': "
                                 "str:'xyz', str:'n': NoneType:None, str:'x': int:2, str:'y': str:'x', str:'z': "
                                 "str:'x'}",
 'copy_items/through-tuple-str/input-untouched': 'True',
 'copy_items/through-none': "dict{str:'a': int:1, str:'b': dict{str:'c': int:2, str:'d': dict{str:'e': int:4}}, "
                            "str:'l': list[int:10, dict{str:'x': int:1}], str:'t': tuple[int:1, int:2], str:'s': "
                            "str:'xyz', str:'n': NoneType:None}",
 'copy_items/through-none/input-untouched': 'True',
 'copy_items/through-int': "dict{str:'a': int:1, str:'b': dict{str:'c': int:2, str:'d': dict{str:'e': int:4}}, "
                           "str:'l': list[int:10, dict{str:'x': int:1}], str:'t': tuple[int:1, int:2], str:'s': "
                           "str:'xyz', str:'n': NoneType:None}",
 'copy_items/through-int/input-untouched': 'True',
 'copy_items/value-none': "dict{str:'a': int:1, str:'b': dict{str:'c': int:2, str:'d': dict{str:'e': int:4}}, str:'l': "
                          "list[int:10, dict{str:'x': int:1}], str:'t': tuple[int:1, int:2], str:'s': str:'xyz', "
                          "str:'n': NoneType:None, str:'x': NoneType:None}",
 'copy_items/value-none/input-untouched': 'True',
 'copy_items/source-empty': "dict{str:'a': int:1, str:'b': dict{str:'c': int:2, str:'d': dict{str:'e': int:4}}, "
                            "str:'l': list[int:10, dict{str:'x': int:1}], str:'t': tuple[int:1, int:2], str:'s': "
                            "str:'xyz', str:'n': NoneType:None, str:'x': dict{str:'a': int:1, str:'b': dict{str:'c': "
                            "int:2, str:'d': dict{str:'e': int:4}}, str:'l': list[int:10, dict{str:'x': int:1}], "
                            "str:'t': tuple[int:1, int:2], str:'s': str:'xyz', str:'n': NoneType:None}}",
 'copy_items/source-empty/input-untouched': 'True',
 'copy_items/source-tuple': "dict{str:'a': int:1, str:'b': dict{str:'c': int:2, str:'d': dict{str:'e': int:4}}, "
                            "str:'l': list[int:10, dict{str:'x': int:1}], str:'t': tuple[int:1, int:2], str:'s': "
                            "str:'xyz', str:'n': NoneType:None, str:'x': int:2}",
 'copy_items/source-tuple/input-untouched': 'True',
 'copy_items/source-str': "dict{str:'a': int:1, str:'b': dict{str:'c': int:2, str:'d': dict{str:'e': int:4}}, str:'l': "
                          "list[int:10, dict{str:'x': int:1}], str:'t': tuple[int:1, int:2], str:'s': str:'xyz', "
                          "str:'n': NoneType:None, str:'x': dict{str:'c': int:2, str:'d': dict{str:'e': int:4}}, "
                          "str:'y': int:2}",
 'copy_items/source-str/input-untouched': 'True',
 'copy_items/source-int': "dict{str:'a': int:1, str:'b': dict{str:'c': int:2, str:'d': dict{str:'e': int:4}}, str:'l': "
                          "list[int:10, dict{str:'x': int:1}], str:'t': tuple[int:1, int:2], str:'s': str:'xyz', "
                          "str:'n': NoneType:None}",
 'copy_items/source-int/input-untouched': 'True',
 'copy_items/source-none': "dict{str:'a': int:1, str:'b': dict{str:'c': int:2, str:'d': dict{str:'e': int:4}}, "
                           "str:'l': list[int:10, dict{str:'x': int:1}], str:'t': tuple[int:1, int:2], str:'s': "
                           "str:'xyz', str:'n': NoneType:None}",
 'copy_items/source-none/input-untouched': 'True',
 'copy_items/source-generator-like': "dict{str:'a': int:1, str:'b': dict{str:'c': int:2, str:'d': dict{str:'e': "
                                     "int:4}}, str:'l': list[int:10, dict{str:'x': int:1}], str:'t': tuple[int:1, "
                                     "int:2], str:'s': str:'xyz', str:'n': NoneType:None, str:'x': int:2}",
 'copy_items/source-generator-like/input-untouched': 'True',
 'copy_items/source-unhashable-key': "dict{str:'a': int:1, str:'b': dict{str:'c': int:2, str:'d': dict{str:'e': "
                                     "int:4}}, str:'l': list[int:10, dict{str:'x': int:1}], str:'t': tuple[int:1, "
                                     "int:2], str:'s': str:'xyz', str:'n': NoneType:None}",
 'copy_items/source-unhashable-key/input-untouched': 'True',
 'copy_items/dest-str': "dict{str:'a': int:1, str:'b': dict{str:'c': int:2, str:'d': dict{str:'e': int:4}}, str:'l': "
                        "list[int:10, dict{str:'x': int:1}], str:'t': tuple[int:1, int:2], str:'s': str:'xyz', "
                        "str:'n': NoneType:None, str:'x': dict{str:'y': int:1}}",
 'copy_items/dest-str/input-untouched': 'True',
 'copy_items/dest-long': "dict{str:'a': int:1, str:'b': dict{str:'c': int:2, str:'d': dict{str:'e': int:4}}, str:'l': "
                         "list[int:10, dict{str:'x': int:1}], str:'t': tuple[int:1, int:2], str:'s': str:'xyz', "
                         "str:'n': NoneType:None, str:'p': dict{str:'q': dict{str:'r': dict{str:'s': dict{str:'e': "
                         'int:4}}}}}',
 'copy_items/dest-long/input-untouched': 'True',
 'copy_items/dest-overwrite': "dict{str:'a': dict{str:'c': int:2, str:'d': dict{str:'e': int:4}}, str:'b': int:1, "
                              "str:'l': list[int:10, dict{str:'x': int:1}], str:'t': tuple[int:1, int:2], str:'s': "
                              "str:'xyz', str:'n': NoneType:None}",
 'copy_items/dest-overwrite/input-untouched': 'True',
 'copy_items/dest-into-scalar': 'raises TypeError("\'int\' object is not iterable")',
 'copy_items/dest-into-scalar/input-untouched': 'True',
 'copy_items/dest-into-list': "raises TypeError('cannot convert dictionary update sequence element #0 to a sequence')",
 'copy_items/dest-into-list/input-untouched': 'True',
 'copy_items/dest-into-list-str': "raises TypeError('cannot convert dictionary update sequence element #0 to a "
                                  "sequence')",
 'copy_items/dest-into-list-str/input-untouched': 'True',
 'copy_items/dest-empty': "raises StopIteration('')",
 'copy_items/dest-empty/input-untouched': 'True',
 'copy_items/dest-int': 'raises TypeError("\'int\' object is not iterable")',
 'copy_items/dest-int/input-untouched': 'True',
 'copy_items/identity-nothing-copied': '(True, True, False)',
 'copy_items/shares-values': '(True, True, True)',
 'copy_items/test-suite': "dict{str:'a': int:1, str:'b': dict{str:'c': int:2}, str:'d': int:2}",
 'copy_items/exploding': "raises Boom('a')",
 'copy_items/seq-mapping': "dict{str:'q': int:0}",
 'copy_items/custom-sequence': "dict{str:'q': Seq:Seq(1, 2), str:'x': int:2}",
 'copy_items/instructions-none': 'raises AttributeError("\'NoneType\' object has no attribute \'items\'")',
 'copy_items/mapping-none': 'NoneType:None',
 'copy_items/mapping-none-empty-source': 'raises TypeError("\'NoneType\' object is not iterable")',
 'move_items/empty': "dict{str:'a': int:1, str:'b': dict{str:'c': int:2, str:'d': dict{str:'e': int:4}}, str:'l': "
                     "list[int:10, dict{str:'x': int:1}], str:'t': tuple[int:1, int:2], str:'s': str:'xyz', str:'n': "
                     'NoneType:None}',
 'move_items/empty/input-untouched': 'True',
 'move_items/multiple_dest': "dict{str:'b': dict{str:'c': int:2, str:'d': int:1}, str:'l': list[int:10, dict{str:'x': "
                             "int:1}], str:'t': tuple[int:1, int:2], str:'s': str:'xyz', str:'n': NoneType:None}",
 'move_items/multiple_dest/input-untouched': 'True',
 'move_items/multiple_src': "dict{str:'a': int:1, str:'b': dict{str:'d': dict{str:'e': int:4}}, str:'l': list[int:10, "
                            "dict{str:'x': int:1}], str:'t': tuple[int:1, int:2], str:'s': str:'xyz', str:'n': "
                            "NoneType:None, str:'d': int:2}",
 'move_items/multiple_src/input-untouched': 'True',
 'move_items/missing': "dict{str:'a': int:1, str:'b': dict{str:'c': int:2, str:'d': dict{str:'e': int:4}}, str:'l': "
                       "list[int:10, dict{str:'x': int:1}], str:'t': tuple[int:1, int:2], str:'s': str:'xyz', str:'n': "
                       'NoneType:None}',
 'move_items/missing/input-untouched': 'True',
 'move_items/missing_multiple': "dict{str:'a': int:1, str:'b': dict{str:'c': int:2, str:'d': dict{str:'e': int:4}}, "
                                "str:'l': list[int:10, dict{str:'x': int:1}], str:'t': tuple[int:1, int:2], str:'s': "
                                "str:'xyz', str:'n': NoneType:None}",
 'move_items/missing_multiple/input-untouched': 'True',
 'move_items/several': "raises TypeError('pop expected at most 1 argument, got 2')",
 'move_items/several/input-untouched': 'True',
 'move_items/chain': "dict{str:'b': dict{str:'c': int:2, str:'d': dict{str:'e': int:4}}, str:'l': list[int:10, "
                     "dict{str:'x': int:1}], str:'t': tuple[int:1, int:2], str:'s': str:'xyz', str:'n': NoneType:None}",
 'move_items/chain/input-untouched': 'True',
 'move_items/through-list': "raises TypeError('pop expected at most 1 argument, got 2')",
 'move_items/through-list/input-untouched': 'True',
 'move_items/through-tuple-str': 'raises AttributeError("\'tuple\' object has no attribute \'pop\'")',
 'move_items/through-tuple-str/input-untouched': 'True',
 'move_items/through-none': 'raises AttributeError("\'NoneType\' object has no attribute \'pop\'")',
 'move_items/through-none/input-untouched': 'True',
 'move_items/through-int': 'raises AttributeError("\'int\' object has no attribute \'pop\'")',
 'move_items/through-int/input-untouched': 'True',
 'move_items/value-none': "dict{str:'a': int:1, str:'b': dict{str:'c': int:2, str:'d': dict{str:'e': int:4}}, str:'l': "
                          "list[int:10, dict{str:'x': int:1}], str:'t': tuple[int:1, int:2], str:'s': str:'xyz', "
                          "str:'x': NoneType:None}",
 'move_items/value-none/input-untouched': 'True',
 'move_items/source-empty': "raises ValueError('not enough values to unpack (expected at least 1, got 0)')",
 'move_items/source-empty/input-untouched': 'True',
 'move_items/source-tuple': "dict{str:'a': int:1, str:'b': dict{str:'d': dict{str:'e': int:4}}, str:'l': list[int:10, "
                            "dict{str:'x': int:1}], str:'t': tuple[int:1, int:2], str:'s': str:'xyz', str:'n': "
                            "NoneType:None, str:'x': int:2}",
 'move_items/source-tuple/input-untouched': 'True',
 'move_items/source-str': "dict{str:'a': int:1, str:'l': list[int:10, dict{str:'x': int:1}], str:'t': tuple[int:1, "
                          "int:2], str:'s': str:'xyz', str:'n': NoneType:None, str:'x': dict{str:'c': int:2, str:'d': "
                          "dict{str:'e': int:4}}, str:'y': int:2}",
 'move_items/source-str/input-untouched': 'True',
 'move_items/source-int': "raises TypeError('cannot unpack non-iterable int object')",
 'move_items/source-int/input-untouched': 'True',
 'move_items/source-none': "raises TypeError('cannot unpack non-iterable NoneType object')",
 'move_items/source-none/input-untouched': 'True',
 'move_items/source-generator-like': "raises ValueError('not enough values to unpack (expected at least 1, got 0)')",
 'move_items/source-generator-like/input-untouched': 'True',
 'move_items/source-unhashable-key': 'raises TypeError("unhashable type: \'list\'")',
 'move_items/source-unhashable-key/input-untouched': 'True',
 'move_items/dest-str': "dict{str:'b': dict{str:'c': int:2, str:'d': dict{str:'e': int:4}}, str:'l': list[int:10, "
                        "dict{str:'x': int:1}], str:'t': tuple[int:1, int:2], str:'s': str:'xyz', str:'n': "
                        "NoneType:None, str:'x': dict{str:'y': int:1}}",
 'move_items/dest-str/input-untouched': 'True',
 'move_items/dest-long': "dict{str:'a': int:1, str:'b': dict{str:'c': int:2}, str:'l': list[int:10, dict{str:'x': "
                         "int:1}], str:'t': tuple[int:1, int:2], str:'s': str:'xyz', str:'n': NoneType:None, str:'p': "
                         "dict{str:'q': dict{str:'r': dict{str:'s': dict{str:'e': int:4}}}}}",
 'move_items/dest-long/input-untouched': 'True',
 'move_items/dest-overwrite': "dict{str:'l': list[int:10, dict{str:'x': int:1}], str:'t': tuple[int:1, int:2], "
                              "str:'s': str:'xyz', str:'n': NoneType:None}",
 'move_items/dest-overwrite/input-untouched': 'True',
 'move_items/dest-into-scalar': 'raises TypeError("\'int\' object is not iterable")',
 'move_items/dest-into-scalar/input-untouched': 'True',
 'move_items/dest-into-list': "raises TypeError('cannot convert dictionary update sequence element #0 to a sequence')",
 'move_items/dest-into-list/input-untouched': 'True',
 'move_items/dest-into-list-str': "raises TypeError('cannot convert dictionary update sequence element #0 to a "
                                  "sequence')",
 'move_items/dest-into-list-str/input-untouched': 'True',
 'move_items/dest-empty': "raises StopIteration('')",
 'move_items/dest-empty/input-untouched': 'True',
 'move_items/dest-int': 'raises TypeError("\'int\' object is not iterable")',
 'move_items/dest-int/input-untouched': 'True',
 'move_items/pop-from-list': "raises TypeError('pop expected at most 1 argument, got 2')",
 'move_items/pop-from-list/input-untouched': 'True',
 'move_items/pop-from-tuple': 'raises AttributeError("\'tuple\' object has no attribute \'pop\'")',
 'move_items/pop-from-tuple/input-untouched': 'True',
 'move_items/pop-from-str': 'raises AttributeError("\'str\' object has no attribute \'pop\'")',
 'move_items/pop-from-str/input-untouched': 'True',
 'move_items/pop-missing-tail': "dict{str:'a': int:1, str:'b': dict{str:'c': int:2, str:'d': dict{str:'e': int:4}}, "
                                "str:'l': list[int:10, dict{str:'x': int:1}], str:'t': tuple[int:1, int:2], str:'s': "
                                "str:'xyz', str:'n': NoneType:None}",
 'move_items/pop-missing-tail/input-untouched': 'True',
 'move_items/pop-missing-head': "dict{str:'a': int:1, str:'b': dict{str:'c': int:2, str:'d': dict{str:'e': int:4}}, "
                                "str:'l': list[int:10, dict{str:'x': int:1}], str:'t': tuple[int:1, int:2], str:'s': "
                                "str:'xyz', str:'n': NoneType:None}",
 'move_items/pop-missing-head/input-untouched': 'True',
 'move_items/move-twice': "dict{str:'a': int:1, str:'b': dict{str:'d': dict{str:'e': int:4}}, str:'l': list[int:10, "
                          "dict{str:'x': int:1}], str:'t': tuple[int:1, int:2], str:'s': str:'xyz', str:'n': "
                          "NoneType:None, str:'x': int:2, str:'y': int:2}",
 'move_items/move-twice/input-untouched': 'True',
 'move_items/move-parent-and-child': "dict{str:'a': int:1, str:'l': list[int:10, dict{str:'x': int:1}], str:'t': "
                                     "tuple[int:1, int:2], str:'s': str:'xyz', str:'n': NoneType:None, str:'x': "
                                     "dict{str:'c': int:2, str:'d': dict{str:'e': int:4}}, str:'y': int:2}",
 'move_items/move-parent-and-child/input-untouched': 'True',
 'move_items/move-child-and-parent': "dict{str:'a': int:1, str:'l': list[int:10, dict{str:'x': int:1}], str:'t': "
                                     "tuple[int:1, int:2], str:'s': str:'xyz', str:'n': NoneType:None, str:'y': int:2, "
                                     "str:'x': dict{str:'d': dict{str:'e': int:4}}}",
 'move_items/move-child-and-parent/input-untouched': 'True',
 'move_items/move-into-itself': "dict{str:'a': int:1, str:'l': list[int:10, dict{str:'x': int:1}], str:'t': "
                                "tuple[int:1, int:2], str:'s': str:'xyz', str:'n': NoneType:None}",
 'move_items/move-into-itself/input-untouched': 'True',
 'move_items/unhashable-tail': 'raises TypeError("unhashable type: \'list\'")',
 'move_items/unhashable-tail/input-untouched': 'True',
 'move_items/deep-copy': '(True, True, True, True)',
 'move_items/test-suite': "dict{str:'b': dict{str:'c': int:2, str:'d': int:1}}",
 'move_items/custom-sequence': 'raises AttributeError("\'Seq\' object has no attribute \'pop\'")',
 'move_items/empty-source': "raises ValueError('not enough values to unpack (expected at least 1, got 0)')",
 'move_items/instructions-none': 'raises AttributeError("\'NoneType\' object has no attribute \'items\'")',
 'key_exists/flat-existing': 'bool:True',
 'key_exists/flat-missing': 'bool:False',
 'key_exists/nested_dot-existing': 'bool:True',
 'key_exists/nested_dot-deep': 'bool:True',
 'key_exists/nested_dot-missing': 'bool:False',
 'key_exists/nested_dot-too-deep': 'bool:False',
 'key_exists/nested_list-existing': 'bool:True',
 'key_exists/nested_list-missing': 'bool:False',
 'key_exists/empty-str': 'bool:False',
 'key_exists/dot-only': 'bool:False',
 'key_exists/trailing-dot': 'bool:False',
 'key_exists/leading-dot': 'bool:False',
 'key_exists/double-dot': 'bool:False',
 'key_exists/empty-list': 'bool:True',
 'key_exists/list-with-dot-element': 'raises AttributeError("\'list\' object has no attribute \'split\'")',
 'key_exists/list-with-dotted-element': 'bool:False',
 'key_exists/list-index': 'bool:True',
 'key_exists/list-index-negative': 'bool:True',
 'key_exists/list-index-missing': 'bool:False',
 'key_exists/list-index-as-str': 'bool:False',
 'key_exists/list-nested': 'bool:True',
 'key_exists/tuple-key': 'bool:False',
 'key_exists/tuple-with-dot': 'raises AttributeError("\'tuple\' object has no attribute \'split\'")',
 'key_exists/int-key': 'raises TypeError("argument of type \'int\' is not iterable")',
 'key_exists/none-key': 'raises TypeError("argument of type \'NoneType\' is not iterable")',
 'key_exists/none-value': 'bool:True',
 'key_exists/below-none': 'bool:False',
 'key_exists/str-index': 'bool:True',
 'key_exists/str-below': 'bool:False',
 'key_exists/unhashable-in-list': 'bool:False',
 'key_exists/bytes-key': 'raises TypeError("a bytes-like object is required, not \'str\'")',
 'key_exists/set-key': 'bool:False',
 'key_exists/set-with-dot': 'raises AttributeError("\'set\' object has no attribute \'split\'")',
 'key_exists/dotted-key-present-literally': 'bool:False',
 'key_exists/mapping-none': 'bool:False',
 'key_exists/mapping-list': 'bool:True',
 'key_exists/mapping-list-int': 'raises TypeError("argument of type \'int\' is not iterable")',
 'key_exists/exploding': "raises Boom('a')",
 'key_exists/sentinel-value': 'bool:False',
 'key_exists/list-key-untouched': "list[str:'b', str:'c']",
 'names': "['apply_to_items', 'assoc', 'assoc_', 'copy_items', 'dissoc', 'itemsplit', 'key_exists', 'keysplit', "
          "'move_items', 'passthrough', 'sentinel', 'valsplit', 'zip_default']"}  # @@EXPECTED@@


def test_equivalence():
    results = collect()
    assert list(results) == list(EXPECTED)
    mismatches = {k: (v, EXPECTED[k]) for k, v in results.items() if v != EXPECTED[k]}
    assert not mismatches, pprint.pformat(mismatches)


if __name__ == "__main__":
    if "--record" in sys.argv:
        pprint.pprint(collect(), sort_dicts=False, width=120)
    else:
        test_equivalence()
        print(f"ok: {len(EXPECTED)} recorded results reproduced")
