"""Equivalence check for refactoring 2 (`ceos_alos2.decoders.parse_date`).

Run as a script (`python _eq/2/equiv.py`) or through pytest. `python _eq/2/equiv.py --record`
prints the table of expected outcomes; the table below was recorded from the UNCHANGED code.
"""

import datetime
import sys

from ceos_alos2 import decoders


def describe_exception(exc):
    chain = []
    while exc is not None:
        chain.append((type(exc).__name__, str(exc), exc.__suppress_context__))
        exc = exc.__cause__
    return chain


def outcome(func, *args):
    try:
        result = func(*args)
    except Exception as e:
        return ("raise", describe_exception(e))

    return ("ok", f"{type(result).__module__}.{type(result).__qualname__}", repr(result))


class Text(str):
    """a str subclass"""


class Loud(str):
    """a str subclass that cannot be hashed"""

    __hash__ = None


DATES = [
    # valid dates; each input is evaluated three times in a row, see `compute`
    "180726",
    "150225",
    "140524",
    "000101",
    "991231",
    "690101",
    "681231",
    "200229",
    "000229",
    "160229",
    "010203",
    "030201",
    "111111",
    "120101",
    "011201",
    # accepted by strptime even though not yymmdd
    "18726",
    "1871",
    "18 7 2",
    "187 26",
    "18072",
    "١٨٠٧٢٦",
    # invalid dates
    "180732",
    "181301",
    "190229",
    "210229",
    "180631",
    "180000",
    "180100",
    "180001",
    "000000",
    "999999",
    "1807261",
    "20180726",
    "2018-07-26",
    "18-07-26",
    "18",
    "1",
    "",
    " ",
    " 180726",
    "180726 ",
    "180726\n",
    "abcdef",
    "18O726",
    "%y%m%d",
    "\x00",
    # equal to a valid date, but not a plain string
    Text("180726"),
    Text("180732"),
    Loud("180726"),
    # not a string at all
    None,
    180726,
    180726.0,
    True,
    b"180726",
    bytearray(b"180726"),
    ["180726"],
    ("180726",),
    {"180726"},
    {"date": "180726"},
    datetime.date(2018, 7, 26),
    datetime.datetime(2018, 7, 26),
]

SCENE_IDS = [
    "ALOS2225333200-180726",
    "ALOS2225333200-180726",
    "ALOS2041062800-150225",
    "ALOS2041062800-180726",
    "ABCDE000000000-000101",
    "ALOS2225333200-180732",
    "ALOS2225333200-180732",
    "ALOS2225333200-181301",
    "ALOS2225333200-190229",
    "ALOS2225333200-18072",
    "ALOS2225333200-1807266",
    "ALOS2225333200-180726\n",
    "ALOS2225333200_180726",
    "",
    None,
    b"ALOS2225333200-180726",
]

FILENAMES = [
    "IMG-HH-ALOS2225333200-180726-WWDR1.1__D-B1",
    "IMG-HV-ALOS2225333200-180726-WWDR1.1__D-B1",
    "LED-ALOS2225333200-180726-WWDR1.1__D",
    "TRL-ALOS2225333200-180726-WWDR1.1__D",
    "VOL-ALOS2041062800-150225-HBQR1.5RUA",
    "VOL-ALOS2041062800-150230-HBQR1.5RUA",
    "VOL-ALOS2041062800-150230-HBQR1.5RUA",
    "VOL-ALOS2041062800-150225-HBQR1.5RU",
]

EXPECTED = [
    [('ok', 'datetime.datetime', 'datetime.datetime(2018, 7, 26, 0, 0)'), ('ok', 'datetime.datetime', 'datetime.datetime(2018, 7, 26, 0, 0)'), ('ok', 'datetime.datetime', 'datetime.datetime(2018, 7, 26, 0, 0)')],
    [('ok', 'datetime.datetime', 'datetime.datetime(2015, 2, 25, 0, 0)'), ('ok', 'datetime.datetime', 'datetime.datetime(2015, 2, 25, 0, 0)'), ('ok', 'datetime.datetime', 'datetime.datetime(2015, 2, 25, 0, 0)')],
    [('ok', 'datetime.datetime', 'datetime.datetime(2014, 5, 24, 0, 0)'), ('ok', 'datetime.datetime', 'datetime.datetime(2014, 5, 24, 0, 0)'), ('ok', 'datetime.datetime', 'datetime.datetime(2014, 5, 24, 0, 0)')],
    [('ok', 'datetime.datetime', 'datetime.datetime(2000, 1, 1, 0, 0)'), ('ok', 'datetime.datetime', 'datetime.datetime(2000, 1, 1, 0, 0)'), ('ok', 'datetime.datetime', 'datetime.datetime(2000, 1, 1, 0, 0)')],
    [('ok', 'datetime.datetime', 'datetime.datetime(1999, 12, 31, 0, 0)'), ('ok', 'datetime.datetime', 'datetime.datetime(1999, 12, 31, 0, 0)'), ('ok', 'datetime.datetime', 'datetime.datetime(1999, 12, 31, 0, 0)')],
    [('ok', 'datetime.datetime', 'datetime.datetime(1969, 1, 1, 0, 0)'), ('ok', 'datetime.datetime', 'datetime.datetime(1969, 1, 1, 0, 0)'), ('ok', 'datetime.datetime', 'datetime.datetime(1969, 1, 1, 0, 0)')],
    [('ok', 'datetime.datetime', 'datetime.datetime(2068, 12, 31, 0, 0)'), ('ok', 'datetime.datetime', 'datetime.datetime(2068, 12, 31, 0, 0)'), ('ok', 'datetime.datetime', 'datetime.datetime(2068, 12, 31, 0, 0)')],
    [('ok', 'datetime.datetime', 'datetime.datetime(2020, 2, 29, 0, 0)'), ('ok', 'datetime.datetime', 'datetime.datetime(2020, 2, 29, 0, 0)'), ('ok', 'datetime.datetime', 'datetime.datetime(2020, 2, 29, 0, 0)')],
    [('ok', 'datetime.datetime', 'datetime.datetime(2000, 2, 29, 0, 0)'), ('ok', 'datetime.datetime', 'datetime.datetime(2000, 2, 29, 0, 0)'), ('ok', 'datetime.datetime', 'datetime.datetime(2000, 2, 29, 0, 0)')],
    [('ok', 'datetime.datetime', 'datetime.datetime(2016, 2, 29, 0, 0)'), ('ok', 'datetime.datetime', 'datetime.datetime(2016, 2, 29, 0, 0)'), ('ok', 'datetime.datetime', 'datetime.datetime(2016, 2, 29, 0, 0)')],
    [('ok', 'datetime.datetime', 'datetime.datetime(2001, 2, 3, 0, 0)'), ('ok', 'datetime.datetime', 'datetime.datetime(2001, 2, 3, 0, 0)'), ('ok', 'datetime.datetime', 'datetime.datetime(2001, 2, 3, 0, 0)')],
    [('ok', 'datetime.datetime', 'datetime.datetime(2003, 2, 1, 0, 0)'), ('ok', 'datetime.datetime', 'datetime.datetime(2003, 2, 1, 0, 0)'), ('ok', 'datetime.datetime', 'datetime.datetime(2003, 2, 1, 0, 0)')],
    [('ok', 'datetime.datetime', 'datetime.datetime(2011, 11, 11, 0, 0)'), ('ok', 'datetime.datetime', 'datetime.datetime(2011, 11, 11, 0, 0)'), ('ok', 'datetime.datetime', 'datetime.datetime(2011, 11, 11, 0, 0)')],
    [('ok', 'datetime.datetime', 'datetime.datetime(2012, 1, 1, 0, 0)'), ('ok', 'datetime.datetime', 'datetime.datetime(2012, 1, 1, 0, 0)'), ('ok', 'datetime.datetime', 'datetime.datetime(2012, 1, 1, 0, 0)')],
    [('ok', 'datetime.datetime', 'datetime.datetime(2001, 12, 1, 0, 0)'), ('ok', 'datetime.datetime', 'datetime.datetime(2001, 12, 1, 0, 0)'), ('ok', 'datetime.datetime', 'datetime.datetime(2001, 12, 1, 0, 0)')],
    [('ok', 'datetime.datetime', 'datetime.datetime(2018, 7, 26, 0, 0)'), ('ok', 'datetime.datetime', 'datetime.datetime(2018, 7, 26, 0, 0)'), ('ok', 'datetime.datetime', 'datetime.datetime(2018, 7, 26, 0, 0)')],
    [('ok', 'datetime.datetime', 'datetime.datetime(2018, 7, 1, 0, 0)'), ('ok', 'datetime.datetime', 'datetime.datetime(2018, 7, 1, 0, 0)'), ('ok', 'datetime.datetime', 'datetime.datetime(2018, 7, 1, 0, 0)')],
    [('raise', [('ValueError', "time data '18 7 2' does not match format '%y%m%d'", False)]), ('raise', [('ValueError', "time data '18 7 2' does not match format '%y%m%d'", False)]), ('raise', [('ValueError', "time data '18 7 2' does not match format '%y%m%d'", False)])],
    [('raise', [('ValueError', 'unconverted data remains: 6', False)]), ('raise', [('ValueError', 'unconverted data remains: 6', False)]), ('raise', [('ValueError', 'unconverted data remains: 6', False)])],
    [('ok', 'datetime.datetime', 'datetime.datetime(2018, 7, 2, 0, 0)'), ('ok', 'datetime.datetime', 'datetime.datetime(2018, 7, 2, 0, 0)'), ('ok', 'datetime.datetime', 'datetime.datetime(2018, 7, 2, 0, 0)')],
    [('raise', [('ValueError', "time data '١٨٠٧٢٦' does not match format '%y%m%d'", False)]), ('raise', [('ValueError', "time data '١٨٠٧٢٦' does not match format '%y%m%d'", False)]), ('raise', [('ValueError', "time data '١٨٠٧٢٦' does not match format '%y%m%d'", False)])],
    [('raise', [('ValueError', 'unconverted data remains: 2', False)]), ('raise', [('ValueError', 'unconverted data remains: 2', False)]), ('raise', [('ValueError', 'unconverted data remains: 2', False)])],
    [('raise', [('ValueError', 'unconverted data remains: 1', False)]), ('raise', [('ValueError', 'unconverted data remains: 1', False)]), ('raise', [('ValueError', 'unconverted data remains: 1', False)])],
    [('raise', [('ValueError', 'day is out of range for month', False)]), ('raise', [('ValueError', 'day is out of range for month', False)]), ('raise', [('ValueError', 'day is out of range for month', False)])],
    [('raise', [('ValueError', 'day is out of range for month', False)]), ('raise', [('ValueError', 'day is out of range for month', False)]), ('raise', [('ValueError', 'day is out of range for month', False)])],
    [('raise', [('ValueError', 'day is out of range for month', False)]), ('raise', [('ValueError', 'day is out of range for month', False)]), ('raise', [('ValueError', 'day is out of range for month', False)])],
    [('raise', [('ValueError', "time data '180000' does not match format '%y%m%d'", False)]), ('raise', [('ValueError', "time data '180000' does not match format '%y%m%d'", False)]), ('raise', [('ValueError', "time data '180000' does not match format '%y%m%d'", False)])],
    [('raise', [('ValueError', "time data '180100' does not match format '%y%m%d'", False)]), ('raise', [('ValueError', "time data '180100' does not match format '%y%m%d'", False)]), ('raise', [('ValueError', "time data '180100' does not match format '%y%m%d'", False)])],
    [('raise', [('ValueError', "time data '180001' does not match format '%y%m%d'", False)]), ('raise', [('ValueError', "time data '180001' does not match format '%y%m%d'", False)]), ('raise', [('ValueError', "time data '180001' does not match format '%y%m%d'", False)])],
    [('raise', [('ValueError', "time data '000000' does not match format '%y%m%d'", False)]), ('raise', [('ValueError', "time data '000000' does not match format '%y%m%d'", False)]), ('raise', [('ValueError', "time data '000000' does not match format '%y%m%d'", False)])],
    [('raise', [('ValueError', 'unconverted data remains: 99', False)]), ('raise', [('ValueError', 'unconverted data remains: 99', False)]), ('raise', [('ValueError', 'unconverted data remains: 99', False)])],
    [('raise', [('ValueError', 'unconverted data remains: 1', False)]), ('raise', [('ValueError', 'unconverted data remains: 1', False)]), ('raise', [('ValueError', 'unconverted data remains: 1', False)])],
    [('raise', [('ValueError', 'unconverted data remains: 0726', False)]), ('raise', [('ValueError', 'unconverted data remains: 0726', False)]), ('raise', [('ValueError', 'unconverted data remains: 0726', False)])],
    [('raise', [('ValueError', 'unconverted data remains: -07-26', False)]), ('raise', [('ValueError', 'unconverted data remains: -07-26', False)]), ('raise', [('ValueError', 'unconverted data remains: -07-26', False)])],
    [('raise', [('ValueError', "time data '18-07-26' does not match format '%y%m%d'", False)]), ('raise', [('ValueError', "time data '18-07-26' does not match format '%y%m%d'", False)]), ('raise', [('ValueError', "time data '18-07-26' does not match format '%y%m%d'", False)])],
    [('raise', [('ValueError', "time data '18' does not match format '%y%m%d'", False)]), ('raise', [('ValueError', "time data '18' does not match format '%y%m%d'", False)]), ('raise', [('ValueError', "time data '18' does not match format '%y%m%d'", False)])],
    [('raise', [('ValueError', "time data '1' does not match format '%y%m%d'", False)]), ('raise', [('ValueError', "time data '1' does not match format '%y%m%d'", False)]), ('raise', [('ValueError', "time data '1' does not match format '%y%m%d'", False)])],
    [('raise', [('ValueError', "time data '' does not match format '%y%m%d'", False)]), ('raise', [('ValueError', "time data '' does not match format '%y%m%d'", False)]), ('raise', [('ValueError', "time data '' does not match format '%y%m%d'", False)])],
    [('raise', [('ValueError', "time data ' ' does not match format '%y%m%d'", False)]), ('raise', [('ValueError', "time data ' ' does not match format '%y%m%d'", False)]), ('raise', [('ValueError', "time data ' ' does not match format '%y%m%d'", False)])],
    [('raise', [('ValueError', "time data ' 180726' does not match format '%y%m%d'", False)]), ('raise', [('ValueError', "time data ' 180726' does not match format '%y%m%d'", False)]), ('raise', [('ValueError', "time data ' 180726' does not match format '%y%m%d'", False)])],
    [('raise', [('ValueError', 'unconverted data remains:  ', False)]), ('raise', [('ValueError', 'unconverted data remains:  ', False)]), ('raise', [('ValueError', 'unconverted data remains:  ', False)])],
    [('raise', [('ValueError', 'unconverted data remains: \n', False)]), ('raise', [('ValueError', 'unconverted data remains: \n', False)]), ('raise', [('ValueError', 'unconverted data remains: \n', False)])],
    [('raise', [('ValueError', "time data 'abcdef' does not match format '%y%m%d'", False)]), ('raise', [('ValueError', "time data 'abcdef' does not match format '%y%m%d'", False)]), ('raise', [('ValueError', "time data 'abcdef' does not match format '%y%m%d'", False)])],
    [('raise', [('ValueError', "time data '18O726' does not match format '%y%m%d'", False)]), ('raise', [('ValueError', "time data '18O726' does not match format '%y%m%d'", False)]), ('raise', [('ValueError', "time data '18O726' does not match format '%y%m%d'", False)])],
    [('raise', [('ValueError', "time data '%y%m%d' does not match format '%y%m%d'", False)]), ('raise', [('ValueError', "time data '%y%m%d' does not match format '%y%m%d'", False)]), ('raise', [('ValueError', "time data '%y%m%d' does not match format '%y%m%d'", False)])],
    [('raise', [('ValueError', "time data '\\x00' does not match format '%y%m%d'", False)]), ('raise', [('ValueError', "time data '\\x00' does not match format '%y%m%d'", False)]), ('raise', [('ValueError', "time data '\\x00' does not match format '%y%m%d'", False)])],
    [('ok', 'datetime.datetime', 'datetime.datetime(2018, 7, 26, 0, 0)'), ('ok', 'datetime.datetime', 'datetime.datetime(2018, 7, 26, 0, 0)'), ('ok', 'datetime.datetime', 'datetime.datetime(2018, 7, 26, 0, 0)')],
    [('raise', [('ValueError', 'unconverted data remains: 2', False)]), ('raise', [('ValueError', 'unconverted data remains: 2', False)]), ('raise', [('ValueError', 'unconverted data remains: 2', False)])],
    [('ok', 'datetime.datetime', 'datetime.datetime(2018, 7, 26, 0, 0)'), ('ok', 'datetime.datetime', 'datetime.datetime(2018, 7, 26, 0, 0)'), ('ok', 'datetime.datetime', 'datetime.datetime(2018, 7, 26, 0, 0)')],
    [('raise', [('TypeError', 'strptime() argument 1 must be str, not None', False)]), ('raise', [('TypeError', 'strptime() argument 1 must be str, not None', False)]), ('raise', [('TypeError', 'strptime() argument 1 must be str, not None', False)])],
    [('raise', [('TypeError', 'strptime() argument 1 must be str, not int', False)]), ('raise', [('TypeError', 'strptime() argument 1 must be str, not int', False)]), ('raise', [('TypeError', 'strptime() argument 1 must be str, not int', False)])],
    [('raise', [('TypeError', 'strptime() argument 1 must be str, not float', False)]), ('raise', [('TypeError', 'strptime() argument 1 must be str, not float', False)]), ('raise', [('TypeError', 'strptime() argument 1 must be str, not float', False)])],
    [('raise', [('TypeError', 'strptime() argument 1 must be str, not bool', False)]), ('raise', [('TypeError', 'strptime() argument 1 must be str, not bool', False)]), ('raise', [('TypeError', 'strptime() argument 1 must be str, not bool', False)])],
    [('raise', [('TypeError', 'strptime() argument 1 must be str, not bytes', False)]), ('raise', [('TypeError', 'strptime() argument 1 must be str, not bytes', False)]), ('raise', [('TypeError', 'strptime() argument 1 must be str, not bytes', False)])],
    [('raise', [('TypeError', 'strptime() argument 1 must be str, not bytearray', False)]), ('raise', [('TypeError', 'strptime() argument 1 must be str, not bytearray', False)]), ('raise', [('TypeError', 'strptime() argument 1 must be str, not bytearray', False)])],
    [('raise', [('TypeError', 'strptime() argument 1 must be str, not list', False)]), ('raise', [('TypeError', 'strptime() argument 1 must be str, not list', False)]), ('raise', [('TypeError', 'strptime() argument 1 must be str, not list', False)])],
    [('raise', [('TypeError', 'strptime() argument 1 must be str, not tuple', False)]), ('raise', [('TypeError', 'strptime() argument 1 must be str, not tuple', False)]), ('raise', [('TypeError', 'strptime() argument 1 must be str, not tuple', False)])],
    [('raise', [('TypeError', 'strptime() argument 1 must be str, not set', False)]), ('raise', [('TypeError', 'strptime() argument 1 must be str, not set', False)]), ('raise', [('TypeError', 'strptime() argument 1 must be str, not set', False)])],
    [('raise', [('TypeError', 'strptime() argument 1 must be str, not dict', False)]), ('raise', [('TypeError', 'strptime() argument 1 must be str, not dict', False)]), ('raise', [('TypeError', 'strptime() argument 1 must be str, not dict', False)])],
    [('raise', [('TypeError', 'strptime() argument 1 must be str, not datetime.date', False)]), ('raise', [('TypeError', 'strptime() argument 1 must be str, not datetime.date', False)]), ('raise', [('TypeError', 'strptime() argument 1 must be str, not datetime.date', False)])],
    [('raise', [('TypeError', 'strptime() argument 1 must be str, not datetime.datetime', False)]), ('raise', [('TypeError', 'strptime() argument 1 must be str, not datetime.datetime', False)]), ('raise', [('TypeError', 'strptime() argument 1 must be str, not datetime.datetime', False)])],
    [('ok', 'datetime.datetime', 'datetime.datetime(2018, 7, 26, 0, 0)')],
    [('ok', 'datetime.datetime', 'datetime.datetime(2015, 2, 25, 0, 0)')],
    [('ok', 'datetime.datetime', 'datetime.datetime(2014, 5, 24, 0, 0)')],
    [('ok', 'datetime.datetime', 'datetime.datetime(2000, 1, 1, 0, 0)')],
    [('ok', 'datetime.datetime', 'datetime.datetime(1999, 12, 31, 0, 0)')],
    [('ok', 'datetime.datetime', 'datetime.datetime(1969, 1, 1, 0, 0)')],
    [('ok', 'datetime.datetime', 'datetime.datetime(2068, 12, 31, 0, 0)')],
    [('ok', 'datetime.datetime', 'datetime.datetime(2020, 2, 29, 0, 0)')],
    [('ok', 'datetime.datetime', 'datetime.datetime(2000, 2, 29, 0, 0)')],
    [('ok', 'datetime.datetime', 'datetime.datetime(2016, 2, 29, 0, 0)')],
    [('ok', 'datetime.datetime', 'datetime.datetime(2001, 2, 3, 0, 0)')],
    [('ok', 'datetime.datetime', 'datetime.datetime(2003, 2, 1, 0, 0)')],
    [('ok', 'datetime.datetime', 'datetime.datetime(2011, 11, 11, 0, 0)')],
    [('ok', 'datetime.datetime', 'datetime.datetime(2012, 1, 1, 0, 0)')],
    [('ok', 'datetime.datetime', 'datetime.datetime(2001, 12, 1, 0, 0)')],
    [('ok', 'datetime.datetime', 'datetime.datetime(2018, 7, 26, 0, 0)')],
    [('ok', 'datetime.datetime', 'datetime.datetime(2018, 7, 1, 0, 0)')],
    [('raise', [('ValueError', "time data '18 7 2' does not match format '%y%m%d'", False)])],
    [('raise', [('ValueError', 'unconverted data remains: 6', False)])],
    [('ok', 'datetime.datetime', 'datetime.datetime(2018, 7, 2, 0, 0)')],
    [('raise', [('ValueError', "time data '١٨٠٧٢٦' does not match format '%y%m%d'", False)])],
    [('raise', [('ValueError', 'unconverted data remains: 2', False)])],
    [('raise', [('ValueError', 'unconverted data remains: 1', False)])],
    [('raise', [('ValueError', 'day is out of range for month', False)])],
    [('raise', [('ValueError', 'day is out of range for month', False)])],
    [('raise', [('ValueError', 'day is out of range for month', False)])],
    [('raise', [('ValueError', "time data '180000' does not match format '%y%m%d'", False)])],
    [('raise', [('ValueError', "time data '180100' does not match format '%y%m%d'", False)])],
    [('raise', [('ValueError', "time data '180001' does not match format '%y%m%d'", False)])],
    [('raise', [('ValueError', "time data '000000' does not match format '%y%m%d'", False)])],
    [('raise', [('ValueError', 'unconverted data remains: 99', False)])],
    [('raise', [('ValueError', 'unconverted data remains: 1', False)])],
    [('raise', [('ValueError', 'unconverted data remains: 0726', False)])],
    [('raise', [('ValueError', 'unconverted data remains: -07-26', False)])],
    [('raise', [('ValueError', "time data '18-07-26' does not match format '%y%m%d'", False)])],
    [('raise', [('ValueError', "time data '18' does not match format '%y%m%d'", False)])],
    [('raise', [('ValueError', "time data '1' does not match format '%y%m%d'", False)])],
    [('raise', [('ValueError', "time data '' does not match format '%y%m%d'", False)])],
    [('raise', [('ValueError', "time data ' ' does not match format '%y%m%d'", False)])],
    [('raise', [('ValueError', "time data ' 180726' does not match format '%y%m%d'", False)])],
    [('raise', [('ValueError', 'unconverted data remains:  ', False)])],
    [('raise', [('ValueError', 'unconverted data remains: \n', False)])],
    [('raise', [('ValueError', "time data 'abcdef' does not match format '%y%m%d'", False)])],
    [('raise', [('ValueError', "time data '18O726' does not match format '%y%m%d'", False)])],
    [('raise', [('ValueError', "time data '%y%m%d' does not match format '%y%m%d'", False)])],
    [('raise', [('ValueError', "time data '\\x00' does not match format '%y%m%d'", False)])],
    [('ok', 'datetime.datetime', 'datetime.datetime(2018, 7, 26, 0, 0)')],
    [('raise', [('ValueError', 'unconverted data remains: 2', False)])],
    [('ok', 'datetime.datetime', 'datetime.datetime(2018, 7, 26, 0, 0)')],
    [('raise', [('TypeError', 'strptime() argument 1 must be str, not None', False)])],
    [('raise', [('TypeError', 'strptime() argument 1 must be str, not int', False)])],
    [('raise', [('TypeError', 'strptime() argument 1 must be str, not float', False)])],
    [('raise', [('TypeError', 'strptime() argument 1 must be str, not bool', False)])],
    [('raise', [('TypeError', 'strptime() argument 1 must be str, not bytes', False)])],
    [('raise', [('TypeError', 'strptime() argument 1 must be str, not bytearray', False)])],
    [('raise', [('TypeError', 'strptime() argument 1 must be str, not list', False)])],
    [('raise', [('TypeError', 'strptime() argument 1 must be str, not tuple', False)])],
    [('raise', [('TypeError', 'strptime() argument 1 must be str, not set', False)])],
    [('raise', [('TypeError', 'strptime() argument 1 must be str, not dict', False)])],
    [('raise', [('TypeError', 'strptime() argument 1 must be str, not datetime.date', False)])],
    [('raise', [('TypeError', 'strptime() argument 1 must be str, not datetime.datetime', False)])],
    [('ok', 'builtins.dict', "{'mission_name': 'ALOS2', 'orbit_accumulation': '22533', 'scene_frame': '3200', 'date': datetime.datetime(2018, 7, 26, 0, 0)}"), ('ok', 'builtins.dict', "{'mission_name': 'ALOS2', 'orbit_accumulation': '22533', 'scene_frame': '3200', 'date': datetime.datetime(2018, 7, 26, 0, 0)}")],
    [('ok', 'builtins.dict', "{'mission_name': 'ALOS2', 'orbit_accumulation': '22533', 'scene_frame': '3200', 'date': datetime.datetime(2018, 7, 26, 0, 0)}"), ('ok', 'builtins.dict', "{'mission_name': 'ALOS2', 'orbit_accumulation': '22533', 'scene_frame': '3200', 'date': datetime.datetime(2018, 7, 26, 0, 0)}")],
    [('ok', 'builtins.dict', "{'mission_name': 'ALOS2', 'orbit_accumulation': '04106', 'scene_frame': '2800', 'date': datetime.datetime(2015, 2, 25, 0, 0)}"), ('ok', 'builtins.dict', "{'mission_name': 'ALOS2', 'orbit_accumulation': '04106', 'scene_frame': '2800', 'date': datetime.datetime(2015, 2, 25, 0, 0)}")],
    [('ok', 'builtins.dict', "{'mission_name': 'ALOS2', 'orbit_accumulation': '04106', 'scene_frame': '2800', 'date': datetime.datetime(2018, 7, 26, 0, 0)}"), ('ok', 'builtins.dict', "{'mission_name': 'ALOS2', 'orbit_accumulation': '04106', 'scene_frame': '2800', 'date': datetime.datetime(2018, 7, 26, 0, 0)}")],
    [('ok', 'builtins.dict', "{'mission_name': 'ABCDE', 'orbit_accumulation': '00000', 'scene_frame': '0000', 'date': datetime.datetime(2000, 1, 1, 0, 0)}"), ('ok', 'builtins.dict', "{'mission_name': 'ABCDE', 'orbit_accumulation': '00000', 'scene_frame': '0000', 'date': datetime.datetime(2000, 1, 1, 0, 0)}")],
    [('raise', [('ValueError', 'invalid scene id: ALOS2225333200-180732', True), ('ValueError', 'unconverted data remains: 2', False)]), ('raise', [('ValueError', 'invalid scene id: ALOS2225333200-180732', True), ('ValueError', 'unconverted data remains: 2', False)])],
    [('raise', [('ValueError', 'invalid scene id: ALOS2225333200-180732', True), ('ValueError', 'unconverted data remains: 2', False)]), ('raise', [('ValueError', 'invalid scene id: ALOS2225333200-180732', True), ('ValueError', 'unconverted data remains: 2', False)])],
    [('raise', [('ValueError', 'invalid scene id: ALOS2225333200-181301', True), ('ValueError', 'unconverted data remains: 1', False)]), ('raise', [('ValueError', 'invalid scene id: ALOS2225333200-181301', True), ('ValueError', 'unconverted data remains: 1', False)])],
    [('raise', [('ValueError', 'invalid scene id: ALOS2225333200-190229', True), ('ValueError', 'day is out of range for month', False)]), ('raise', [('ValueError', 'invalid scene id: ALOS2225333200-190229', True), ('ValueError', 'day is out of range for month', False)])],
    [('raise', [('ValueError', 'invalid scene id: ALOS2225333200-18072', False)]), ('raise', [('ValueError', 'invalid scene id: ALOS2225333200-18072', False)])],
    [('raise', [('ValueError', 'invalid scene id: ALOS2225333200-1807266', False)]), ('raise', [('ValueError', 'invalid scene id: ALOS2225333200-1807266', False)])],
    [('raise', [('ValueError', 'invalid scene id: ALOS2225333200-180726\n', False)]), ('raise', [('ValueError', 'invalid scene id: ALOS2225333200-180726\n', False)])],
    [('raise', [('ValueError', 'invalid scene id: ALOS2225333200_180726', False)]), ('raise', [('ValueError', 'invalid scene id: ALOS2225333200_180726', False)])],
    [('raise', [('ValueError', 'invalid scene id: ', False)]), ('raise', [('ValueError', 'invalid scene id: ', False)])],
    [('raise', [('TypeError', "expected string or bytes-like object, got 'NoneType'", False)]), ('raise', [('TypeError', "expected string or bytes-like object, got 'NoneType'", False)])],
    [('raise', [('TypeError', 'cannot use a string pattern on a bytes-like object', False)]), ('raise', [('TypeError', 'cannot use a string pattern on a bytes-like object', False)])],
    [('ok', 'builtins.dict', "{'filetype': 'IMG', 'polarization': 'HH', 'mission_name': 'ALOS2', 'orbit_accumulation': '22533', 'scene_frame': '3200', 'date': datetime.datetime(2018, 7, 26, 0, 0), 'observation_mode': 'ScanSAR nominal 28MHz mode dual polarization', 'observation_direction': 'right looking', 'processing_level': 'level 1.1', 'processing_option': 'not specified', 'map_projection': 'not specified', 'orbit_direction': 'descending', 'processing_method': 'SPECAN method', 'scan_number': '1'}"), ('ok', 'builtins.dict', "{'filetype': 'IMG', 'polarization': 'HH', 'mission_name': 'ALOS2', 'orbit_accumulation': '22533', 'scene_frame': '3200', 'date': datetime.datetime(2018, 7, 26, 0, 0), 'observation_mode': 'ScanSAR nominal 28MHz mode dual polarization', 'observation_direction': 'right looking', 'processing_level': 'level 1.1', 'processing_option': 'not specified', 'map_projection': 'not specified', 'orbit_direction': 'descending', 'processing_method': 'SPECAN method', 'scan_number': '1'}")],
    [('ok', 'builtins.dict', "{'filetype': 'IMG', 'polarization': 'HV', 'mission_name': 'ALOS2', 'orbit_accumulation': '22533', 'scene_frame': '3200', 'date': datetime.datetime(2018, 7, 26, 0, 0), 'observation_mode': 'ScanSAR nominal 28MHz mode dual polarization', 'observation_direction': 'right looking', 'processing_level': 'level 1.1', 'processing_option': 'not specified', 'map_projection': 'not specified', 'orbit_direction': 'descending', 'processing_method': 'SPECAN method', 'scan_number': '1'}"), ('ok', 'builtins.dict', "{'filetype': 'IMG', 'polarization': 'HV', 'mission_name': 'ALOS2', 'orbit_accumulation': '22533', 'scene_frame': '3200', 'date': datetime.datetime(2018, 7, 26, 0, 0), 'observation_mode': 'ScanSAR nominal 28MHz mode dual polarization', 'observation_direction': 'right looking', 'processing_level': 'level 1.1', 'processing_option': 'not specified', 'map_projection': 'not specified', 'orbit_direction': 'descending', 'processing_method': 'SPECAN method', 'scan_number': '1'}")],
    [('ok', 'builtins.dict', "{'filetype': 'LED', 'polarization': None, 'mission_name': 'ALOS2', 'orbit_accumulation': '22533', 'scene_frame': '3200', 'date': datetime.datetime(2018, 7, 26, 0, 0), 'observation_mode': 'ScanSAR nominal 28MHz mode dual polarization', 'observation_direction': 'right looking', 'processing_level': 'level 1.1', 'processing_option': 'not specified', 'map_projection': 'not specified', 'orbit_direction': 'descending'}"), ('ok', 'builtins.dict', "{'filetype': 'LED', 'polarization': None, 'mission_name': 'ALOS2', 'orbit_accumulation': '22533', 'scene_frame': '3200', 'date': datetime.datetime(2018, 7, 26, 0, 0), 'observation_mode': 'ScanSAR nominal 28MHz mode dual polarization', 'observation_direction': 'right looking', 'processing_level': 'level 1.1', 'processing_option': 'not specified', 'map_projection': 'not specified', 'orbit_direction': 'descending'}")],
    [('ok', 'builtins.dict', "{'filetype': 'TRL', 'polarization': None, 'mission_name': 'ALOS2', 'orbit_accumulation': '22533', 'scene_frame': '3200', 'date': datetime.datetime(2018, 7, 26, 0, 0), 'observation_mode': 'ScanSAR nominal 28MHz mode dual polarization', 'observation_direction': 'right looking', 'processing_level': 'level 1.1', 'processing_option': 'not specified', 'map_projection': 'not specified', 'orbit_direction': 'descending'}"), ('ok', 'builtins.dict', "{'filetype': 'TRL', 'polarization': None, 'mission_name': 'ALOS2', 'orbit_accumulation': '22533', 'scene_frame': '3200', 'date': datetime.datetime(2018, 7, 26, 0, 0), 'observation_mode': 'ScanSAR nominal 28MHz mode dual polarization', 'observation_direction': 'right looking', 'processing_level': 'level 1.1', 'processing_option': 'not specified', 'map_projection': 'not specified', 'orbit_direction': 'descending'}")],
    [('ok', 'builtins.dict', "{'filetype': 'VOL', 'polarization': None, 'mission_name': 'ALOS2', 'orbit_accumulation': '04106', 'scene_frame': '2800', 'date': datetime.datetime(2015, 2, 25, 0, 0), 'observation_mode': 'high-sensitive mode full (quad.) polarimetry', 'observation_direction': 'right looking', 'processing_level': 'level 1.5', 'processing_option': 'geo-reference', 'map_projection': 'UTM', 'orbit_direction': 'ascending'}"), ('ok', 'builtins.dict', "{'filetype': 'VOL', 'polarization': None, 'mission_name': 'ALOS2', 'orbit_accumulation': '04106', 'scene_frame': '2800', 'date': datetime.datetime(2015, 2, 25, 0, 0), 'observation_mode': 'high-sensitive mode full (quad.) polarimetry', 'observation_direction': 'right looking', 'processing_level': 'level 1.5', 'processing_option': 'geo-reference', 'map_projection': 'UTM', 'orbit_direction': 'ascending'}")],
    [('raise', [('ValueError', 'invalid scene id: ALOS2041062800-150230', True), ('ValueError', 'day is out of range for month', False)]), ('raise', [('ValueError', 'invalid scene id: ALOS2041062800-150230', True), ('ValueError', 'day is out of range for month', False)])],
    [('raise', [('ValueError', 'invalid scene id: ALOS2041062800-150230', True), ('ValueError', 'day is out of range for month', False)]), ('raise', [('ValueError', 'invalid scene id: ALOS2041062800-150230', True), ('ValueError', 'day is out of range for month', False)])],
    [('raise', [('ValueError', 'invalid file name: VOL-ALOS2041062800-150225-HBQR1.5RU', False)]), ('raise', [('ValueError', 'invalid file name: VOL-ALOS2041062800-150225-HBQR1.5RU', False)])],
]


def compute():
    outcomes = []
    for value in DATES:
        # the second and third evaluations see whatever the first one left behind
        outcomes.append([outcome(decoders.parse_date, value) for _ in range(3)])
    for value in DATES:
        outcomes.append([outcome(decoders.translations["date"], value)])
    for value in SCENE_IDS:
        outcomes.append([outcome(decoders.decode_scene_id, value) for _ in range(2)])
    for value in FILENAMES:
        outcomes.append([outcome(decoders.decode_filename, value) for _ in range(2)])
    return outcomes


def test_outcomes():
    actual = compute()
    labels = (
        [f"parse_date({v!r})" for v in DATES]
        + [f"translations['date']({v!r})" for v in DATES]
        + [f"decode_scene_id({v!r})" for v in SCENE_IDS]
        + [f"decode_filename({v!r})" for v in FILENAMES]
    )
    assert len(actual) == len(EXPECTED) == len(labels)
    for label, a, e in zip(labels, actual, EXPECTED):
        assert a == e, f"{label}:\n  actual   {a}\n  expected {e}"


def test_every_valid_date():
    # all 36525 days that yymmdd can express, against an independent computation
    day = datetime.date(1969, 1, 1)
    end = datetime.date(2068, 12, 31)
    count = 0
    while day <= end:
        text = day.strftime("%y%m%d")
        expected = datetime.datetime(day.year, day.month, day.day)
        for _ in range(2):
            actual = decoders.parse_date(text)
            assert type(actual) is datetime.datetime
            assert actual == expected and actual.tzinfo is None, text
        day += datetime.timedelta(days=1)
        count += 1
    assert count == 36525

    # and once more in reverse, after whatever happened above
    while day > datetime.date(1969, 1, 1):
        day -= datetime.timedelta(days=1)
        actual = decoders.parse_date(day.strftime("%y%m%d"))
        assert actual == datetime.datetime(day.year, day.month, day.day)


def test_every_six_digit_string_of_a_year():
    # valid and invalid month / day combinations, interleaved
    for month in range(0, 15):
        for day in range(0, 34):
            text = f"20{month:02d}{day:02d}"
            try:
                expected = datetime.datetime(2020, month, day)
            except ValueError:
                expected = None

            for _ in range(2):
                try:
                    actual = decoders.parse_date(text)
                except ValueError:
                    actual = None
                assert actual == expected, text


def test_errors_are_new_objects():
    errors = []
    for _ in range(3):
        try:
            decoders.parse_date("180732")
        except ValueError as e:
            errors.append(e)
    assert len(errors) == 3
    assert len({id(e) for e in errors}) == 3
    assert {str(e) for e in errors} == {"unconverted data remains: 2"}

    try:
        decoders.decode_scene_id("ALOS2225333200-180732")
    except ValueError as e:
        assert str(e) == "invalid scene id: ALOS2225333200-180732"
        assert type(e.__cause__) is ValueError
        assert str(e.__cause__) == "unconverted data remains: 2"
    else:
        raise AssertionError("did not raise")


def test_results_are_independent():
    # the decoded mappings are new objects, and changing one does not affect the next
    first = decoders.decode_scene_id("ALOS2225333200-180726")
    first["date"] = first["date"].replace(year=1999)
    first.pop("mission_name")
    second = decoders.decode_scene_id("ALOS2225333200-180726")
    assert second is not first
    assert second == {
        "mission_name": "ALOS2",
        "orbit_accumulation": "22533",
        "scene_frame": "3200",
        "date": datetime.datetime(2018, 7, 26),
    }
    assert list(second) == ["mission_name", "orbit_accumulation", "scene_frame", "date"]


def test_public_names():
    assert decoders.translations["date"] is decoders.parse_date
    assert callable(decoders.parse_date)
    assert decoders.parse_date.__name__ == "parse_date"
    assert decoders.parse_date.__module__ == "ceos_alos2.decoders"


if __name__ == "__main__":
    if "--record" in sys.argv:
        print("[\n" + "".join(f"    {item!r},\n" for item in compute()) + "]")
        sys.exit(0)

    test_outcomes()
    test_every_valid_date()
    test_every_six_digit_string_of_a_year()
    test_errors_are_new_objects()
    test_results_are_independent()
    test_public_names()
    print("ok")
