"""Equivalence check for refactoring 4
(ceos_alos2/sar_image/caching/__init__.py and ceos_alos2/sar_image/caching/path.py).

Run as
    cd /tmp/wt5/e33 && PYTHONPATH=/tmp/wt5/e33 /venv/bin/python _eq/4/equiv.py
(or through pytest). The expected values in ``expected.json`` next to this file
were recorded from the UNCHANGED code with ``EQ_RECORD=1``.

All file system requests (local ``pathlib`` calls and mapper accesses) are
logged, the logs are part of the compared results.
"""

import json
import os
import pathlib
import shutil
import tempfile
import warnings
from unittest import mock

import fsspec
import numpy as np

from ceos_alos2.array import Array
from ceos_alos2.hierarchy import Group, Variable
from ceos_alos2.sar_image import caching
from ceos_alos2.sar_image.caching import path as cache_path

HERE = pathlib.Path(__file__).resolve().parent
EXPECTED = HERE / "expected.json"

ROOT_TOKEN = "<cache_root>"


def canon(obj):
    if isinstance(obj, Group):
        members = ", ".join(f"{name!r}: {canon(item)}" for name, item in obj.data.items())
        return f"Group(path={obj.path!r}, url={obj.url!r}, attrs={obj.attrs!r}, data={{{members}}})"
    if isinstance(obj, Variable):
        return f"Variable(dims={obj.dims!r}, data={canon(obj.data)}, attrs={obj.attrs!r})"
    if isinstance(obj, Array):
        return (
            f"Array(root={obj.fs.path!r}, url={obj.url!r}, byte_ranges={obj.byte_ranges!r},"
            f" shape={obj.shape!r}, dtype={obj.dtype!r}, type_code={obj.type_code!r},"
            f" records_per_chunk={obj.records_per_chunk!r})"
        )
    if isinstance(obj, np.ndarray):
        return f"ndarray<{obj.dtype}>{obj.tolist()!r}"
    return f"{type(obj).__name__}({obj!r})"


class Log:
    def __init__(self, root):
        self.root = str(root)
        self.events = []

    def add(self, *event):
        self.events.append(tuple(self.clean(e) for e in event))

    def clean(self, value):
        if isinstance(value, (str, pathlib.PurePath)):
            return str(value).replace(self.root, ROOT_TOKEN)
        return value

    def dump(self):
        return repr(self.events)


class RecordingMapper:
    """minimal stand-in for fsspec's FSMap which logs every access"""

    def __init__(self, root, store, log, fail_on=None):
        self._root = root
        self.store = store
        self.log = log
        self.fail_on = fail_on

    @property
    def root(self):
        self.log.add("mapper.root")
        return self._root

    def __contains__(self, key):
        self.log.add("mapper.__contains__", key)
        if self.fail_on == "contains":
            raise OSError("connection lost")
        return key in self.store

    def __getitem__(self, key):
        self.log.add("mapper.__getitem__", key)
        if self.fail_on == "getitem":
            raise KeyError(key)
        return self.store[key]

    def __setitem__(self, key, value):
        self.log.add("mapper.__setitem__", key)
        self.store[key] = value


def patched_paths(log):
    """log the local file system requests, then perform them"""
    originals = {
        name: getattr(pathlib.Path, name)
        for name in ["is_file", "read_text", "write_text", "mkdir", "exists", "open", "read_bytes"]
    }

    def wrap(name):
        original = originals[name]

        def wrapper(self, *args, **kwargs):
            if str(self).startswith(log.root) and not wrapper.active:
                wrapper.active = True
                try:
                    shown = [a if name != "write_text" else f"<{len(a)} chars>" for a in args]
                    log.add(f"Path.{name}", self, shown, sorted(kwargs.items()))
                finally:
                    wrapper.active = False
            return original(self, *args, **kwargs)

        wrapper.active = False
        return wrapper

    patches = [mock.patch.object(pathlib.Path, name, wrap(name)) for name in ["is_file", "read_text", "write_text", "mkdir"]]
    return patches


def sample_group(url="s3://bucket/data"):
    return Group(
        path=None,
        url=url,
        data={
            "v": Variable("x", np.array([1, 2], dtype="int8"), {"a": (1, 2)}),
            "t": Variable(
                ["t"], np.array(["2020-01-01T00:00:00", "2020-01-01T00:01:00"], dtype="datetime64[10s]"), {}
            ),
            "sub": Group(None, None, {"w": Variable(["y"], np.array([1.5]), {})}, {"n": [1, (2,)]}),
        },
        attrs={"coords": ("x",)},
    )


def backend_group_text():
    return json.dumps(
        {
            "__type__": "group",
            "url": None,
            "data": {
                "v": {
                    "__type__": "variable",
                    "dims": ["x", "y"],
                    "data": {
                        "__type__": "backend_array",
                        "root": "memory:///path/to",
                        "url": "file",
                        "shape": {"__type__": "tuple", "data": [4, 3]},
                        "dtype": "complex64",
                        "byte_ranges": [
                            {"__type__": "tuple", "data": [5, 10]},
                            {"__type__": "tuple", "data": [15, 20]},
                            {"__type__": "tuple", "data": [25, 30]},
                            {"__type__": "tuple", "data": [35, 40]},
                        ],
                        "type_code": "C*8",
                    },
                    "attrs": {},
                }
            },
            "path": "/",
            "attrs": {},
        }
    )


def run(log, func, *args, **kwargs):
    try:
        result = log.clean("OK " + canon(func(*args, **kwargs)))
    except Exception as e:  # noqa: BLE001
        cause = e.__cause__
        suffix = f" <- {type(cause).__name__}" if cause is not None else ""
        is_fnf = isinstance(e, FileNotFoundError)
        result = f"EXC {type(e).__name__}(FileNotFoundError={is_fnf}): {log.clean(str(e))}{suffix}"
    return result


class Formatted:
    """a path-like object which is not a string"""

    def __init__(self, text):
        self.text = text

    def __format__(self, spec):
        return format(self.text, spec)

    def __repr__(self):
        return f"Formatted({self.text!r})"


PATHS = [
    "image1",
    "IMG-HH-ALOS2012345678-200101-UBSL1.1__A",
    "dir/image2",
    "a/b/c/image3",
    "/abs/image4",
    "trailing/",
    "",
    "/",
    "with space.ext",
    "dots/../image5",
    pathlib.PurePosixPath("pure/image6"),
    Formatted("fmt/image7"),
    7,
    None,
]
ROOTS = [
    "http://127.0.0.1/path/to/data",
    "s3://bucket/path/to/data",
    "file:///path/to/data",
    "/path/to/data",
    "",
    "ünïcode/root",
]


def path_results(out, log, cache_dir):
    for data in ["ddeeaaddbbeeeeff", "", "ünï", "a" * 1000]:
        out[f"hashsum/{data[:20]!r}"] = run(log, cache_path.hashsum, data)
        for algorithm in ["sha256", "md5", "sha1", "blake2b", "SHA256"]:
            out[f"hashsum/{data[:20]!r}/{algorithm}"] = run(log, cache_path.hashsum, data, algorithm)
            out[f"hashsum-kw/{data[:20]!r}/{algorithm}"] = run(
                log, cache_path.hashsum, data=data, algorithm=algorithm
            )
    out["hashsum/bad-algorithm"] = run(log, cache_path.hashsum, "abc", "nope")
    out["hashsum/bytes"] = run(log, cache_path.hashsum, b"abc")
    out["hashsum/none"] = run(log, cache_path.hashsum, None)
    out["hashsum/bad-algorithm-and-data"] = run(log, cache_path.hashsum, None, "nope")
    out["hashsum/algorithm-none"] = run(log, cache_path.hashsum, "abc", None)

    for root in ROOTS:
        for path in PATHS:
            key = f"{root!r}/{path!r}"
            out[f"local/{key}"] = run(log, cache_path.local_cache_location, root, path)
            out[f"remote/{key}"] = run(log, cache_path.remote_cache_location, root, path)
    out["local/root-none"] = run(log, cache_path.local_cache_location, None, "image")
    out["local/root-bytes"] = run(log, cache_path.local_cache_location, b"root", "image")
    out["remote/root-none"] = run(log, cache_path.remote_cache_location, None, "image")
    out["local/kw"] = run(log, cache_path.local_cache_location, remote_root="r", path="p/q")
    out["remote/kw"] = run(log, cache_path.remote_cache_location, remote_root="r", path="p/q")
    out["local/type"] = str(isinstance(cache_path.local_cache_location("r", "p"), pathlib.Path))
    out["local/relative-to-root"] = str(
        cache_path.local_cache_location("r", "p").parent.parent == pathlib.Path(cache_dir)
    )
    out["constants"] = repr((cache_path.project_name, type(cache_path.cache_root).__name__))
    out["caching-error"] = repr(
        (caching.CachingError.__mro__[1].__name__, caching.CachingError.__module__)
    )


def io_results(out, log, cache_dir):
    good = backend_group_text()
    sample = caching.encode(sample_group())
    scenarios = {
        # name: (local content or None, remote content or None, mapper failure)
        "neither": (None, None, None),
        "remote-only": (None, good, None),
        "local-only": (good, None, None),
        "both": (sample, good, None),
        "local-invalid": ("{ not json", good, None),
        "local-empty": ("", good, None),
        "remote-invalid": (None, good[:50], None),
        "remote-not-utf8": (None, b"\xff\xfe", None),
        "remote-wrong-structure": (None, "[1, 2]", None),
        "remote-plain-value": (None, "5", None),
        "contains-fails": (None, good, "contains"),
        "getitem-fails": (None, good, "getitem"),
        "local-present-mapper-broken": (good, None, "contains"),
    }
    root = "memory://cache-root"
    for path in ["image1", "dir/sub/image2", "", Formatted("fmt/image7")]:
        for name, (local_text, remote_text, fail_on) in scenarios.items():
            for rpc in [None, 2, "auto"]:
                shutil.rmtree(cache_dir, ignore_errors=True)
                os.makedirs(cache_dir)
                store = {}
                if remote_text is not None:
                    remote = remote_text if isinstance(remote_text, bytes) else remote_text.encode()
                    store[f"{path}.index"] = remote
                if local_text is not None:
                    local = cache_path.local_cache_location(root, path)
                    os.makedirs(local.parent, exist_ok=True)
                    with open(local, "w") as f:
                        f.write(local_text)
                del log.events[:]
                mapper = RecordingMapper(root, store, log, fail_on=fail_on)
                key = f"read_cache/{path!r}/{name}/rpc={rpc!r}"
                out[key] = run(log, caching.read_cache, mapper, path, rpc)
                out[key + "/io"] = log.dump()
                if rpc == 2:
                    del log.events[:]
                    out[key + "/kw"] = run(
                        log, caching.read_cache, mapper=mapper, path=path, records_per_chunk=rpc
                    )
                    out[key + "/kw/io"] = log.dump()

    # a directory in the place of the local cache file is not a file
    shutil.rmtree(cache_dir, ignore_errors=True)
    local = cache_path.local_cache_location(root, "image1")
    os.makedirs(local)
    del log.events[:]
    mapper = RecordingMapper(root, {"image1.index": good.encode()}, log)
    out["read_cache/local-is-directory"] = run(log, caching.read_cache, mapper, "image1", 2)
    out["read_cache/local-is-directory/io"] = log.dump()

    # real fsspec mapper
    shutil.rmtree(cache_dir, ignore_errors=True)
    real = fsspec.get_mapper("memory://real-cache")
    real["image1.index"] = good.encode()
    del log.events[:]
    out["read_cache/fsmap-remote"] = run(log, caching.read_cache, real, "image1", 4)
    out["read_cache/fsmap-missing"] = run(log, caching.read_cache, real, "image9", 4)
    out["read_cache/fsmap/io"] = log.dump()

    # creating caches
    for path in ["image1", "dir/sub/image2", "", "trailing/"]:
        for name, data in {
            "group": sample_group(),
            "empty-group": Group(path="/", url="s3://bucket/data", data={}, attrs={}),
            "variable": Variable("x", np.array([1, 2]), {}),
            "plain": {"a": (1, 2)},
            "unserializable": {"a": {1, 2}},
            "nan": {"a": float("nan")},
        }.items():
            for preexisting in [False, True]:
                shutil.rmtree(cache_dir, ignore_errors=True)
                os.makedirs(cache_dir)
                local = cache_path.local_cache_location(root, path)
                if preexisting:
                    os.makedirs(local.parent, exist_ok=True)
                    if path not in ("",):
                        with open(local, "w") as f:
                            f.write("previous content which is longer than anything written" * 200)
                del log.events[:]
                mapper = RecordingMapper(root, {}, log)
                key = f"create_cache/{path!r}/{name}/pre={preexisting}"
                out[key] = run(log, caching.create_cache, mapper, path, data)
                out[key + "/io"] = log.dump()
                out[key + "/store"] = repr(sorted(mapper.store))
                files = sorted(
                    str(p.relative_to(cache_dir)) for p in pathlib.Path(cache_dir).rglob("*")
                )
                out[key + "/files"] = repr(files)
                try:
                    with open(local) as f:
                        out[key + "/content"] = f.read()
                except OSError as e:
                    out[key + "/content"] = f"unreadable: {type(e).__name__}"
                if name == "group" and not preexisting:
                    del log.events[:]
                    out[key + "/read-back"] = run(log, caching.read_cache, mapper, path, 2)
                    out[key + "/read-back/io"] = log.dump()

    # the parent of the cache file is in the way
    shutil.rmtree(cache_dir, ignore_errors=True)
    os.makedirs(cache_dir)
    local = cache_path.local_cache_location(root, "image1")
    with open(local.parent, "w") as f:
        f.write("a file")
    del log.events[:]
    mapper = RecordingMapper(root, {}, log)
    out["create_cache/parent-is-file"] = run(log, caching.create_cache, mapper, "image1", sample_group())
    out["create_cache/parent-is-file/io"] = log.dump()
    del log.events[:]
    out["create_cache/parent-is-file-unserializable"] = run(
        log, caching.create_cache, mapper, "image1", {"a": {1}}
    )
    out["create_cache/parent-is-file-unserializable/io"] = log.dump()
    out["create_cache/kw"] = run(
        log, caching.create_cache, mapper=mapper, path="image1", data=sample_group()
    )

    # encode / decode on their own
    for name, data in {
        "group": sample_group(),
        "variable": Variable("x", np.array([1, 2]), {"t": (1,)}),
        "plain": {"a": (1, [2, (3,)])},
        "none": None,
        "set": {1},
    }.items():
        out[f"encode/{name}"] = run(log, caching.encode, data)
    for name, text in {
        "good": good,
        "sample": sample,
        "empty": "",
        "truncated": good[:100],
        "number": "5",
        "bytes": good.encode(),
        "none": None,
    }.items():
        for rpc in [None, 3]:
            out[f"decode/{name}/rpc={rpc!r}"] = run(log, caching.decode, text, rpc)
            out[f"decode-kw/{name}/rpc={rpc!r}"] = run(
                log, caching.decode, cache=text, records_per_chunk=rpc
            )


def compute():
    warnings.simplefilter("ignore")
    out = {}
    tmp = tempfile.mkdtemp(prefix="eq4-")
    cache_dir = os.path.join(tmp, "cache")
    log = Log(cache_dir)
    patches = patched_paths(log)
    try:
        with mock.patch.object(cache_path, "cache_root", pathlib.Path(cache_dir)):
            for p in patches:
                p.start()
            try:
                path_results(out, log, cache_dir)
                io_results(out, log, cache_dir)
            finally:
                for p in patches:
                    p.stop()
    finally:
        shutil.rmtree(tmp, ignore_errors=True)
    return out


def test_equivalence():
    actual = compute()
    if os.environ.get("EQ_RECORD"):
        EXPECTED.write_text(json.dumps(actual, indent=1, sort_keys=True))
        print(f"recorded {len(actual)} results")
        return
    expected = json.loads(EXPECTED.read_text())
    assert sorted(actual) == sorted(expected)
    mismatches = {k: (expected[k], actual[k]) for k in expected if expected[k] != actual[k]}
    assert not mismatches, mismatches
    print(f"{len(actual)} results identical")


if __name__ == "__main__":
    test_equivalence()
