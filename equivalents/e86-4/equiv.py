"""Equivalence check for refactoring 4 (ceos_alos2/sar_image/signal_data.py).

Parses synthetic signal data records (level 1.1 style, record type 10) directly, through
``parse_chunk`` and through ``read_metadata`` / ``transform_metadata`` (with a recording fake
file) and compares names, order, types, values, the sharing of the attrs dicts, the I/O requests
and the exception types and messages against what the unchanged code produced.  Run as

    cd /tmp/wt10/e86 && PYTHONPATH=/tmp/wt10/e86 /venv/bin/python _eq/4/equiv.py

(``--record`` prints the table of expected results instead of checking it).
"""

import hashlib
import io
import pprint
import struct
import sys

import numpy as np
from construct import Container, EnumIntegerString, ListContainer

from ceos_alos2.hierarchy import Group, Variable
from ceos_alos2.sar_image import signal_data as module
from ceos_alos2.sar_image.io import adjust_offsets, parse_chunk, read_metadata
from ceos_alos2.sar_image.metadata import transform_metadata
from ceos_alos2.sar_image.signal_data import signal_data_record

# the layout of the prefix according to the unchanged source: (name, struct format)
LAYOUT = [
    ("sar_image_data_line_number", "I"),
    ("sar_image_data_record_index", "I"),
    ("actual_count_of_left_fill_pixels", "I"),
    ("actual_count_of_data_pixels", "I"),
    ("actual_count_of_right_fill_pixels", "I"),
    ("sensor_parameters_update_flag", "I"),
    ("year", "I"),
    ("day_of_year", "I"),
    ("milliseconds", "I"),
    ("sar_channel_id", "H"),
    ("sar_channel_code", "H"),
    ("transmitted_pulse_polarization", "H"),
    ("received_pulse_polarization", "H"),
    ("prf", "I"),
    ("scan_id", "I"),
    ("onboard_range_compressed_flag", "H"),
    ("chirp_type_designator", "H"),
    ("chirp_length", "I"),
    ("chirp_constant_coefficient", "I"),
    ("chirp_linear_coefficient", "I"),
    ("chirp_quadratic_coefficient", "I"),
    ("sensor_acquisition_date_microseconds", "Q"),
    ("receiver_gain", "I"),
    ("invalid_line_flag", "I"),
    ("elevation_angle_at_nadir_of_antenna.electronic", "I"),
    ("elevation_angle_at_nadir_of_antenna.mechanic", "I"),
    ("antenna_squint_angle.electronic", "I"),
    ("antenna_squint_angle.mechanic", "I"),
    ("slant_range_to_first_data_sample", "I"),
    ("data_record_window_position", "I"),
    ("blanks1", "I"),
    ("platform_position_parameters_update_flag", "I"),
    ("platform_latitude", "I"),
    ("platform_longitude", "I"),
    ("platform_altitude", "I"),
    ("platform_ground_speed", "I"),
    ("platform_velocity.x", "I"),
    ("platform_velocity.y", "I"),
    ("platform_velocity.z", "I"),
    ("platform_acceleration.x", "I"),
    ("platform_acceleration.y", "I"),
    ("platform_acceleration.z", "I"),
    ("platform_track_angle", "I"),
    ("platform_true_track_angle", "I"),
    ("platform_attitude.pitch", "I"),
    ("platform_attitude.roll", "I"),
    ("platform_attitude.yaw", "I"),
    ("latitude_of_first_pixel", "I"),
    ("latitude_of_center_pixel", "I"),
    ("latitude_of_last_pixel", "I"),
    ("longitude_of_first_pixel", "I"),
    ("longitude_of_center_pixel", "I"),
    ("longitude_of_last_pixel", "I"),
    ("burst_number", "I"),
    ("line_number_in_this_burst", "I"),
    ("blanks2", "60s"),
    ("alos2_frame_number", "I"),
    ("palsar_auxiliary_data", "256s"),
]
FORMAT = ">" + "".join(fmt for _, fmt in LAYOUT)
PREFIX_SIZE = 12 + struct.calcsize(FORMAT)
assert PREFIX_SIZE == 544

ENUMS = {
    "sar_channel_id": (1, 2, 4),
    "sar_channel_code": (0, 1, 2, 3, 4, 5),
    "transmitted_pulse_polarization": (0, 1),
    "received_pulse_polarization": (0, 1),
    "chirp_type_designator": (0, 1),
    "platform_position_parameters_update_flag": (0, 1),
    "onboard_range_compressed_flag": (0, 1),
    "invalid_line_flag": (0, 1),
}


class Stream:
    """deterministic pseudo-random numbers that do not depend on the ``random`` module"""

    def __init__(self, seed):
        self.seed = seed
        self.counter = 0

    def below(self, n):
        digest = hashlib.sha256(f"{self.seed}:{self.counter}".encode()).digest()
        self.counter += 1
        return int.from_bytes(digest[:8], "big") % n

    def choice(self, options):
        return options[self.below(len(options))]

    def bytes(self, n):
        return bytes(self.below(256) for _ in range(n))


def make_values(stream, line_number, overrides=None):
    values = {}
    for name, fmt in LAYOUT:
        if fmt.endswith("s"):
            n = int(fmt[:-1])
            style = stream.below(4)
            if style == 0:
                value = b"\x00" * n
            elif style == 1:
                value = b" " * n
            elif style == 2:
                value = (b"\x00" + stream.bytes(n - 2) + b"\x00")[:n]
            else:
                value = stream.bytes(n)
        elif name in ENUMS:
            limit = 2 ** (8 * struct.calcsize(fmt))
            value = stream.choice(ENUMS[name]) if stream.below(8) else stream.below(limit)
        elif name == "year":
            value = 2014 + stream.below(12)
        elif name == "day_of_year":
            value = 1 + stream.below(366)
        elif name == "milliseconds":
            value = stream.below(86400000)
        elif name == "sensor_acquisition_date_microseconds":
            value = stream.below(86400000000)
        elif name == "sar_image_data_line_number":
            value = line_number
        else:
            style = stream.below(6)
            limit = 2 ** (8 * struct.calcsize(fmt))
            if style == 0:
                value = 0
            elif style == 1:
                value = limit - 1
            elif style == 2:
                value = stream.below(1000)
            else:
                value = stream.below(limit)
        values[name] = value
    values.update(overrides or {})
    return values


def make_record(seed, line_number=1, payload=16, overrides=None, record_length=None, rtype=10):
    stream = Stream(seed)
    values = make_values(stream, line_number, overrides)
    if record_length is None:
        record_length = PREFIX_SIZE + payload
    preamble = struct.pack(">IBBBBI", line_number + 1, 50, rtype, 18, 20, record_length)
    prefix = struct.pack(FORMAT, *(values[name] for name, _ in LAYOUT))
    return preamble + prefix + stream.bytes(payload)


def make_descriptor(n_records, record_length, n_columns=2, type_code=b"C*8 "):
    data = bytearray(b" " * 720)
    data[:12] = struct.pack(">IBBBBI", 1, 50, 192, 18, 18, 720)
    data[180:186] = b"%6d" % n_records
    data[186:192] = b"%6d" % record_length
    data[236:244] = b"%8d" % n_records
    data[248:256] = b"%8d" % n_columns
    data[268:272] = b"BSQ "
    data[428:432] = type_code
    data[440:448] = b"%8d" % 65535
    return bytes(data)


def make_file(n_records, payload=8, seed="file", **kwargs):
    record_length = PREFIX_SIZE + payload
    records = [
        make_record(f"{seed}-{index}", line_number=index + 1, payload=payload)
        for index in range(n_records)
    ]
    return make_descriptor(n_records, record_length, **kwargs) + b"".join(records)


def canon(value):
    if isinstance(value, EnumIntegerString):
        return f"EnumIntegerString:{str(value)!r}={int(value)}"
    if isinstance(value, Container):
        items = ", ".join(f"{k!r}: {canon(v)}" for k, v in value.items() if k != "_io")
        return f"Container({items})"
    if isinstance(value, Group):
        return (
            f"Group(path={value.path!r}, url={value.url!r}, data={canon(value.data)},"
            f" attrs={canon(value.attrs)})"
        )
    if isinstance(value, Variable):
        return f"Variable({canon(value.dims)}, {canon(value.data)}, {canon(value.attrs)})"
    if isinstance(value, np.ndarray):
        return f"ndarray[{value.dtype}]{value.shape}:{value.tolist()!r}"
    if isinstance(value, dict):
        items = ", ".join(f"{k!r}: {canon(v)}" for k, v in value.items())
        return f"{type(value).__name__}({items})"
    if isinstance(value, ListContainer):
        return "ListContainer[" + ", ".join(canon(v) for v in value) + "]"
    if isinstance(value, list):
        return "[" + ", ".join(canon(v) for v in value) + "]"
    if isinstance(value, tuple):
        return "(" + ", ".join(canon(v) for v in value) + ")"
    return f"{type(value).__module__}.{type(value).__qualname__}:{value!r}"


def summarize(text):
    if len(text) <= 600:
        return text
    return f"sha256:{hashlib.sha256(text.encode()).hexdigest()} length:{len(text)}"


def run(func):
    try:
        result = func()
    except BaseException as e:  # noqa: B902
        chain = []
        while e is not None:
            chain.append(f"{type(e).__module__}.{type(e).__qualname__}:{e}")
            e = e.__cause__ or (None if e.__suppress_context__ else e.__context__)
        return "EXC " + " <- ".join(chain)
    return summarize("OK " + canon(result))


def lookup(parsed, name):
    value = parsed
    for part in name.split("."):
        value = value[part]
    return value


def parse(data):
    return lambda: signal_data_record.parse(data)


def fields(data, *names):
    def func():
        parsed = signal_data_record.parse(data)
        return tuple(lookup(parsed, name) for name in names)

    return func


def chunk(data, element_size):
    return lambda: parse_chunk(data, element_size)


def structure():
    """field names, order, parser classes, sizes, scale factors and attrs"""

    def describe(con):
        details = type(con).__name__
        if hasattr(con, "factor"):
            details += f"[factor={con.factor!r}]"
        if hasattr(con, "attrs"):
            details += f"[attrs={con.attrs!r}]"
        if hasattr(con, "length"):
            details += f"[length={con.length!r}]"
        if hasattr(con, "fmtstr"):
            details += f"[{con.fmtstr}]"
        if hasattr(con, "encmapping"):
            details += f"[{dict(con.encmapping)!r}]"
        return details

    def walk(con, prefix):
        out = []
        for sub in con.subcons:
            path = f"{prefix}{sub.name}"
            chain = [sub]
            while hasattr(chain[-1], "subcon") and not hasattr(chain[-1], "subcons"):
                chain.append(chain[-1].subcon)
            classes = ">".join(describe(c) for c in chain)
            try:
                size = sub.sizeof()
            except Exception as e:
                size = type(e).__name__
            out.append(f"{path}:{classes}:{size}")
            if hasattr(chain[-1], "subcons"):
                out.extend(walk(chain[-1], path + "."))
        return out

    lines = walk(signal_data_record, "")
    return (len(lines), "\n".join(lines))


ORIGINAL_PUBLIC_NAMES = {
    "Bytes", "Computed", "Int32ub", "Int64ub", "Seek", "Struct", "Tell", "this", "record_preamble",
    "DatetimeYdms", "DatetimeYdus", "Factor", "Metadata", "StripNullBytes", "Flag",
    "chirp_type_designator", "platform_position_parameters_update", "pulse_polarization",
    "sar_channel_code", "sar_channel_id", "signal_data_record",
}  # fmt: skip


def public_names():
    return tuple(sorted(ORIGINAL_PUBLIC_NAMES - set(vars(module))))


def metadata_fields(parsed, prefix=""):
    names = []
    for name, value in parsed.items():
        if name == "_io":
            continue
        if isinstance(value, Container):
            names.extend(metadata_fields(value, f"{prefix}{name}."))
        elif isinstance(value, tuple) and len(value) == 2 and isinstance(value[1], dict):
            names.append(f"{prefix}{name}")
    return names


def attrs_sharing():
    """which fields hand out the very same attrs dict (within a record / between two parses)"""
    data = make_record("sharing")
    first = signal_data_record.parse(data)
    second = signal_data_record.parse(data)
    names = metadata_fields(first)

    groups = {}
    for name in names:
        groups.setdefault(id(lookup(first, name)[1]), []).append(name)
    same_between_parses = all(lookup(first, name)[1] is lookup(second, name)[1] for name in names)
    shared = tuple(tuple(group) for group in groups.values() if len(group) > 1)
    return (len(names), len(groups), shared, same_between_parses)


def attrs_isolation():
    """modifying the attrs handed out for one field shows up for that field only"""
    data = make_record("isolation")
    out = []
    for victim in (
        "antenna_squint_angle.mechanic",
        "platform_longitude",
        "platform_velocity.y",
        "platform_attitude.roll",
        "latitude_of_center_pixel",
        "longitude_of_last_pixel",
    ):
        parsed = signal_data_record.parse(data)
        attrs = lookup(parsed, victim)[1]
        before = dict(attrs)
        attrs["units"] = "parsec"
        attrs["extra"] = 1
        try:
            again = signal_data_record.parse(data)
            changed = tuple(
                name for name in metadata_fields(again) if lookup(again, name)[1] != lookup(parsed, name)[1]
                or "extra" in lookup(again, name)[1]
            )
        finally:
            attrs.clear()
            attrs.update(before)
        restored = signal_data_record.parse(data)
        out.append((victim, changed, lookup(restored, victim)[1]))
    return tuple(out)


def independent_results():
    data = make_record("independent")
    first = signal_data_record.parse(data)
    first["prf"] = None
    first["data"]["start"] = -1
    del first["scan_id"]
    second = signal_data_record.parse(data)
    return (second["prf"], second["data"], "scan_id" in second, first["data"] is second["data"])


class RecordingFile(io.BytesIO):
    def __init__(self, data):
        super().__init__(data)
        self.requests = []

    def read(self, size=-1):
        self.requests.append(("read", size, self.tell()))
        return super().read(size)

    def seek(self, *args):
        self.requests.append(("seek", *args))
        return super().seek(*args)


def through_io(data, records_per_chunk, transform=False):
    def func():
        f = RecordingFile(data)
        try:
            header, metadata = read_metadata(f, records_per_chunk)
        finally:
            requests = tuple(f.requests)
        if not transform:
            return (header, metadata, requests, f.tell())
        group, array_metadata = transform_metadata(header, metadata)
        return (group, array_metadata, requests, f.tell())

    return func


def io_failure(data, records_per_chunk):
    def func():
        f = RecordingFile(data)
        try:
            read_metadata(f, records_per_chunk)
        except Exception as e:
            return (type(e).__name__, str(e), tuple(f.requests), f.tell())
        raise AssertionError("expected a failure")

    return func


def offsets():
    data = b"".join(make_record(f"offsets-{i}", line_number=i, payload=4) for i in range(3))
    records = parse_chunk(data, PREFIX_SIZE + 4)
    adjusted = adjust_offsets(records, 720)
    return (adjusted, all(a is b for a, b in zip(records, adjusted)))


def boundaries():
    positions = {0, 1, 4, 11, 12}
    position = 12
    for _, fmt in LAYOUT:
        width = struct.calcsize(">" + fmt)
        positions.update({position + 1, position + width - 1, position + width})
        position += width
    return sorted(p for p in positions if p < PREFIX_SIZE)


typical = make_record("typical", line_number=7, payload=32)
three = b"".join(make_record(f"three-{i}", line_number=i + 1, payload=10) for i in range(3))
many = b"".join(make_record(f"many-{i}", line_number=i + 1, payload=0) for i in range(17))

cases = {
    "structure": structure,
    "missing-public-names": public_names,
    "typical": parse(typical),
    "typical-explicit": fields(
        typical,
        "record_start",
        "sensor_acquisition_date",
        "sar_channel_id",
        "prf",
        "onboard_range_compressed_flag",
        "sensor_acquisition_date_microseconds",
        "elevation_angle_at_nadir_of_antenna",
        "antenna_squint_angle.mechanic",
        "platform_latitude",
        "platform_velocity",
        "platform_acceleration.z",
        "platform_true_track_angle",
        "platform_attitude",
        "latitude_of_first_pixel",
        "longitude_of_center_pixel",
        "longitude_of_last_pixel",
        "burst_number",
        "data",
    ),
    "attrs-sharing": attrs_sharing,
    "attrs-isolation": attrs_isolation,
    "independent-results": independent_results,
    "offsets": offsets,
    "all-zero": parse(struct.pack(">IBBBBI", 1, 50, 10, 18, 20, 544) + b"\x00" * 532),
    "all-ones": parse(struct.pack(">IBBBBI", 1, 50, 10, 18, 20, 544) + b"\xff" * 532),
    "valid-date-all-ones": parse(
        make_record(
            "ones",
            overrides={
                name: 2 ** (8 * struct.calcsize(fmt)) - 1
                for name, fmt in LAYOUT
                if not fmt.endswith("s")
                and name
                not in (
                    "year",
                    "day_of_year",
                    "milliseconds",
                    "sensor_acquisition_date_microseconds",
                )
            },
        )
    ),
    "scale-exactness": fields(
        make_record(
            "scale",
            overrides={
                "platform_latitude": 1,
                "platform_longitude": 3,
                "platform_track_angle": 123456789,
                "platform_true_track_angle": 359999999,
                "platform_attitude.pitch": 7,
                "platform_attitude.roll": 4294967295,
                "platform_attitude.yaw": 0,
                "latitude_of_first_pixel": 35123457,
                "latitude_of_center_pixel": 4294967295,
                "latitude_of_last_pixel": 9,
                "longitude_of_first_pixel": 139999999,
                "longitude_of_center_pixel": 11,
                "longitude_of_last_pixel": 1000001,
            },
        ),
        "platform_latitude",
        "platform_longitude",
        "platform_track_angle",
        "platform_true_track_angle",
        "platform_attitude.pitch",
        "platform_attitude.roll",
        "platform_attitude.yaw",
        "latitude_of_first_pixel",
        "latitude_of_center_pixel",
        "latitude_of_last_pixel",
        "longitude_of_first_pixel",
        "longitude_of_center_pixel",
        "longitude_of_last_pixel",
    ),
    "microseconds-overflow": parse(
        make_record("us-overflow", overrides={"sensor_acquisition_date_microseconds": 2**64 - 1})
    ),
    "microseconds-next-day": fields(
        make_record(
            "us-next-day",
            overrides={
                "year": 2019,
                "day_of_year": 365,
                "milliseconds": 86399999,
                "sensor_acquisition_date_microseconds": 86400000001,
            },
        ),
        "sensor_acquisition_date",
        "sensor_acquisition_date_microseconds",
    ),
    "bad-year": parse(make_record("bad-year", overrides={"year": 0})),
    "bad-day": parse(make_record("bad-day", overrides={"year": 9999, "day_of_year": 400})),
    "record-length-0": parse(make_record("length-0", record_length=0)),
    "record-length-short": parse(make_record("length-short", record_length=100)),
    "record-length-long": parse(make_record("length-long", record_length=10**6)),
    "record-length-max": parse(make_record("length-max", record_length=2**32 - 1)),
    "no-payload": parse(make_record("no-payload", payload=0)),
    "trailing": parse(typical + b"trailing bytes"),
    "wrong-record-type": parse(make_record("wrong-type", rtype=11)),
    "build": lambda: signal_data_record.build({}),
    "chunk-1": chunk(typical, len(typical)),
    "chunk-3": chunk(three, PREFIX_SIZE + 10),
    "chunk-17": chunk(many, PREFIX_SIZE),
    "chunk-3-as-1": chunk(three, len(three)),
    "chunk-size-mismatch": chunk(three, PREFIX_SIZE + 11),
    "chunk-lying-length": chunk(
        make_record("lying-1", payload=8, record_length=PREFIX_SIZE + 4)
        + make_record("lying-2", payload=8),
        PREFIX_SIZE + 8,
    ),
    "chunk-short-length": chunk(
        make_record("short-1", payload=8, record_length=50) + make_record("short-2", payload=8),
        PREFIX_SIZE + 8,
    ),
    "chunk-unknown-type": chunk(make_record("unknown", rtype=12), PREFIX_SIZE + 16),
    "chunk-empty": chunk(b"", PREFIX_SIZE),
    "file-5-by-1024": through_io(make_file(5), 1024),
    "file-5-by-2": through_io(make_file(5), 2),
    "file-5-by-1": through_io(make_file(5), 1),
    "file-5-by-5": through_io(make_file(5), 5),
    "file-0": through_io(make_file(0), 1024),
    "file-9-transformed": through_io(make_file(9, payload=4, seed="t"), 4, transform=True),
    "file-2-transformed-iu2": through_io(
        make_file(2, payload=16, seed="c", type_code=b"IU2 "), 1024, transform=True
    ),
    "file-2-unknown-type-code": through_io(
        make_file(2, seed="u", type_code=b"XYZ "), 1024, transform=True
    ),
    "file-truncated": io_failure(make_file(5)[:-100], 2),
    "file-truncated-in-prefix": io_failure(make_file(3)[: 720 + PREFIX_SIZE + 8 + 50], 1),
    "file-bad-date": io_failure(
        make_descriptor(2, PREFIX_SIZE)
        + make_record("ok", payload=0)
        + make_record("bad", payload=0, overrides={"year": 0}),
        1,
    ),
    "file-no-chunksize": io_failure(make_file(2), None),
}
for index in range(10):
    cases[f"random-{index}"] = parse(make_record(f"random-{index}", line_number=index))
for offset in boundaries():
    cases[f"truncated-{offset}"] = parse(typical[:offset])

# recorded with the unchanged code (``--record``)
EXPECTED = {'structure': 'sha256:92a13ae593a10ab99181cc76e3fca1a00ed538470d0360e5e36da956349bb4d0 length:8346',
 'missing-public-names': 'OK ()',
 'typical': 'sha256:43d6403ca14d5e0b0fd43fa531e4465fe3536d284aada103f2c8cdffd0331216 length:4806',
 'typical-explicit': 'sha256:c05824a83981f4749f3ff946ad5b3264dc7ed923c3b72dedf0539dd1183cf293 '
                     'length:1423',
 'attrs-sharing': 'OK (builtins.int:33, builtins.int:33, (), builtins.bool:True)',
 'attrs-isolation': 'sha256:d68d9ec1450c4df60a54c1b2ac73f1455c8475b4d83518d9e1655f090a55d9ab '
                    'length:712',
 'independent-results': "OK ((builtins.int:3852445011, dict('units': builtins.str:'mHz')), "
                        "Container('start': builtins.int:544, 'size': builtins.int:16, 'stop': "
                        'builtins.int:560), builtins.bool:True, builtins.bool:False)',
 'offsets': 'sha256:339d569384fa9fd308f5605557321d7a06b3fb2f687bb2a3fa4c221f1bab0a40 length:16116',
 'all-zero': 'EXC builtins.ValueError:year 0 is out of range',
 'all-ones': 'EXC builtins.OverflowError:signed integer is greater than maximum',
 'valid-date-all-ones': 'sha256:0fc0b74ef341ee3e05d00b530a877108b7204fcb25b7a37c2b5d7545deec8c30 '
                        'length:4761',
 'scale-exactness': 'sha256:616504e8379af934773e59a237b7d4a41ab0c05d2266bf85edc89d1853de92ed '
                    'length:818',
 'microseconds-overflow': 'EXC builtins.OverflowError:date value out of range',
 'microseconds-next-day': 'OK (datetime.datetime:datetime.datetime(2019, 12, 31, 23, 59, 59, '
                          '999000), datetime.datetime:datetime.datetime(2020, 1, 1, 0, 0, 0, 1))',
 'bad-year': 'EXC builtins.ValueError:year 0 is out of range',
 'bad-day': 'EXC builtins.OverflowError:date value out of range',
 'record-length-0': 'sha256:4ee0505ccaabf93e5ba5bf0a2871173f200fcc2cdc31a65aec5ceddc8562b199 '
                    'length:5428',
 'record-length-short': 'sha256:b90f187e37bbcbe632ef20aff27de3abd7790b0cd105fd05d86d9ed8b8a85fb0 '
                        'length:5505',
 'record-length-long': 'sha256:0f351d6c63219ea025e1ef2d0058f4fe28aafcc75742e7f6ceabf7b52ec56af4 '
                       'length:4744',
 'record-length-max': 'sha256:c14e4c3c2bb7a7e26ec94bbe37872fd45fde682218cd630616602848b720f01e '
                      'length:4770',
 'no-payload': 'sha256:2737beff9f34af000abf58fd70a926868b581a9ad88269e31620ddf6c40904ad '
               'length:5419',
 'trailing': 'sha256:43d6403ca14d5e0b0fd43fa531e4465fe3536d284aada103f2c8cdffd0331216 length:4806',
 'wrong-record-type': 'sha256:6aa762749a133f3c5deea7df312af6052e133cedf58b296dc4205e0dadb0e04d '
                      'length:5425',
 'build': "EXC builtins.KeyError:'preamble'",
 'chunk-1': 'sha256:00e2631831e68dd31438a07f65dfbbaa82c1902d6fe92271267e346c706c16b0 length:4808',
 'chunk-3': 'sha256:335fa44e82819f123f542ade49b2904d4068a8d68766ff460fe58da9bca873fb length:16245',
 'chunk-17': 'sha256:6f11acc47173b287b1eaa46a8483b13a0afe1914fc904afe8619528807e6289c length:84345',
 'chunk-3-as-1': 'sha256:35db21ab1b2046c8f818e80e4f8ed6b7d229210051b64175d2db77b07f51f181 '
                 'length:5310',
 'chunk-size-mismatch': 'EXC builtins.ValueError:sizes mismatch: chunksize is 1110 but got 1662 '
                        'bytes',
 'chunk-lying-length': 'EXC builtins.OverflowError:signed integer is greater than maximum',
 'chunk-short-length': 'EXC builtins.ValueError:year 63318 is out of range',
 'chunk-unknown-type': 'EXC builtins.ValueError:unknown record type code: 12',
 'chunk-empty': 'EXC construct.core.StreamError:Error in path (parsing) -> record_sequence_number\n'
                'stream read less than specified amount, expected 4, found 0',
 'file-5-by-1024': 'sha256:43958568c251c0789c4031820915b6ff526389ff86ca9e14866b7ddb6b111d1d '
                   'length:27766',
 'file-5-by-2': 'sha256:dbf943da30f40c7e459f7caf52d2a2d16544942289c68417fc986d2e75f9dae8 '
                'length:27887',
 'file-5-by-1': 'sha256:6ed27e994ebfb237c8bf8239a47e7272dd72061e027fce5086d674e79d60457b '
                'length:28005',
 'file-5-by-5': 'sha256:43958568c251c0789c4031820915b6ff526389ff86ca9e14866b7ddb6b111d1d '
                'length:27766',
 'file-0': 'sha256:2119491aacb09f05e4a8bbe0d9d303b6f614708f8d41e92789b6f6e3694a505d length:3524',
 'file-9-transformed': 'sha256:84ec47750c455b1f6407b0b94c6a8a6a054a39d572d816334598fdcf2f975c61 '
                       'length:19410',
 'file-2-transformed-iu2': 'sha256:f423454f22344746c226a894765009a6a78c74df1cded09f840cd93696bd0809 '
                           'length:8081',
 'file-2-unknown-type-code': 'EXC builtins.ValueError:unknown type code: XYZ',
 'file-truncated': "OK (builtins.str:'ValueError', builtins.str:'sizes mismatch: chunksize is 0 "
                   "but got 452 bytes', ((builtins.str:'read', builtins.int:720, builtins.int:0), "
                   "(builtins.str:'read', builtins.int:1104, builtins.int:720), "
                   "(builtins.str:'read', builtins.int:1104, builtins.int:1824), "
                   "(builtins.str:'read', builtins.int:552, builtins.int:2928)), "
                   'builtins.int:3380)',
 'file-truncated-in-prefix': "OK (builtins.str:'ValueError', builtins.str:'sizes mismatch: "
                             "chunksize is 0 but got 50 bytes', ((builtins.str:'read', "
                             "builtins.int:720, builtins.int:0), (builtins.str:'read', "
                             "builtins.int:552, builtins.int:720), (builtins.str:'read', "
                             'builtins.int:552, builtins.int:1272)), builtins.int:1322)',
 'file-bad-date': "OK (builtins.str:'ValueError', builtins.str:'year 0 is out of range', "
                  "((builtins.str:'read', builtins.int:720, builtins.int:0), (builtins.str:'read', "
                  "builtins.int:544, builtins.int:720), (builtins.str:'read', builtins.int:544, "
                  'builtins.int:1264)), builtins.int:1808)',
 'file-no-chunksize': 'OK (builtins.str:\'TypeError\', builtins.str:"unsupported operand type(s) '
                      'for /: \'int\' and \'NoneType\'", ((builtins.str:\'read\', '
                      'builtins.int:720, builtins.int:0)), builtins.int:720)',
 'random-0': 'sha256:8dc079db3559ebb624cda5ce43c7f3d4ba41ae88e95ff94bcae20dda80ab04dc length:4762',
 'random-1': 'sha256:0f7e5141e7fa9b8294b05a728c8074acd383c0efb8d2a0f37b65c0388a3bb861 length:4725',
 'random-2': 'sha256:95cf61ddc5eedb0a88d20d7468f8a331c576efcfe7281a8f2c8c186ab1038d42 length:5424',
 'random-3': 'sha256:c2ba984cb7d974a3d43dec43fc862190347d5f436e71def00184edd7ec7b9d23 length:4635',
 'random-4': 'sha256:1ea54ad66ca3a1ed835052697752e308d9d67e4d38c659eccfc7d508e6982fe5 length:5258',
 'random-5': 'sha256:fe194d9ce54ec32f48f06b020863bea24534bbc979b565933910f8c0a7f70401 length:4901',
 'random-6': 'sha256:ffb87da8581ff8e898e943d62f3c94bb2b09ea0927ec4c9cee99de929f776ad1 length:5420',
 'random-7': 'sha256:16a81c6596d231ab90ac4ef5246f20df1bc4fcc63aaa09198c9a750bd22ef725 length:4736',
 'random-8': 'sha256:e6e03c61d7a7dbfdb5d39b3c5ba7ca5dc1de6830d2b5620674132fb0dafc854a length:5272',
 'random-9': 'sha256:b4d8acb636ff896af5f16a491f845660c5023a2673fd88310457fbfee232b97f length:5459',
 'truncated-0': 'EXC construct.core.StreamError:Error in path (parsing) -> preamble -> '
                'record_sequence_number\n'
                'stream read less than specified amount, expected 4, found 0',
 'truncated-1': 'EXC construct.core.StreamError:Error in path (parsing) -> preamble -> '
                'record_sequence_number\n'
                'stream read less than specified amount, expected 4, found 1',
 'truncated-4': 'EXC construct.core.StreamError:Error in path (parsing) -> preamble -> '
                'first_record_subtype\n'
                'stream read less than specified amount, expected 1, found 0',
 'truncated-11': 'EXC construct.core.StreamError:Error in path (parsing) -> preamble -> '
                 'record_length\n'
                 'stream read less than specified amount, expected 4, found 3',
 'truncated-12': 'EXC construct.core.StreamError:Error in path (parsing) -> '
                 'sar_image_data_line_number\n'
                 'stream read less than specified amount, expected 4, found 0',
 'truncated-13': 'EXC construct.core.StreamError:Error in path (parsing) -> '
                 'sar_image_data_line_number\n'
                 'stream read less than specified amount, expected 4, found 1',
 'truncated-15': 'EXC construct.core.StreamError:Error in path (parsing) -> '
                 'sar_image_data_line_number\n'
                 'stream read less than specified amount, expected 4, found 3',
 'truncated-16': 'EXC construct.core.StreamError:Error in path (parsing) -> '
                 'sar_image_data_record_index\n'
                 'stream read less than specified amount, expected 4, found 0',
 'truncated-17': 'EXC construct.core.StreamError:Error in path (parsing) -> '
                 'sar_image_data_record_index\n'
                 'stream read less than specified amount, expected 4, found 1',
 'truncated-19': 'EXC construct.core.StreamError:Error in path (parsing) -> '
                 'sar_image_data_record_index\n'
                 'stream read less than specified amount, expected 4, found 3',
 'truncated-20': 'EXC construct.core.StreamError:Error in path (parsing) -> '
                 'actual_count_of_left_fill_pixels\n'
                 'stream read less than specified amount, expected 4, found 0',
 'truncated-21': 'EXC construct.core.StreamError:Error in path (parsing) -> '
                 'actual_count_of_left_fill_pixels\n'
                 'stream read less than specified amount, expected 4, found 1',
 'truncated-23': 'EXC construct.core.StreamError:Error in path (parsing) -> '
                 'actual_count_of_left_fill_pixels\n'
                 'stream read less than specified amount, expected 4, found 3',
 'truncated-24': 'EXC construct.core.StreamError:Error in path (parsing) -> '
                 'actual_count_of_data_pixels\n'
                 'stream read less than specified amount, expected 4, found 0',
 'truncated-25': 'EXC construct.core.StreamError:Error in path (parsing) -> '
                 'actual_count_of_data_pixels\n'
                 'stream read less than specified amount, expected 4, found 1',
 'truncated-27': 'EXC construct.core.StreamError:Error in path (parsing) -> '
                 'actual_count_of_data_pixels\n'
                 'stream read less than specified amount, expected 4, found 3',
 'truncated-28': 'EXC construct.core.StreamError:Error in path (parsing) -> '
                 'actual_count_of_right_fill_pixels\n'
                 'stream read less than specified amount, expected 4, found 0',
 'truncated-29': 'EXC construct.core.StreamError:Error in path (parsing) -> '
                 'actual_count_of_right_fill_pixels\n'
                 'stream read less than specified amount, expected 4, found 1',
 'truncated-31': 'EXC construct.core.StreamError:Error in path (parsing) -> '
                 'actual_count_of_right_fill_pixels\n'
                 'stream read less than specified amount, expected 4, found 3',
 'truncated-32': 'EXC construct.core.StreamError:Error in path (parsing) -> '
                 'sensor_parameters_update_flag\n'
                 'stream read less than specified amount, expected 4, found 0',
 'truncated-33': 'EXC construct.core.StreamError:Error in path (parsing) -> '
                 'sensor_parameters_update_flag\n'
                 'stream read less than specified amount, expected 4, found 1',
 'truncated-35': 'EXC construct.core.StreamError:Error in path (parsing) -> '
                 'sensor_parameters_update_flag\n'
                 'stream read less than specified amount, expected 4, found 3',
 'truncated-36': 'EXC construct.core.StreamError:Error in path (parsing) -> '
                 'sensor_acquisition_date -> year\n'
                 'stream read less than specified amount, expected 4, found 0',
 'truncated-37': 'EXC construct.core.StreamError:Error in path (parsing) -> '
                 'sensor_acquisition_date -> year\n'
                 'stream read less than specified amount, expected 4, found 1',
 'truncated-39': 'EXC construct.core.StreamError:Error in path (parsing) -> '
                 'sensor_acquisition_date -> year\n'
                 'stream read less than specified amount, expected 4, found 3',
 'truncated-40': 'EXC construct.core.StreamError:Error in path (parsing) -> '
                 'sensor_acquisition_date -> day_of_year\n'
                 'stream read less than specified amount, expected 4, found 0',
 'truncated-41': 'EXC construct.core.StreamError:Error in path (parsing) -> '
                 'sensor_acquisition_date -> day_of_year\n'
                 'stream read less than specified amount, expected 4, found 1',
 'truncated-43': 'EXC construct.core.StreamError:Error in path (parsing) -> '
                 'sensor_acquisition_date -> day_of_year\n'
                 'stream read less than specified amount, expected 4, found 3',
 'truncated-44': 'EXC construct.core.StreamError:Error in path (parsing) -> '
                 'sensor_acquisition_date -> milliseconds\n'
                 'stream read less than specified amount, expected 4, found 0',
 'truncated-45': 'EXC construct.core.StreamError:Error in path (parsing) -> '
                 'sensor_acquisition_date -> milliseconds\n'
                 'stream read less than specified amount, expected 4, found 1',
 'truncated-47': 'EXC construct.core.StreamError:Error in path (parsing) -> '
                 'sensor_acquisition_date -> milliseconds\n'
                 'stream read less than specified amount, expected 4, found 3',
 'truncated-48': 'EXC construct.core.StreamError:Error in path (parsing) -> sar_channel_id\n'
                 'stream read less than specified amount, expected 2, found 0',
 'truncated-49': 'EXC construct.core.StreamError:Error in path (parsing) -> sar_channel_id\n'
                 'stream read less than specified amount, expected 2, found 1',
 'truncated-50': 'EXC construct.core.StreamError:Error in path (parsing) -> sar_channel_code\n'
                 'stream read less than specified amount, expected 2, found 0',
 'truncated-51': 'EXC construct.core.StreamError:Error in path (parsing) -> sar_channel_code\n'
                 'stream read less than specified amount, expected 2, found 1',
 'truncated-52': 'EXC construct.core.StreamError:Error in path (parsing) -> '
                 'transmitted_pulse_polarization\n'
                 'stream read less than specified amount, expected 2, found 0',
 'truncated-53': 'EXC construct.core.StreamError:Error in path (parsing) -> '
                 'transmitted_pulse_polarization\n'
                 'stream read less than specified amount, expected 2, found 1',
 'truncated-54': 'EXC construct.core.StreamError:Error in path (parsing) -> '
                 'received_pulse_polarization\n'
                 'stream read less than specified amount, expected 2, found 0',
 'truncated-55': 'EXC construct.core.StreamError:Error in path (parsing) -> '
                 'received_pulse_polarization\n'
                 'stream read less than specified amount, expected 2, found 1',
 'truncated-56': 'EXC construct.core.StreamError:Error in path (parsing) -> prf\n'
                 'stream read less than specified amount, expected 4, found 0',
 'truncated-57': 'EXC construct.core.StreamError:Error in path (parsing) -> prf\n'
                 'stream read less than specified amount, expected 4, found 1',
 'truncated-59': 'EXC construct.core.StreamError:Error in path (parsing) -> prf\n'
                 'stream read less than specified amount, expected 4, found 3',
 'truncated-60': 'EXC construct.core.StreamError:Error in path (parsing) -> scan_id\n'
                 'stream read less than specified amount, expected 4, found 0',
 'truncated-61': 'EXC construct.core.StreamError:Error in path (parsing) -> scan_id\n'
                 'stream read less than specified amount, expected 4, found 1',
 'truncated-63': 'EXC construct.core.StreamError:Error in path (parsing) -> scan_id\n'
                 'stream read less than specified amount, expected 4, found 3',
 'truncated-64': 'EXC construct.core.StreamError:Error in path (parsing) -> '
                 'onboard_range_compressed_flag\n'
                 'stream read less than specified amount, expected 2, found 0',
 'truncated-65': 'EXC construct.core.StreamError:Error in path (parsing) -> '
                 'onboard_range_compressed_flag\n'
                 'stream read less than specified amount, expected 2, found 1',
 'truncated-66': 'EXC construct.core.StreamError:Error in path (parsing) -> chirp_type_designator\n'
                 'stream read less than specified amount, expected 2, found 0',
 'truncated-67': 'EXC construct.core.StreamError:Error in path (parsing) -> chirp_type_designator\n'
                 'stream read less than specified amount, expected 2, found 1',
 'truncated-68': 'EXC construct.core.StreamError:Error in path (parsing) -> chirp_length\n'
                 'stream read less than specified amount, expected 4, found 0',
 'truncated-69': 'EXC construct.core.StreamError:Error in path (parsing) -> chirp_length\n'
                 'stream read less than specified amount, expected 4, found 1',
 'truncated-71': 'EXC construct.core.StreamError:Error in path (parsing) -> chirp_length\n'
                 'stream read less than specified amount, expected 4, found 3',
 'truncated-72': 'EXC construct.core.StreamError:Error in path (parsing) -> '
                 'chirp_constant_coefficient\n'
                 'stream read less than specified amount, expected 4, found 0',
 'truncated-73': 'EXC construct.core.StreamError:Error in path (parsing) -> '
                 'chirp_constant_coefficient\n'
                 'stream read less than specified amount, expected 4, found 1',
 'truncated-75': 'EXC construct.core.StreamError:Error in path (parsing) -> '
                 'chirp_constant_coefficient\n'
                 'stream read less than specified amount, expected 4, found 3',
 'truncated-76': 'EXC construct.core.StreamError:Error in path (parsing) -> '
                 'chirp_linear_coefficient\n'
                 'stream read less than specified amount, expected 4, found 0',
 'truncated-77': 'EXC construct.core.StreamError:Error in path (parsing) -> '
                 'chirp_linear_coefficient\n'
                 'stream read less than specified amount, expected 4, found 1',
 'truncated-79': 'EXC construct.core.StreamError:Error in path (parsing) -> '
                 'chirp_linear_coefficient\n'
                 'stream read less than specified amount, expected 4, found 3',
 'truncated-80': 'EXC construct.core.StreamError:Error in path (parsing) -> '
                 'chirp_quadratic_coefficient\n'
                 'stream read less than specified amount, expected 4, found 0',
 'truncated-81': 'EXC construct.core.StreamError:Error in path (parsing) -> '
                 'chirp_quadratic_coefficient\n'
                 'stream read less than specified amount, expected 4, found 1',
 'truncated-83': 'EXC construct.core.StreamError:Error in path (parsing) -> '
                 'chirp_quadratic_coefficient\n'
                 'stream read less than specified amount, expected 4, found 3',
 'truncated-84': 'EXC construct.core.StreamError:Error in path (parsing) -> '
                 'sensor_acquisition_date_microseconds\n'
                 'stream read less than specified amount, expected 8, found 0',
 'truncated-85': 'EXC construct.core.StreamError:Error in path (parsing) -> '
                 'sensor_acquisition_date_microseconds\n'
                 'stream read less than specified amount, expected 8, found 1',
 'truncated-91': 'EXC construct.core.StreamError:Error in path (parsing) -> '
                 'sensor_acquisition_date_microseconds\n'
                 'stream read less than specified amount, expected 8, found 7',
 'truncated-92': 'EXC construct.core.StreamError:Error in path (parsing) -> receiver_gain\n'
                 'stream read less than specified amount, expected 4, found 0',
 'truncated-93': 'EXC construct.core.StreamError:Error in path (parsing) -> receiver_gain\n'
                 'stream read less than specified amount, expected 4, found 1',
 'truncated-95': 'EXC construct.core.StreamError:Error in path (parsing) -> receiver_gain\n'
                 'stream read less than specified amount, expected 4, found 3',
 'truncated-96': 'EXC construct.core.StreamError:Error in path (parsing) -> invalid_line_flag\n'
                 'stream read less than specified amount, expected 4, found 0',
 'truncated-97': 'EXC construct.core.StreamError:Error in path (parsing) -> invalid_line_flag\n'
                 'stream read less than specified amount, expected 4, found 1',
 'truncated-99': 'EXC construct.core.StreamError:Error in path (parsing) -> invalid_line_flag\n'
                 'stream read less than specified amount, expected 4, found 3',
 'truncated-100': 'EXC construct.core.StreamError:Error in path (parsing) -> '
                  'elevation_angle_at_nadir_of_antenna -> electronic\n'
                  'stream read less than specified amount, expected 4, found 0',
 'truncated-101': 'EXC construct.core.StreamError:Error in path (parsing) -> '
                  'elevation_angle_at_nadir_of_antenna -> electronic\n'
                  'stream read less than specified amount, expected 4, found 1',
 'truncated-103': 'EXC construct.core.StreamError:Error in path (parsing) -> '
                  'elevation_angle_at_nadir_of_antenna -> electronic\n'
                  'stream read less than specified amount, expected 4, found 3',
 'truncated-104': 'EXC construct.core.StreamError:Error in path (parsing) -> '
                  'elevation_angle_at_nadir_of_antenna -> mechanic\n'
                  'stream read less than specified amount, expected 4, found 0',
 'truncated-105': 'EXC construct.core.StreamError:Error in path (parsing) -> '
                  'elevation_angle_at_nadir_of_antenna -> mechanic\n'
                  'stream read less than specified amount, expected 4, found 1',
 'truncated-107': 'EXC construct.core.StreamError:Error in path (parsing) -> '
                  'elevation_angle_at_nadir_of_antenna -> mechanic\n'
                  'stream read less than specified amount, expected 4, found 3',
 'truncated-108': 'EXC construct.core.StreamError:Error in path (parsing) -> antenna_squint_angle '
                  '-> electronic\n'
                  'stream read less than specified amount, expected 4, found 0',
 'truncated-109': 'EXC construct.core.StreamError:Error in path (parsing) -> antenna_squint_angle '
                  '-> electronic\n'
                  'stream read less than specified amount, expected 4, found 1',
 'truncated-111': 'EXC construct.core.StreamError:Error in path (parsing) -> antenna_squint_angle '
                  '-> electronic\n'
                  'stream read less than specified amount, expected 4, found 3',
 'truncated-112': 'EXC construct.core.StreamError:Error in path (parsing) -> antenna_squint_angle '
                  '-> mechanic\n'
                  'stream read less than specified amount, expected 4, found 0',
 'truncated-113': 'EXC construct.core.StreamError:Error in path (parsing) -> antenna_squint_angle '
                  '-> mechanic\n'
                  'stream read less than specified amount, expected 4, found 1',
 'truncated-115': 'EXC construct.core.StreamError:Error in path (parsing) -> antenna_squint_angle '
                  '-> mechanic\n'
                  'stream read less than specified amount, expected 4, found 3',
 'truncated-116': 'EXC construct.core.StreamError:Error in path (parsing) -> '
                  'slant_range_to_first_data_sample\n'
                  'stream read less than specified amount, expected 4, found 0',
 'truncated-117': 'EXC construct.core.StreamError:Error in path (parsing) -> '
                  'slant_range_to_first_data_sample\n'
                  'stream read less than specified amount, expected 4, found 1',
 'truncated-119': 'EXC construct.core.StreamError:Error in path (parsing) -> '
                  'slant_range_to_first_data_sample\n'
                  'stream read less than specified amount, expected 4, found 3',
 'truncated-120': 'EXC construct.core.StreamError:Error in path (parsing) -> '
                  'data_record_window_position\n'
                  'stream read less than specified amount, expected 4, found 0',
 'truncated-121': 'EXC construct.core.StreamError:Error in path (parsing) -> '
                  'data_record_window_position\n'
                  'stream read less than specified amount, expected 4, found 1',
 'truncated-123': 'EXC construct.core.StreamError:Error in path (parsing) -> '
                  'data_record_window_position\n'
                  'stream read less than specified amount, expected 4, found 3',
 'truncated-124': 'EXC construct.core.StreamError:Error in path (parsing) -> blanks1\n'
                  'stream read less than specified amount, expected 4, found 0',
 'truncated-125': 'EXC construct.core.StreamError:Error in path (parsing) -> blanks1\n'
                  'stream read less than specified amount, expected 4, found 1',
 'truncated-127': 'EXC construct.core.StreamError:Error in path (parsing) -> blanks1\n'
                  'stream read less than specified amount, expected 4, found 3',
 'truncated-128': 'EXC construct.core.StreamError:Error in path (parsing) -> '
                  'platform_position_parameters_update_flag\n'
                  'stream read less than specified amount, expected 4, found 0',
 'truncated-129': 'EXC construct.core.StreamError:Error in path (parsing) -> '
                  'platform_position_parameters_update_flag\n'
                  'stream read less than specified amount, expected 4, found 1',
 'truncated-131': 'EXC construct.core.StreamError:Error in path (parsing) -> '
                  'platform_position_parameters_update_flag\n'
                  'stream read less than specified amount, expected 4, found 3',
 'truncated-132': 'EXC construct.core.StreamError:Error in path (parsing) -> platform_latitude\n'
                  'stream read less than specified amount, expected 4, found 0',
 'truncated-133': 'EXC construct.core.StreamError:Error in path (parsing) -> platform_latitude\n'
                  'stream read less than specified amount, expected 4, found 1',
 'truncated-135': 'EXC construct.core.StreamError:Error in path (parsing) -> platform_latitude\n'
                  'stream read less than specified amount, expected 4, found 3',
 'truncated-136': 'EXC construct.core.StreamError:Error in path (parsing) -> platform_longitude\n'
                  'stream read less than specified amount, expected 4, found 0',
 'truncated-137': 'EXC construct.core.StreamError:Error in path (parsing) -> platform_longitude\n'
                  'stream read less than specified amount, expected 4, found 1',
 'truncated-139': 'EXC construct.core.StreamError:Error in path (parsing) -> platform_longitude\n'
                  'stream read less than specified amount, expected 4, found 3',
 'truncated-140': 'EXC construct.core.StreamError:Error in path (parsing) -> platform_altitude\n'
                  'stream read less than specified amount, expected 4, found 0',
 'truncated-141': 'EXC construct.core.StreamError:Error in path (parsing) -> platform_altitude\n'
                  'stream read less than specified amount, expected 4, found 1',
 'truncated-143': 'EXC construct.core.StreamError:Error in path (parsing) -> platform_altitude\n'
                  'stream read less than specified amount, expected 4, found 3',
 'truncated-144': 'EXC construct.core.StreamError:Error in path (parsing) -> '
                  'platform_ground_speed\n'
                  'stream read less than specified amount, expected 4, found 0',
 'truncated-145': 'EXC construct.core.StreamError:Error in path (parsing) -> '
                  'platform_ground_speed\n'
                  'stream read less than specified amount, expected 4, found 1',
 'truncated-147': 'EXC construct.core.StreamError:Error in path (parsing) -> '
                  'platform_ground_speed\n'
                  'stream read less than specified amount, expected 4, found 3',
 'truncated-148': 'EXC construct.core.StreamError:Error in path (parsing) -> platform_velocity -> '
                  'x\n'
                  'stream read less than specified amount, expected 4, found 0',
 'truncated-149': 'EXC construct.core.StreamError:Error in path (parsing) -> platform_velocity -> '
                  'x\n'
                  'stream read less than specified amount, expected 4, found 1',
 'truncated-151': 'EXC construct.core.StreamError:Error in path (parsing) -> platform_velocity -> '
                  'x\n'
                  'stream read less than specified amount, expected 4, found 3',
 'truncated-152': 'EXC construct.core.StreamError:Error in path (parsing) -> platform_velocity -> '
                  'y\n'
                  'stream read less than specified amount, expected 4, found 0',
 'truncated-153': 'EXC construct.core.StreamError:Error in path (parsing) -> platform_velocity -> '
                  'y\n'
                  'stream read less than specified amount, expected 4, found 1',
 'truncated-155': 'EXC construct.core.StreamError:Error in path (parsing) -> platform_velocity -> '
                  'y\n'
                  'stream read less than specified amount, expected 4, found 3',
 'truncated-156': 'EXC construct.core.StreamError:Error in path (parsing) -> platform_velocity -> '
                  'z\n'
                  'stream read less than specified amount, expected 4, found 0',
 'truncated-157': 'EXC construct.core.StreamError:Error in path (parsing) -> platform_velocity -> '
                  'z\n'
                  'stream read less than specified amount, expected 4, found 1',
 'truncated-159': 'EXC construct.core.StreamError:Error in path (parsing) -> platform_velocity -> '
                  'z\n'
                  'stream read less than specified amount, expected 4, found 3',
 'truncated-160': 'EXC construct.core.StreamError:Error in path (parsing) -> platform_acceleration '
                  '-> x\n'
                  'stream read less than specified amount, expected 4, found 0',
 'truncated-161': 'EXC construct.core.StreamError:Error in path (parsing) -> platform_acceleration '
                  '-> x\n'
                  'stream read less than specified amount, expected 4, found 1',
 'truncated-163': 'EXC construct.core.StreamError:Error in path (parsing) -> platform_acceleration '
                  '-> x\n'
                  'stream read less than specified amount, expected 4, found 3',
 'truncated-164': 'EXC construct.core.StreamError:Error in path (parsing) -> platform_acceleration '
                  '-> y\n'
                  'stream read less than specified amount, expected 4, found 0',
 'truncated-165': 'EXC construct.core.StreamError:Error in path (parsing) -> platform_acceleration '
                  '-> y\n'
                  'stream read less than specified amount, expected 4, found 1',
 'truncated-167': 'EXC construct.core.StreamError:Error in path (parsing) -> platform_acceleration '
                  '-> y\n'
                  'stream read less than specified amount, expected 4, found 3',
 'truncated-168': 'EXC construct.core.StreamError:Error in path (parsing) -> platform_acceleration '
                  '-> z\n'
                  'stream read less than specified amount, expected 4, found 0',
 'truncated-169': 'EXC construct.core.StreamError:Error in path (parsing) -> platform_acceleration '
                  '-> z\n'
                  'stream read less than specified amount, expected 4, found 1',
 'truncated-171': 'EXC construct.core.StreamError:Error in path (parsing) -> platform_acceleration '
                  '-> z\n'
                  'stream read less than specified amount, expected 4, found 3',
 'truncated-172': 'EXC construct.core.StreamError:Error in path (parsing) -> platform_track_angle\n'
                  'stream read less than specified amount, expected 4, found 0',
 'truncated-173': 'EXC construct.core.StreamError:Error in path (parsing) -> platform_track_angle\n'
                  'stream read less than specified amount, expected 4, found 1',
 'truncated-175': 'EXC construct.core.StreamError:Error in path (parsing) -> platform_track_angle\n'
                  'stream read less than specified amount, expected 4, found 3',
 'truncated-176': 'EXC construct.core.StreamError:Error in path (parsing) -> '
                  'platform_true_track_angle\n'
                  'stream read less than specified amount, expected 4, found 0',
 'truncated-177': 'EXC construct.core.StreamError:Error in path (parsing) -> '
                  'platform_true_track_angle\n'
                  'stream read less than specified amount, expected 4, found 1',
 'truncated-179': 'EXC construct.core.StreamError:Error in path (parsing) -> '
                  'platform_true_track_angle\n'
                  'stream read less than specified amount, expected 4, found 3',
 'truncated-180': 'EXC construct.core.StreamError:Error in path (parsing) -> platform_attitude -> '
                  'pitch\n'
                  'stream read less than specified amount, expected 4, found 0',
 'truncated-181': 'EXC construct.core.StreamError:Error in path (parsing) -> platform_attitude -> '
                  'pitch\n'
                  'stream read less than specified amount, expected 4, found 1',
 'truncated-183': 'EXC construct.core.StreamError:Error in path (parsing) -> platform_attitude -> '
                  'pitch\n'
                  'stream read less than specified amount, expected 4, found 3',
 'truncated-184': 'EXC construct.core.StreamError:Error in path (parsing) -> platform_attitude -> '
                  'roll\n'
                  'stream read less than specified amount, expected 4, found 0',
 'truncated-185': 'EXC construct.core.StreamError:Error in path (parsing) -> platform_attitude -> '
                  'roll\n'
                  'stream read less than specified amount, expected 4, found 1',
 'truncated-187': 'EXC construct.core.StreamError:Error in path (parsing) -> platform_attitude -> '
                  'roll\n'
                  'stream read less than specified amount, expected 4, found 3',
 'truncated-188': 'EXC construct.core.StreamError:Error in path (parsing) -> platform_attitude -> '
                  'yaw\n'
                  'stream read less than specified amount, expected 4, found 0',
 'truncated-189': 'EXC construct.core.StreamError:Error in path (parsing) -> platform_attitude -> '
                  'yaw\n'
                  'stream read less than specified amount, expected 4, found 1',
 'truncated-191': 'EXC construct.core.StreamError:Error in path (parsing) -> platform_attitude -> '
                  'yaw\n'
                  'stream read less than specified amount, expected 4, found 3',
 'truncated-192': 'EXC construct.core.StreamError:Error in path (parsing) -> '
                  'latitude_of_first_pixel\n'
                  'stream read less than specified amount, expected 4, found 0',
 'truncated-193': 'EXC construct.core.StreamError:Error in path (parsing) -> '
                  'latitude_of_first_pixel\n'
                  'stream read less than specified amount, expected 4, found 1',
 'truncated-195': 'EXC construct.core.StreamError:Error in path (parsing) -> '
                  'latitude_of_first_pixel\n'
                  'stream read less than specified amount, expected 4, found 3',
 'truncated-196': 'EXC construct.core.StreamError:Error in path (parsing) -> '
                  'latitude_of_center_pixel\n'
                  'stream read less than specified amount, expected 4, found 0',
 'truncated-197': 'EXC construct.core.StreamError:Error in path (parsing) -> '
                  'latitude_of_center_pixel\n'
                  'stream read less than specified amount, expected 4, found 1',
 'truncated-199': 'EXC construct.core.StreamError:Error in path (parsing) -> '
                  'latitude_of_center_pixel\n'
                  'stream read less than specified amount, expected 4, found 3',
 'truncated-200': 'EXC construct.core.StreamError:Error in path (parsing) -> '
                  'latitude_of_last_pixel\n'
                  'stream read less than specified amount, expected 4, found 0',
 'truncated-201': 'EXC construct.core.StreamError:Error in path (parsing) -> '
                  'latitude_of_last_pixel\n'
                  'stream read less than specified amount, expected 4, found 1',
 'truncated-203': 'EXC construct.core.StreamError:Error in path (parsing) -> '
                  'latitude_of_last_pixel\n'
                  'stream read less than specified amount, expected 4, found 3',
 'truncated-204': 'EXC construct.core.StreamError:Error in path (parsing) -> '
                  'longitude_of_first_pixel\n'
                  'stream read less than specified amount, expected 4, found 0',
 'truncated-205': 'EXC construct.core.StreamError:Error in path (parsing) -> '
                  'longitude_of_first_pixel\n'
                  'stream read less than specified amount, expected 4, found 1',
 'truncated-207': 'EXC construct.core.StreamError:Error in path (parsing) -> '
                  'longitude_of_first_pixel\n'
                  'stream read less than specified amount, expected 4, found 3',
 'truncated-208': 'EXC construct.core.StreamError:Error in path (parsing) -> '
                  'longitude_of_center_pixel\n'
                  'stream read less than specified amount, expected 4, found 0',
 'truncated-209': 'EXC construct.core.StreamError:Error in path (parsing) -> '
                  'longitude_of_center_pixel\n'
                  'stream read less than specified amount, expected 4, found 1',
 'truncated-211': 'EXC construct.core.StreamError:Error in path (parsing) -> '
                  'longitude_of_center_pixel\n'
                  'stream read less than specified amount, expected 4, found 3',
 'truncated-212': 'EXC construct.core.StreamError:Error in path (parsing) -> '
                  'longitude_of_last_pixel\n'
                  'stream read less than specified amount, expected 4, found 0',
 'truncated-213': 'EXC construct.core.StreamError:Error in path (parsing) -> '
                  'longitude_of_last_pixel\n'
                  'stream read less than specified amount, expected 4, found 1',
 'truncated-215': 'EXC construct.core.StreamError:Error in path (parsing) -> '
                  'longitude_of_last_pixel\n'
                  'stream read less than specified amount, expected 4, found 3',
 'truncated-216': 'EXC construct.core.StreamError:Error in path (parsing) -> burst_number\n'
                  'stream read less than specified amount, expected 4, found 0',
 'truncated-217': 'EXC construct.core.StreamError:Error in path (parsing) -> burst_number\n'
                  'stream read less than specified amount, expected 4, found 1',
 'truncated-219': 'EXC construct.core.StreamError:Error in path (parsing) -> burst_number\n'
                  'stream read less than specified amount, expected 4, found 3',
 'truncated-220': 'EXC construct.core.StreamError:Error in path (parsing) -> '
                  'line_number_in_this_burst\n'
                  'stream read less than specified amount, expected 4, found 0',
 'truncated-221': 'EXC construct.core.StreamError:Error in path (parsing) -> '
                  'line_number_in_this_burst\n'
                  'stream read less than specified amount, expected 4, found 1',
 'truncated-223': 'EXC construct.core.StreamError:Error in path (parsing) -> '
                  'line_number_in_this_burst\n'
                  'stream read less than specified amount, expected 4, found 3',
 'truncated-224': 'EXC construct.core.StreamError:Error in path (parsing) -> blanks2\n'
                  'stream read less than specified amount, expected 60, found 0',
 'truncated-225': 'EXC construct.core.StreamError:Error in path (parsing) -> blanks2\n'
                  'stream read less than specified amount, expected 60, found 1',
 'truncated-283': 'EXC construct.core.StreamError:Error in path (parsing) -> blanks2\n'
                  'stream read less than specified amount, expected 60, found 59',
 'truncated-284': 'EXC construct.core.StreamError:Error in path (parsing) -> alos2_frame_number\n'
                  'stream read less than specified amount, expected 4, found 0',
 'truncated-285': 'EXC construct.core.StreamError:Error in path (parsing) -> alos2_frame_number\n'
                  'stream read less than specified amount, expected 4, found 1',
 'truncated-287': 'EXC construct.core.StreamError:Error in path (parsing) -> alos2_frame_number\n'
                  'stream read less than specified amount, expected 4, found 3',
 'truncated-288': 'EXC construct.core.StreamError:Error in path (parsing) -> '
                  'palsar_auxiliary_data\n'
                  'stream read less than specified amount, expected 256, found 0',
 'truncated-289': 'EXC construct.core.StreamError:Error in path (parsing) -> '
                  'palsar_auxiliary_data\n'
                  'stream read less than specified amount, expected 256, found 1',
 'truncated-543': 'EXC construct.core.StreamError:Error in path (parsing) -> '
                  'palsar_auxiliary_data\n'
                  'stream read less than specified amount, expected 256, found 255'}


def main():
    actual = {name: run(func) for name, func in cases.items()}
    if "--record" in sys.argv:
        pprint.pprint(actual, width=100, sort_dicts=False)
        return 0

    assert list(actual) == list(EXPECTED), "case list differs from the recorded one"
    failures = [name for name in actual if actual[name] != EXPECTED[name]]
    for name in failures:
        print(f"MISMATCH {name}\n  expected: {EXPECTED[name]}\n  actual:   {actual[name]}")
    assert not failures, failures

    again = {name: run(func) for name, func in cases.items()}
    assert again == EXPECTED, [name for name in again if again[name] != EXPECTED[name]]

    n_errors = sum(1 for value in actual.values() if value.startswith("EXC"))
    print(f"ok: {len(actual)} cases ({n_errors} of them failures), twice")
    return 0


def test_equivalence():
    assert main() == 0


if __name__ == "__main__":
    sys.exit(main())
