"""Equivalence checks for refactoring 1 (ceos_alos2/sar_image/caching/__init__.py).

Run as: cd /tmp/wt9/e73 && PYTHONPATH=/tmp/wt9/e73 /venv/bin/python _eq/1/equiv.py
All expectations were recorded from the unchanged code (HEAD).
"""

import json
import pathlib
import tempfile

import numpy as np

from ceos_alos2.hierarchy import Group, Variable
from ceos_alos2.sar_image import CachingError as ReexportedCachingError
from ceos_alos2.sar_image import caching
from ceos_alos2.sar_image.caching import (  # noqa: F401  (public names stay importable)
    CachingError,
    create_cache,
    decode,
    decode_hierarchy,
    encode,
    encode_hierarchy,
    local_cache_location,
    postprocess,
    preprocess,
    read_cache,
    remote_cache_location,
)

assert ReexportedCachingError is CachingError
assert CachingError.__mro__ == (CachingError, FileNotFoundError, OSError, Exception, BaseException, object)
assert CachingError.__name__ == "CachingError"
assert CachingError.__module__ == "ceos_alos2.sar_image.caching"


def outcome(func, *args, **kwargs):
    """result or a description of the exception, including the chaining"""
    try:
        return ("ok", func(*args, **kwargs))
    except BaseException as e:  # noqa: B036
        cause = e.__cause__
        context = e.__context__
        return (
            "raise",
            type(e).__name__,
            str(e),
            e.args,
            None if cause is None else (type(cause).__name__, str(cause)),
            e.__suppress_context__,
            context is cause,
        )


GROUP_JSON = json.dumps(
    {
        "__type__": "group",
        "url": "memory://root",
        "data": {
            "v": {
                "__type__": "variable",
                "dims": ["x"],
                "data": {"__type__": "array", "dtype": "int16", "data": [1, 2, 3], "encoding": {}},
                "attrs": {"a": {"__type__": "tuple", "data": [1, 2]}},
            },
            "g": {"__type__": "group", "url": None, "data": {}, "path": "ignored", "attrs": {}},
        },
        "path": "/",
        "attrs": {"n": 1},
    }
)
GROUP = Group(
    path="/",
    url="memory://root",
    data={
        "v": Variable(["x"], np.array([1, 2, 3], dtype="int16"), {"a": (1, 2)}),
        "g": Group(path=None, url=None, data={}, attrs={}),
    },
    attrs={"n": 1},
)

# ---------------------------------------------------------------- decode
res = outcome(decode, GROUP_JSON, records_per_chunk=2)
assert res[0] == "ok" and res[1] == GROUP and res[1]["g"].path == "/g", res
assert res[1]["g"].url == "memory://root"
assert res[1]["v"].data.dtype == np.dtype("int16")
assert outcome(decode, "{}", 2) == ("ok", {})
assert outcome(decode, '{"a": [1, {"__type__": "tuple", "data": [1, [2]]}]}', None) == (
    "ok",
    {"a": [1, (1, [2])]},
)

INVALID = "invalid or incomplete cache file"
expected_errors = {
    "not json": (
        "raise", "CachingError", INVALID, (INVALID,),
        ("JSONDecodeError", "Expecting value: line 1 column 1 (char 0)"), True, True,
    ),
    "": (
        "raise", "CachingError", INVALID, (INVALID,),
        ("JSONDecodeError", "Expecting value: line 1 column 1 (char 0)"), True, True,
    ),
    GROUP_JSON[:50]: (
        "raise", "CachingError", INVALID, (INVALID,),
        ("JSONDecodeError", "Unterminated string starting at: line 1 column 47 (char 46)"), True, True,
    ),
    GROUP_JSON + "x": (
        "raise", "CachingError", INVALID, (INVALID,),
        ("JSONDecodeError", "Extra data: line 1 column 358 (char 357)"), True, True,
    ),
    b"\xff\xfe\xfd": (
        "raise", "CachingError", INVALID, (INVALID,),
        ("UnicodeDecodeError", "'utf-16-le' codec can't decode byte 0xfd in position 2: truncated data"),
        True, True,
    ),
    # errors that are not ValueError are not translated
    '{"__type__": "tuple"}': ("raise", "KeyError", "'data'", ("data",), None, False, True),
    '{"__type__": "tuple", "data": 5}': (
        "raise", "TypeError", "'int' object is not iterable", ("'int' object is not iterable",),
        None, False, True,
    ),
    "3": (
        "raise", "AttributeError", "'int' object has no attribute 'get'",
        ("'int' object has no attribute 'get'",), None, False, True,
    ),
    "[]": (
        "raise", "AttributeError", "'list' object has no attribute 'get'",
        ("'list' object has no attribute 'get'",), None, False, True,
    ),
    '{"__type__": ["x"]}': (
        "raise", "TypeError", "unhashable type: 'list'", ("unhashable type: 'list'",), None, False, True,
    ),
    '{"__type__": "variable"}': ("raise", "KeyError", "'data'", ("data",), None, False, True),
}
for text, expected in expected_errors.items():
    actual = outcome(decode, text, records_per_chunk=2)
    assert actual == expected, (text, actual)

actual = outcome(decode, None, records_per_chunk=2)
assert actual[:2] == ("raise", "TypeError") and actual[4] is None, actual
assert actual[2] == "the JSON object must be str, bytes or bytearray, not NoneType", actual

# a ValueError raised while decoding the hierarchy (after parsing) is NOT translated
bad_dtype = json.dumps(
    {
        "__type__": "variable",
        "dims": ["x"],
        "data": {"__type__": "array", "dtype": "int16", "data": ["a"], "encoding": {}},
        "attrs": {},
    }
)
actual = outcome(decode, bad_dtype, records_per_chunk=2)
assert actual == (
    "raise", "ValueError", "invalid literal for int() with base 10: 'a'",
    ("invalid literal for int() with base 10: 'a'",), None, False, True,
), actual

# ---------------------------------------------------------------- read_cache
log = []


class LoggingMapper:
    def __init__(self, root, content):
        self.root = root
        self.content = content

    def __contains__(self, key):
        log.append(("contains", key))
        return key in self.content

    def __getitem__(self, key):
        log.append(("getitem", key))
        return self.content[key]


class RootlessMapper:
    def __contains__(self, key):
        log.append(("contains", key))
        return False


orig_is_file = pathlib.Path.is_file
orig_read_text = pathlib.Path.read_text


def logging_is_file(self):
    log.append(("is_file", self.name))
    return orig_is_file(self)


def logging_read_text(self, *args, **kwargs):
    log.append(("read_text", self.name, args, kwargs))
    return orig_read_text(self, *args, **kwargs)


OTHER_JSON = json.dumps({"__type__": "group", "url": "u", "data": {}, "path": "/p", "attrs": {"k": 2}})
OTHER = Group(path="/p", url="u", data={}, attrs={"k": 2})

with tempfile.TemporaryDirectory() as tmp:
    saved_root = caching.path.cache_root
    caching.path.cache_root = pathlib.Path(tmp)
    pathlib.Path.is_file = logging_is_file
    pathlib.Path.read_text = logging_read_text
    try:
        root = "memory://bucket"
        digest = caching.path.hashsum(root)
        local_dir = pathlib.Path(tmp) / digest
        local_dir.mkdir()
        (local_dir / "local_only.index").write_text(GROUP_JSON)
        (local_dir / "both.index").write_text(GROUP_JSON)
        (local_dir / "nested.index").write_text(OTHER_JSON)
        (local_dir / "broken_local.index").write_text("{")
        (local_dir / "directory.index").mkdir()
        (local_dir / "binary_local.index").write_bytes(b"\xff\xff")
        mapper = LoggingMapper(
            root,
            {
                "remote_only.index": OTHER_JSON.encode(),
                "both.index": OTHER_JSON.encode(),
                "broken_local.index": OTHER_JSON.encode(),
                "directory.index": OTHER_JSON.encode(),
                "sub/dir/remote.index": GROUP_JSON.encode(),
                "broken_remote.index": b'{"__type__": ',
                "binary_remote.index": b"\xff\xff",
                "str_remote.index": OTHER_JSON,
                "im{0}age.index": b"{}",
            },
        )

        def run(path, mapper=mapper, **kwargs):
            del log[:]
            res = outcome(read_cache, mapper, path, **kwargs)
            return res, list(log)

        res, calls = run("local_only", records_per_chunk=2)
        assert res == ("ok", GROUP), res
        assert calls == [("is_file", "local_only.index"), ("read_text", "local_only.index", (), {})], calls

        res, calls = run("both", records_per_chunk=2)
        assert res == ("ok", GROUP), res
        assert calls == [("is_file", "both.index"), ("read_text", "both.index", (), {})], calls

        # only the last path component selects the local file
        res, calls = run("sub/dir/nested", records_per_chunk=None)
        assert res == ("ok", OTHER), res
        assert calls == [("is_file", "nested.index"), ("read_text", "nested.index", (), {})], calls

        res, calls = run("remote_only", records_per_chunk=2)
        assert res == ("ok", OTHER), res
        assert calls == [
            ("is_file", "remote_only.index"),
            ("contains", "remote_only.index"),
            ("getitem", "remote_only.index"),
        ], calls

        res, calls = run("sub/dir/remote", records_per_chunk=2)
        assert res == ("ok", GROUP), res
        assert calls == [
            ("is_file", "remote.index"),
            ("contains", "sub/dir/remote.index"),
            ("getitem", "sub/dir/remote.index"),
        ], calls

        res, calls = run("directory", records_per_chunk=2)
        assert res == ("ok", OTHER), res
        assert calls == [
            ("is_file", "directory.index"),
            ("contains", "directory.index"),
            ("getitem", "directory.index"),
        ], calls

        res, calls = run("im{0}age", records_per_chunk=2)
        assert res == ("ok", {}), res

        # a broken local cache is reported, the remote one is not consulted
        res, calls = run("broken_local", records_per_chunk=2)
        assert res == (
            "raise", "CachingError", INVALID, (INVALID,),
            ("JSONDecodeError",
             "Expecting property name enclosed in double quotes: line 1 column 2 (char 1)"),
            True, True,
        ), res
        assert calls == [("is_file", "broken_local.index"), ("read_text", "broken_local.index", (), {})]

        res, calls = run("broken_remote", records_per_chunk=2)
        assert res == (
            "raise", "CachingError", INVALID, (INVALID,),
            ("JSONDecodeError", "Expecting value: line 1 column 14 (char 13)"), True, True,
        ), res
        assert calls == [
            ("is_file", "broken_remote.index"),
            ("contains", "broken_remote.index"),
            ("getitem", "broken_remote.index"),
        ], calls

        # undecodable bytes: not a CachingError on either side
        res, calls = run("binary_local", records_per_chunk=2)
        assert res[:2] == ("raise", "UnicodeDecodeError") and res[4] is None and res[5] is False, res
        res, calls = run("binary_remote", records_per_chunk=2)
        assert res[:2] == ("raise", "UnicodeDecodeError") and res[4] is None and res[5] is False, res
        assert calls[-1] == ("getitem", "binary_remote.index")

        res, calls = run("str_remote", records_per_chunk=2)
        assert res == (
            "raise", "AttributeError", "'str' object has no attribute 'decode'",
            ("'str' object has no attribute 'decode'",), None, False, True,
        ), res
        assert res[4] is None

        for missing in ["missing", "a/b/missing", "im{1}age", "", "x y"]:
            res, calls = run(missing, records_per_chunk=2)
            message = "no cache found for " + missing
            assert res == ("raise", "CachingError", message, (message,), None, False, True), res
            assert calls == [
                ("is_file", missing.rsplit("/", 1)[-1] + ".index"),
                ("contains", missing + ".index"),
            ], calls

        # records_per_chunk stays a required argument
        res, calls = run("local_only")
        assert res[:2] == ("raise", "TypeError") and "records_per_chunk" in res[2], res
        assert calls == [], calls

        # a mapper without root fails before any I/O
        res, calls = run("local_only", mapper=RootlessMapper(), records_per_chunk=2)
        assert res[:2] == ("raise", "AttributeError") and "root" in res[2], res
        assert calls == [], calls

        # ------------------------------------------------------------ create_cache
        pathlib.Path.is_file = orig_is_file
        pathlib.Path.read_text = orig_read_text
        other = LoggingMapper("memory://elsewhere", {})
        target = pathlib.Path(tmp) / caching.path.hashsum(other.root)
        assert not target.exists()
        assert outcome(create_cache, other, "a/b/new", GROUP) == ("ok", None)
        assert sorted(p.name for p in target.iterdir()) == ["new.index"]
        assert read_cache(other, "a/b/new", records_per_chunk=3) == GROUP
        assert json.loads((target / "new.index").read_text()) == json.loads(GROUP_JSON) | {
            "data": json.loads(GROUP_JSON)["data"]
            | {"g": {"__type__": "group", "url": "memory://root", "data": {}, "path": "/g", "attrs": {}}}
        }

        # the directory is created before encoding, nothing is written if encoding fails
        third = LoggingMapper("memory://third", {})
        target = pathlib.Path(tmp) / caching.path.hashsum(third.root)
        unserialisable = Group(path="/", url="u", data={}, attrs={"s": {1, 2}})
        res = outcome(create_cache, third, "image", unserialisable)
        assert res[:3] == ("raise", "TypeError", "Object of type set is not JSON serializable"), res
        assert target.is_dir() and list(target.iterdir()) == []
    finally:
        caching.path.cache_root = saved_root
        pathlib.Path.is_file = orig_is_file
        pathlib.Path.read_text = orig_read_text

print("equiv 1: OK")
