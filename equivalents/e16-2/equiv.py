"""Equivalence checks for refactoring 2 (ceos_alos2/dicttoolz.py).

Exercises ``valsplit``, ``keysplit``, ``dissoc``, ``copy_items``,
``move_items`` and ``key_exists`` (plus their users in the library). All
expected values were recorded from the unchanged code (HEAD); the script has to
pass both with and without ``patch.diff`` applied.

run with either of

    python _eq/2/equiv.py
    python -m pytest -q -p no:cacheprovider _eq/2/equiv.py
"""

import collections
import copy

import pytest

from ceos_alos2 import dicttoolz


def typed(obj):
    if isinstance(obj, dict):
        return (type(obj).__name__, [(k, typed(v)) for k, v in obj.items()])
    if isinstance(obj, (list, tuple)):
        return (type(obj).__name__, [typed(v) for v in obj])
    return (type(obj).__name__, repr(obj))


class MyDict(dict):
    pass


# ---------------------------------------------------------------- valsplit / keysplit


def test_valsplit():
    data = {"a": 1, "b": "x", "c": 2.5, "d": None, "e": 3}

    first, second = dicttoolz.valsplit(lambda v: isinstance(v, int), data)
    assert typed(first) == ("dict", [("a", ("int", "1")), ("e", ("int", "3"))])
    assert typed(second) == (
        "dict",
        [("b", ("str", "'x'")), ("c", ("float", "2.5")), ("d", ("NoneType", "None"))],
    )
    assert data == {"a": 1, "b": "x", "c": 2.5, "d": None, "e": 3}

    assert dicttoolz.valsplit(lambda v: True, data) == (data, {})
    assert dicttoolz.valsplit(lambda v: False, data) == ({}, data)
    assert dicttoolz.valsplit(lambda v: True, {}) == ({}, {})

    result = dicttoolz.valsplit(callable, MyDict(a=len, b=1))
    assert type(result) is tuple
    assert typed(result[1]) == ("dict", [("b", ("int", "1"))])
    assert list(result[0]) == ["a"] and type(result[0]) is dict


def test_keysplit():
    data = {"spare1": 1, "b": 2, "spare2": 3, 4: 5}

    first, second = dicttoolz.keysplit(lambda k: str(k).startswith("spare"), data)
    assert typed(first) == ("dict", [("spare1", ("int", "1")), ("spare2", ("int", "3"))])
    assert typed(second) == ("dict", [("b", ("int", "2")), (4, ("int", "5"))])

    # the predicate receives exactly the key / the value, once per item and in order
    calls = []

    def record(x):
        calls.append(x)
        return True

    dicttoolz.keysplit(record, data)
    assert calls == ["spare1", "b", "spare2", 4]
    calls.clear()
    dicttoolz.valsplit(record, data)
    assert calls == [1, 2, 3, 5]


def test_split_non_boolean_predicates():
    # the groups are looked up by `True` / `False`: `1` / `0` / `1.0` are equal to
    # these, any other truthy / falsy value is dropped
    data = {"a": 1, "b": 0, "c": 2, "d": "", "e": 1.0, "f": None, "g": True, "h": False}

    first, second = dicttoolz.valsplit(lambda v: v, data)
    assert typed(first) == (
        "dict",
        [("a", ("int", "1")), ("e", ("float", "1.0")), ("g", ("bool", "True"))],
    )
    assert typed(second) == ("dict", [("b", ("int", "0")), ("h", ("bool", "False"))])

    first, second = dicttoolz.keysplit(lambda k: k, {1: "a", 0: "b", 2: "c", "": "d"})
    assert typed(first) == ("dict", [(1, ("str", "'a'"))])
    assert typed(second) == ("dict", [(0, ("str", "'b'"))])


def test_split_errors():
    with pytest.raises(TypeError) as excinfo:
        dicttoolz.valsplit(lambda v: [v], {"a": 1})
    assert str(excinfo.value) == "unhashable type: 'list'"

    with pytest.raises(TypeError) as excinfo:
        dicttoolz.keysplit("a", {"a": 1})
    assert str(excinfo.value) == "'str' object is not callable"

    with pytest.raises(TypeError) as excinfo:
        dicttoolz.valsplit(None, {"a": 1})
    assert str(excinfo.value) == "'NoneType' object is not callable"

    # nothing to call
    assert dicttoolz.valsplit(None, {}) == ({}, {})

    with pytest.raises(AttributeError) as excinfo:
        dicttoolz.keysplit(bool, [("a", 1)])
    assert str(excinfo.value) == "'list' object has no attribute 'items'"

    with pytest.raises(ZeroDivisionError):
        dicttoolz.valsplit(lambda v: 1 / v, {"a": 1, "b": 0})


# ---------------------------------------------------------------- dissoc


def test_dissoc():
    data = {"a": 1, "b": 2, "c": 3, 4: 5}

    for keys in (["a", "c"], ("a", "c"), {"a", "c"}, {"a": 0, "c": 0}, iter(["a", "c"])):
        expected = ("dict", [("b", ("int", "2")), (4, ("int", "5"))])
        if not isinstance(keys, (list, tuple, set, dict)):
            # an iterator is consumed by the membership tests
            expected = ("dict", [("b", ("int", "2")), ("c", ("int", "3")), (4, ("int", "5"))])
        assert typed(dicttoolz.dissoc(keys, data)) == expected
    assert data == {"a": 1, "b": 2, "c": 3, 4: 5}

    assert typed(dicttoolz.dissoc([], data)) == typed(data)
    assert dicttoolz.dissoc([], data) is not data
    assert typed(dicttoolz.dissoc(["z"], data)) == typed(data)
    assert typed(dicttoolz.dissoc(["a"], {})) == ("dict", [])
    assert typed(dicttoolz.dissoc(["a"], MyDict(a=1, b=2))) == ("dict", [("b", ("int", "2"))])
    # substring semantics if the keys are given as a string
    assert typed(dicttoolz.dissoc("abc", {"a": 1, "bc": 2, "ac": 3, "d": 4})) == (
        "dict",
        [("ac", ("int", "3")), ("d", ("int", "4"))],
    )
    # values are passed through
    value = [1]
    assert dicttoolz.dissoc(["a"], {"a": 1, "b": value})["b"] is value


def test_dissoc_errors():
    with pytest.raises(TypeError) as excinfo:
        dicttoolz.dissoc(None, {"a": 1})
    assert str(excinfo.value) == "argument of type 'NoneType' is not iterable"

    assert dicttoolz.dissoc(None, {}) == {}

    with pytest.raises(TypeError) as excinfo:
        dicttoolz.dissoc("ab", {1: 1})
    assert str(excinfo.value) == "'in <string>' requires string as left operand, not int"

    with pytest.raises(AttributeError) as excinfo:
        dicttoolz.dissoc(["a"], [("a", 1)])
    assert str(excinfo.value) == "'list' object has no attribute 'items'"


# ---------------------------------------------------------------- copy_items


def make_mapping():
    return {"a": 1, "b": {"c": 2, "d": {"e": [1, 2]}}, "f": None}


@pytest.mark.parametrize(
    ["instructions", "expected"],
    (
        ({}, {"a": 1, "b": {"c": 2, "d": {"e": [1, 2]}}, "f": None}),
        ({("x",): ["a"]}, {"a": 1, "b": {"c": 2, "d": {"e": [1, 2]}}, "f": None, "x": 1}),
        (
            {("b", "x"): ["a"]},
            {"a": 1, "b": {"c": 2, "d": {"e": [1, 2]}, "x": 1}, "f": None},
        ),
        (
            {("x", "y", "z"): ("b", "d", "e")},
            {
                "a": 1,
                "b": {"c": 2, "d": {"e": [1, 2]}},
                "f": None,
                "x": {"y": {"z": [1, 2]}},
            },
        ),
        # index into a list
        (
            {("x",): ["b", "d", "e", 1]},
            {"a": 1, "b": {"c": 2, "d": {"e": [1, 2]}}, "f": None, "x": 2},
        ),
        # missing sources: key, index, subscripting a scalar
        ({("x",): ["z"]}, {"a": 1, "b": {"c": 2, "d": {"e": [1, 2]}}, "f": None}),
        ({("x",): ["b", "d", "e", 5]}, {"a": 1, "b": {"c": 2, "d": {"e": [1, 2]}}, "f": None}),
        ({("x",): ["a", "q"]}, {"a": 1, "b": {"c": 2, "d": {"e": [1, 2]}}, "f": None}),
        # a `None` value is copied
        ({("x",): ["f"]}, {"a": 1, "b": {"c": 2, "d": {"e": [1, 2]}}, "f": None, "x": None}),
        # overwriting, string destinations (one key per character), empty source
        ({("a",): ["b", "c"]}, {"a": 2, "b": {"c": 2, "d": {"e": [1, 2]}}, "f": None}),
        (
            {"xy": ["a"]},
            {"a": 1, "b": {"c": 2, "d": {"e": [1, 2]}}, "f": None, "x": {"y": 1}},
        ),
        # every lookup uses the original mapping, results accumulate
        (
            {("x",): ["a"], ("y",): ["x"], ("b", "c"): ["a"], ("z",): ["b", "c"]},
            {"a": 1, "b": {"c": 1, "d": {"e": [1, 2]}}, "f": None, "x": 1, "z": 2},
        ),
    ),
)
def test_copy_items(instructions, expected):
    mapping = make_mapping()
    backup = copy.deepcopy(mapping)

    actual = dicttoolz.copy_items(instructions, mapping)

    assert typed(actual) == typed(expected)
    assert mapping == backup


def test_copy_items_identity():
    mapping = make_mapping()
    assert dicttoolz.copy_items({}, mapping) is mapping
    assert dicttoolz.copy_items({("x",): ["missing"]}, mapping) is mapping

    actual = dicttoolz.copy_items({("x",): ["b", "d", "e"]}, mapping)
    assert actual is not mapping
    # shallow: the copied value and the untouched branches are shared
    assert actual["x"] is mapping["b"]["d"]["e"]
    assert actual["b"] is mapping["b"]

    # empty source path: the whole mapping
    actual = dicttoolz.copy_items({("x",): []}, mapping)
    assert actual["x"] is mapping
    assert list(actual) == ["a", "b", "f", "x"]


def test_copy_items_errors():
    with pytest.raises(AttributeError) as excinfo:
        dicttoolz.copy_items([(("x",), ["a"])], {"a": 1})
    assert str(excinfo.value) == "'list' object has no attribute 'items'"

    # a non-iterable source is a failed lookup (`get_in` swallows the `TypeError`)
    mapping = {"a": 1}
    assert dicttoolz.copy_items({("x",): 1}, mapping) is mapping

    with pytest.raises(TypeError) as excinfo:
        # destination is not iterable
        dicttoolz.copy_items({1: ["a"]}, {"a": 1})
    assert str(excinfo.value) == "'int' object is not iterable"

    # subscripting `None` is a failed lookup, too
    assert dicttoolz.copy_items({("x",): ["a"]}, None) is None

    class Broken(dict):
        def __getitem__(self, key):
            raise RuntimeError(f"broken: {key}")

    with pytest.raises(RuntimeError) as excinfo:
        dicttoolz.copy_items({("x",): ["a"]}, Broken(a=1))
    assert str(excinfo.value) == "broken: a"


# ---------------------------------------------------------------- move_items


@pytest.mark.parametrize(
    ["instructions", "expected"],
    (
        ({}, {"a": 1, "b": {"c": 2, "d": {"e": [1, 2]}}, "f": None}),
        ({("x",): ["a"]}, {"b": {"c": 2, "d": {"e": [1, 2]}}, "f": None, "x": 1}),
        ({("b", "x"): ["a"]}, {"b": {"c": 2, "d": {"e": [1, 2]}, "x": 1}, "f": None}),
        (
            {("x", "y"): ("b", "d", "e")},
            {"a": 1, "b": {"c": 2, "d": {}}, "f": None, "x": {"y": [1, 2]}},
        ),
        ({("x",): ["z"]}, {"a": 1, "b": {"c": 2, "d": {"e": [1, 2]}}, "f": None}),
        ({("x",): ["z", "y"]}, {"a": 1, "b": {"c": 2, "d": {"e": [1, 2]}}, "f": None}),
        ({("x",): ["b", "z"]}, {"a": 1, "b": {"c": 2, "d": {"e": [1, 2]}}, "f": None}),
        # moving onto itself removes the item
        ({("a",): ["a"]}, {"b": {"c": 2, "d": {"e": [1, 2]}}, "f": None}),
        # move into the moved branch
        ({("b", "d", "g"): ["b", "c"]}, {"a": 1, "b": {"d": {"e": [1, 2], "g": 2}}, "f": None}),
        (
            {("x",): ["b", "c"], ("y",): ["b", "d"], ("z",): ["f"]},
            {"a": 1, "b": {}, "x": 2, "y": {"e": [1, 2]}, "z": None},
        ),
        # same source twice
        (
            {("x",): ["a"], ("y",): ["a"]},
            {"b": {"c": 2, "d": {"e": [1, 2]}}, "f": None, "x": 1, "y": 1},
        ),
    ),
)
def test_move_items(instructions, expected):
    mapping = make_mapping()
    backup = copy.deepcopy(mapping)

    actual = dicttoolz.move_items(instructions, mapping)

    assert typed(actual) == typed(expected)
    assert mapping == backup
    # always a deep copy
    assert actual is not mapping
    assert actual["b"] is not mapping["b"]


def test_move_items_list_parents():
    # `list.pop(index, None)` is not valid: popping from a list parent fails
    with pytest.raises(TypeError) as excinfo:
        dicttoolz.move_items({("x",): ["b", "d", "e", 1]}, make_mapping())
    assert "pop expected at most 1 argument, got 2" in str(excinfo.value)

    # scalar parents do not have `pop`
    with pytest.raises(AttributeError) as excinfo:
        dicttoolz.move_items({("x",): ["a", "q"], ("y",): ["a"]}, {"a": 1})
    assert str(excinfo.value) == "'int' object has no attribute 'pop'"


def test_move_items_errors():
    with pytest.raises(ValueError) as excinfo:
        dicttoolz.move_items({("x",): []}, {"a": 1})
    assert "not enough values to unpack (expected at least 1, got 0)" in str(excinfo.value)

    with pytest.raises(AttributeError) as excinfo:
        dicttoolz.move_items([], {"a": 1})
    assert str(excinfo.value) == "'list' object has no attribute 'items'"

    # string sources: one key per character
    assert dicttoolz.move_items({("x",): "ab"}, {"a": {"b": 1, "c": 2}}) == {"a": {"c": 2}, "x": 1}


# ---------------------------------------------------------------- key_exists


@pytest.mark.parametrize(
    ["key", "expected"],
    (
        ("a", True),
        ("z", False),
        ("b.c", True),
        ("b.d.e", True),
        ("b.d.e.f", False),
        ("a.b", False),
        ("b.", False),
        (".", True),
        ("", True),
        ("..", False),
        ("f", True),
        ("g.h", False),
        (["g.h"], True),
        (["a"], True),
        (["b", "d", "e"], True),
        (["b", "d", "e", 0], True),
        (["b", "d", "e", 2], False),
        (["a", "b"], False),
        ([], True),
        (("b", "c"), False),
        (("a",), False),
        (("k", 1), True),
        (frozenset(["a"]), False),
    ),
)
def test_key_exists(key, expected):
    mapping = {
        "a": 1,
        "b": {"c": 2, "d": {"e": [1, 2]}},
        "f": None,
        "g.h": 1,
        ("k", 1): 0,
        "": {"": 1},
    }

    actual = dicttoolz.key_exists(key, mapping)
    assert actual is expected


def test_key_exists_empty_components():
    assert dicttoolz.key_exists(".", {"": {"": 1}}) is True
    assert dicttoolz.key_exists("a.", {"a": {"": 1}}) is True
    assert dicttoolz.key_exists("a", []) is False
    assert dicttoolz.key_exists("0", ["a"]) is False
    assert dicttoolz.key_exists([0], ["a"]) is True
    assert dicttoolz.key_exists("a", None) is False


def test_key_exists_errors():
    with pytest.raises(TypeError) as excinfo:
        dicttoolz.key_exists(1, {1: 1})
    assert str(excinfo.value) == "argument of type 'int' is not iterable"

    with pytest.raises(TypeError) as excinfo:
        dicttoolz.key_exists(None, {})
    assert str(excinfo.value) == "argument of type 'NoneType' is not iterable"

    with pytest.raises(AttributeError) as excinfo:
        dicttoolz.key_exists(["a", "."], {"a": {".": 1}})
    assert str(excinfo.value) == "'list' object has no attribute 'split'"

    with pytest.raises(AttributeError) as excinfo:
        dicttoolz.key_exists(("a", "."), {})
    assert str(excinfo.value) == "'tuple' object has no attribute 'split'"

    with pytest.raises(TypeError) as excinfo:
        dicttoolz.key_exists(b"a.b", {})
    assert "a bytes-like object is required, not 'str'" in str(excinfo.value)


# ---------------------------------------------------------------- users


def test_users_decoders_and_testing():
    # `valsplit` is used to separate the failed lookups while decoding file names
    import datetime

    from ceos_alos2 import decoders

    actual = decoders.decode_filename("IMG-HH-ALOS2225333200-180726-WBDR1.1__D-B4")
    expected = {
        "filetype": "IMG",
        "polarization": "HH",
        "mission_name": "ALOS2",
        "orbit_accumulation": "22533",
        "scene_frame": "3200",
        "date": datetime.datetime(2018, 7, 26, 0, 0),
        "observation_mode": "ScanSAR nominal 14MHz mode dual polarization",
        "observation_direction": "right looking",
        "processing_level": "level 1.1",
        "processing_option": "not specified",
        "map_projection": "not specified",
        "orbit_direction": "descending",
        "processing_method": "SPECAN method",
        "scan_number": "4",
    }
    assert actual == expected
    assert list(actual) == list(expected)

    actual = decoders.decode_filename("LED-ALOS2225333200-180726-UBSR1.5GUA")
    expected = {
        "filetype": "LED",
        "polarization": None,
        "mission_name": "ALOS2",
        "orbit_accumulation": "22533",
        "scene_frame": "3200",
        "date": datetime.datetime(2018, 7, 26, 0, 0),
        "observation_mode": "ultra-fine mode single polarization",
        "observation_direction": "right looking",
        "processing_level": "level 1.5",
        "processing_option": "geo-code",
        "map_projection": "UTM",
        "orbit_direction": "ascending",
    }
    assert actual == expected
    assert list(actual) == list(expected)

    with pytest.raises(ValueError) as excinfo:
        decoders.decode_filename("IMG-HH-ALOS2225333200-180726")
    assert str(excinfo.value) == "invalid file name: IMG-HH-ALOS2225333200-180726"


def test_users_attitude_and_platform_position():
    # `copy_items` / `move_items` with the instruction tables used by the library
    mapping = {
        "preamble": {"x": 1},
        "number_of_attitude_data_points": 2,
        "data_points": {"time": {"day_of_year": [1, 2], "millisecond_of_day": [3, 4]}},
    }
    instructions = {("data_points", "count"): ["number_of_attitude_data_points"]}
    assert dicttoolz.copy_items(instructions, mapping) == {
        "preamble": {"x": 1},
        "number_of_attitude_data_points": 2,
        "data_points": {
            "time": {"day_of_year": [1, 2], "millisecond_of_day": [3, 4]},
            "count": 2,
        },
    }

    instructions = {
        ("positions", "datetime"): ["datetime"],
        ("positions", "interval"): ["interval"],
        ("orbital_elements",): ["platform", "elements"],
    }
    mapping = collections.OrderedDict(
        datetime="2020", interval=60.0, platform={"elements": (1, 2), "k": 0}, positions={"p": []}
    )
    actual = dicttoolz.move_items(instructions, mapping)
    # `assoc_in` always creates plain dicts
    assert type(actual) is dict
    assert actual == {
        "platform": {"k": 0},
        "positions": {"p": [], "datetime": "2020", "interval": 60.0},
        "orbital_elements": (1, 2),
    }
    assert list(actual) == ["platform", "positions", "orbital_elements"]


if __name__ == "__main__":
    import sys

    sys.exit(pytest.main(["-q", "-p", "no:cacheprovider", __file__]))
