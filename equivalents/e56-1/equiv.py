"""Equivalence check for refactoring 1 (ceos_alos2/datatypes.py class hierarchy).

Run as ``python equiv.py`` (or through pytest).  ``python equiv.py --record``
prints the observations as a dict literal; EXPECTED below was recorded that
way from the UNCHANGED code.
"""

import datetime
import pprint
import sys

from construct import Adapter, Bytes, GreedyBytes, Int8ub, Int16ub, Int32ub, Int64ub, Struct, this

from ceos_alos2 import datatypes


def observe(func, *args, **kwargs):
    try:
        result = func(*args, **kwargs)
    except Exception as e:  # noqa: BLE001
        return f"raised {type(e).__module__}.{type(e).__qualname__}: {e}"
    return f"{type(result).__module__}.{type(result).__qualname__}: {result!r}"


def collect():
    obs = {}

    def add(key, func, *args, **kwargs):
        assert key not in obs, key
        obs[key] = observe(func, *args, **kwargs)

    # --- AsciiInteger
    int_cases = [
        (2, b"15"),
        (4, b"3989"),
        (4, b"  16"),
        (4, b"16  "),
        (4, b" 16 "),
        (4, b"    "),
        (4, b"\x00\x00\x00\x00"),
        (4, b"12\x00\x00"),
        (4, b"\t7\n "),
        (4, b"-12 "),
        (4, b" +5 "),
        (4, b"1_0 "),
        (4, b"0007"),
        (4, b"1.5 "),
        (4, b"abcd"),
        (4, b"1 2 "),
        (4, b"\xff\xfe12"),
        (4, b"12"),
        (4, b""),
        (4, b"123456"),
        (0, b""),
        (1, b"7"),
        (8, b"  123456"),
        (16, b"9999999999999999"),
    ]
    for n, data in int_cases:
        add(f"int/{n}/{data!r}", datatypes.AsciiInteger(n).parse, data)
    for n in (0, 1, 4, 16):
        add(f"int/sizeof/{n}", datatypes.AsciiInteger(n).sizeof)
        add(f"int/build/{n}", datatypes.AsciiInteger(n).build, 1)
        add(f"int/build-none/{n}", datatypes.AsciiInteger(n).build, None)
    add("int/bad-size", lambda: datatypes.AsciiInteger("a"))
    add("int/negative-size", lambda: datatypes.AsciiInteger(-1).parse(b""))

    # --- AsciiFloat
    float_cases = [
        (8, b"1558.423"),
        (8, b" 165.820"),
        (8, b"165.820 "),
        (8, b"        "),
        (8, b"\x00" * 8),
        (8, b"1.5\x00\x00\x00\x00\x00"),
        (16, b"162436598487.832"),
        (16, b"     6598487.832"),
        (8, b"   1e5  "),
        (8, b" -1.5E-3"),
        (8, b"     nan"),
        (8, b"    -inf"),
        (8, b"Infinity"),
        (8, b"     1,5"),
        (8, b" 1.5 2.5"),
        (8, b"  1_0.5 "),
        (8, b"abcdefgh"),
        (8, b"\xc3\xa9      "),
        (8, b"1.5"),
        (0, b""),
        (1, b"3"),
    ]
    for n, data in float_cases:
        add(f"float/{n}/{data!r}", datatypes.AsciiFloat(n).parse, data)
    for n in (0, 8, 16):
        add(f"float/sizeof/{n}", datatypes.AsciiFloat(n).sizeof)
        add(f"float/build/{n}", datatypes.AsciiFloat(n).build, 1.5)

    # --- AsciiComplex
    complex_cases = [
        (8, b"1.558.42"),
        (8, b"        "),
        (8, b"1.5     "),
        (8, b"    2.5 "),
        (16, b"162.3659487.8321"),
        (16, b" 62.3659 87.8321"),
        (9, b"1.558.42"),
        (9, b"1.558.42X"),
        (8, b"abcd1.50"),
        (8, b"1.50abcd"),
        (8, b"1.5"),
        (1, b""),
        (0, b""),
        (32, b"  -1.0000000E+00   2.5000000E-01"),
    ]
    for n, data in complex_cases:
        add(f"complex/{n}/{data!r}", datatypes.AsciiComplex(n).parse, data)
    for n in (0, 8, 9, 32):
        add(f"complex/sizeof/{n}", datatypes.AsciiComplex(n).sizeof)
        add(f"complex/build/{n}", datatypes.AsciiComplex(n).build, 1 + 2j)

    # --- PaddedString
    string_cases = [
        (4, b"abcd"),
        (4, b" ab "),
        (4, b"    "),
        (4, b"ab\x00\x00"),
        (4, b"\x00\x00ab"),
        (4, b"a\x00b "),
        (4, b"\ta\n\r"),
        (4, b"a  b"),
        (4, b"\xe9abc"),
        (4, b"ab"),
        (0, b""),
        (12, b"CEOS-SAR    "),
    ]
    for n, data in string_cases:
        add(f"string/{n}/{data!r}", datatypes.PaddedString(n).parse, data)
    for n in (0, 4, 12):
        add(f"string/sizeof/{n}", datatypes.PaddedString(n).sizeof)
        add(f"string/build/{n}", datatypes.PaddedString(n).build, "ab")

    # --- Factor
    factor_cases = [
        (Int8ub, 2, b"\x03"),
        (Int8ub, 1e-3, b"\xff"),
        (Int32ub, 1e-6, b"\x00\x0f\x42\x40"),
        (Int32ub, 1e-6, b"\xff\xff\xff\xff"),
        (Int16ub, -1, b"\x00\x10"),
        (Int16ub, 0, b"\x00\x10"),
        (Int16ub, 1j, b"\x00\x10"),
        (Int16ub, "ab", b"\x00\x02"),
        (Int16ub, None, b"\x00\x02"),
        (Bytes(2), 2, b"ab"),
        (Bytes(2), 1.5, b"ab"),
        (Int32ub, 1e-3, b"\x00\x00"),
    ]
    for i, (base, factor, data) in enumerate(factor_cases):
        parser = datatypes.Factor(base, factor)
        add(f"factor/{i}/parse", parser.parse, data)
        add(f"factor/{i}/attr", lambda parser=parser: parser.factor)
        add(f"factor/{i}/subcon", lambda parser=parser, base=base: parser.subcon is base)
        add(f"factor/{i}/sizeof", parser.sizeof)
        add(f"factor/{i}/build", parser.build, 2)
    add("factor/keyword", lambda: datatypes.Factor(Int8ub, factor=3).parse(b"\x02"))
    add("factor/missing", lambda: datatypes.Factor(Int8ub))

    # --- Metadata
    metadata_cases = [
        (Int8ub, {}, b"\x01"),
        (Int8ub, {"units": "m"}, b"\x01"),
        (Int32ub, {"units": "deg", "long_name": "angle", "n": 3}, b"\x00\x00\x00\x05"),
        (Bytes(3), {"a": [1, 2]}, b"abc"),
        (datatypes.Factor(Int32ub, 1e-6), {"units": "deg"}, b"\x00\x0f\x42\x40"),
        (Int32ub, {"units": "m"}, b"\x00"),
    ]
    for i, (base, attrs, data) in enumerate(metadata_cases):
        parser = datatypes.Metadata(base, **attrs)
        add(f"metadata/{i}/parse", parser.parse, data)
        add(f"metadata/{i}/attrs", lambda parser=parser: parser.attrs)
        add(f"metadata/{i}/subcon", lambda parser=parser, base=base: parser.subcon is base)
        add(f"metadata/{i}/sizeof", parser.sizeof)
        add(f"metadata/{i}/build", parser.build, (1, attrs))
    parser = datatypes.Metadata(Int8ub, units="m")
    add("metadata/shared-attrs", lambda: parser.parse(b"\x01")[1] is parser.attrs)
    add("metadata/positional", lambda: datatypes.Metadata(Int8ub, {"units": "m"}))

    # --- StripNullBytes
    strip_cases = [
        (Bytes(4), b"\x00\x00\x00\x00"),
        (Bytes(4), b"ab\x00\x00"),
        (Bytes(4), b"\x00ab\x00"),
        (Bytes(4), b"a\x00\x00b"),
        (Bytes(4), b"    "),
        (Bytes(0), b""),
        (Bytes(4), b"ab"),
        (GreedyBytes, b"\x00\x00xyz\x00"),
        (Int8ub, b"\x00"),
        (datatypes.PaddedString(4), b"ab  "),
    ]
    for i, (base, data) in enumerate(strip_cases):
        parser = datatypes.StripNullBytes(base)
        add(f"strip/{i}/parse", parser.parse, data)
        add(f"strip/{i}/sizeof", parser.sizeof)
        add(f"strip/{i}/build", parser.build, b"ab")

    # --- DatetimeYdms
    ydms_base = Struct("year" / Int32ub, "day_of_year" / Int32ub, "milliseconds" / Int32ub)

    def pack(*values):
        return b"".join(int(v).to_bytes(4, "big") for v in values)

    ydms_cases = [
        (2020, 1, 0),
        (2020, 366, 86399999),
        (2019, 366, 0),
        (2014, 200, 12345678),
        (1, 1, 0),
        (0, 1, 0),
        (9999, 365, 86399999),
        (9999, 366, 0),
        (10000, 1, 0),
        (2020, 0, 0),
        (2020, 1, 4294967295),
        (2020, 4294967295, 0),
        (1, 0, 0),
    ]
    for values in ydms_cases:
        parser = datatypes.DatetimeYdms(ydms_base)
        add(f"ydms/{values}", parser.parse, pack(*values))
    add("ydms/sizeof", datatypes.DatetimeYdms(ydms_base).sizeof)
    add("ydms/build", datatypes.DatetimeYdms(ydms_base).build, datetime.datetime(2020, 1, 1))
    add("ydms/short", datatypes.DatetimeYdms(ydms_base).parse, pack(2020, 1))
    add(
        "ydms/missing-key",
        datatypes.DatetimeYdms(Struct("year" / Int32ub, "day_of_year" / Int32ub)).parse,
        pack(2020, 1),
    )

    # --- DatetimeYdus
    references = [
        datetime.datetime(2020, 10, 1, 12, 30, 15, 250),
        datetime.datetime(2020, 10, 1),
        datetime.datetime(1, 1, 1, 23, 59, 59),
        datetime.datetime(9999, 12, 31, 1),
        datetime.datetime(2020, 10, 1, 12, tzinfo=datetime.timezone.utc),
        datetime.date(2020, 10, 1),
        None,
        "2020-10-01",
    ]
    offsets = [0, 1, 86399999999, 86400000000, 45015000250, 2**63, 2**64 - 1]
    for i, reference in enumerate(references):
        for offset in offsets:
            data = offset.to_bytes(8, "big")
            add(f"ydus/const/{i}/{offset}", datatypes.DatetimeYdus(Int64ub, reference).parse, data)
            add(
                f"ydus/lambda/{i}/{offset}",
                datatypes.DatetimeYdus(Int64ub, lambda ctx, reference=reference: reference).parse,
                data,
            )
    parser = datatypes.DatetimeYdus(Int64ub, datetime.datetime(2020, 1, 1))
    add("ydus/attr", lambda: parser.reference_date)
    add("ydus/subcon", lambda: parser.subcon is Int64ub)
    add("ydus/sizeof", parser.sizeof)
    add("ydus/build", parser.build, datetime.datetime(2020, 1, 1))
    add("ydus/short", parser.parse, b"\x00")
    add("ydus/missing", lambda: datatypes.DatetimeYdus(Int64ub))

    record = Struct(
        "date" / datatypes.DatetimeYdms(ydms_base),
        "micro" / datatypes.DatetimeYdus(Int64ub, this.date),
        "other" / datatypes.DatetimeYdus(Int32ub, this.missing),
    )
    add(
        "ydus/this",
        record.parse,
        pack(2020, 32, 3600000) + (3600000123).to_bytes(8, "big") + b"\x00\x00\x00\x01",
    )
    record = Struct(
        "date" / datatypes.DatetimeYdms(ydms_base),
        "micro" / datatypes.DatetimeYdus(Int64ub, this.date),
    )
    add("ydus/this-ok", record.parse, pack(2020, 32, 3600000) + (3600000123).to_bytes(8, "big"))
    add("ydus/this-ok/sizeof", record.sizeof)

    # --- composition, as used by the record definitions
    record = Struct(
        "n" / datatypes.AsciiInteger(4),
        "x" / datatypes.AsciiFloat(8),
        "z" / datatypes.AsciiComplex(16),
        "name" / datatypes.PaddedString(6),
        "angle" / datatypes.Metadata(datatypes.Factor(Int32ub, 1e-6), units="deg"),
        "spare" / datatypes.StripNullBytes(Bytes(4)),
        "items" / datatypes.AsciiInteger(2)[this.n],
    )
    good = b"   2" + b"  1.5e2 " + b"     1.0    -2.0 " [:16] + b"ALOS2 " + b"\x00\x0f\x42\x40" + b"\x00a\x00\x00" + b" 1 2"
    add("struct/good", record.parse, good)
    add("struct/sizeof", record.sizeof)
    add("struct/blank-count", record.parse, b"    " + good[4:])
    add("struct/bad-int", record.parse, b"  xx" + good[4:])
    add("struct/bad-float", record.parse, good[:4] + b"  1.5x2 " + good[12:])
    add("struct/short", record.parse, good[:-1])
    add("struct/build", record.build, dict(n=1))
    add("struct/array-sizeof", datatypes.AsciiInteger(2)[3].sizeof)

    # --- public class relations that callers may rely on
    names = [
        "AsciiInteger",
        "AsciiFloat",
        "AsciiComplex",
        "PaddedString",
        "Factor",
        "Metadata",
        "StripNullBytes",
        "DatetimeYdms",
        "DatetimeYdus",
    ]
    for name in names:
        cls = getattr(datatypes, name)
        add(f"class/{name}/adapter", lambda cls=cls: issubclass(cls, Adapter))
        add(f"class/{name}/name", lambda cls=cls: (cls.__module__, cls.__qualname__))
        siblings = [other for other in names if other != name]
        add(
            f"class/{name}/unrelated",
            lambda cls=cls, siblings=siblings: [
                other for other in siblings if issubclass(cls, getattr(datatypes, other))
            ],
        )
    add("module/PaddedString_", lambda: datatypes.PaddedString_.__name__)
    add("repr/int", lambda: repr(datatypes.AsciiInteger(4)))
    add("repr/renamed", lambda: repr("a" / datatypes.Metadata(Int8ub, units="m")))

    return obs


EXPECTED = {"int/2/b'15'": 'builtins.int: 15',
 "int/4/b'3989'": 'builtins.int: 3989',
 "int/4/b'  16'": 'builtins.int: 16',
 "int/4/b'16  '": 'builtins.int: 16',
 "int/4/b' 16 '": 'builtins.int: 16',
 "int/4/b'    '": 'builtins.int: -1',
 "int/4/b'\\x00\\x00\\x00\\x00'": 'builtins.int: -1',
 "int/4/b'12\\x00\\x00'": 'builtins.int: 12',
 "int/4/b'\\t7\\n '": 'builtins.int: 7',
 "int/4/b'-12 '": 'builtins.int: -12',
 "int/4/b' +5 '": 'builtins.int: 5',
 "int/4/b'1_0 '": 'builtins.int: 10',
 "int/4/b'0007'": 'builtins.int: 7',
 "int/4/b'1.5 '": "raised builtins.ValueError: invalid literal for int() with base 10: '1.5'",
 "int/4/b'abcd'": "raised builtins.ValueError: invalid literal for int() with base 10: 'abcd'",
 "int/4/b'1 2 '": "raised builtins.ValueError: invalid literal for int() with base 10: '1 2'",
 "int/4/b'\\xff\\xfe12'": "raised construct.core.StringError: cannot use encoding 'ascii' to decode b'\\xff\\xfe12'",
 "int/4/b'12'": 'raised construct.core.StreamError: Error in path (parsing)\n'
                'stream read less than specified amount, expected 4, found 2',
 "int/4/b''": 'raised construct.core.StreamError: Error in path (parsing)\n'
              'stream read less than specified amount, expected 4, found 0',
 "int/4/b'123456'": 'builtins.int: 1234',
 "int/0/b''": 'builtins.int: -1',
 "int/1/b'7'": 'builtins.int: 7',
 "int/8/b'  123456'": 'builtins.int: 123456',
 "int/16/b'9999999999999999'": 'builtins.int: 9999999999999999',
 'int/sizeof/0': 'builtins.int: 0',
 'int/build/0': 'raised builtins.NotImplementedError: ',
 'int/build-none/0': 'raised builtins.NotImplementedError: ',
 'int/sizeof/1': 'builtins.int: 1',
 'int/build/1': 'raised builtins.NotImplementedError: ',
 'int/build-none/1': 'raised builtins.NotImplementedError: ',
 'int/sizeof/4': 'builtins.int: 4',
 'int/build/4': 'raised builtins.NotImplementedError: ',
 'int/build-none/4': 'raised builtins.NotImplementedError: ',
 'int/sizeof/16': 'builtins.int: 16',
 'int/build/16': 'raised builtins.NotImplementedError: ',
 'int/build-none/16': 'raised builtins.NotImplementedError: ',
 'int/bad-size': 'ceos_alos2.datatypes.AsciiInteger: <AsciiInteger <StringEncoded <FixedSized <NullStripped '
                 '<GreedyBytes>>>>>',
 'int/negative-size': 'raised construct.core.PaddingError: Error in path (parsing)\nlength cannot be negative',
 "float/8/b'1558.423'": 'builtins.float: 1558.423',
 "float/8/b' 165.820'": 'builtins.float: 165.82',
 "float/8/b'165.820 '": 'builtins.float: 165.82',
 "float/8/b'        '": 'builtins.float: nan',
 "float/8/b'\\x00\\x00\\x00\\x00\\x00\\x00\\x00\\x00'": 'builtins.float: nan',
 "float/8/b'1.5\\x00\\x00\\x00\\x00\\x00'": 'builtins.float: 1.5',
 "float/16/b'162436598487.832'": 'builtins.float: 162436598487.832',
 "float/16/b'     6598487.832'": 'builtins.float: 6598487.832',
 "float/8/b'   1e5  '": 'builtins.float: 100000.0',
 "float/8/b' -1.5E-3'": 'builtins.float: -0.0015',
 "float/8/b'     nan'": 'builtins.float: nan',
 "float/8/b'    -inf'": 'builtins.float: -inf',
 "float/8/b'Infinity'": 'builtins.float: inf',
 "float/8/b'     1,5'": "raised builtins.ValueError: could not convert string to float: '1,5'",
 "float/8/b' 1.5 2.5'": "raised builtins.ValueError: could not convert string to float: '1.5 2.5'",
 "float/8/b'  1_0.5 '": 'builtins.float: 10.5',
 "float/8/b'abcdefgh'": "raised builtins.ValueError: could not convert string to float: 'abcdefgh'",
 "float/8/b'\\xc3\\xa9      '": "raised construct.core.StringError: cannot use encoding 'ascii' to decode "
                                "b'\\xc3\\xa9      '",
 "float/8/b'1.5'": 'raised construct.core.StreamError: Error in path (parsing)\n'
                   'stream read less than specified amount, expected 8, found 3',
 "float/0/b''": 'builtins.float: nan',
 "float/1/b'3'": 'builtins.float: 3.0',
 'float/sizeof/0': 'builtins.int: 0',
 'float/build/0': 'raised builtins.NotImplementedError: ',
 'float/sizeof/8': 'builtins.int: 8',
 'float/build/8': 'raised builtins.NotImplementedError: ',
 'float/sizeof/16': 'builtins.int: 16',
 'float/build/16': 'raised builtins.NotImplementedError: ',
 "complex/8/b'1.558.42'": 'builtins.complex: (1.55+8.42j)',
 "complex/8/b'        '": 'builtins.complex: (nan+nanj)',
 "complex/8/b'1.5     '": 'builtins.complex: (nan+nanj)',
 "complex/8/b'    2.5 '": 'builtins.complex: (nan+2.5j)',
 "complex/16/b'162.3659487.8321'": 'builtins.complex: (162.3659+487.8321j)',
 "complex/16/b' 62.3659 87.8321'": 'builtins.complex: (62.3659+87.8321j)',
 "complex/9/b'1.558.42'": 'builtins.complex: (1.55+8.42j)',
 "complex/9/b'1.558.42X'": 'builtins.complex: (1.55+8.42j)',
 "complex/8/b'abcd1.50'": "raised builtins.ValueError: could not convert string to float: 'abcd'",
 "complex/8/b'1.50abcd'": "raised builtins.ValueError: could not convert string to float: 'abcd'",
 "complex/8/b'1.5'": 'raised construct.core.StreamError: Error in path (parsing) -> real\n'
                     'stream read less than specified amount, expected 4, found 3',
 "complex/1/b''": 'builtins.complex: (nan+nanj)',
 "complex/0/b''": 'builtins.complex: (nan+nanj)',
 "complex/32/b'  -1.0000000E+00   2.5000000E-01'": 'builtins.complex: (-1+0.25j)',
 'complex/sizeof/0': 'builtins.int: 0',
 'complex/build/0': 'raised builtins.NotImplementedError: ',
 'complex/sizeof/8': 'builtins.int: 8',
 'complex/build/8': 'raised builtins.NotImplementedError: ',
 'complex/sizeof/9': 'builtins.int: 8',
 'complex/build/9': 'raised builtins.NotImplementedError: ',
 'complex/sizeof/32': 'builtins.int: 32',
 'complex/build/32': 'raised builtins.NotImplementedError: ',
 "string/4/b'abcd'": "builtins.str: 'abcd'",
 "string/4/b' ab '": "builtins.str: 'ab'",
 "string/4/b'    '": "builtins.str: ''",
 "string/4/b'ab\\x00\\x00'": "builtins.str: 'ab'",
 "string/4/b'\\x00\\x00ab'": "builtins.str: '\\x00\\x00ab'",
 "string/4/b'a\\x00b '": "builtins.str: 'a\\x00b'",
 "string/4/b'\\ta\\n\\r'": "builtins.str: 'a'",
 "string/4/b'a  b'": "builtins.str: 'a  b'",
 "string/4/b'\\xe9abc'": "raised construct.core.StringError: cannot use encoding 'ascii' to decode b'\\xe9abc'",
 "string/4/b'ab'": 'raised construct.core.StreamError: Error in path (parsing)\n'
                   'stream read less than specified amount, expected 4, found 2',
 "string/0/b''": "builtins.str: ''",
 "string/12/b'CEOS-SAR    '": "builtins.str: 'CEOS-SAR'",
 'string/sizeof/0': 'builtins.int: 0',
 'string/build/0': 'raised builtins.NotImplementedError: ',
 'string/sizeof/4': 'builtins.int: 4',
 'string/build/4': 'raised builtins.NotImplementedError: ',
 'string/sizeof/12': 'builtins.int: 12',
 'string/build/12': 'raised builtins.NotImplementedError: ',
 'factor/0/parse': 'builtins.int: 6',
 'factor/0/attr': 'builtins.int: 2',
 'factor/0/subcon': 'builtins.bool: True',
 'factor/0/sizeof': 'builtins.int: 1',
 'factor/0/build': 'raised builtins.NotImplementedError: ',
 'factor/1/parse': 'builtins.float: 0.255',
 'factor/1/attr': 'builtins.float: 0.001',
 'factor/1/subcon': 'builtins.bool: True',
 'factor/1/sizeof': 'builtins.int: 1',
 'factor/1/build': 'raised builtins.NotImplementedError: ',
 'factor/2/parse': 'builtins.float: 1.0',
 'factor/2/attr': 'builtins.float: 1e-06',
 'factor/2/subcon': 'builtins.bool: True',
 'factor/2/sizeof': 'builtins.int: 4',
 'factor/2/build': 'raised builtins.NotImplementedError: ',
 'factor/3/parse': 'builtins.float: 4294.9672949999995',
 'factor/3/attr': 'builtins.float: 1e-06',
 'factor/3/subcon': 'builtins.bool: True',
 'factor/3/sizeof': 'builtins.int: 4',
 'factor/3/build': 'raised builtins.NotImplementedError: ',
 'factor/4/parse': 'builtins.int: -16',
 'factor/4/attr': 'builtins.int: -1',
 'factor/4/subcon': 'builtins.bool: True',
 'factor/4/sizeof': 'builtins.int: 2',
 'factor/4/build': 'raised builtins.NotImplementedError: ',
 'factor/5/parse': 'builtins.int: 0',
 'factor/5/attr': 'builtins.int: 0',
 'factor/5/subcon': 'builtins.bool: True',
 'factor/5/sizeof': 'builtins.int: 2',
 'factor/5/build': 'raised builtins.NotImplementedError: ',
 'factor/6/parse': 'builtins.complex: 16j',
 'factor/6/attr': 'builtins.complex: 1j',
 'factor/6/subcon': 'builtins.bool: True',
 'factor/6/sizeof': 'builtins.int: 2',
 'factor/6/build': 'raised builtins.NotImplementedError: ',
 'factor/7/parse': "builtins.str: 'abab'",
 'factor/7/attr': "builtins.str: 'ab'",
 'factor/7/subcon': 'builtins.bool: True',
 'factor/7/sizeof': 'builtins.int: 2',
 'factor/7/build': 'raised builtins.NotImplementedError: ',
 'factor/8/parse': "raised builtins.TypeError: unsupported operand type(s) for *: 'int' and 'NoneType'",
 'factor/8/attr': 'builtins.NoneType: None',
 'factor/8/subcon': 'builtins.bool: True',
 'factor/8/sizeof': 'builtins.int: 2',
 'factor/8/build': 'raised builtins.NotImplementedError: ',
 'factor/9/parse': "builtins.bytes: b'abab'",
 'factor/9/attr': 'builtins.int: 2',
 'factor/9/subcon': 'builtins.bool: True',
 'factor/9/sizeof': 'builtins.int: 2',
 'factor/9/build': 'raised builtins.NotImplementedError: ',
 'factor/10/parse': "raised builtins.TypeError: can't multiply sequence by non-int of type 'float'",
 'factor/10/attr': 'builtins.float: 1.5',
 'factor/10/subcon': 'builtins.bool: True',
 'factor/10/sizeof': 'builtins.int: 2',
 'factor/10/build': 'raised builtins.NotImplementedError: ',
 'factor/11/parse': 'raised construct.core.StreamError: Error in path (parsing)\n'
                    'stream read less than specified amount, expected 4, found 2',
 'factor/11/attr': 'builtins.float: 0.001',
 'factor/11/subcon': 'builtins.bool: True',
 'factor/11/sizeof': 'builtins.int: 4',
 'factor/11/build': 'raised builtins.NotImplementedError: ',
 'factor/keyword': 'builtins.int: 6',
 'factor/missing': "raised builtins.TypeError: Factor.__init__() missing 1 required positional argument: 'factor'",
 'metadata/0/parse': 'builtins.tuple: (1, {})',
 'metadata/0/attrs': 'builtins.dict: {}',
 'metadata/0/subcon': 'builtins.bool: True',
 'metadata/0/sizeof': 'builtins.int: 1',
 'metadata/0/build': 'raised builtins.NotImplementedError: ',
 'metadata/1/parse': "builtins.tuple: (1, {'units': 'm'})",
 'metadata/1/attrs': "builtins.dict: {'units': 'm'}",
 'metadata/1/subcon': 'builtins.bool: True',
 'metadata/1/sizeof': 'builtins.int: 1',
 'metadata/1/build': 'raised builtins.NotImplementedError: ',
 'metadata/2/parse': "builtins.tuple: (5, {'units': 'deg', 'long_name': 'angle', 'n': 3})",
 'metadata/2/attrs': "builtins.dict: {'units': 'deg', 'long_name': 'angle', 'n': 3}",
 'metadata/2/subcon': 'builtins.bool: True',
 'metadata/2/sizeof': 'builtins.int: 4',
 'metadata/2/build': 'raised builtins.NotImplementedError: ',
 'metadata/3/parse': "builtins.tuple: (b'abc', {'a': [1, 2]})",
 'metadata/3/attrs': "builtins.dict: {'a': [1, 2]}",
 'metadata/3/subcon': 'builtins.bool: True',
 'metadata/3/sizeof': 'builtins.int: 3',
 'metadata/3/build': 'raised builtins.NotImplementedError: ',
 'metadata/4/parse': "builtins.tuple: (1.0, {'units': 'deg'})",
 'metadata/4/attrs': "builtins.dict: {'units': 'deg'}",
 'metadata/4/subcon': 'builtins.bool: True',
 'metadata/4/sizeof': 'builtins.int: 4',
 'metadata/4/build': 'raised builtins.NotImplementedError: ',
 'metadata/5/parse': 'raised construct.core.StreamError: Error in path (parsing)\n'
                     'stream read less than specified amount, expected 4, found 1',
 'metadata/5/attrs': "builtins.dict: {'units': 'm'}",
 'metadata/5/subcon': 'builtins.bool: True',
 'metadata/5/sizeof': 'builtins.int: 4',
 'metadata/5/build': 'raised builtins.NotImplementedError: ',
 'metadata/shared-attrs': 'builtins.bool: True',
 'metadata/positional': 'raised builtins.TypeError: Metadata.__init__() takes 2 positional arguments but 3 were given',
 'strip/0/parse': "builtins.bytes: b''",
 'strip/0/sizeof': 'builtins.int: 4',
 'strip/0/build': 'raised builtins.NotImplementedError: ',
 'strip/1/parse': "builtins.bytes: b'ab'",
 'strip/1/sizeof': 'builtins.int: 4',
 'strip/1/build': 'raised builtins.NotImplementedError: ',
 'strip/2/parse': "builtins.bytes: b'ab'",
 'strip/2/sizeof': 'builtins.int: 4',
 'strip/2/build': 'raised builtins.NotImplementedError: ',
 'strip/3/parse': "builtins.bytes: b'a\\x00\\x00b'",
 'strip/3/sizeof': 'builtins.int: 4',
 'strip/3/build': 'raised builtins.NotImplementedError: ',
 'strip/4/parse': "builtins.bytes: b'    '",
 'strip/4/sizeof': 'builtins.int: 4',
 'strip/4/build': 'raised builtins.NotImplementedError: ',
 'strip/5/parse': "builtins.bytes: b''",
 'strip/5/sizeof': 'builtins.int: 0',
 'strip/5/build': 'raised builtins.NotImplementedError: ',
 'strip/6/parse': 'raised construct.core.StreamError: Error in path (parsing)\n'
                  'stream read less than specified amount, expected 4, found 2',
 'strip/6/sizeof': 'builtins.int: 4',
 'strip/6/build': 'raised builtins.NotImplementedError: ',
 'strip/7/parse': "builtins.bytes: b'xyz'",
 'strip/7/sizeof': 'raised construct.core.SizeofError: Error in path (sizeof)\n',
 'strip/7/build': 'raised builtins.NotImplementedError: ',
 'strip/8/parse': "raised builtins.AttributeError: 'int' object has no attribute 'strip'",
 'strip/8/sizeof': 'builtins.int: 1',
 'strip/8/build': 'raised builtins.NotImplementedError: ',
 'strip/9/parse': 'raised builtins.TypeError: strip arg must be None or str',
 'strip/9/sizeof': 'builtins.int: 4',
 'strip/9/build': 'raised builtins.NotImplementedError: ',
 'ydms/(2020, 1, 0)': 'datetime.datetime: datetime.datetime(2020, 1, 1, 0, 0)',
 'ydms/(2020, 366, 86399999)': 'datetime.datetime: datetime.datetime(2020, 12, 31, 23, 59, 59, 999000)',
 'ydms/(2019, 366, 0)': 'datetime.datetime: datetime.datetime(2020, 1, 1, 0, 0)',
 'ydms/(2014, 200, 12345678)': 'datetime.datetime: datetime.datetime(2014, 7, 19, 3, 25, 45, 678000)',
 'ydms/(1, 1, 0)': 'datetime.datetime: datetime.datetime(1, 1, 1, 0, 0)',
 'ydms/(0, 1, 0)': 'raised builtins.ValueError: year 0 is out of range',
 'ydms/(9999, 365, 86399999)': 'datetime.datetime: datetime.datetime(9999, 12, 31, 23, 59, 59, 999000)',
 'ydms/(9999, 366, 0)': 'raised builtins.OverflowError: date value out of range',
 'ydms/(10000, 1, 0)': 'raised builtins.ValueError: year 10000 is out of range',
 'ydms/(2020, 0, 0)': 'datetime.datetime: datetime.datetime(2019, 12, 31, 0, 0)',
 'ydms/(2020, 1, 4294967295)': 'datetime.datetime: datetime.datetime(2020, 2, 19, 17, 2, 47, 295000)',
 'ydms/(2020, 4294967295, 0)': 'raised builtins.OverflowError: Python int too large to convert to C int',
 'ydms/(1, 0, 0)': 'raised builtins.OverflowError: date value out of range',
 'ydms/sizeof': 'builtins.int: 12',
 'ydms/build': 'raised builtins.NotImplementedError: ',
 'ydms/short': 'raised construct.core.StreamError: Error in path (parsing) -> milliseconds\n'
               'stream read less than specified amount, expected 4, found 0',
 'ydms/missing-key': "raised builtins.KeyError: 'milliseconds'",
 'ydus/const/0/0': 'datetime.datetime: datetime.datetime(2020, 10, 1, 0, 0)',
 'ydus/lambda/0/0': 'datetime.datetime: datetime.datetime(2020, 10, 1, 0, 0)',
 'ydus/const/0/1': 'datetime.datetime: datetime.datetime(2020, 10, 1, 0, 0, 0, 1)',
 'ydus/lambda/0/1': 'datetime.datetime: datetime.datetime(2020, 10, 1, 0, 0, 0, 1)',
 'ydus/const/0/86399999999': 'datetime.datetime: datetime.datetime(2020, 10, 1, 23, 59, 59, 999999)',
 'ydus/lambda/0/86399999999': 'datetime.datetime: datetime.datetime(2020, 10, 1, 23, 59, 59, 999999)',
 'ydus/const/0/86400000000': 'datetime.datetime: datetime.datetime(2020, 10, 2, 0, 0)',
 'ydus/lambda/0/86400000000': 'datetime.datetime: datetime.datetime(2020, 10, 2, 0, 0)',
 'ydus/const/0/45015000250': 'datetime.datetime: datetime.datetime(2020, 10, 1, 12, 30, 15, 250)',
 'ydus/lambda/0/45015000250': 'datetime.datetime: datetime.datetime(2020, 10, 1, 12, 30, 15, 250)',
 'ydus/const/0/9223372036854775808': 'raised builtins.OverflowError: date value out of range',
 'ydus/lambda/0/9223372036854775808': 'raised builtins.OverflowError: date value out of range',
 'ydus/const/0/18446744073709551615': 'raised builtins.OverflowError: date value out of range',
 'ydus/lambda/0/18446744073709551615': 'raised builtins.OverflowError: date value out of range',
 'ydus/const/1/0': 'datetime.datetime: datetime.datetime(2020, 10, 1, 0, 0)',
 'ydus/lambda/1/0': 'datetime.datetime: datetime.datetime(2020, 10, 1, 0, 0)',
 'ydus/const/1/1': 'datetime.datetime: datetime.datetime(2020, 10, 1, 0, 0, 0, 1)',
 'ydus/lambda/1/1': 'datetime.datetime: datetime.datetime(2020, 10, 1, 0, 0, 0, 1)',
 'ydus/const/1/86399999999': 'datetime.datetime: datetime.datetime(2020, 10, 1, 23, 59, 59, 999999)',
 'ydus/lambda/1/86399999999': 'datetime.datetime: datetime.datetime(2020, 10, 1, 23, 59, 59, 999999)',
 'ydus/const/1/86400000000': 'datetime.datetime: datetime.datetime(2020, 10, 2, 0, 0)',
 'ydus/lambda/1/86400000000': 'datetime.datetime: datetime.datetime(2020, 10, 2, 0, 0)',
 'ydus/const/1/45015000250': 'datetime.datetime: datetime.datetime(2020, 10, 1, 12, 30, 15, 250)',
 'ydus/lambda/1/45015000250': 'datetime.datetime: datetime.datetime(2020, 10, 1, 12, 30, 15, 250)',
 'ydus/const/1/9223372036854775808': 'raised builtins.OverflowError: date value out of range',
 'ydus/lambda/1/9223372036854775808': 'raised builtins.OverflowError: date value out of range',
 'ydus/const/1/18446744073709551615': 'raised builtins.OverflowError: date value out of range',
 'ydus/lambda/1/18446744073709551615': 'raised builtins.OverflowError: date value out of range',
 'ydus/const/2/0': 'datetime.datetime: datetime.datetime(1, 1, 1, 0, 0)',
 'ydus/lambda/2/0': 'datetime.datetime: datetime.datetime(1, 1, 1, 0, 0)',
 'ydus/const/2/1': 'datetime.datetime: datetime.datetime(1, 1, 1, 0, 0, 0, 1)',
 'ydus/lambda/2/1': 'datetime.datetime: datetime.datetime(1, 1, 1, 0, 0, 0, 1)',
 'ydus/const/2/86399999999': 'datetime.datetime: datetime.datetime(1, 1, 1, 23, 59, 59, 999999)',
 'ydus/lambda/2/86399999999': 'datetime.datetime: datetime.datetime(1, 1, 1, 23, 59, 59, 999999)',
 'ydus/const/2/86400000000': 'datetime.datetime: datetime.datetime(1, 1, 2, 0, 0)',
 'ydus/lambda/2/86400000000': 'datetime.datetime: datetime.datetime(1, 1, 2, 0, 0)',
 'ydus/const/2/45015000250': 'datetime.datetime: datetime.datetime(1, 1, 1, 12, 30, 15, 250)',
 'ydus/lambda/2/45015000250': 'datetime.datetime: datetime.datetime(1, 1, 1, 12, 30, 15, 250)',
 'ydus/const/2/9223372036854775808': 'raised builtins.OverflowError: date value out of range',
 'ydus/lambda/2/9223372036854775808': 'raised builtins.OverflowError: date value out of range',
 'ydus/const/2/18446744073709551615': 'raised builtins.OverflowError: date value out of range',
 'ydus/lambda/2/18446744073709551615': 'raised builtins.OverflowError: date value out of range',
 'ydus/const/3/0': 'datetime.datetime: datetime.datetime(9999, 12, 31, 0, 0)',
 'ydus/lambda/3/0': 'datetime.datetime: datetime.datetime(9999, 12, 31, 0, 0)',
 'ydus/const/3/1': 'datetime.datetime: datetime.datetime(9999, 12, 31, 0, 0, 0, 1)',
 'ydus/lambda/3/1': 'datetime.datetime: datetime.datetime(9999, 12, 31, 0, 0, 0, 1)',
 'ydus/const/3/86399999999': 'datetime.datetime: datetime.datetime(9999, 12, 31, 23, 59, 59, 999999)',
 'ydus/lambda/3/86399999999': 'datetime.datetime: datetime.datetime(9999, 12, 31, 23, 59, 59, 999999)',
 'ydus/const/3/86400000000': 'raised builtins.OverflowError: date value out of range',
 'ydus/lambda/3/86400000000': 'raised builtins.OverflowError: date value out of range',
 'ydus/const/3/45015000250': 'datetime.datetime: datetime.datetime(9999, 12, 31, 12, 30, 15, 250)',
 'ydus/lambda/3/45015000250': 'datetime.datetime: datetime.datetime(9999, 12, 31, 12, 30, 15, 250)',
 'ydus/const/3/9223372036854775808': 'raised builtins.OverflowError: date value out of range',
 'ydus/lambda/3/9223372036854775808': 'raised builtins.OverflowError: date value out of range',
 'ydus/const/3/18446744073709551615': 'raised builtins.OverflowError: date value out of range',
 'ydus/lambda/3/18446744073709551615': 'raised builtins.OverflowError: date value out of range',
 'ydus/const/4/0': 'datetime.datetime: datetime.datetime(2020, 10, 1, 0, 0)',
 'ydus/lambda/4/0': 'datetime.datetime: datetime.datetime(2020, 10, 1, 0, 0)',
 'ydus/const/4/1': 'datetime.datetime: datetime.datetime(2020, 10, 1, 0, 0, 0, 1)',
 'ydus/lambda/4/1': 'datetime.datetime: datetime.datetime(2020, 10, 1, 0, 0, 0, 1)',
 'ydus/const/4/86399999999': 'datetime.datetime: datetime.datetime(2020, 10, 1, 23, 59, 59, 999999)',
 'ydus/lambda/4/86399999999': 'datetime.datetime: datetime.datetime(2020, 10, 1, 23, 59, 59, 999999)',
 'ydus/const/4/86400000000': 'datetime.datetime: datetime.datetime(2020, 10, 2, 0, 0)',
 'ydus/lambda/4/86400000000': 'datetime.datetime: datetime.datetime(2020, 10, 2, 0, 0)',
 'ydus/const/4/45015000250': 'datetime.datetime: datetime.datetime(2020, 10, 1, 12, 30, 15, 250)',
 'ydus/lambda/4/45015000250': 'datetime.datetime: datetime.datetime(2020, 10, 1, 12, 30, 15, 250)',
 'ydus/const/4/9223372036854775808': 'raised builtins.OverflowError: date value out of range',
 'ydus/lambda/4/9223372036854775808': 'raised builtins.OverflowError: date value out of range',
 'ydus/const/4/18446744073709551615': 'raised builtins.OverflowError: date value out of range',
 'ydus/lambda/4/18446744073709551615': 'raised builtins.OverflowError: date value out of range',
 'ydus/const/5/0': "raised builtins.AttributeError: 'datetime.date' object has no attribute 'date'",
 'ydus/lambda/5/0': "raised builtins.AttributeError: 'datetime.date' object has no attribute 'date'",
 'ydus/const/5/1': "raised builtins.AttributeError: 'datetime.date' object has no attribute 'date'",
 'ydus/lambda/5/1': "raised builtins.AttributeError: 'datetime.date' object has no attribute 'date'",
 'ydus/const/5/86399999999': "raised builtins.AttributeError: 'datetime.date' object has no attribute 'date'",
 'ydus/lambda/5/86399999999': "raised builtins.AttributeError: 'datetime.date' object has no attribute 'date'",
 'ydus/const/5/86400000000': "raised builtins.AttributeError: 'datetime.date' object has no attribute 'date'",
 'ydus/lambda/5/86400000000': "raised builtins.AttributeError: 'datetime.date' object has no attribute 'date'",
 'ydus/const/5/45015000250': "raised builtins.AttributeError: 'datetime.date' object has no attribute 'date'",
 'ydus/lambda/5/45015000250': "raised builtins.AttributeError: 'datetime.date' object has no attribute 'date'",
 'ydus/const/5/9223372036854775808': "raised builtins.AttributeError: 'datetime.date' object has no attribute 'date'",
 'ydus/lambda/5/9223372036854775808': "raised builtins.AttributeError: 'datetime.date' object has no attribute 'date'",
 'ydus/const/5/18446744073709551615': "raised builtins.AttributeError: 'datetime.date' object has no attribute 'date'",
 'ydus/lambda/5/18446744073709551615': "raised builtins.AttributeError: 'datetime.date' object has no attribute 'date'",
 'ydus/const/6/0': "raised builtins.AttributeError: 'NoneType' object has no attribute 'date'",
 'ydus/lambda/6/0': "raised builtins.AttributeError: 'NoneType' object has no attribute 'date'",
 'ydus/const/6/1': "raised builtins.AttributeError: 'NoneType' object has no attribute 'date'",
 'ydus/lambda/6/1': "raised builtins.AttributeError: 'NoneType' object has no attribute 'date'",
 'ydus/const/6/86399999999': "raised builtins.AttributeError: 'NoneType' object has no attribute 'date'",
 'ydus/lambda/6/86399999999': "raised builtins.AttributeError: 'NoneType' object has no attribute 'date'",
 'ydus/const/6/86400000000': "raised builtins.AttributeError: 'NoneType' object has no attribute 'date'",
 'ydus/lambda/6/86400000000': "raised builtins.AttributeError: 'NoneType' object has no attribute 'date'",
 'ydus/const/6/45015000250': "raised builtins.AttributeError: 'NoneType' object has no attribute 'date'",
 'ydus/lambda/6/45015000250': "raised builtins.AttributeError: 'NoneType' object has no attribute 'date'",
 'ydus/const/6/9223372036854775808': "raised builtins.AttributeError: 'NoneType' object has no attribute 'date'",
 'ydus/lambda/6/9223372036854775808': "raised builtins.AttributeError: 'NoneType' object has no attribute 'date'",
 'ydus/const/6/18446744073709551615': "raised builtins.AttributeError: 'NoneType' object has no attribute 'date'",
 'ydus/lambda/6/18446744073709551615': "raised builtins.AttributeError: 'NoneType' object has no attribute 'date'",
 'ydus/const/7/0': "raised builtins.AttributeError: 'str' object has no attribute 'date'",
 'ydus/lambda/7/0': "raised builtins.AttributeError: 'str' object has no attribute 'date'",
 'ydus/const/7/1': "raised builtins.AttributeError: 'str' object has no attribute 'date'",
 'ydus/lambda/7/1': "raised builtins.AttributeError: 'str' object has no attribute 'date'",
 'ydus/const/7/86399999999': "raised builtins.AttributeError: 'str' object has no attribute 'date'",
 'ydus/lambda/7/86399999999': "raised builtins.AttributeError: 'str' object has no attribute 'date'",
 'ydus/const/7/86400000000': "raised builtins.AttributeError: 'str' object has no attribute 'date'",
 'ydus/lambda/7/86400000000': "raised builtins.AttributeError: 'str' object has no attribute 'date'",
 'ydus/const/7/45015000250': "raised builtins.AttributeError: 'str' object has no attribute 'date'",
 'ydus/lambda/7/45015000250': "raised builtins.AttributeError: 'str' object has no attribute 'date'",
 'ydus/const/7/9223372036854775808': "raised builtins.AttributeError: 'str' object has no attribute 'date'",
 'ydus/lambda/7/9223372036854775808': "raised builtins.AttributeError: 'str' object has no attribute 'date'",
 'ydus/const/7/18446744073709551615': "raised builtins.AttributeError: 'str' object has no attribute 'date'",
 'ydus/lambda/7/18446744073709551615': "raised builtins.AttributeError: 'str' object has no attribute 'date'",
 'ydus/attr': 'datetime.datetime: datetime.datetime(2020, 1, 1, 0, 0)',
 'ydus/subcon': 'builtins.bool: True',
 'ydus/sizeof': 'builtins.int: 8',
 'ydus/build': 'raised builtins.NotImplementedError: ',
 'ydus/short': 'raised construct.core.StreamError: Error in path (parsing)\n'
               'stream read less than specified amount, expected 8, found 1',
 'ydus/missing': 'raised builtins.TypeError: DatetimeYdus.__init__() missing 1 required positional argument: '
                 "'reference_date'",
 'ydus/this': "raised builtins.KeyError: 'missing'",
 'ydus/this-ok': 'construct.lib.containers.Container: Container(date=datetime.datetime(2020, 2, 1, 1, 0), '
                 'micro=datetime.datetime(2020, 2, 1, 1, 0, 0, 123))',
 'ydus/this-ok/sizeof': 'builtins.int: 20',
 'struct/good': "construct.lib.containers.Container: Container(n=2, x=150.0, z=(1-2j), name=u'ALOS2', angle=(1.0, "
                "{'units': 'deg'}), spare=b'a', items=ListContainer([1, 2]))",
 'struct/sizeof': 'raised construct.core.SizeofError: Error in path (sizeof) -> items\n'
                  'cannot calculate size, key not found in context',
 'struct/blank-count': 'raised construct.core.RangeError: Error in path (parsing) -> items\ninvalid count -1',
 'struct/bad-int': "raised builtins.ValueError: invalid literal for int() with base 10: 'xx'",
 'struct/bad-float': "raised builtins.ValueError: could not convert string to float: '1.5x2'",
 'struct/short': 'raised construct.core.StreamError: Error in path (parsing) -> items\n'
                 'stream read less than specified amount, expected 2, found 1',
 'struct/build': 'raised builtins.NotImplementedError: ',
 'struct/array-sizeof': 'builtins.int: 6',
 'class/AsciiInteger/adapter': 'builtins.bool: True',
 'class/AsciiInteger/name': "builtins.tuple: ('ceos_alos2.datatypes', 'AsciiInteger')",
 'class/AsciiInteger/unrelated': 'builtins.list: []',
 'class/AsciiFloat/adapter': 'builtins.bool: True',
 'class/AsciiFloat/name': "builtins.tuple: ('ceos_alos2.datatypes', 'AsciiFloat')",
 'class/AsciiFloat/unrelated': 'builtins.list: []',
 'class/AsciiComplex/adapter': 'builtins.bool: True',
 'class/AsciiComplex/name': "builtins.tuple: ('ceos_alos2.datatypes', 'AsciiComplex')",
 'class/AsciiComplex/unrelated': 'builtins.list: []',
 'class/PaddedString/adapter': 'builtins.bool: True',
 'class/PaddedString/name': "builtins.tuple: ('ceos_alos2.datatypes', 'PaddedString')",
 'class/PaddedString/unrelated': 'builtins.list: []',
 'class/Factor/adapter': 'builtins.bool: True',
 'class/Factor/name': "builtins.tuple: ('ceos_alos2.datatypes', 'Factor')",
 'class/Factor/unrelated': 'builtins.list: []',
 'class/Metadata/adapter': 'builtins.bool: True',
 'class/Metadata/name': "builtins.tuple: ('ceos_alos2.datatypes', 'Metadata')",
 'class/Metadata/unrelated': 'builtins.list: []',
 'class/StripNullBytes/adapter': 'builtins.bool: True',
 'class/StripNullBytes/name': "builtins.tuple: ('ceos_alos2.datatypes', 'StripNullBytes')",
 'class/StripNullBytes/unrelated': 'builtins.list: []',
 'class/DatetimeYdms/adapter': 'builtins.bool: True',
 'class/DatetimeYdms/name': "builtins.tuple: ('ceos_alos2.datatypes', 'DatetimeYdms')",
 'class/DatetimeYdms/unrelated': 'builtins.list: []',
 'class/DatetimeYdus/adapter': 'builtins.bool: True',
 'class/DatetimeYdus/name': "builtins.tuple: ('ceos_alos2.datatypes', 'DatetimeYdus')",
 'class/DatetimeYdus/unrelated': 'builtins.list: []',
 'module/PaddedString_': "builtins.str: 'PaddedString'",
 'repr/int': "builtins.str: '<AsciiInteger <StringEncoded <FixedSized <NullStripped <GreedyBytes>>>>>'",
 'repr/renamed': "builtins.str: '<Renamed a <Metadata <FormatField>>>'"}  # @@EXPECTED@@


def test_equivalence():
    actual = collect()
    assert sorted(actual) == sorted(EXPECTED)
    mismatches = {k: (actual[k], EXPECTED[k]) for k in EXPECTED if actual[k] != EXPECTED[k]}
    assert not mismatches, pprint.pformat(mismatches)


if __name__ == "__main__":
    if "--record" in sys.argv:
        pprint.pprint(collect(), width=120, sort_dicts=False)
    else:
        test_equivalence()
        print(f"ok: {len(EXPECTED)} observations identical")
