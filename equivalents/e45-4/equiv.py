"""Equivalence check for refactoring 4: ceos_alos2.sar_leader.platform_position.transform_positions.

EXPECTED was recorded from the unchanged code (HEAD); the script must pass with and
without _eq/4/patch.diff.  Run `python equiv.py` or `pytest equiv.py`.
"""
import pprint
import sys

import numpy as np

from ceos_alos2.hierarchy import Group, Variable


def canon(obj):
    """Order-, type- and value-preserving description of a result."""
    if isinstance(obj, Group):
        return ("Group", obj.path, obj.url, canon(obj.data), canon(obj.attrs))
    if isinstance(obj, Variable):
        return ("Variable", canon(obj.dims), canon(obj.data), canon(obj.attrs))
    if isinstance(obj, np.ndarray):
        return ("ndarray", str(obj.dtype), obj.shape, [str(v) for v in obj.ravel().tolist()])
    if isinstance(obj, np.generic):
        return (type(obj).__name__, str(obj.dtype), str(obj))
    if isinstance(obj, dict):
        return (type(obj).__name__, [(canon(k), canon(v)) for k, v in obj.items()])
    if isinstance(obj, (list, tuple)):
        return (type(obj).__name__, [canon(v) for v in obj])
    return (type(obj).__name__, repr(obj))


def observe(func, *args, **kwargs):
    try:
        result = func(*args, **kwargs)
    except Exception as e:  # noqa: BLE001
        return ("raises", type(e).__name__, str(e))
    return ("returns", canon(result))


def main(run_cases, expected):
    observed = [repr(o) for o in run_cases()]
    if "--record" in sys.argv:
        pprint.pprint(observed, width=100)
        return
    assert len(observed) == len(expected), (len(observed), len(expected))
    for index, (obs, exp) in enumerate(zip(observed, expected)):
        assert obs == exp, f"case {index}:\n  observed {obs}\n  expected {exp}"
    print(f"equiv OK: {len(observed)} cases")


from ceos_alos2.sar_leader import platform_position
from ceos_alos2.utils import to_dict


def point(i, sections=("position", "velocity"), axes="xyz"):
    units = {"position": "m", "velocity": "m/s"}
    return {
        sec: {ax: (float(10 * i + j) * (-1 if sec == "velocity" else 1), {"units": units[sec]})
              for j, ax in enumerate(axes)}
        for sec in sections
    }


CASES = [
    [],
    (),
    [{}],
    [{}, {}],
    [point(0)],
    [point(i) for i in range(3)],
    [point(i) for i in range(28)],
    tuple(point(i) for i in range(2)),
    [point(i, sections=("position",)) for i in range(2)],
    [point(i, sections=("velocity", "position"), axes="zx") for i in range(2)],
    # ragged input: sections / axes missing in some points
    [point(0), point(1, sections=("velocity",)), point(2, axes="y")],
    [point(0, sections=("velocity",)), point(1)],
    # values without metadata
    [{"position": {"x": 1.0, "y": 2.0}}, {"position": {"x": 3.0, "y": 4.0}}],
    # metadata differing between points: the first wins
    [{"position": {"x": (1.0, {"units": "m"})}}, {"position": {"x": (2.0, {"units": "km"})}}],
    [{"position": {"x": (1.0, {"units": "m"}, "extra")}}, {"position": {"x": (2.0, {}, "more")}}],
    [{"position": {}}, {"position": {}}],
    [{"position": {}, "velocity": {"x": (1, {})}}],
    # single non-mapping argument is treated as the sequence of mappings by merge_with
    [[point(0), point(1)]],
    [[{"position": [{"x": (1, {})}]}]],
    # failures
    None,
    5,
    [5],
    [None],
    [1, 2],
    "ab",
    {"position": 1},
    [{"position": 1}],
    [{"position": None}, {"position": None}],
    [{"position": {"x": ()}}],
    [{"position": {"x": (1,)}}, {"position": {"x": (2,)}}],
    [{"position": [1, 2]}],
    [{"position": "xy"}],
    [{1: {2: (3, {})}}, {1: {2: (4, {})}}],
    # TypeError raised while a column is separated
    [{"position": {"x": (1, {})}}, {"position": {"x": 2}}],
    [{"position": {"y": (1, {}), "x": (1, {})}}, {"position": {"x": None}}],
    # TypeError inside merge_with (curry hands back a curried function instead of raising)
    [{"position": 5}],
    [{"position": [5]}],
    [{"position": (None,)}],
    [[5]],
]


def gen_points(n):
    for i in range(n):
        yield point(i)


def build_record():
    def f16(v):
        return f"{v:16.7f}"

    def f22(v):
        return f"{v:22.15E}"

    body = "2".ljust(32)
    body += "".join(f16(v) for v in (1.0, 2.0, 3.0, 4.0, 5.0, 6.0))
    body += f"{28:4d}" + "2020  02  29".ljust(12) + f"{60:4d}" + f22(43200.5)
    body += f22(60.0) + "ECR".ljust(64) + f22(12.5)
    body += "".join(f16(v) for v in (0.1, 0.2, 0.3, 0.4, 0.5, 0.6))
    for i in range(28):
        body += "".join(f22(v) for v in (1e6 + i, 2e6 - i, 3e6 + 2 * i, 7e3 - i, -7e3 + i, 0.5 * i))
    body += " " * 18 + "1" + " " * 579
    length = 12 + len(body)
    preamble = (4).to_bytes(4, "big") + bytes([18, 30, 18, 20]) + length.to_bytes(4, "big")
    return preamble + body.encode("ascii")


def run_cases():
    results = []
    for case in CASES:
        results.append(observe(platform_position.transform_positions, case))
    results.append(observe(platform_position.transform_positions, gen_points(3)))
    results.append(observe(platform_position.transform_positions, iter([])))

    # every variable of one call shares the dims list; inputs are not modified
    source = [point(0), point(1)]
    snapshot = repr(source)
    out = platform_position.transform_positions(source)
    dims = [var[0] for section in out.values() for var in section.values()]
    results.append(
        (
            "sharing",
            all(d is dims[0] for d in dims),
            platform_position.transform_positions(source)["position"]["x"][0] is dims[0],
            out["position"]["x"][2] is source[0]["position"]["x"][1],
            repr(source) == snapshot,
            [type(var).__name__ for section in out.values() for var in section.values()],
        )
    )

    # the whole record, from synthesized bytes
    parsed = to_dict(platform_position.platform_position_record.parse(build_record()))
    results.append(observe(platform_position.transform_positions, parsed["positions"]))
    results.append(observe(platform_position.transform_platform_position, parsed))
    results.append(
        observe(
            platform_position.transform_platform_position,
            {"positions": [point(0), point(1)], "occurrence_flag_of_a_leap_second": 0},
        )
    )
    return results


EXPECTED = ["('returns', ('dict', []))",
 "('returns', ('dict', []))",
 "('returns', ('dict', []))",
 "('returns', ('dict', []))",
 '(\'returns\', (\'dict\', [((\'str\', "\'position\'"), (\'dict\', [((\'str\', "\'x\'"), '
 '(\'tuple\', [(\'list\', [(\'str\', "\'positions\'")]), (\'list\', [(\'float\', \'0.0\')]), '
 '(\'dict\', [((\'str\', "\'units\'"), (\'str\', "\'m\'"))])])), ((\'str\', "\'y\'"), (\'tuple\', '
 '[(\'list\', [(\'str\', "\'positions\'")]), (\'list\', [(\'float\', \'1.0\')]), (\'dict\', '
 '[((\'str\', "\'units\'"), (\'str\', "\'m\'"))])])), ((\'str\', "\'z\'"), (\'tuple\', [(\'list\', '
 '[(\'str\', "\'positions\'")]), (\'list\', [(\'float\', \'2.0\')]), (\'dict\', [((\'str\', '
 '"\'units\'"), (\'str\', "\'m\'"))])]))])), ((\'str\', "\'velocity\'"), (\'dict\', [((\'str\', '
 '"\'x\'"), (\'tuple\', [(\'list\', [(\'str\', "\'positions\'")]), (\'list\', [(\'float\', '
 '\'-0.0\')]), (\'dict\', [((\'str\', "\'units\'"), (\'str\', "\'m/s\'"))])])), ((\'str\', '
 '"\'y\'"), (\'tuple\', [(\'list\', [(\'str\', "\'positions\'")]), (\'list\', [(\'float\', '
 '\'-1.0\')]), (\'dict\', [((\'str\', "\'units\'"), (\'str\', "\'m/s\'"))])])), ((\'str\', '
 '"\'z\'"), (\'tuple\', [(\'list\', [(\'str\', "\'positions\'")]), (\'list\', [(\'float\', '
 '\'-2.0\')]), (\'dict\', [((\'str\', "\'units\'"), (\'str\', "\'m/s\'"))])]))]))]))',
 '(\'returns\', (\'dict\', [((\'str\', "\'position\'"), (\'dict\', [((\'str\', "\'x\'"), '
 '(\'tuple\', [(\'list\', [(\'str\', "\'positions\'")]), (\'list\', [(\'float\', \'0.0\'), '
 '(\'float\', \'10.0\'), (\'float\', \'20.0\')]), (\'dict\', [((\'str\', "\'units\'"), (\'str\', '
 '"\'m\'"))])])), ((\'str\', "\'y\'"), (\'tuple\', [(\'list\', [(\'str\', "\'positions\'")]), '
 "('list', [('float', '1.0'), ('float', '11.0'), ('float', '21.0')]), ('dict', [(('str', "
 '"\'units\'"), (\'str\', "\'m\'"))])])), ((\'str\', "\'z\'"), (\'tuple\', [(\'list\', [(\'str\', '
 '"\'positions\'")]), (\'list\', [(\'float\', \'2.0\'), (\'float\', \'12.0\'), (\'float\', '
 '\'22.0\')]), (\'dict\', [((\'str\', "\'units\'"), (\'str\', "\'m\'"))])]))])), ((\'str\', '
 '"\'velocity\'"), (\'dict\', [((\'str\', "\'x\'"), (\'tuple\', [(\'list\', [(\'str\', '
 '"\'positions\'")]), (\'list\', [(\'float\', \'-0.0\'), (\'float\', \'-10.0\'), (\'float\', '
 '\'-20.0\')]), (\'dict\', [((\'str\', "\'units\'"), (\'str\', "\'m/s\'"))])])), ((\'str\', '
 '"\'y\'"), (\'tuple\', [(\'list\', [(\'str\', "\'positions\'")]), (\'list\', [(\'float\', '
 "'-1.0'), ('float', '-11.0'), ('float', '-21.0')]), ('dict', [(('str', "
 '"\'units\'"), (\'str\', "\'m/s\'"))])])), ((\'str\', "\'z\'"), (\'tuple\', [(\'list\', '
 '[(\'str\', "\'positions\'")]), (\'list\', [(\'float\', \'-2.0\'), (\'float\', \'-12.0\'), '
 '(\'float\', \'-22.0\')]), (\'dict\', [((\'str\', "\'units\'"), (\'str\', "\'m/s\'"))])]))]))]))',
 '(\'returns\', (\'dict\', [((\'str\', "\'position\'"), (\'dict\', [((\'str\', "\'x\'"), '
 '(\'tuple\', [(\'list\', [(\'str\', "\'positions\'")]), (\'list\', [(\'float\', \'0.0\'), '
 "('float', '10.0'), ('float', '20.0'), ('float', '30.0'), ('float', '40.0'), ('float', '50.0'), "
 "('float', '60.0'), ('float', '70.0'), ('float', '80.0'), ('float', '90.0'), ('float', '100.0'), "
 "('float', '110.0'), ('float', '120.0'), ('float', '130.0'), ('float', '140.0'), ('float', "
 "'150.0'), ('float', '160.0'), ('float', '170.0'), ('float', '180.0'), ('float', '190.0'), "
 "('float', '200.0'), ('float', '210.0'), ('float', '220.0'), ('float', '230.0'), ('float', "
 "'240.0'), ('float', '250.0'), ('float', '260.0'), ('float', '270.0')]), ('dict', [(('str', "
 '"\'units\'"), (\'str\', "\'m\'"))])])), ((\'str\', "\'y\'"), (\'tuple\', [(\'list\', [(\'str\', '
 '"\'positions\'")]), (\'list\', [(\'float\', \'1.0\'), (\'float\', \'11.0\'), (\'float\', '
 "'21.0'), ('float', '31.0'), ('float', '41.0'), ('float', '51.0'), ('float', '61.0'), ('float', "
 "'71.0'), ('float', '81.0'), ('float', '91.0'), ('float', '101.0'), ('float', '111.0'), ('float', "
 "'121.0'), ('float', '131.0'), ('float', '141.0'), ('float', '151.0'), ('float', '161.0'), "
 "('float', '171.0'), ('float', '181.0'), ('float', '191.0'), ('float', '201.0'), ('float', "
 "'211.0'), ('float', '221.0'), ('float', '231.0'), ('float', '241.0'), ('float', '251.0'), "
 '(\'float\', \'261.0\'), (\'float\', \'271.0\')]), (\'dict\', [((\'str\', "\'units\'"), (\'str\', '
 '"\'m\'"))])])), ((\'str\', "\'z\'"), (\'tuple\', [(\'list\', [(\'str\', "\'positions\'")]), '
 "('list', [('float', '2.0'), ('float', '12.0'), ('float', '22.0'), ('float', '32.0'), ('float', "
 "'42.0'), ('float', '52.0'), ('float', '62.0'), ('float', '72.0'), ('float', '82.0'), ('float', "
 "'92.0'), ('float', '102.0'), ('float', '112.0'), ('float', '122.0'), ('float', '132.0'), "
 "('float', '142.0'), ('float', '152.0'), ('float', '162.0'), ('float', '172.0'), ('float', "
 "'182.0'), ('float', '192.0'), ('float', '202.0'), ('float', '212.0'), ('float', '222.0'), "
 "('float', '232.0'), ('float', '242.0'), ('float', '252.0'), ('float', '262.0'), ('float', "
 '\'272.0\')]), (\'dict\', [((\'str\', "\'units\'"), (\'str\', "\'m\'"))])]))])), ((\'str\', '
 '"\'velocity\'"), (\'dict\', [((\'str\', "\'x\'"), (\'tuple\', [(\'list\', [(\'str\', '
 '"\'positions\'")]), (\'list\', [(\'float\', \'-0.0\'), (\'float\', \'-10.0\'), (\'float\', '
 "'-20.0'), ('float', '-30.0'), ('float', '-40.0'), ('float', '-50.0'), ('float', '-60.0'), "
 "('float', '-70.0'), ('float', '-80.0'), ('float', '-90.0'), ('float', '-100.0'), ('float', "
 "'-110.0'), ('float', '-120.0'), ('float', '-130.0'), ('float', '-140.0'), ('float', '-150.0'), "
 "('float', '-160.0'), ('float', '-170.0'), ('float', '-180.0'), ('float', '-190.0'), ('float', "
 "'-200.0'), ('float', '-210.0'), ('float', '-220.0'), ('float', '-230.0'), ('float', '-240.0'), "
 "('float', '-250.0'), ('float', '-260.0'), ('float', '-270.0')]), ('dict', [(('str', "
 '"\'units\'"), (\'str\', "\'m/s\'"))])])), ((\'str\', "\'y\'"), (\'tuple\', [(\'list\', '
 '[(\'str\', "\'positions\'")]), (\'list\', [(\'float\', \'-1.0\'), (\'float\', \'-11.0\'), '
 "('float', '-21.0'), ('float', '-31.0'), ('float', '-41.0'), ('float', '-51.0'), ('float', "
 "'-61.0'), ('float', '-71.0'), ('float', '-81.0'), ('float', '-91.0'), ('float', '-101.0'), "
 "('float', '-111.0'), ('float', '-121.0'), ('float', '-131.0'), ('float', '-141.0'), ('float', "
 "'-151.0'), ('float', '-161.0'), ('float', '-171.0'), ('float', '-181.0'), ('float', '-191.0'), "
 "('float', '-201.0'), ('float', '-211.0'), ('float', '-221.0'), ('float', '-231.0'), ('float', "
 "'-241.0'), ('float', '-251.0'), ('float', '-261.0'), ('float', '-271.0')]), ('dict', [(('str', "
 '"\'units\'"), (\'str\', "\'m/s\'"))])])), ((\'str\', "\'z\'"), (\'tuple\', [(\'list\', '
 '[(\'str\', "\'positions\'")]), (\'list\', [(\'float\', \'-2.0\'), (\'float\', \'-12.0\'), '
 "('float', '-22.0'), ('float', '-32.0'), ('float', '-42.0'), ('float', '-52.0'), ('float', "
 "'-62.0'), ('float', '-72.0'), ('float', '-82.0'), ('float', '-92.0'), ('float', '-102.0'), "
 "('float', '-112.0'), ('float', '-122.0'), ('float', '-132.0'), ('float', '-142.0'), ('float', "
 "'-152.0'), ('float', '-162.0'), ('float', '-172.0'), ('float', '-182.0'), ('float', '-192.0'), "
 "('float', '-202.0'), ('float', '-212.0'), ('float', '-222.0'), ('float', '-232.0'), ('float', "
 "'-242.0'), ('float', '-252.0'), ('float', '-262.0'), ('float', '-272.0')]), ('dict', [(('str', "
 '"\'units\'"), (\'str\', "\'m/s\'"))])]))]))]))',
 '(\'returns\', (\'dict\', [((\'str\', "\'position\'"), (\'dict\', [((\'str\', "\'x\'"), '
 '(\'tuple\', [(\'list\', [(\'str\', "\'positions\'")]), (\'list\', [(\'float\', \'0.0\'), '
 '(\'float\', \'10.0\')]), (\'dict\', [((\'str\', "\'units\'"), (\'str\', "\'m\'"))])])), '
 '((\'str\', "\'y\'"), (\'tuple\', [(\'list\', [(\'str\', "\'positions\'")]), (\'list\', '
 '[(\'float\', \'1.0\'), (\'float\', \'11.0\')]), (\'dict\', [((\'str\', "\'units\'"), (\'str\', '
 '"\'m\'"))])])), ((\'str\', "\'z\'"), (\'tuple\', [(\'list\', [(\'str\', "\'positions\'")]), '
 '(\'list\', [(\'float\', \'2.0\'), (\'float\', \'12.0\')]), (\'dict\', [((\'str\', "\'units\'"), '
 '(\'str\', "\'m\'"))])]))])), ((\'str\', "\'velocity\'"), (\'dict\', [((\'str\', "\'x\'"), '
 '(\'tuple\', [(\'list\', [(\'str\', "\'positions\'")]), (\'list\', [(\'float\', \'-0.0\'), '
 '(\'float\', \'-10.0\')]), (\'dict\', [((\'str\', "\'units\'"), (\'str\', "\'m/s\'"))])])), '
 '((\'str\', "\'y\'"), (\'tuple\', [(\'list\', [(\'str\', "\'positions\'")]), (\'list\', '
 '[(\'float\', \'-1.0\'), (\'float\', \'-11.0\')]), (\'dict\', [((\'str\', "\'units\'"), (\'str\', '
 '"\'m/s\'"))])])), ((\'str\', "\'z\'"), (\'tuple\', [(\'list\', [(\'str\', "\'positions\'")]), '
 "('list', [('float', '-2.0'), ('float', '-12.0')]), ('dict', [(('str', "
 '"\'units\'"), (\'str\', "\'m/s\'"))])]))]))]))',
 '(\'returns\', (\'dict\', [((\'str\', "\'position\'"), (\'dict\', [((\'str\', "\'x\'"), '
 '(\'tuple\', [(\'list\', [(\'str\', "\'positions\'")]), (\'list\', [(\'float\', \'0.0\'), '
 '(\'float\', \'10.0\')]), (\'dict\', [((\'str\', "\'units\'"), (\'str\', "\'m\'"))])])), '
 '((\'str\', "\'y\'"), (\'tuple\', [(\'list\', [(\'str\', "\'positions\'")]), (\'list\', '
 '[(\'float\', \'1.0\'), (\'float\', \'11.0\')]), (\'dict\', [((\'str\', "\'units\'"), (\'str\', '
 '"\'m\'"))])])), ((\'str\', "\'z\'"), (\'tuple\', [(\'list\', [(\'str\', "\'positions\'")]), '
 '(\'list\', [(\'float\', \'2.0\'), (\'float\', \'12.0\')]), (\'dict\', [((\'str\', "\'units\'"), '
 '(\'str\', "\'m\'"))])]))]))]))',
 '(\'returns\', (\'dict\', [((\'str\', "\'velocity\'"), (\'dict\', [((\'str\', "\'z\'"), '
 '(\'tuple\', [(\'list\', [(\'str\', "\'positions\'")]), (\'list\', [(\'float\', \'-0.0\'), '
 '(\'float\', \'-10.0\')]), (\'dict\', [((\'str\', "\'units\'"), (\'str\', "\'m/s\'"))])])), '
 '((\'str\', "\'x\'"), (\'tuple\', [(\'list\', [(\'str\', "\'positions\'")]), (\'list\', '
 '[(\'float\', \'-1.0\'), (\'float\', \'-11.0\')]), (\'dict\', [((\'str\', "\'units\'"), (\'str\', '
 '"\'m/s\'"))])]))])), ((\'str\', "\'position\'"), (\'dict\', [((\'str\', "\'z\'"), (\'tuple\', '
 '[(\'list\', [(\'str\', "\'positions\'")]), (\'list\', [(\'float\', \'0.0\'), (\'float\', '
 '\'10.0\')]), (\'dict\', [((\'str\', "\'units\'"), (\'str\', "\'m\'"))])])), ((\'str\', "\'x\'"), '
 '(\'tuple\', [(\'list\', [(\'str\', "\'positions\'")]), (\'list\', [(\'float\', \'1.0\'), '
 '(\'float\', \'11.0\')]), (\'dict\', [((\'str\', "\'units\'"), (\'str\', "\'m\'"))])]))]))]))',
 '(\'returns\', (\'dict\', [((\'str\', "\'position\'"), (\'dict\', [((\'str\', "\'x\'"), '
 '(\'tuple\', [(\'list\', [(\'str\', "\'positions\'")]), (\'list\', [(\'float\', \'0.0\')]), '
 '(\'dict\', [((\'str\', "\'units\'"), (\'str\', "\'m\'"))])])), ((\'str\', "\'y\'"), (\'tuple\', '
 '[(\'list\', [(\'str\', "\'positions\'")]), (\'list\', [(\'float\', \'1.0\'), (\'float\', '
 '\'20.0\')]), (\'dict\', [((\'str\', "\'units\'"), (\'str\', "\'m\'"))])])), ((\'str\', "\'z\'"), '
 '(\'tuple\', [(\'list\', [(\'str\', "\'positions\'")]), (\'list\', [(\'float\', \'2.0\')]), '
 '(\'dict\', [((\'str\', "\'units\'"), (\'str\', "\'m\'"))])]))])), ((\'str\', "\'velocity\'"), '
 '(\'dict\', [((\'str\', "\'x\'"), (\'tuple\', [(\'list\', [(\'str\', "\'positions\'")]), '
 "('list', [('float', '-0.0'), ('float', '-10.0')]), ('dict', [(('str', "
 '"\'units\'"), (\'str\', "\'m/s\'"))])])), ((\'str\', "\'y\'"), (\'tuple\', [(\'list\', '
 '[(\'str\', "\'positions\'")]), (\'list\', [(\'float\', \'-1.0\'), (\'float\', \'-11.0\'), '
 '(\'float\', \'-20.0\')]), (\'dict\', [((\'str\', "\'units\'"), (\'str\', "\'m/s\'"))])])), '
 '((\'str\', "\'z\'"), (\'tuple\', [(\'list\', [(\'str\', "\'positions\'")]), (\'list\', '
 '[(\'float\', \'-2.0\'), (\'float\', \'-12.0\')]), (\'dict\', [((\'str\', "\'units\'"), (\'str\', '
 '"\'m/s\'"))])]))]))]))',
 '(\'returns\', (\'dict\', [((\'str\', "\'velocity\'"), (\'dict\', [((\'str\', "\'x\'"), '
 '(\'tuple\', [(\'list\', [(\'str\', "\'positions\'")]), (\'list\', [(\'float\', \'-0.0\'), '
 '(\'float\', \'-10.0\')]), (\'dict\', [((\'str\', "\'units\'"), (\'str\', "\'m/s\'"))])])), '
 '((\'str\', "\'y\'"), (\'tuple\', [(\'list\', [(\'str\', "\'positions\'")]), (\'list\', '
 '[(\'float\', \'-1.0\'), (\'float\', \'-11.0\')]), (\'dict\', [((\'str\', "\'units\'"), (\'str\', '
 '"\'m/s\'"))])])), ((\'str\', "\'z\'"), (\'tuple\', [(\'list\', [(\'str\', "\'positions\'")]), '
 "('list', [('float', '-2.0'), ('float', '-12.0')]), ('dict', [(('str', "
 '"\'units\'"), (\'str\', "\'m/s\'"))])]))])), ((\'str\', "\'position\'"), (\'dict\', [((\'str\', '
 '"\'x\'"), (\'tuple\', [(\'list\', [(\'str\', "\'positions\'")]), (\'list\', [(\'float\', '
 '\'10.0\')]), (\'dict\', [((\'str\', "\'units\'"), (\'str\', "\'m\'"))])])), ((\'str\', "\'y\'"), '
 '(\'tuple\', [(\'list\', [(\'str\', "\'positions\'")]), (\'list\', [(\'float\', \'11.0\')]), '
 '(\'dict\', [((\'str\', "\'units\'"), (\'str\', "\'m\'"))])])), ((\'str\', "\'z\'"), (\'tuple\', '
 '[(\'list\', [(\'str\', "\'positions\'")]), (\'list\', [(\'float\', \'12.0\')]), (\'dict\', '
 '[((\'str\', "\'units\'"), (\'str\', "\'m\'"))])]))]))]))',
 '(\'returns\', (\'dict\', [((\'str\', "\'position\'"), (\'dict\', [((\'str\', "\'x\'"), '
 '(\'tuple\', [(\'list\', [(\'str\', "\'positions\'")]), (\'list\', [(\'float\', \'1.0\'), '
 '(\'float\', \'3.0\')]), (\'dict\', [])])), ((\'str\', "\'y\'"), (\'tuple\', [(\'list\', '
 '[(\'str\', "\'positions\'")]), (\'list\', [(\'float\', \'2.0\'), (\'float\', \'4.0\')]), '
 "('dict', [])]))]))]))",
 '(\'returns\', (\'dict\', [((\'str\', "\'position\'"), (\'dict\', [((\'str\', "\'x\'"), '
 '(\'tuple\', [(\'list\', [(\'str\', "\'positions\'")]), (\'list\', [(\'float\', \'1.0\'), '
 '(\'float\', \'2.0\')]), (\'dict\', [((\'str\', "\'units\'"), (\'str\', "\'m\'"))])]))]))]))',
 "('raises', 'ValueError', 'too many values to unpack (expected 2)')",
 '(\'returns\', (\'dict\', [((\'str\', "\'position\'"), (\'dict\', []))]))',
 '(\'returns\', (\'dict\', [((\'str\', "\'position\'"), (\'dict\', [])), ((\'str\', '
 '"\'velocity\'"), (\'dict\', [((\'str\', "\'x\'"), (\'tuple\', [(\'list\', [(\'str\', '
 '"\'positions\'")]), (\'list\', [(\'int\', \'1\')]), (\'dict\', [])]))]))]))',
 '(\'returns\', (\'dict\', [((\'str\', "\'position\'"), (\'dict\', [((\'str\', "\'x\'"), '
 '(\'tuple\', [(\'list\', [(\'str\', "\'positions\'")]), (\'list\', [(\'float\', \'0.0\'), '
 '(\'float\', \'10.0\')]), (\'dict\', [((\'str\', "\'units\'"), (\'str\', "\'m\'"))])])), '
 '((\'str\', "\'y\'"), (\'tuple\', [(\'list\', [(\'str\', "\'positions\'")]), (\'list\', '
 '[(\'float\', \'1.0\'), (\'float\', \'11.0\')]), (\'dict\', [((\'str\', "\'units\'"), (\'str\', '
 '"\'m\'"))])])), ((\'str\', "\'z\'"), (\'tuple\', [(\'list\', [(\'str\', "\'positions\'")]), '
 '(\'list\', [(\'float\', \'2.0\'), (\'float\', \'12.0\')]), (\'dict\', [((\'str\', "\'units\'"), '
 '(\'str\', "\'m\'"))])]))])), ((\'str\', "\'velocity\'"), (\'dict\', [((\'str\', "\'x\'"), '
 '(\'tuple\', [(\'list\', [(\'str\', "\'positions\'")]), (\'list\', [(\'float\', \'-0.0\'), '
 '(\'float\', \'-10.0\')]), (\'dict\', [((\'str\', "\'units\'"), (\'str\', "\'m/s\'"))])])), '
 '((\'str\', "\'y\'"), (\'tuple\', [(\'list\', [(\'str\', "\'positions\'")]), (\'list\', '
 '[(\'float\', \'-1.0\'), (\'float\', \'-11.0\')]), (\'dict\', [((\'str\', "\'units\'"), (\'str\', '
 '"\'m/s\'"))])])), ((\'str\', "\'z\'"), (\'tuple\', [(\'list\', [(\'str\', "\'positions\'")]), '
 "('list', [('float', '-2.0'), ('float', '-12.0')]), ('dict', [(('str', "
 '"\'units\'"), (\'str\', "\'m/s\'"))])]))]))]))',
 '(\'returns\', (\'dict\', [((\'str\', "\'position\'"), (\'dict\', [((\'str\', "\'x\'"), '
 '(\'tuple\', [(\'list\', [(\'str\', "\'positions\'")]), (\'list\', [(\'int\', \'1\')]), '
 "('dict', [])]))]))]))",
 "('raises', 'TypeError', 'toolz.dicttoolz.merge_with() argument after * must be an iterable, not "
 "NoneType')",
 "('raises', 'TypeError', 'toolz.dicttoolz.merge_with() argument after * must be an iterable, not "
 "int')",
 '(\'raises\', \'AttributeError\', "\'curry\' object has no attribute \'keys\'")',
 '(\'raises\', \'AttributeError\', "\'curry\' object has no attribute \'keys\'")',
 '(\'raises\', \'AttributeError\', "\'int\' object has no attribute \'items\'")',
 '(\'raises\', \'AttributeError\', "\'str\' object has no attribute \'items\'")',
 '(\'raises\', \'AttributeError\', "\'str\' object has no attribute \'items\'")',
 '(\'raises\', \'AttributeError\', "\'curry\' object has no attribute \'keys\'")',
 '(\'raises\', \'AttributeError\', "\'NoneType\' object has no attribute \'items\'")',
 "('raises', 'ValueError', 'not enough values to unpack (expected 2, got 0)')",
 "('raises', 'ValueError', 'not enough values to unpack (expected 2, got 1)')",
 '(\'raises\', \'AttributeError\', "\'int\' object has no attribute \'items\'")',
 '(\'raises\', \'AttributeError\', "\'str\' object has no attribute \'items\'")',
 "('returns', ('dict', [(('int', '1'), ('dict', [(('int', '2'), ('tuple', [('list', [('str', "
 '"\'positions\'")]), (\'list\', [(\'int\', \'3\'), (\'int\', \'4\')]), (\'dict\', [])]))]))]))',
 '(\'raises\', \'TypeError\', "\'int\' object is not iterable")',
 '(\'raises\', \'TypeError\', "\'NoneType\' object is not iterable")',
 '(\'raises\', \'AttributeError\', "\'curry\' object has no attribute \'keys\'")',
 '(\'raises\', \'AttributeError\', "\'int\' object has no attribute \'items\'")',
 '(\'raises\', \'AttributeError\', "\'NoneType\' object has no attribute \'items\'")',
 '(\'raises\', \'AttributeError\', "\'int\' object has no attribute \'items\'")',
 '(\'returns\', (\'dict\', [((\'str\', "\'position\'"), (\'dict\', [((\'str\', "\'x\'"), '
 '(\'tuple\', [(\'list\', [(\'str\', "\'positions\'")]), (\'list\', [(\'float\', \'0.0\'), '
 '(\'float\', \'10.0\'), (\'float\', \'20.0\')]), (\'dict\', [((\'str\', "\'units\'"), (\'str\', '
 '"\'m\'"))])])), ((\'str\', "\'y\'"), (\'tuple\', [(\'list\', [(\'str\', "\'positions\'")]), '
 "('list', [('float', '1.0'), ('float', '11.0'), ('float', '21.0')]), ('dict', [(('str', "
 '"\'units\'"), (\'str\', "\'m\'"))])])), ((\'str\', "\'z\'"), (\'tuple\', [(\'list\', [(\'str\', '
 '"\'positions\'")]), (\'list\', [(\'float\', \'2.0\'), (\'float\', \'12.0\'), (\'float\', '
 '\'22.0\')]), (\'dict\', [((\'str\', "\'units\'"), (\'str\', "\'m\'"))])]))])), ((\'str\', '
 '"\'velocity\'"), (\'dict\', [((\'str\', "\'x\'"), (\'tuple\', [(\'list\', [(\'str\', '
 '"\'positions\'")]), (\'list\', [(\'float\', \'-0.0\'), (\'float\', \'-10.0\'), (\'float\', '
 '\'-20.0\')]), (\'dict\', [((\'str\', "\'units\'"), (\'str\', "\'m/s\'"))])])), ((\'str\', '
 '"\'y\'"), (\'tuple\', [(\'list\', [(\'str\', "\'positions\'")]), (\'list\', [(\'float\', '
 "'-1.0'), ('float', '-11.0'), ('float', '-21.0')]), ('dict', [(('str', "
 '"\'units\'"), (\'str\', "\'m/s\'"))])])), ((\'str\', "\'z\'"), (\'tuple\', [(\'list\', '
 '[(\'str\', "\'positions\'")]), (\'list\', [(\'float\', \'-2.0\'), (\'float\', \'-12.0\'), '
 '(\'float\', \'-22.0\')]), (\'dict\', [((\'str\', "\'units\'"), (\'str\', "\'m/s\'"))])]))]))]))',
 "('returns', ('dict', []))",
 "('sharing', True, False, True, True, ['tuple', 'tuple', 'tuple', 'tuple', 'tuple', 'tuple'])",
 '(\'returns\', (\'dict\', [((\'str\', "\'position\'"), (\'dict\', [((\'str\', "\'x\'"), '
 '(\'tuple\', [(\'list\', [(\'str\', "\'positions\'")]), (\'list\', [(\'float\', \'1000000.0\'), '
 "('float', '1000001.0'), ('float', '1000002.0'), ('float', '1000003.0'), ('float', '1000004.0'), "
 "('float', '1000005.0'), ('float', '1000006.0'), ('float', '1000007.0'), ('float', '1000008.0'), "
 "('float', '1000009.0'), ('float', '1000010.0'), ('float', '1000011.0'), ('float', '1000012.0'), "
 "('float', '1000013.0'), ('float', '1000014.0'), ('float', '1000015.0'), ('float', '1000016.0'), "
 "('float', '1000017.0'), ('float', '1000018.0'), ('float', '1000019.0'), ('float', '1000020.0'), "
 "('float', '1000021.0'), ('float', '1000022.0'), ('float', '1000023.0'), ('float', '1000024.0'), "
 "('float', '1000025.0'), ('float', '1000026.0'), ('float', '1000027.0')]), ('dict', [(('str', "
 '"\'units\'"), (\'str\', "\'m\'"))])])), ((\'str\', "\'y\'"), (\'tuple\', [(\'list\', [(\'str\', '
 '"\'positions\'")]), (\'list\', [(\'float\', \'2000000.0\'), (\'float\', \'1999999.0\'), '
 "('float', '1999998.0'), ('float', '1999997.0'), ('float', '1999996.0'), ('float', '1999995.0'), "
 "('float', '1999994.0'), ('float', '1999993.0'), ('float', '1999992.0'), ('float', '1999991.0'), "
 "('float', '1999990.0'), ('float', '1999989.0'), ('float', '1999988.0'), ('float', '1999987.0'), "
 "('float', '1999986.0'), ('float', '1999985.0'), ('float', '1999984.0'), ('float', '1999983.0'), "
 "('float', '1999982.0'), ('float', '1999981.0'), ('float', '1999980.0'), ('float', '1999979.0'), "
 "('float', '1999978.0'), ('float', '1999977.0'), ('float', '1999976.0'), ('float', '1999975.0'), "
 '(\'float\', \'1999974.0\'), (\'float\', \'1999973.0\')]), (\'dict\', [((\'str\', "\'units\'"), '
 '(\'str\', "\'m\'"))])])), ((\'str\', "\'z\'"), (\'tuple\', [(\'list\', [(\'str\', '
 '"\'positions\'")]), (\'list\', [(\'float\', \'3000000.0\'), (\'float\', \'3000002.0\'), '
 "('float', '3000004.0'), ('float', '3000006.0'), ('float', '3000008.0'), ('float', '3000010.0'), "
 "('float', '3000012.0'), ('float', '3000014.0'), ('float', '3000016.0'), ('float', '3000018.0'), "
 "('float', '3000020.0'), ('float', '3000022.0'), ('float', '3000024.0'), ('float', '3000026.0'), "
 "('float', '3000028.0'), ('float', '3000030.0'), ('float', '3000032.0'), ('float', '3000034.0'), "
 "('float', '3000036.0'), ('float', '3000038.0'), ('float', '3000040.0'), ('float', '3000042.0'), "
 "('float', '3000044.0'), ('float', '3000046.0'), ('float', '3000048.0'), ('float', '3000050.0'), "
 '(\'float\', \'3000052.0\'), (\'float\', \'3000054.0\')]), (\'dict\', [((\'str\', "\'units\'"), '
 '(\'str\', "\'m\'"))])]))])), ((\'str\', "\'velocity\'"), (\'dict\', [((\'str\', "\'x\'"), '
 '(\'tuple\', [(\'list\', [(\'str\', "\'positions\'")]), (\'list\', [(\'float\', \'7000.0\'), '
 "('float', '6999.0'), ('float', '6998.0'), ('float', '6997.0'), ('float', '6996.0'), ('float', "
 "'6995.0'), ('float', '6994.0'), ('float', '6993.0'), ('float', '6992.0'), ('float', '6991.0'), "
 "('float', '6990.0'), ('float', '6989.0'), ('float', '6988.0'), ('float', '6987.0'), ('float', "
 "'6986.0'), ('float', '6985.0'), ('float', '6984.0'), ('float', '6983.0'), ('float', '6982.0'), "
 "('float', '6981.0'), ('float', '6980.0'), ('float', '6979.0'), ('float', '6978.0'), ('float', "
 "'6977.0'), ('float', '6976.0'), ('float', '6975.0'), ('float', '6974.0'), ('float', '6973.0')]), "
 '(\'dict\', [((\'str\', "\'units\'"), (\'str\', "\'m/s\'"))])])), ((\'str\', "\'y\'"), '
 '(\'tuple\', [(\'list\', [(\'str\', "\'positions\'")]), (\'list\', [(\'float\', \'-7000.0\'), '
 "('float', '-6999.0'), ('float', '-6998.0'), ('float', '-6997.0'), ('float', '-6996.0'), "
 "('float', '-6995.0'), ('float', '-6994.0'), ('float', '-6993.0'), ('float', '-6992.0'), "
 "('float', '-6991.0'), ('float', '-6990.0'), ('float', '-6989.0'), ('float', '-6988.0'), "
 "('float', '-6987.0'), ('float', '-6986.0'), ('float', '-6985.0'), ('float', '-6984.0'), "
 "('float', '-6983.0'), ('float', '-6982.0'), ('float', '-6981.0'), ('float', '-6980.0'), "
 "('float', '-6979.0'), ('float', '-6978.0'), ('float', '-6977.0'), ('float', '-6976.0'), "
 "('float', '-6975.0'), ('float', '-6974.0'), ('float', '-6973.0')]), ('dict', [(('str', "
 '"\'units\'"), (\'str\', "\'m/s\'"))])])), ((\'str\', "\'z\'"), (\'tuple\', [(\'list\', '
 '[(\'str\', "\'positions\'")]), (\'list\', [(\'float\', \'0.0\'), (\'float\', \'0.5\'), '
 "('float', '1.0'), ('float', '1.5'), ('float', '2.0'), ('float', '2.5'), ('float', '3.0'), "
 "('float', '3.5'), ('float', '4.0'), ('float', '4.5'), ('float', '5.0'), ('float', '5.5'), "
 "('float', '6.0'), ('float', '6.5'), ('float', '7.0'), ('float', '7.5'), ('float', '8.0'), "
 "('float', '8.5'), ('float', '9.0'), ('float', '9.5'), ('float', '10.0'), ('float', '10.5'), "
 "('float', '11.0'), ('float', '11.5'), ('float', '12.0'), ('float', '12.5'), ('float', '13.0'), "
 '(\'float\', \'13.5\')]), (\'dict\', [((\'str\', "\'units\'"), (\'str\', "\'m/s\'"))])]))]))]))',
 '(\'returns\', (\'Group\', \'/\', None, (\'dict\', [((\'str\', "\'sampling_frequency\'"), '
 '(\'Variable\', (\'tuple\', []), (\'float\', \'60.0\'), (\'dict\', [((\'str\', "\'units\'"), '
 '(\'str\', "\'s\'"))]))), ((\'str\', "\'orbital_elements\'"), (\'Group\', \'/orbital_elements\', '
 'None, (\'dict\', [((\'str\', "\'position\'"), (\'Group\', \'/orbital_elements/position\', None, '
 '(\'dict\', [((\'str\', "\'x\'"), (\'Variable\', (\'tuple\', []), (\'float\', \'1.0\'), '
 '(\'dict\', [((\'str\', "\'units\'"), (\'str\', "\'m\'"))]))), ((\'str\', "\'y\'"), '
 '(\'Variable\', (\'tuple\', []), (\'float\', \'2.0\'), (\'dict\', [((\'str\', "\'units\'"), '
 '(\'str\', "\'m\'"))]))), ((\'str\', "\'z\'"), (\'Variable\', (\'tuple\', []), (\'float\', '
 '\'3.0\'), (\'dict\', [((\'str\', "\'units\'"), (\'str\', "\'m\'"))])))]), (\'dict\', []))), '
 '((\'str\', "\'velocity\'"), (\'Group\', \'/orbital_elements/velocity\', None, (\'dict\', '
 '[((\'str\', "\'x\'"), (\'Variable\', (\'tuple\', []), (\'float\', \'4.0\'), (\'dict\', '
 '[((\'str\', "\'units\'"), (\'str\', "\'m/s\'"))]))), ((\'str\', "\'y\'"), (\'Variable\', '
 '(\'tuple\', []), (\'float\', \'5.0\'), (\'dict\', [((\'str\', "\'units\'"), (\'str\', '
 '"\'m/s\'"))]))), ((\'str\', "\'z\'"), (\'Variable\', (\'tuple\', []), (\'float\', \'6.0\'), '
 '(\'dict\', [((\'str\', "\'units\'"), (\'str\', "\'m/s\'"))])))]), (\'dict\', [])))]), (\'dict\', '
 '[((\'str\', "\'type\'"), (\'str\', "\'high_precision\'"))]))), ((\'str\', "\'nominal_error\'"), '
 '(\'Group\', \'/nominal_error\', None, (\'dict\', [((\'str\', "\'position\'"), (\'Group\', '
 '\'/nominal_error/position\', None, (\'dict\', [((\'str\', "\'along_track\'"), (\'Variable\', '
 '(\'tuple\', []), (\'float\', \'0.1\'), (\'dict\', [((\'str\', "\'units\'"), (\'str\', '
 '"\'m\'"))]))), ((\'str\', "\'across_track\'"), (\'Variable\', (\'tuple\', []), (\'float\', '
 '\'0.2\'), (\'dict\', [((\'str\', "\'units\'"), (\'str\', "\'m\'"))]))), ((\'str\', '
 '"\'radial\'"), (\'Variable\', (\'tuple\', []), (\'float\', \'0.3\'), (\'dict\', [((\'str\', '
 '"\'units\'"), (\'str\', "\'m\'"))])))]), (\'dict\', []))), ((\'str\', "\'velocity\'"), '
 '(\'Group\', \'/nominal_error/velocity\', None, (\'dict\', [((\'str\', "\'along_track\'"), '
 '(\'Variable\', (\'tuple\', []), (\'float\', \'0.4\'), (\'dict\', [((\'str\', "\'units\'"), '
 '(\'str\', "\'m/s\'"))]))), ((\'str\', "\'across_track\'"), (\'Variable\', (\'tuple\', []), '
 '(\'float\', \'0.5\'), (\'dict\', [((\'str\', "\'units\'"), (\'str\', "\'m/s\'"))]))), ((\'str\', '
 '"\'radial\'"), (\'Variable\', (\'tuple\', []), (\'float\', \'0.6\'), (\'dict\', [((\'str\', '
 '"\'units\'"), (\'str\', "\'m/s\'"))])))]), (\'dict\', [])))]), (\'dict\', []))), ((\'str\', '
 '"\'positions\'"), (\'Group\', \'/positions\', None, (\'dict\', [((\'str\', "\'position\'"), '
 '(\'Group\', \'/positions/position\', None, (\'dict\', [((\'str\', "\'x\'"), (\'Variable\', '
 '(\'list\', [(\'str\', "\'positions\'")]), (\'list\', [(\'float\', \'1000000.0\'), (\'float\', '
 "'1000001.0'), ('float', '1000002.0'), ('float', '1000003.0'), ('float', '1000004.0'), ('float', "
 "'1000005.0'), ('float', '1000006.0'), ('float', '1000007.0'), ('float', '1000008.0'), ('float', "
 "'1000009.0'), ('float', '1000010.0'), ('float', '1000011.0'), ('float', '1000012.0'), ('float', "
 "'1000013.0'), ('float', '1000014.0'), ('float', '1000015.0'), ('float', '1000016.0'), ('float', "
 "'1000017.0'), ('float', '1000018.0'), ('float', '1000019.0'), ('float', '1000020.0'), ('float', "
 "'1000021.0'), ('float', '1000022.0'), ('float', '1000023.0'), ('float', '1000024.0'), ('float', "
 "'1000025.0'), ('float', '1000026.0'), ('float', '1000027.0')]), ('dict', [(('str', "
 '"\'units\'"), (\'str\', "\'m\'"))]))), ((\'str\', "\'y\'"), (\'Variable\', (\'list\', [(\'str\', '
 '"\'positions\'")]), (\'list\', [(\'float\', \'2000000.0\'), (\'float\', \'1999999.0\'), '
 "('float', '1999998.0'), ('float', '1999997.0'), ('float', '1999996.0'), ('float', '1999995.0'), "
 "('float', '1999994.0'), ('float', '1999993.0'), ('float', '1999992.0'), ('float', '1999991.0'), "
 "('float', '1999990.0'), ('float', '1999989.0'), ('float', '1999988.0'), ('float', '1999987.0'), "
 "('float', '1999986.0'), ('float', '1999985.0'), ('float', '1999984.0'), ('float', '1999983.0'), "
 "('float', '1999982.0'), ('float', '1999981.0'), ('float', '1999980.0'), ('float', '1999979.0'), "
 "('float', '1999978.0'), ('float', '1999977.0'), ('float', '1999976.0'), ('float', '1999975.0'), "
 '(\'float\', \'1999974.0\'), (\'float\', \'1999973.0\')]), (\'dict\', [((\'str\', "\'units\'"), '
 '(\'str\', "\'m\'"))]))), ((\'str\', "\'z\'"), (\'Variable\', (\'list\', [(\'str\', '
 '"\'positions\'")]), (\'list\', [(\'float\', \'3000000.0\'), (\'float\', \'3000002.0\'), '
 "('float', '3000004.0'), ('float', '3000006.0'), ('float', '3000008.0'), ('float', '3000010.0'), "
 "('float', '3000012.0'), ('float', '3000014.0'), ('float', '3000016.0'), ('float', '3000018.0'), "
 "('float', '3000020.0'), ('float', '3000022.0'), ('float', '3000024.0'), ('float', '3000026.0'), "
 "('float', '3000028.0'), ('float', '3000030.0'), ('float', '3000032.0'), ('float', '3000034.0'), "
 "('float', '3000036.0'), ('float', '3000038.0'), ('float', '3000040.0'), ('float', '3000042.0'), "
 "('float', '3000044.0'), ('float', '3000046.0'), ('float', '3000048.0'), ('float', '3000050.0'), "
 '(\'float\', \'3000052.0\'), (\'float\', \'3000054.0\')]), (\'dict\', [((\'str\', "\'units\'"), '
 '(\'str\', "\'m\'"))])))]), (\'dict\', []))), ((\'str\', "\'velocity\'"), (\'Group\', '
 '\'/positions/velocity\', None, (\'dict\', [((\'str\', "\'x\'"), (\'Variable\', (\'list\', '
 '[(\'str\', "\'positions\'")]), (\'list\', [(\'float\', \'7000.0\'), (\'float\', \'6999.0\'), '
 "('float', '6998.0'), ('float', '6997.0'), ('float', '6996.0'), ('float', '6995.0'), ('float', "
 "'6994.0'), ('float', '6993.0'), ('float', '6992.0'), ('float', '6991.0'), ('float', '6990.0'), "
 "('float', '6989.0'), ('float', '6988.0'), ('float', '6987.0'), ('float', '6986.0'), ('float', "
 "'6985.0'), ('float', '6984.0'), ('float', '6983.0'), ('float', '6982.0'), ('float', '6981.0'), "
 "('float', '6980.0'), ('float', '6979.0'), ('float', '6978.0'), ('float', '6977.0'), ('float', "
 "'6976.0'), ('float', '6975.0'), ('float', '6974.0'), ('float', '6973.0')]), ('dict', [(('str', "
 '"\'units\'"), (\'str\', "\'m/s\'"))]))), ((\'str\', "\'y\'"), (\'Variable\', (\'list\', '
 '[(\'str\', "\'positions\'")]), (\'list\', [(\'float\', \'-7000.0\'), (\'float\', \'-6999.0\'), '
 "('float', '-6998.0'), ('float', '-6997.0'), ('float', '-6996.0'), ('float', '-6995.0'), "
 "('float', '-6994.0'), ('float', '-6993.0'), ('float', '-6992.0'), ('float', '-6991.0'), "
 "('float', '-6990.0'), ('float', '-6989.0'), ('float', '-6988.0'), ('float', '-6987.0'), "
 "('float', '-6986.0'), ('float', '-6985.0'), ('float', '-6984.0'), ('float', '-6983.0'), "
 "('float', '-6982.0'), ('float', '-6981.0'), ('float', '-6980.0'), ('float', '-6979.0'), "
 "('float', '-6978.0'), ('float', '-6977.0'), ('float', '-6976.0'), ('float', '-6975.0'), "
 '(\'float\', \'-6974.0\'), (\'float\', \'-6973.0\')]), (\'dict\', [((\'str\', "\'units\'"), '
 '(\'str\', "\'m/s\'"))]))), ((\'str\', "\'z\'"), (\'Variable\', (\'list\', [(\'str\', '
 '"\'positions\'")]), (\'list\', [(\'float\', \'0.0\'), (\'float\', \'0.5\'), (\'float\', '
 "'1.0'), ('float', '1.5'), ('float', '2.0'), ('float', '2.5'), ('float', '3.0'), ('float', "
 "'3.5'), ('float', '4.0'), ('float', '4.5'), ('float', '5.0'), ('float', '5.5'), ('float', "
 "'6.0'), ('float', '6.5'), ('float', '7.0'), ('float', '7.5'), ('float', '8.0'), ('float', "
 "'8.5'), ('float', '9.0'), ('float', '9.5'), ('float', '10.0'), ('float', '10.5'), ('float', "
 "'11.0'), ('float', '11.5'), ('float', '12.0'), ('float', '12.5'), ('float', '13.0'), ('float', "
 '\'13.5\')]), (\'dict\', [((\'str\', "\'units\'"), (\'str\', "\'m/s\'"))])))]), (\'dict\', '
 '[])))]), (\'dict\', [])))]), (\'dict\', [((\'str\', "\'datetime_of_first_point\'"), (\'str\', '
 '"\'2020-02-29T12:00:00.500000\'")), ((\'str\', "\'reference_coordinate_system\'"), (\'str\', '
 '"\'ECR\'")), ((\'str\', "\'leap_second\'"), (\'bool\', \'True\'))])))',
 '(\'returns\', (\'Group\', \'/\', None, (\'dict\', [((\'str\', "\'positions\'"), (\'Group\', '
 '\'/positions\', None, (\'dict\', [((\'str\', "\'position\'"), (\'Group\', '
 '\'/positions/position\', None, (\'dict\', [((\'str\', "\'x\'"), (\'Variable\', (\'list\', '
 '[(\'str\', "\'positions\'")]), (\'list\', [(\'float\', \'0.0\'), (\'float\', \'10.0\')]), '
 '(\'dict\', [((\'str\', "\'units\'"), (\'str\', "\'m\'"))]))), ((\'str\', "\'y\'"), '
 '(\'Variable\', (\'list\', [(\'str\', "\'positions\'")]), (\'list\', [(\'float\', \'1.0\'), '
 '(\'float\', \'11.0\')]), (\'dict\', [((\'str\', "\'units\'"), (\'str\', "\'m\'"))]))), '
 '((\'str\', "\'z\'"), (\'Variable\', (\'list\', [(\'str\', "\'positions\'")]), (\'list\', '
 '[(\'float\', \'2.0\'), (\'float\', \'12.0\')]), (\'dict\', [((\'str\', "\'units\'"), (\'str\', '
 '"\'m\'"))])))]), (\'dict\', []))), ((\'str\', "\'velocity\'"), (\'Group\', '
 '\'/positions/velocity\', None, (\'dict\', [((\'str\', "\'x\'"), (\'Variable\', (\'list\', '
 '[(\'str\', "\'positions\'")]), (\'list\', [(\'float\', \'-0.0\'), (\'float\', \'-10.0\')]), '
 '(\'dict\', [((\'str\', "\'units\'"), (\'str\', "\'m/s\'"))]))), ((\'str\', "\'y\'"), '
 '(\'Variable\', (\'list\', [(\'str\', "\'positions\'")]), (\'list\', [(\'float\', \'-1.0\'), '
 '(\'float\', \'-11.0\')]), (\'dict\', [((\'str\', "\'units\'"), (\'str\', "\'m/s\'"))]))), '
 '((\'str\', "\'z\'"), (\'Variable\', (\'list\', [(\'str\', "\'positions\'")]), (\'list\', '
 '[(\'float\', \'-2.0\'), (\'float\', \'-12.0\')]), (\'dict\', [((\'str\', "\'units\'"), (\'str\', '
 '"\'m/s\'"))])))]), (\'dict\', [])))]), (\'dict\', [])))]), (\'dict\', [((\'str\', '
 '"\'leap_second\'"), (\'bool\', \'False\'))])))']


def test_equivalence():
    main(run_cases, EXPECTED)


if __name__ == "__main__":
    main(run_cases, EXPECTED)
