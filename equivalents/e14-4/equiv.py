"""Equivalence check for refactoring 4
(``signal_data_record`` in ``ceos_alos2/sar_image/signal_data.py``).

Run as::

    cd /tmp/wt3/e14 && PYTHONPATH=/tmp/wt3/e14 /venv/bin/python _eq/4/equiv.py

or through pytest (``test_equivalence``). ``EXPECTED`` was recorded from the
unchanged code (``python _eq/4/equiv.py --record`` prints a fresh table). Large
results are stored as a sha256 digest of their canonical rendering.
"""

import hashlib
import io as stdlib_io
import sys

import construct
import numpy as np

from ceos_alos2.datatypes import Factor, Metadata
from ceos_alos2.hierarchy import Group, Variable
from ceos_alos2.sar_image import io, metadata
from ceos_alos2.sar_image.processed_data import processed_data_record
from ceos_alos2.sar_image.signal_data import signal_data_record
from ceos_alos2.utils import to_dict


def canon(obj):
    """Type-aware, order-preserving textual form of a result (``_io`` is skipped)."""
    if isinstance(obj, Group):
        return (
            f"Group(path={obj.path!r}, url={obj.url!r},"
            f" data={canon(obj.data)}, attrs={canon(obj.attrs)})"
        )
    if isinstance(obj, Variable):
        return f"Variable(dims={canon(obj.dims)}, data={canon(obj.data)}, attrs={canon(obj.attrs)})"
    if isinstance(obj, dict):
        items = ", ".join(f"{canon(k)}: {canon(v)}" for k, v in obj.items() if k != "_io")
        return f"{type(obj).__name__}{{{items}}}"
    if isinstance(obj, (list, tuple)):
        items = ", ".join(canon(v) for v in obj)
        return f"{type(obj).__name__}[{items}]"
    if isinstance(obj, np.ndarray):
        return f"ndarray<{obj.dtype}, {obj.shape}>{obj.tolist()!r}"
    return f"{type(obj).__name__}:{obj!r}"


def shorten(text):
    if len(text) <= 300:
        return text
    return f"sha256:{hashlib.sha256(text.encode()).hexdigest()} len={len(text)}"


def outcome(func, *args, **kwargs):
    try:
        result = func(*args, **kwargs)
    except BaseException as exc:  # noqa: BLE001
        return shorten(f"raise {type(exc).__name__}: {exc}")
    return shorten("ok " + canon(result))


# --- structure of the construct tree ----------------------------------------

DESCRIBED = (
    "name",
    "docs",
    "fmtstr",
    "length",
    "factor",
    "attrs",
    "encmapping",
    "decmapping",
    "at",
    "whence",
    "func",
    "reference_date",
    "count",
    "flagbuildnone",
)


def describe(con, depth=0, lines=None):
    """One line per node: class, module and all describing attributes."""
    lines = [] if lines is None else lines
    described = ", ".join(
        f"{attr}={getattr(con, attr)!r}" for attr in DESCRIBED if hasattr(con, attr)
    )
    cls = type(con)
    lines.append(f"{'  ' * depth}{cls.__module__}.{cls.__qualname__}({described})")
    if hasattr(con, "subcons"):
        for sub in con.subcons:
            describe(sub, depth + 1, lines)
    elif hasattr(con, "subcon"):
        describe(con.subcon, depth + 1, lines)
    return lines


def walk(con):
    yield con
    if hasattr(con, "subcons"):
        for sub in con.subcons:
            yield from walk(sub)
    elif hasattr(con, "subcon"):
        yield from walk(con.subcon)


def sharing(con):
    """How many adapter objects exist and how many of them are distinct objects."""
    nodes = list(walk(con))
    metadata_nodes = [n for n in nodes if isinstance(n, Metadata)]
    factor_nodes = [n for n in nodes if isinstance(n, Factor)]
    structs = [n for n in nodes if isinstance(n, construct.Struct)]
    renamed = [n for n in nodes if isinstance(n, construct.Renamed)]
    return {
        "nodes": len(nodes),
        "metadata": (len(metadata_nodes), len({id(n) for n in metadata_nodes})),
        "metadata_attrs": len({id(n.attrs) for n in metadata_nodes}),
        "factor": (len(factor_nodes), len({id(n) for n in factor_nodes})),
        "struct": (len(structs), len({id(n) for n in structs})),
        "renamed": (len(renamed), len({id(n) for n in renamed})),
    }


# --- synthetic records -----------------------------------------------------------

HEADER_SIZES = {10: 544, 11: 192}


def build_record(kind, index, n_bytes_data, *, pattern="mixed"):
    size = HEADER_SIZES[kind] + n_bytes_data
    if pattern == "mixed":
        raw = bytearray((index * 31 + j * 7 + 3) % 120 for j in range(size))
    elif pattern == "high":
        raw = bytearray((index * 13 + j * 11 + 128) % 256 for j in range(size))
    elif pattern == "zeros":
        raw = bytearray(size)
    elif pattern == "ones":
        raw = bytearray(b"\xff" * size)
    else:
        raise ValueError(pattern)
    raw[0:4] = (index + 2).to_bytes(4, "big")
    raw[4:8] = bytes([50, kind, 18, 20])
    raw[8:12] = size.to_bytes(4, "big")
    raw[12:16] = (index + 1).to_bytes(4, "big")
    raw[36:40] = (2014 + index).to_bytes(4, "big")
    raw[40:44] = (1 + (index * 17) % 365).to_bytes(4, "big")
    raw[44:48] = (index * 1234567 % 86_400_000).to_bytes(4, "big")
    raw[48:50] = (1 << (index % 3)).to_bytes(2, "big")
    raw[50:52] = (index % 7).to_bytes(2, "big")
    raw[52:54] = (index % 2).to_bytes(2, "big")
    raw[54:56] = ((index + 1) % 3).to_bytes(2, "big")
    if kind == 10:
        raw[64:66] = (index % 2).to_bytes(2, "big")
        raw[66:68] = (index % 3).to_bytes(2, "big")
        raw[84:92] = (index * 987_654_321 % 86_400_000_000).to_bytes(8, "big")
        raw[128:132] = (index % 3).to_bytes(4, "big")
    return bytes(raw)


def build_file(kind, n_lines, n_bytes_data, *, pattern="mixed"):
    record_size = HEADER_SIZES[kind] + n_bytes_data
    descriptor = bytearray(b" " * 720)
    descriptor[0:12] = (1).to_bytes(4, "big") + bytes([50, 192, 18, 18]) + (720).to_bytes(4, "big")
    descriptor[180:186] = str(n_lines).rjust(6).encode()
    descriptor[186:192] = str(record_size).rjust(6).encode()
    descriptor[236:244] = str(n_lines).rjust(8).encode()
    descriptor[248:256] = str(n_bytes_data // 8).rjust(8).encode()
    descriptor[428:432] = b"C*8 "
    records = b"".join(
        build_record(kind, index, n_bytes_data, pattern=pattern) for index in range(n_lines)
    )
    return bytes(descriptor) + records


def read_and_transform(kind, n_lines, n_bytes_data, pattern, records_per_chunk):
    f = stdlib_io.BytesIO(build_file(kind, n_lines, n_bytes_data, pattern=pattern))
    header, lines = io.read_metadata(f, records_per_chunk)
    group, array_metadata = metadata.transform_metadata(header, lines)
    return lines, group, array_metadata, f.tell()


def field(name):
    (found,) = [sub for sub in signal_data_record.subcons if sub.name == name]
    return found


# --- the checks ------------------------------------------------------------------


def run():
    results = {}

    # 1. the construct trees
    results["structure:signal"] = shorten("\n".join(describe(signal_data_record)))
    results["structure:processed"] = shorten("\n".join(describe(processed_data_record)))
    results["structure:signal_head"] = "\n".join(describe(signal_data_record)[:3])
    results["structure:platform_velocity"] = "\n".join(describe(field("platform_velocity")))
    results["structure:platform_acceleration"] = "\n".join(
        describe(field("platform_acceleration"))
    )
    results["structure:platform_latitude"] = "\n".join(describe(field("platform_latitude")))
    results["structure:platform_attitude"] = "\n".join(describe(field("platform_attitude")))
    results["structure:field_names"] = shorten(repr([sub.name for sub in signal_data_record.subcons]))
    results["sharing:signal"] = repr(sharing(signal_data_record))
    results["sharing:processed"] = repr(sharing(processed_data_record))

    # 2. sizes
    results["sizeof:record"] = outcome(signal_data_record.sizeof)
    for name in ("platform_velocity", "platform_acceleration", "platform_attitude"):
        results[f"sizeof:{name}"] = outcome(field(name).sizeof)
    results["sizeof:fixed_part"] = repr(sum(sub.sizeof() for sub in signal_data_record.subcons[:-1]))

    # 3. parsing single records
    for pattern in ("mixed", "high", "zeros", "ones"):
        for index in (0, 1, 5):
            raw = build_record(10, index, 24, pattern=pattern)
            parsed = outcome(signal_data_record.parse, raw)
            results[f"parse:{pattern}:{index}"] = parsed
            results[f"to_dict:{pattern}:{index}"] = outcome(
                lambda raw=raw: to_dict(signal_data_record.parse(raw))
            )
    raw = build_record(10, 3, 16, pattern="high")
    parsed = signal_data_record.parse(raw)
    results["parse:types"] = canon(
        {
            "velocity": [type(parsed.platform_velocity).__name__, list(parsed.platform_velocity)],
            "velocity_x": parsed.platform_velocity.x,
            "acceleration_z": parsed.platform_acceleration.z,
            "latitude": parsed.platform_latitude,
            "attitude_roll": parsed.platform_attitude.roll,
            "last_longitude": parsed.longitude_of_last_pixel,
            "data": dict(parsed.data),
        }
    )
    # no value is shared between the fields of a parsed record
    attr_dicts = [
        parsed.platform_latitude[1],
        parsed.platform_longitude[1],
        parsed.platform_velocity.x[1],
        parsed.platform_velocity.y[1],
        parsed.platform_acceleration.x[1],
        parsed.platform_attitude.pitch[1],
        parsed.platform_attitude.yaw[1],
        parsed.latitude_of_first_pixel[1],
    ]
    results["parse:attrs_identity"] = repr(len({id(d) for d in attr_dicts}))

    # 4. truncated and invalid input (the error message carries the parsing path)
    full = build_record(10, 2, 8)
    for length in (0, 11, 12, 47, 131, 135, 149, 155, 163, 171, 179, 185, 193, 215, 283, 543, 544):
        results[f"truncated:{length}"] = outcome(signal_data_record.parse, full[:length])
    bad_date = bytearray(full)
    bad_date[40:44] = (0).to_bytes(4, "big")
    bad_date[36:40] = (0).to_bytes(4, "big")
    results["invalid:year_zero"] = outcome(signal_data_record.parse, bytes(bad_date))
    short_length = bytearray(full)
    short_length[8:12] = (100).to_bytes(4, "big")
    results["invalid:record_length_100"] = outcome(signal_data_record.parse, bytes(short_length))

    # 5. arrays of records / chunks
    chunk = b"".join(build_record(10, index, 8) for index in range(4))
    results["array:4"] = outcome(signal_data_record[4].parse, chunk)
    results["array:too_few"] = outcome(signal_data_record[5].parse, chunk)
    results["chunk:4"] = outcome(io.parse_chunk, chunk, 552)
    results["chunk:mismatch"] = outcome(io.parse_chunk, chunk, 500)
    results["greedy"] = outcome(construct.GreedyRange(signal_data_record).parse, chunk + b"\x00")

    # 6. building is not supported by the adapters
    results["build:velocity"] = outcome(
        field("platform_velocity").build, {"x": (1, {}), "y": (2, {}), "z": (3, {})}
    )
    results["build:latitude"] = outcome(field("platform_latitude").build, (1.0, {}))

    # 7. whole files: reader + transformation
    for kind, n_lines, n_bytes, pattern, rpc in (
        (10, 1, 8, "mixed", 1024),
        (10, 5, 16, "mixed", 2),
        (10, 6, 8, "high", 4),
        (10, 3, 8, "zeros", 1),
        (10, 9, 0, "mixed", 3),
        (11, 4, 8, "mixed", 3),
        (11, 2, 16, "high", 1024),
    ):
        key = f"file:{kind}:{n_lines}:{n_bytes}:{pattern}:{rpc}"
        try:
            lines, group, array_metadata, position = read_and_transform(
                kind, n_lines, n_bytes, pattern, rpc
            )
        except BaseException as exc:  # noqa: BLE001
            results[key] = f"raise {type(exc).__name__}: {exc}"
            continue
        results[key + ":lines"] = shorten(canon(lines))
        results[key + ":group"] = shorten(canon(group))
        results[key + ":array"] = shorten(canon(array_metadata) + f" position={position}")

    return results


EXPECTED = {
    'structure:signal': 'sha256:862dd525bdba59e075b3a8ad4b611c63927f8088b3069e94302f308b0bf0a3b5 len=22977',
    'structure:processed': 'sha256:9ecb7b6a44d1fdcde0d5abdfadbf1e3b8650f1109b34d6f79860babb7dc2b5ec len=17227',
    'structure:signal_head': "construct.core.Struct(name=None, docs='', flagbuildnone=False)\n  construct.core.Renamed(name='record_start', docs='', flagbuildnone=True)\n    construct.core.Tell(name=None, docs='', flagbuildnone=True)",
    'structure:platform_velocity': "construct.core.Renamed(name='platform_velocity', docs='', flagbuildnone=False)\n  construct.core.Renamed(name='x', docs='', attrs={'units': 'cm/s'}, flagbuildnone=False)\n    ceos_alos2.datatypes.Metadata(name=None, docs='', attrs={'units': 'cm/s'}, flagbuildnone=False)\n      construct.core.FormatField(name=None, docs='', fmtstr='>L', length=4, flagbuildnone=False)\n  construct.core.Renamed(name='y', docs='', attrs={'units': 'cm/s'}, flagbuildnone=False)\n    ceos_alos2.datatypes.Metadata(name=None, docs='', attrs={'units': 'cm/s'}, flagbuildnone=False)\n      construct.core.FormatField(name=None, docs='', fmtstr='>L', length=4, flagbuildnone=False)\n  construct.core.Renamed(name='z', docs='', attrs={'units': 'cm/s'}, flagbuildnone=False)\n    ceos_alos2.datatypes.Metadata(name=None, docs='', attrs={'units': 'cm/s'}, flagbuildnone=False)\n      construct.core.FormatField(name=None, docs='', fmtstr='>L', length=4, flagbuildnone=False)",
    'structure:platform_acceleration': "construct.core.Renamed(name='platform_acceleration', docs='', flagbuildnone=False)\n  construct.core.Renamed(name='x', docs='', attrs={'units': 'cm/s^2'}, flagbuildnone=False)\n    ceos_alos2.datatypes.Metadata(name=None, docs='', attrs={'units': 'cm/s^2'}, flagbuildnone=False)\n      construct.core.FormatField(name=None, docs='', fmtstr='>L', length=4, flagbuildnone=False)\n  construct.core.Renamed(name='y', docs='', attrs={'units': 'cm/s^2'}, flagbuildnone=False)\n    ceos_alos2.datatypes.Metadata(name=None, docs='', attrs={'units': 'cm/s^2'}, flagbuildnone=False)\n      construct.core.FormatField(name=None, docs='', fmtstr='>L', length=4, flagbuildnone=False)\n  construct.core.Renamed(name='z', docs='', attrs={'units': 'cm/s^2'}, flagbuildnone=False)\n    ceos_alos2.datatypes.Metadata(name=None, docs='', attrs={'units': 'cm/s^2'}, flagbuildnone=False)\n      construct.core.FormatField(name=None, docs='', fmtstr='>L', length=4, flagbuildnone=False)",
    'structure:platform_latitude': "construct.core.Renamed(name='platform_latitude', docs='', attrs={'units': 'deg'}, flagbuildnone=False)\n  ceos_alos2.datatypes.Metadata(name=None, docs='', attrs={'units': 'deg'}, flagbuildnone=False)\n    ceos_alos2.datatypes.Factor(name=None, docs='', factor=1e-06, flagbuildnone=False)\n      construct.core.FormatField(name=None, docs='', fmtstr='>L', length=4, flagbuildnone=False)",
    'structure:platform_attitude': "construct.core.Renamed(name='platform_attitude', docs='', flagbuildnone=False)\n  construct.core.Renamed(name='pitch', docs='', attrs={'units': 'deg'}, flagbuildnone=False)\n    ceos_alos2.datatypes.Metadata(name=None, docs='', attrs={'units': 'deg'}, flagbuildnone=False)\n      ceos_alos2.datatypes.Factor(name=None, docs='', factor=1e-06, flagbuildnone=False)\n        construct.core.FormatField(name=None, docs='', fmtstr='>L', length=4, flagbuildnone=False)\n  construct.core.Renamed(name='roll', docs='', attrs={'units': 'deg'}, flagbuildnone=False)\n    ceos_alos2.datatypes.Metadata(name=None, docs='', attrs={'units': 'deg'}, flagbuildnone=False)\n      ceos_alos2.datatypes.Factor(name=None, docs='', factor=1e-06, flagbuildnone=False)\n        construct.core.FormatField(name=None, docs='', fmtstr='>L', length=4, flagbuildnone=False)\n  construct.core.Renamed(name='yaw', docs='', attrs={'units': 'deg'}, flagbuildnone=False)\n    ceos_alos2.datatypes.Metadata(name=None, docs='', attrs={'units': 'deg'}, flagbuildnone=False)\n      ceos_alos2.datatypes.Factor(name=None, docs='', factor=1e-06, flagbuildnone=False)\n        construct.core.FormatField(name=None, docs='', fmtstr='>L', length=4, flagbuildnone=False)",
    'structure:field_names': 'sha256:42342bc189a21f9a0e713325cf749fd55919d6b6049002537135cec64d731a88 len=1285',
    'sharing:signal': "{'nodes': 204, 'metadata': (33, 33), 'metadata_attrs': 33, 'factor': (13, 13), 'struct': (2, 2), 'renamed': (76, 76)}",
    'sharing:processed': "{'nodes': 153, 'metadata': (23, 23), 'metadata_attrs': 23, 'factor': (12, 12), 'struct': (2, 2), 'renamed': (55, 55)}",
    'sizeof:record': 'raise SizeofError: Error in path (sizeof) -> data -> stop\nSeek only moves the stream, size is not meaningful',
    'sizeof:platform_velocity': 'ok int:12',
    'sizeof:platform_acceleration': 'ok int:12',
    'sizeof:platform_attitude': 'ok int:12',
    'sizeof:fixed_part': '544',
    'parse:mixed:0': 'sha256:3e9dc3162ffe32c3093c19b91d11cbd7220796ebc1b792285d8077452ca5da29 len=5032',
    'to_dict:mixed:0': 'sha256:14534394efa24f882c46159dc77ff8c63665035f4e5023d954740bc231353d2c len=4752',
    'parse:mixed:1': 'sha256:9ff8057a68d54333b44d0e6888513d59d565fd6bd37354ae0366004417f4b74f len=5010',
    'to_dict:mixed:1': 'sha256:78432745464a34c2f0ca3b4bc4040c2f0fe5e7c323c2be4120ef7f2822480bf2 len=4770',
    'parse:mixed:5': 'sha256:17b9b01e63a4d33528bf6aea98b45197df0b70671846ef000819b5cb1eedda78 len=4959',
    'to_dict:mixed:5': 'sha256:348d6540e372fe8b15be52d77ff75ba2605c8031b136fa30980e05b5d2286882 len=4759',
    'parse:high:0': 'sha256:ab70acde64ad145cd20c969bde9b6f19d7330a5b2d8c30e9502d50eaf24c537c len=5379',
    'to_dict:high:0': 'sha256:3fb71fb4d797b75d4bb483f84a608d6d1e7e073445f7a001007314bb6ef336d0 len=5099',
    'parse:high:1': 'sha256:78f69157a613c08b260aa6a04dadb451073ff073611e05bedb579fcbf5b20c25 len=5369',
    'to_dict:high:1': 'sha256:36ee3135a5ac7b45baccf34feca162fd5d01aacbdb21e8f1b2f6db1882913dc4 len=5129',
    'parse:high:5': 'sha256:c1dc4ed6d9e45ef45684b73291a957f472f8b286870334c9c0a8380389f195f7 len=5347',
    'to_dict:high:5': 'sha256:772a7412cfe3a2649d92b22d30b9d7ef205fc412f835aeff15c5167c1240058c len=5147',
    'parse:zeros:0': 'sha256:361d43fe02156fac6ad573eac2b837c9be0fe64b16c367b08019ae7f4271a82a len=4088',
    'to_dict:zeros:0': 'sha256:1575aac0c6946ce5800186e06477e4b4046a2c43561cc6231488931fcbc45881 len=3808',
    'parse:zeros:1': 'sha256:4222993edda2350bfa7c87245e8a79f22b084b561b6434e335936d470e286b45 len=4071',
    'to_dict:zeros:1': 'sha256:011f8a9422b255240aae0999e75b10cfe558b4b7b8e27b6b7cbe963def1b3a35 len=3831',
    'parse:zeros:5': 'sha256:11532c81617cd54476c8cb6cd8eee2c3231527ea258441be1a52c23aae9cf35a len=4027',
    'to_dict:zeros:5': 'sha256:84b0df47a4548940ec725daef58dba27469c7a8f091168796c07a3ec4e7ba209 len=3827',
    'parse:ones:0': 'sha256:c3e8de02feadd0398b0b8cf3b2b9f2538229fb123bf7d0c70adaec9ca1575e8b len=5816',
    'to_dict:ones:0': 'sha256:b8a3b8e6a2f5cc2c4f1d3f92fb50fceb09e4685e1f68743648a390e9c5c3db28 len=5536',
    'parse:ones:1': 'sha256:17da0920c88571dec054f7ab54d4ae8a03fca3845063d3875babcc1510038250 len=5799',
    'to_dict:ones:1': 'sha256:9939e1f671b6c28f4a0b8b1fc59d99de75ed09a9da64e67248fb28d75e63b8d7 len=5559',
    'parse:ones:5': 'sha256:2885c8e3cd87cae2a6c166b696a35d4758950f8e330f91c7e2ab45997235c7de len=5755',
    'to_dict:ones:5': 'sha256:5f39a48492e1e9fe9226f6d3184244eca893d7d1be5c06d574dab01ca6b6ee2b len=5555',
    'parse:types': "dict{str:'velocity': list[str:'Container', list[str:'_io', str:'x', str:'y', str:'z']], str:'velocity_x': tuple[int:51255588, dict{str:'units': str:'cm/s'}], str:'acceleration_z': tuple[int:3756717312, dict{str:'units': str:'cm/s^2'}], str:'latitude': tuple[float:1398.696308, dict{str:'units': str:'deg'}], str:'attitude_roll': tuple[float:2409.276848, dict{str:'units': str:'deg'}], str:'last_longitude': tuple[float:3285.113316, dict{str:'units': str:'deg'}], str:'data': dict{str:'start': int:544, str:'size': int:16, str:'stop': int:560}}",
    'parse:attrs_identity': '8',
    'truncated:0': 'raise StreamError: Error in path (parsing) -> preamble -> record_sequence_number\nstream read less than specified amount, expected 4, found 0',
    'truncated:11': 'raise StreamError: Error in path (parsing) -> preamble -> record_length\nstream read less than specified amount, expected 4, found 3',
    'truncated:12': 'raise StreamError: Error in path (parsing) -> sar_image_data_line_number\nstream read less than specified amount, expected 4, found 0',
    'truncated:47': 'raise StreamError: Error in path (parsing) -> sensor_acquisition_date -> milliseconds\nstream read less than specified amount, expected 4, found 3',
    'truncated:131': 'raise StreamError: Error in path (parsing) -> platform_position_parameters_update_flag\nstream read less than specified amount, expected 4, found 3',
    'truncated:135': 'raise StreamError: Error in path (parsing) -> platform_latitude\nstream read less than specified amount, expected 4, found 3',
    'truncated:149': 'raise StreamError: Error in path (parsing) -> platform_velocity -> x\nstream read less than specified amount, expected 4, found 1',
    'truncated:155': 'raise StreamError: Error in path (parsing) -> platform_velocity -> y\nstream read less than specified amount, expected 4, found 3',
    'truncated:163': 'raise StreamError: Error in path (parsing) -> platform_acceleration -> x\nstream read less than specified amount, expected 4, found 3',
    'truncated:171': 'raise StreamError: Error in path (parsing) -> platform_acceleration -> z\nstream read less than specified amount, expected 4, found 3',
    'truncated:179': 'raise StreamError: Error in path (parsing) -> platform_true_track_angle\nstream read less than specified amount, expected 4, found 3',
    'truncated:185': 'raise StreamError: Error in path (parsing) -> platform_attitude -> roll\nstream read less than specified amount, expected 4, found 1',
    'truncated:193': 'raise StreamError: Error in path (parsing) -> latitude_of_first_pixel\nstream read less than specified amount, expected 4, found 1',
    'truncated:215': 'raise StreamError: Error in path (parsing) -> longitude_of_last_pixel\nstream read less than specified amount, expected 4, found 3',
    'truncated:283': 'raise StreamError: Error in path (parsing) -> blanks2\nstream read less than specified amount, expected 60, found 59',
    'truncated:543': 'raise StreamError: Error in path (parsing) -> palsar_auxiliary_data\nstream read less than specified amount, expected 256, found 255',
    'truncated:544': 'sha256:6bfcc9d3915708a6ad01f0144d4d1034c9d2eee89eb2dbfff6a80ad33b114d8c len=4967',
    'invalid:year_zero': 'raise ValueError: year 0 is out of range',
    'invalid:record_length_100': 'sha256:cfaeecf951033be77dd917c56decaa6785f115050ee882da4424e939962b4ed1 len=4970',
    'array:4': 'sha256:4e154b60304664c28697a86f62624a941cb51a659fb835f57a1b8d19181fc2e1 len=20108',
    'array:too_few': 'raise StreamError: Error in path (parsing) -> preamble -> record_sequence_number\nstream read less than specified amount, expected 4, found 0',
    'chunk:4': 'sha256:a06bad061e85fa83b3f84f57e6a241770c85fb3c9f4f608f12641d49037939b4 len=20099',
    'chunk:mismatch': 'raise ValueError: sizes mismatch: chunksize is 2000 but got 2208 bytes',
    'greedy': 'sha256:4e154b60304664c28697a86f62624a941cb51a659fb835f57a1b8d19181fc2e1 len=20108',
    'build:velocity': 'raise NotImplementedError: ',
    'build:latitude': 'raise NotImplementedError: ',
    'file:10:1:8:mixed:1024:lines': 'sha256:2a928d27d36c67b5db2c5c53d078211495e9c923ab1639760eb9183ba0ba7218 len=4758',
    'file:10:1:8:mixed:1024:group': 'sha256:8af276b3acd517ee52e693051bef36d12e855e5c9f8873f9656694558958ee79 len=6025',
    'file:10:1:8:mixed:1024:array': "dict{str:'type_code': str:'C*8', str:'shape': tuple[int:1, int:1], str:'dtype': str:'complex64', str:'byte_ranges': list[tuple[int:1264, int:1272]]} position=1272",
    'file:10:5:16:mixed:2:lines': 'sha256:e729be9306171a8910c87a0e260782c3b151f230a5385fb9c74c8f42f9921c70 len=23857',
    'file:10:5:16:mixed:2:group': 'sha256:b04be7e93b02cf3f17f519fd77c8f3c51f74d5e4e9591c8cd20fec433e74045a len=11441',
    'file:10:5:16:mixed:2:array': "dict{str:'type_code': str:'C*8', str:'shape': tuple[int:5, int:2], str:'dtype': str:'complex64', str:'byte_ranges': list[tuple[int:1264, int:1280], tuple[int:1824, int:1840], tuple[int:2384, int:2400], tuple[int:2944, int:2960], tuple[int:3504, int:3520]]} position=3520",
    'file:10:6:8:high:4:lines': 'sha256:8da3631eef6432aae0035a8fa7e38701606085b6a717548cf3eb1d3fc2715767 len=30760',
    'file:10:6:8:high:4:group': 'sha256:2d5464866a8371cd0d43e92cc9bdfb5bdaa10ad2d044a22442f06e429c763b4a len=12841',
    'file:10:6:8:high:4:array': "dict{str:'type_code': str:'C*8', str:'shape': tuple[int:6, int:1], str:'dtype': str:'complex64', str:'byte_ranges': list[tuple[int:1264, int:1272], tuple[int:1816, int:1824], tuple[int:2368, int:2376], tuple[int:2920, int:2928], tuple[int:3472, int:3480], tuple[int:4024, int:4032]]} position=4032",
    'file:10:3:8:zeros:1:lines': 'sha256:fb9b99242319799fba7ef98fe8d064873599edce8ceb8003a46eebd09c37718a len=11477',
    'file:10:3:8:zeros:1:group': 'sha256:d4a030593815708f5fd03a0419d6e69ad06e71af05a64a19f5785f1f497b93cd len=7766',
    'file:10:3:8:zeros:1:array': "dict{str:'type_code': str:'C*8', str:'shape': tuple[int:3, int:1], str:'dtype': str:'complex64', str:'byte_ranges': list[tuple[int:1264, int:1272], tuple[int:1816, int:1824], tuple[int:2368, int:2376]]} position=2376",
    'file:10:9:0:mixed:3:lines': 'sha256:9a548b37b9d1a0bb9d414f7e119cb414ebde80d07261bfe3552356ae547ff0a9 len=42928',
    'file:10:9:0:mixed:3:group': 'sha256:ccfcae039c9d961ca1bb06463f971c3b1c1d17149bb94625696743e214f9c2d4 len=16837',
    'file:10:9:0:mixed:3:array': 'sha256:6da11122880b4ee38d883a18039cd818d5afc32540ccc66b8909c33db779423e len=378',
    'file:11:4:8:mixed:3:lines': 'sha256:f6bf532f2dd0249d111eee613ba92b0f8ab9d723f152d173284746392e9d4504 len=12697',
    'file:11:4:8:mixed:3:group': 'sha256:8192f19bc6189a575b28cf2d46487468620144dba085d35db8830355fd994c26 len=5784',
    'file:11:4:8:mixed:3:array': "dict{str:'type_code': str:'C*8', str:'shape': tuple[int:4, int:1], str:'dtype': str:'complex64', str:'byte_ranges': list[tuple[int:912, int:920], tuple[int:1112, int:1120], tuple[int:1312, int:1320], tuple[int:1512, int:1520]]} position=1520",
    'file:11:2:16:high:1024:lines': 'sha256:4a5915e7133b1525d8049f5e3a7c53c349f63b6afa32e32e038da2b1a387c304 len=6429',
    'file:11:2:16:high:1024:group': 'sha256:58cabc2ffbe83c55b029bbe8f6cce3aaa29777986f1b6e5f3868b5bf2ad1f162 len=4898',
    'file:11:2:16:high:1024:array': "dict{str:'type_code': str:'C*8', str:'shape': tuple[int:2, int:2], str:'dtype': str:'complex64', str:'byte_ranges': list[tuple[int:912, int:928], tuple[int:1120, int:1136]]} position=1136",
}


def check_details():
    lines, group, array_metadata, _ = read_and_transform(10, 3, 16, "mixed", 2)

    first = lines[0]
    assert list(first["platform_velocity"]) == ["x", "y", "z"]
    assert first["platform_velocity"]["x"][1] == {"units": "cm/s"}
    assert first["platform_acceleration"]["y"][1] == {"units": "cm/s^2"}
    assert first["platform_latitude"][1] == {"units": "deg"}
    raw = build_record(10, 0, 16)
    assert first["platform_latitude"][0] == int.from_bytes(raw[132:136], "big") * 1e-6
    assert first["platform_velocity"]["z"][0] == int.from_bytes(raw[156:160], "big")
    assert first["platform_attitude"]["yaw"][0] == int.from_bytes(raw[188:192], "big") * 1e-6
    assert first["longitude_of_last_pixel"][0] == int.from_bytes(raw[212:216], "big") * 1e-6
    assert first["data"] == {"start": 720 + 544, "size": 16, "stop": 720 + 560}

    assert array_metadata["byte_ranges"] == [
        (720 + 560 * i + 544, 720 + 560 * (i + 1)) for i in range(3)
    ]
    assert group.data["platform_latitude"].attrs == {"units": "deg"}
    assert group.data["rows"].data == [1, 2, 3]


def test_equivalence():
    results = run()
    assert list(results) == list(EXPECTED)
    for name, actual in results.items():
        assert actual == EXPECTED[name], f"{name}: {actual!r} != {EXPECTED[name]!r}"
    check_details()


if __name__ == "__main__":
    if "--record" in sys.argv:
        print("EXPECTED = {")
        for name, value in run().items():
            print(f"    {name!r}: {value!r},")
        print("}")
    else:
        test_equivalence()
        print(f"ok: {len(EXPECTED)} cases")
