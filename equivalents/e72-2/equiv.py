"""Equivalence check for refactoring 2 (ceos_alos2.array.Array.__getitem__).

Run as a script (``python equiv.py``) or through pytest.  ``python equiv.py
--record`` prints the observations instead of comparing them; EXPECTED below
was recorded that way from the unchanged code (HEAD).

Every scenario runs against a file system double that logs each request
(open / __enter__ / seek / read / __exit__ / close) so that the order of the
I/O and the clean-up on every path is part of the observation.
"""

import pprint
import sys

import fsspec
import numpy as np
from fsspec.implementations.dirfs import DirFileSystem

from ceos_alos2 import array

N_ROWS = 7
N_COLS = 3
HEADER = 5  # bytes in front of every record
GAP = 2  # bytes between records


def build_file(type_code):
    """rows with a prefix and gaps in between, like the records of an image file"""
    if type_code == "IU2":
        values = (np.arange(N_ROWS * N_COLS).reshape(N_ROWS, N_COLS) * 257 + 3).astype(">u2")
    else:
        real = np.arange(N_ROWS * N_COLS, dtype="f4").reshape(N_ROWS, N_COLS)
        values = (real + 1j * (real / 4 - 2)).astype(">c8")

    content = b""
    byte_ranges = []
    for row in values:
        content += b"\xee" * HEADER
        start = len(content)
        content += row.tobytes()
        byte_ranges.append((start, len(content)))
        content += b"\xdd" * GAP
    return content, byte_ranges


class Boom(Exception):
    pass


class RecordingFile:
    def __init__(self, log, content, options):
        self.log = log
        self.content = content
        self.options = options
        self.position = 0
        self.n_reads = 0
        self.closed = False

    def __enter__(self):
        self.log.append("enter")
        if "enter_raises" in self.options:
            raise self.options["enter_raises"]
        if self.options.get("enter_returns_proxy"):
            return Proxy(self)
        return self

    def __exit__(self, exc_type, exc_value, traceback):
        self.log.append(f"exit({None if exc_type is None else exc_type.__name__})")
        self.closed = True
        if "exit_raises" in self.options:
            raise self.options["exit_raises"]
        return self.options.get("exit_returns", None)

    def close(self):
        self.log.append("close")
        self.closed = True

    def seek(self, offset, *args):
        self.log.append(f"seek({offset}{''.join(', %r' % a for a in args)})")
        self.position = offset
        return offset

    def read(self, size=-1, *args):
        self.log.append(f"read({size}{''.join(', %r' % a for a in args)})")
        self.n_reads += 1
        failure = self.options.get("read_raises", {}).get(self.n_reads)
        if failure is not None:
            raise failure
        data = self.content[self.position : self.position + size]
        self.position += len(data)
        short = self.options.get("short_read", {}).get(self.n_reads)
        if short is not None:
            data = data[:short]
        return data


class Proxy:
    """what ``__enter__`` hands out if it is not the file itself"""

    def __init__(self, f):
        self.f = f

    def seek(self, *args):
        self.f.log.append("proxy")
        return self.f.seek(*args)

    def read(self, *args):
        self.f.log.append("proxy")
        return self.f.read(*args)


class NotAContextManager:
    def __init__(self, log):
        self.log = log

    def seek(self, *args):
        self.log.append("seek")

    def read(self, *args):
        self.log.append("read")
        return b""

    def close(self):
        self.log.append("close")


class RecordingFS:
    def __init__(self, content, **options):
        self.log = []
        self.content = content
        self.options = options
        self.files = []

    def open(self, *args, **kwargs):
        self.log.append(f"open(*{args!r}, **{kwargs!r})")
        if "open_raises" in self.options:
            raise self.options["open_raises"]
        if self.options.get("not_a_context_manager"):
            return NotAContextManager(self.log)
        f = RecordingFile(self.log, self.content, self.options)
        self.files.append(f)
        return f


def describe_exception(exc):
    text = (
        f"{type(exc).__qualname__}{exc.args!r}"
        f" cause={exc.__cause__!r} suppress_context={exc.__suppress_context__}"
    )
    chain = []
    context = exc.__context__
    while context is not None and len(chain) < 5:
        chain.append(f"{type(context).__qualname__}{context.args!r}")
        context = context.__context__
    return text + " context=" + " <- ".join(chain or ["None"])


def describe_result(result):
    if isinstance(result, np.ndarray):
        return (
            f"ndarray {result.dtype.str} {result.shape} {result.tolist()!r}"
            f" writeable={bool(result.flags.writeable)}"
        )
    return f"{type(result).__module__}.{type(result).__qualname__} {result!r}"


def make_array(fs, byte_ranges, *, type_code, records_per_chunk, shape=None, dtype=None, url="img"):
    if shape is None:
        shape = (len(byte_ranges), N_COLS)
    if dtype is None:
        dtype = "uint16" if type_code == "IU2" else "complex64"
    return array.Array(
        fs=fs,
        url=url,
        byte_ranges=byte_ranges,
        shape=shape,
        dtype=dtype,
        type_code=type_code,
        records_per_chunk=records_per_chunk,
    )


def run(indexers, *, type_code="IU2", records_per_chunk=3, fs_options=None, **kwargs):
    content, byte_ranges = build_file(type_code if type_code in ("IU2", "C*8") else "IU2")
    byte_ranges = kwargs.pop("byte_ranges", byte_ranges)
    fs = RecordingFS(content, **(fs_options or {}))
    arr = make_array(
        fs, byte_ranges, type_code=type_code, records_per_chunk=records_per_chunk, **kwargs
    )
    state_before = repr(sorted(vars(arr)))
    try:
        result = arr[indexers]
    except BaseException as exc:  # noqa: BLE001
        outcome = "raised " + describe_exception(exc)
    else:
        outcome = "returned " + describe_result(result)

    assert repr(sorted(vars(arr))) == state_before
    closed = [f.closed for f in fs.files]
    return f"{outcome} | io: {' '.join(fs.log)} | closed: {closed}"


def observe():
    obs = {}

    row_indexers = {
        "0": 0,
        "3": 3,
        "6": 6,
        "-1": -1,
        "-7": -7,
        "True": True,
        "all": slice(None),
        "0:1": slice(0, 1),
        "2:5": slice(2, 5),
        "1::2": slice(1, None, 2),
        "::-1": slice(None, None, -1),
        "-1::-3": slice(-1, None, -3),
        "5:2": slice(5, 2),
        "7:": slice(7, None),
        "0:0": slice(0, 0),
        "100:200": slice(100, 200),
        "list": [0, 4, 5],
        "list-unordered": [6, 0, 3, 3],
        "list-negative": [-1, 0],
        "list-empty": [],
        "tuple": (1, 2),
        "range": range(2, 6),
        "ndarray": np.array([0, 6]),
        "np-int": np.int64(2),
        "out-of-range": 7,
        "out-of-range-negative": -8,
        "list-out-of-range": [0, 9],
        "none": None,
        "float": 1.5,
        "str": "ab",
        "ellipsis": Ellipsis,
    }
    col_indexers = {
        "all": (slice(None),),
        "1": (1,),
        "-1": (-1,),
        "0:2": (slice(0, 2),),
        "::-1": (slice(None, None, -1),),
        "list": ([2, 0],),
        "missing": (),
        "out-of-range": (3,),
        "too-many": (slice(None), 0),
        "newaxis": (None,),
    }
    for row_name, row in row_indexers.items():
        for col_name, cols in col_indexers.items():
            if col_name not in ("all", "1") and row_name not in ("0", "all", "5:2", "list"):
                continue
            for type_code in ("IU2", "C*8"):
                if type_code == "C*8" and (row_name, col_name) not in {
                    ("0", "all"),
                    ("all", "all"),
                    ("::-1", "1"),
                    ("list-unordered", "all"),
                    ("0:0", "all"),
                    ("-1", "-1"),
                }:
                    continue
                key = f"index/{type_code}/{row_name}/{col_name}"
                obs[key] = run((row, *cols), type_code=type_code)

    # indexers that are not tuples
    obs["index/list-of-indexers"] = run([slice(1, 3), slice(None)])
    obs["index/bare-int"] = run(2)
    obs["index/bare-slice"] = run(slice(None))
    obs["index/empty-tuple"] = run(())

    # chunk layouts
    for records_per_chunk in (None, 1, 2, 3, 6, 7, 100, -1, "auto", "10B", "20B"):
        for row_name in ("all", "1::2", "list-unordered", "6", "0:0"):
            key = f"chunks/{records_per_chunk}/{row_name}"
            obs[key] = run(
                (row_indexers[row_name], slice(None)), records_per_chunk=records_per_chunk
            )

    # 1d and empty arrays, declared shape / dtype that do not match the data
    obs["shape/1d-int"] = run((2,), shape=(N_ROWS,))
    obs["shape/1d-slice"] = run((slice(2, 4),), shape=(N_ROWS,))
    obs["shape/1d-empty"] = run((slice(0, 0),), shape=(N_ROWS,))
    obs["shape/3d-empty"] = run((slice(0, 0), slice(None)), shape=(N_ROWS, 5, 2))
    obs["shape/scalar-shape-empty"] = run((slice(0, 0),), shape=(), records_per_chunk=None)
    obs["shape/none-shape-empty"] = run((slice(0, 0),), shape=None)
    obs["shape/none-shape"] = run((slice(0, 2),), shape=None)
    obs["shape/declared-dtype-differs"] = run((slice(0, 2), slice(None)), dtype="float32")
    obs["shape/declared-dtype-differs-empty"] = run((slice(0, 0), slice(None)), dtype="float32")
    obs["shape/bad-dtype-empty"] = run((slice(0, 0), slice(None)), dtype="no-such-dtype")
    obs["shape/bad-dtype"] = run((slice(0, 2), slice(None)), dtype="no-such-dtype")
    obs["shape/no-records-all"] = run((slice(None), slice(None)), byte_ranges=[], shape=(0, 3))
    obs["shape/no-records-int"] = run((0, slice(None)), byte_ranges=[], shape=(0, 3))
    obs["shape/ragged"] = run(
        (slice(None), slice(None)), byte_ranges=[(5, 11), (18, 22), (31, 37)], shape=(3, 3)
    )
    obs["shape/ragged-single"] = run(
        (1, slice(None)), byte_ranges=[(5, 11), (18, 22), (31, 37)], shape=(3, 3)
    )
    obs["shape/odd-record"] = run(
        (slice(None), slice(None)), byte_ranges=[(5, 11), (18, 23), (31, 37)], shape=(3, 3)
    )

    # error and clean-up paths
    everything = (slice(None), slice(None))
    failures = {
        "open-raises": {"open_raises": OSError(2, "no such file")},
        "open-raises-keyboard-interrupt": {"open_raises": KeyboardInterrupt()},
        "enter-raises": {"enter_raises": Boom("enter")},
        "enter-proxy": {"enter_returns_proxy": True},
        "not-a-context-manager": {"not_a_context_manager": True},
        "read1-raises": {"read_raises": {1: Boom("first read")}},
        "read2-raises": {"read_raises": {2: OSError("second read")}},
        "read3-raises": {"read_raises": {3: Boom("third read")}},
        "read2-stop-iteration": {"read_raises": {2: StopIteration("stop")}},
        "read2-generator-exit": {"read_raises": {2: GeneratorExit("exit")}},
        "read2-keyboard-interrupt": {"read_raises": {2: KeyboardInterrupt("ctrl-c")}},
        "read2-runtime-error": {"read_raises": {2: RuntimeError("generator raised StopIteration")}},
        "read2-raises-exit-raises": {
            "read_raises": {2: Boom("second read")},
            "exit_raises": OSError("exit failed"),
        },
        "exit-raises": {"exit_raises": OSError("exit failed")},
        "exit-true": {"exit_returns": True},
        "exit-false": {"exit_returns": False},
        "exit-one": {"exit_returns": 1},
        "read2-raises-exit-true": {"read_raises": {2: Boom("swallowed")}, "exit_returns": True},
        "read2-raises-exit-one": {"read_raises": {2: Boom("swallowed")}, "exit_returns": 1},
        "read2-stop-iteration-exit-true": {
            "read_raises": {2: StopIteration("swallowed")},
            "exit_returns": True,
        },
        "short-read2": {"short_read": {2: 11}},
        "short-read2-odd": {"short_read": {2: 10}},
        "short-read-empty": {"short_read": {1: 0}},
    }
    for name, options in failures.items():
        obs[f"failure/{name}"] = run(everything, fs_options=options)
    obs["failure/open-raises-empty-selection"] = run(
        (slice(0, 0), slice(None)), fs_options={"open_raises": OSError("nope")}
    )
    obs["failure/exit-true-empty-selection"] = run(
        (slice(0, 0), slice(None)), fs_options={"exit_returns": True}
    )
    obs["failure/exit-raises-empty-selection"] = run(
        (slice(0, 0), slice(None)), fs_options={"exit_raises": Boom("exit")}
    )
    obs["failure/unknown-type-code"] = run(everything, type_code="F*8")
    obs["failure/unknown-type-code-empty-selection"] = run(
        (slice(0, 0), slice(None)), type_code="F*8"
    )
    obs["failure/unknown-type-code-exit-true"] = run(
        everything, type_code="F*8", fs_options={"exit_returns": True}
    )
    obs["failure/column-out-of-range-exit-true"] = run(
        (slice(None), 5), fs_options={"exit_returns": True}
    )
    obs["failure/bad-row-indexer-no-io"] = run(({"a": 1}, slice(None)))

    # helpers are looked up in the module at call time
    calls = []
    originals = {
        name: getattr(array, name) for name in ("read_chunk", "extract_ranges", "parse_data")
    }

    def spy(name):
        def wrapper(*args, **kwargs):
            shown = [a if not isinstance(a, RecordingFile) else "<file>" for a in args]
            calls.append(f"{name}(*{shown!r}, **{kwargs!r})")
            return originals[name](*args, **kwargs)

        return wrapper

    try:
        for name in originals:
            setattr(array, name, spy(name))
        obs["spy/result"] = run(([4, 0, 5], slice(None)), records_per_chunk=2)
        obs["spy/calls"] = list(calls)
    finally:
        for name, func in originals.items():
            setattr(array, name, func)

    # a real file system
    content, byte_ranges = build_file("C*8")
    memfs = fsspec.filesystem("memory")
    memfs.pipe_file("/eq2/dir/img", content)
    dirfs = DirFileSystem(fs=memfs, path="/eq2/dir")
    arr = make_array(dirfs, byte_ranges, type_code="C*8", records_per_chunk=4)
    obs["memory/all"] = describe_result(arr[slice(None), slice(None)])
    obs["memory/row"] = describe_result(arr[-2, slice(1, None)])
    obs["memory/np-asarray-roundtrip"] = describe_result(arr[(slice(1, 6, 2), 0)])
    missing = make_array(dirfs, byte_ranges, type_code="C*8", records_per_chunk=4, url="missing")
    try:
        missing[0, 0]
    except BaseException as exc:  # noqa: BLE001
        obs["memory/missing"] = type(exc).__qualname__
    memfs.rm("/eq2", recursive=True)

    obs["public-names"] = sorted(
        name
        for name in ("Array", "read_chunk", "extract_ranges", "parse_data", "relocate_ranges")
        if hasattr(array, name)
    )
    return obs


EXPECTED = {'chunks/-1/0:0': "returned ndarray <u2 (0, 3) [] writeable=True | io: open(*('img',), **{'mode': 'rb'}) "
                  'enter exit(None) | closed: [True]',
 'chunks/-1/1::2': 'returned ndarray <u2 (3, 3) [[774, 1031, 1288], [2316, 2573, 2830], [3858, 4115, 4372]] '
                   "writeable=True | io: open(*('img',), **{'mode': 'rb'}) enter seek(5) read(84) exit(None) "
                   '| closed: [True]',
 'chunks/-1/6': "returned ndarray <u2 (3,) [4629, 4886, 5143] writeable=True | io: open(*('img',), "
                "**{'mode': 'rb'}) enter seek(5) read(84) exit(None) | closed: [True]",
 'chunks/-1/all': 'returned ndarray <u2 (7, 3) [[3, 260, 517], [774, 1031, 1288], [1545, 1802, 2059], [2316, '
                  '2573, 2830], [3087, 3344, 3601], [3858, 4115, 4372], [4629, 4886, 5143]] writeable=True | '
                  "io: open(*('img',), **{'mode': 'rb'}) enter seek(5) read(84) exit(None) | closed: [True]",
 'chunks/-1/list-unordered': 'returned ndarray <u2 (4, 3) [[4629, 4886, 5143], [3, 260, 517], [2316, 2573, '
                             "2830], [2316, 2573, 2830]] writeable=True | io: open(*('img',), **{'mode': "
                             "'rb'}) enter seek(5) read(84) exit(None) | closed: [True]",
 'chunks/1/0:0': "returned ndarray <u2 (0, 3) [] writeable=True | io: open(*('img',), **{'mode': 'rb'}) "
                 'enter exit(None) | closed: [True]',
 'chunks/1/1::2': 'returned ndarray <u2 (3, 3) [[774, 1031, 1288], [2316, 2573, 2830], [3858, 4115, 4372]] '
                  "writeable=True | io: open(*('img',), **{'mode': 'rb'}) enter seek(18) read(6) seek(44) "
                  'read(6) seek(70) read(6) exit(None) | closed: [True]',
 'chunks/1/6': "returned ndarray <u2 (3,) [4629, 4886, 5143] writeable=True | io: open(*('img',), **{'mode': "
               "'rb'}) enter seek(83) read(6) exit(None) | closed: [True]",
 'chunks/1/all': 'returned ndarray <u2 (7, 3) [[3, 260, 517], [774, 1031, 1288], [1545, 1802, 2059], [2316, '
                 '2573, 2830], [3087, 3344, 3601], [3858, 4115, 4372], [4629, 4886, 5143]] writeable=True | '
                 "io: open(*('img',), **{'mode': 'rb'}) enter seek(5) read(6) seek(18) read(6) seek(31) "
                 'read(6) seek(44) read(6) seek(57) read(6) seek(70) read(6) seek(83) read(6) exit(None) | '
                 'closed: [True]',
 'chunks/1/list-unordered': 'returned ndarray <u2 (4, 3) [[4629, 4886, 5143], [3, 260, 517], [2316, 2573, '
                            "2830], [2316, 2573, 2830]] writeable=True | io: open(*('img',), **{'mode': "
                            "'rb'}) enter seek(83) read(6) seek(5) read(6) seek(44) read(6) exit(None) | "
                            'closed: [True]',
 'chunks/100/0:0': "returned ndarray <u2 (0, 3) [] writeable=True | io: open(*('img',), **{'mode': 'rb'}) "
                   'enter exit(None) | closed: [True]',
 'chunks/100/1::2': 'returned ndarray <u2 (3, 3) [[774, 1031, 1288], [2316, 2573, 2830], [3858, 4115, 4372]] '
                    "writeable=True | io: open(*('img',), **{'mode': 'rb'}) enter seek(5) read(84) "
                    'exit(None) | closed: [True]',
 'chunks/100/6': "returned ndarray <u2 (3,) [4629, 4886, 5143] writeable=True | io: open(*('img',), "
                 "**{'mode': 'rb'}) enter seek(5) read(84) exit(None) | closed: [True]",
 'chunks/100/all': 'returned ndarray <u2 (7, 3) [[3, 260, 517], [774, 1031, 1288], [1545, 1802, 2059], '
                   '[2316, 2573, 2830], [3087, 3344, 3601], [3858, 4115, 4372], [4629, 4886, 5143]] '
                   "writeable=True | io: open(*('img',), **{'mode': 'rb'}) enter seek(5) read(84) exit(None) "
                   '| closed: [True]',
 'chunks/100/list-unordered': 'returned ndarray <u2 (4, 3) [[4629, 4886, 5143], [3, 260, 517], [2316, 2573, '
                              "2830], [2316, 2573, 2830]] writeable=True | io: open(*('img',), **{'mode': "
                              "'rb'}) enter seek(5) read(84) exit(None) | closed: [True]",
 'chunks/10B/0:0': "returned ndarray <u2 (0, 3) [] writeable=True | io: open(*('img',), **{'mode': 'rb'}) "
                   'enter exit(None) | closed: [True]',
 'chunks/10B/1::2': 'returned ndarray <u2 (3, 3) [[774, 1031, 1288], [2316, 2573, 2830], [3858, 4115, 4372]] '
                    "writeable=True | io: open(*('img',), **{'mode': 'rb'}) enter seek(5) read(19) seek(31) "
                    'read(19) seek(57) read(19) exit(None) | closed: [True]',
 'chunks/10B/6': "returned ndarray <u2 (3,) [4629, 4886, 5143] writeable=True | io: open(*('img',), "
                 "**{'mode': 'rb'}) enter seek(83) read(6) exit(None) | closed: [True]",
 'chunks/10B/all': 'returned ndarray <u2 (7, 3) [[3, 260, 517], [774, 1031, 1288], [1545, 1802, 2059], '
                   '[2316, 2573, 2830], [3087, 3344, 3601], [3858, 4115, 4372], [4629, 4886, 5143]] '
                   "writeable=True | io: open(*('img',), **{'mode': 'rb'}) enter seek(5) read(19) seek(31) "
                   'read(19) seek(57) read(19) seek(83) read(6) exit(None) | closed: [True]',
 'chunks/10B/list-unordered': 'returned ndarray <u2 (4, 3) [[4629, 4886, 5143], [3, 260, 517], [2316, 2573, '
                              "2830], [2316, 2573, 2830]] writeable=True | io: open(*('img',), **{'mode': "
                              "'rb'}) enter seek(83) read(6) seek(5) read(19) seek(31) read(19) exit(None) | "
                              'closed: [True]',
 'chunks/2/0:0': "returned ndarray <u2 (0, 3) [] writeable=True | io: open(*('img',), **{'mode': 'rb'}) "
                 'enter exit(None) | closed: [True]',
 'chunks/2/1::2': 'returned ndarray <u2 (3, 3) [[774, 1031, 1288], [2316, 2573, 2830], [3858, 4115, 4372]] '
                  "writeable=True | io: open(*('img',), **{'mode': 'rb'}) enter seek(5) read(19) seek(31) "
                  'read(19) seek(57) read(19) exit(None) | closed: [True]',
 'chunks/2/6': "returned ndarray <u2 (3,) [4629, 4886, 5143] writeable=True | io: open(*('img',), **{'mode': "
               "'rb'}) enter seek(83) read(6) exit(None) | closed: [True]",
 'chunks/2/all': 'returned ndarray <u2 (7, 3) [[3, 260, 517], [774, 1031, 1288], [1545, 1802, 2059], [2316, '
                 '2573, 2830], [3087, 3344, 3601], [3858, 4115, 4372], [4629, 4886, 5143]] writeable=True | '
                 "io: open(*('img',), **{'mode': 'rb'}) enter seek(5) read(19) seek(31) read(19) seek(57) "
                 'read(19) seek(83) read(6) exit(None) | closed: [True]',
 'chunks/2/list-unordered': 'returned ndarray <u2 (4, 3) [[4629, 4886, 5143], [3, 260, 517], [2316, 2573, '
                            "2830], [2316, 2573, 2830]] writeable=True | io: open(*('img',), **{'mode': "
                            "'rb'}) enter seek(83) read(6) seek(5) read(19) seek(31) read(19) exit(None) | "
                            'closed: [True]',
 'chunks/20B/0:0': "returned ndarray <u2 (0, 3) [] writeable=True | io: open(*('img',), **{'mode': 'rb'}) "
                   'enter exit(None) | closed: [True]',
 'chunks/20B/1::2': 'returned ndarray <u2 (3, 3) [[774, 1031, 1288], [2316, 2573, 2830], [3858, 4115, 4372]] '
                    "writeable=True | io: open(*('img',), **{'mode': 'rb'}) enter seek(5) read(32) seek(44) "
                    'read(32) exit(None) | closed: [True]',
 'chunks/20B/6': "returned ndarray <u2 (3,) [4629, 4886, 5143] writeable=True | io: open(*('img',), "
                 "**{'mode': 'rb'}) enter seek(83) read(6) exit(None) | closed: [True]",
 'chunks/20B/all': 'returned ndarray <u2 (7, 3) [[3, 260, 517], [774, 1031, 1288], [1545, 1802, 2059], '
                   '[2316, 2573, 2830], [3087, 3344, 3601], [3858, 4115, 4372], [4629, 4886, 5143]] '
                   "writeable=True | io: open(*('img',), **{'mode': 'rb'}) enter seek(5) read(32) seek(44) "
                   'read(32) seek(83) read(6) exit(None) | closed: [True]',
 'chunks/20B/list-unordered': 'returned ndarray <u2 (4, 3) [[4629, 4886, 5143], [3, 260, 517], [2316, 2573, '
                              "2830], [2316, 2573, 2830]] writeable=True | io: open(*('img',), **{'mode': "
                              "'rb'}) enter seek(83) read(6) seek(5) read(32) seek(44) read(32) exit(None) | "
                              'closed: [True]',
 'chunks/3/0:0': "returned ndarray <u2 (0, 3) [] writeable=True | io: open(*('img',), **{'mode': 'rb'}) "
                 'enter exit(None) | closed: [True]',
 'chunks/3/1::2': 'returned ndarray <u2 (3, 3) [[774, 1031, 1288], [2316, 2573, 2830], [3858, 4115, 4372]] '
                  "writeable=True | io: open(*('img',), **{'mode': 'rb'}) enter seek(5) read(32) seek(44) "
                  'read(32) exit(None) | closed: [True]',
 'chunks/3/6': "returned ndarray <u2 (3,) [4629, 4886, 5143] writeable=True | io: open(*('img',), **{'mode': "
               "'rb'}) enter seek(83) read(6) exit(None) | closed: [True]",
 'chunks/3/all': 'returned ndarray <u2 (7, 3) [[3, 260, 517], [774, 1031, 1288], [1545, 1802, 2059], [2316, '
                 '2573, 2830], [3087, 3344, 3601], [3858, 4115, 4372], [4629, 4886, 5143]] writeable=True | '
                 "io: open(*('img',), **{'mode': 'rb'}) enter seek(5) read(32) seek(44) read(32) seek(83) "
                 'read(6) exit(None) | closed: [True]',
 'chunks/3/list-unordered': 'returned ndarray <u2 (4, 3) [[4629, 4886, 5143], [3, 260, 517], [2316, 2573, '
                            "2830], [2316, 2573, 2830]] writeable=True | io: open(*('img',), **{'mode': "
                            "'rb'}) enter seek(83) read(6) seek(5) read(32) seek(44) read(32) exit(None) | "
                            'closed: [True]',
 'chunks/6/0:0': "returned ndarray <u2 (0, 3) [] writeable=True | io: open(*('img',), **{'mode': 'rb'}) "
                 'enter exit(None) | closed: [True]',
 'chunks/6/1::2': 'returned ndarray <u2 (3, 3) [[774, 1031, 1288], [2316, 2573, 2830], [3858, 4115, 4372]] '
                  "writeable=True | io: open(*('img',), **{'mode': 'rb'}) enter seek(5) read(71) exit(None) "
                  '| closed: [True]',
 'chunks/6/6': "returned ndarray <u2 (3,) [4629, 4886, 5143] writeable=True | io: open(*('img',), **{'mode': "
               "'rb'}) enter seek(83) read(6) exit(None) | closed: [True]",
 'chunks/6/all': 'returned ndarray <u2 (7, 3) [[3, 260, 517], [774, 1031, 1288], [1545, 1802, 2059], [2316, '
                 '2573, 2830], [3087, 3344, 3601], [3858, 4115, 4372], [4629, 4886, 5143]] writeable=True | '
                 "io: open(*('img',), **{'mode': 'rb'}) enter seek(5) read(71) seek(83) read(6) exit(None) | "
                 'closed: [True]',
 'chunks/6/list-unordered': 'returned ndarray <u2 (4, 3) [[4629, 4886, 5143], [3, 260, 517], [2316, 2573, '
                            "2830], [2316, 2573, 2830]] writeable=True | io: open(*('img',), **{'mode': "
                            "'rb'}) enter seek(83) read(6) seek(5) read(71) exit(None) | closed: [True]",
 'chunks/7/0:0': "returned ndarray <u2 (0, 3) [] writeable=True | io: open(*('img',), **{'mode': 'rb'}) "
                 'enter exit(None) | closed: [True]',
 'chunks/7/1::2': 'returned ndarray <u2 (3, 3) [[774, 1031, 1288], [2316, 2573, 2830], [3858, 4115, 4372]] '
                  "writeable=True | io: open(*('img',), **{'mode': 'rb'}) enter seek(5) read(84) exit(None) "
                  '| closed: [True]',
 'chunks/7/6': "returned ndarray <u2 (3,) [4629, 4886, 5143] writeable=True | io: open(*('img',), **{'mode': "
               "'rb'}) enter seek(5) read(84) exit(None) | closed: [True]",
 'chunks/7/all': 'returned ndarray <u2 (7, 3) [[3, 260, 517], [774, 1031, 1288], [1545, 1802, 2059], [2316, '
                 '2573, 2830], [3087, 3344, 3601], [3858, 4115, 4372], [4629, 4886, 5143]] writeable=True | '
                 "io: open(*('img',), **{'mode': 'rb'}) enter seek(5) read(84) exit(None) | closed: [True]",
 'chunks/7/list-unordered': 'returned ndarray <u2 (4, 3) [[4629, 4886, 5143], [3, 260, 517], [2316, 2573, '
                            "2830], [2316, 2573, 2830]] writeable=True | io: open(*('img',), **{'mode': "
                            "'rb'}) enter seek(5) read(84) exit(None) | closed: [True]",
 'chunks/None/0:0': "returned ndarray <u2 (0, 3) [] writeable=True | io: open(*('img',), **{'mode': 'rb'}) "
                    'enter exit(None) | closed: [True]',
 'chunks/None/1::2': 'returned ndarray <u2 (3, 3) [[774, 1031, 1288], [2316, 2573, 2830], [3858, 4115, '
                     "4372]] writeable=True | io: open(*('img',), **{'mode': 'rb'}) enter seek(5) read(84) "
                     'exit(None) | closed: [True]',
 'chunks/None/6': "returned ndarray <u2 (3,) [4629, 4886, 5143] writeable=True | io: open(*('img',), "
                  "**{'mode': 'rb'}) enter seek(5) read(84) exit(None) | closed: [True]",
 'chunks/None/all': 'returned ndarray <u2 (7, 3) [[3, 260, 517], [774, 1031, 1288], [1545, 1802, 2059], '
                    '[2316, 2573, 2830], [3087, 3344, 3601], [3858, 4115, 4372], [4629, 4886, 5143]] '
                    "writeable=True | io: open(*('img',), **{'mode': 'rb'}) enter seek(5) read(84) "
                    'exit(None) | closed: [True]',
 'chunks/None/list-unordered': 'returned ndarray <u2 (4, 3) [[4629, 4886, 5143], [3, 260, 517], [2316, 2573, '
                               "2830], [2316, 2573, 2830]] writeable=True | io: open(*('img',), **{'mode': "
                               "'rb'}) enter seek(5) read(84) exit(None) | closed: [True]",
 'chunks/auto/0:0': "returned ndarray <u2 (0, 3) [] writeable=True | io: open(*('img',), **{'mode': 'rb'}) "
                    'enter exit(None) | closed: [True]',
 'chunks/auto/1::2': 'returned ndarray <u2 (3, 3) [[774, 1031, 1288], [2316, 2573, 2830], [3858, 4115, '
                     "4372]] writeable=True | io: open(*('img',), **{'mode': 'rb'}) enter seek(5) read(84) "
                     'exit(None) | closed: [True]',
 'chunks/auto/6': "returned ndarray <u2 (3,) [4629, 4886, 5143] writeable=True | io: open(*('img',), "
                  "**{'mode': 'rb'}) enter seek(5) read(84) exit(None) | closed: [True]",
 'chunks/auto/all': 'returned ndarray <u2 (7, 3) [[3, 260, 517], [774, 1031, 1288], [1545, 1802, 2059], '
                    '[2316, 2573, 2830], [3087, 3344, 3601], [3858, 4115, 4372], [4629, 4886, 5143]] '
                    "writeable=True | io: open(*('img',), **{'mode': 'rb'}) enter seek(5) read(84) "
                    'exit(None) | closed: [True]',
 'chunks/auto/list-unordered': 'returned ndarray <u2 (4, 3) [[4629, 4886, 5143], [3, 260, 517], [2316, 2573, '
                               "2830], [2316, 2573, 2830]] writeable=True | io: open(*('img',), **{'mode': "
                               "'rb'}) enter seek(5) read(84) exit(None) | closed: [True]",
 'failure/bad-row-indexer-no-io': "raised TypeError('list indices must be integers or slices, not str',) "
                                  "cause=None suppress_context=False context=TypeError('list indices must be "
                                  "integers or slices, not list',) | io:  | closed: []",
 'failure/column-out-of-range-exit-true': "raised IndexError('index 5 is out of bounds for axis 1 with size "
                                          "3',) cause=None suppress_context=False context=None | io: "
                                          "open(*('img',), **{'mode': 'rb'}) enter seek(5) read(32) seek(44) "
                                          'read(32) seek(83) read(6) exit(None) | closed: [True]',
 'failure/enter-proxy': 'returned ndarray <u2 (7, 3) [[3, 260, 517], [774, 1031, 1288], [1545, 1802, 2059], '
                        '[2316, 2573, 2830], [3087, 3344, 3601], [3858, 4115, 4372], [4629, 4886, 5143]] '
                        "writeable=True | io: open(*('img',), **{'mode': 'rb'}) enter proxy seek(5) proxy "
                        'read(32) proxy seek(44) proxy read(32) proxy seek(83) proxy read(6) exit(None) | '
                        'closed: [True]',
 'failure/enter-raises': "raised Boom('enter',) cause=None suppress_context=False context=None | io: "
                         "open(*('img',), **{'mode': 'rb'}) enter | closed: [False]",
 'failure/exit-false': 'returned ndarray <u2 (7, 3) [[3, 260, 517], [774, 1031, 1288], [1545, 1802, 2059], '
                       '[2316, 2573, 2830], [3087, 3344, 3601], [3858, 4115, 4372], [4629, 4886, 5143]] '
                       "writeable=True | io: open(*('img',), **{'mode': 'rb'}) enter seek(5) read(32) "
                       'seek(44) read(32) seek(83) read(6) exit(None) | closed: [True]',
 'failure/exit-one': 'returned ndarray <u2 (7, 3) [[3, 260, 517], [774, 1031, 1288], [1545, 1802, 2059], '
                     '[2316, 2573, 2830], [3087, 3344, 3601], [3858, 4115, 4372], [4629, 4886, 5143]] '
                     "writeable=True | io: open(*('img',), **{'mode': 'rb'}) enter seek(5) read(32) seek(44) "
                     'read(32) seek(83) read(6) exit(None) | closed: [True]',
 'failure/exit-raises': "raised OSError('exit failed',) cause=None suppress_context=False context=None | io: "
                        "open(*('img',), **{'mode': 'rb'}) enter seek(5) read(32) seek(44) read(32) seek(83) "
                        'read(6) exit(None) | closed: [True]',
 'failure/exit-raises-empty-selection': "raised Boom('exit',) cause=None suppress_context=False context=None "
                                        "| io: open(*('img',), **{'mode': 'rb'}) enter exit(None) | closed: "
                                        '[True]',
 'failure/exit-true': 'returned ndarray <u2 (7, 3) [[3, 260, 517], [774, 1031, 1288], [1545, 1802, 2059], '
                      '[2316, 2573, 2830], [3087, 3344, 3601], [3858, 4115, 4372], [4629, 4886, 5143]] '
                      "writeable=True | io: open(*('img',), **{'mode': 'rb'}) enter seek(5) read(32) "
                      'seek(44) read(32) seek(83) read(6) exit(None) | closed: [True]',
 'failure/exit-true-empty-selection': "returned ndarray <u2 (0, 3) [] writeable=True | io: open(*('img',), "
                                      "**{'mode': 'rb'}) enter exit(None) | closed: [True]",
 'failure/not-a-context-manager': 'raised TypeError("\'NotAContextManager\' object does not support the '
                                  'context manager protocol",) cause=None suppress_context=False '
                                  "context=None | io: open(*('img',), **{'mode': 'rb'}) | closed: []",
 'failure/open-raises': "raised FileNotFoundError(2, 'no such file') cause=None suppress_context=False "
                        "context=None | io: open(*('img',), **{'mode': 'rb'}) | closed: []",
 'failure/open-raises-empty-selection': "raised OSError('nope',) cause=None suppress_context=False "
                                        "context=None | io: open(*('img',), **{'mode': 'rb'}) | closed: []",
 'failure/open-raises-keyboard-interrupt': 'raised KeyboardInterrupt() cause=None suppress_context=False '
                                           "context=None | io: open(*('img',), **{'mode': 'rb'}) | closed: "
                                           '[]',
 'failure/read1-raises': "raised Boom('first read',) cause=None suppress_context=False context=None | io: "
                         "open(*('img',), **{'mode': 'rb'}) enter seek(5) read(32) exit(Boom) | closed: "
                         '[True]',
 'failure/read2-generator-exit': "raised GeneratorExit('exit',) cause=None suppress_context=False "
                                 "context=None | io: open(*('img',), **{'mode': 'rb'}) enter seek(5) "
                                 'read(32) seek(44) read(32) exit(GeneratorExit) | closed: [True]',
 'failure/read2-keyboard-interrupt': "raised KeyboardInterrupt('ctrl-c',) cause=None suppress_context=False "
                                     "context=None | io: open(*('img',), **{'mode': 'rb'}) enter seek(5) "
                                     'read(32) seek(44) read(32) exit(KeyboardInterrupt) | closed: [True]',
 'failure/read2-raises': "raised OSError('second read',) cause=None suppress_context=False context=None | "
                         "io: open(*('img',), **{'mode': 'rb'}) enter seek(5) read(32) seek(44) read(32) "
                         'exit(OSError) | closed: [True]',
 'failure/read2-raises-exit-one': 'raised UnboundLocalError("cannot access local variable \'data\' where it '
                                  'is not associated with a value",) cause=None suppress_context=False '
                                  "context=None | io: open(*('img',), **{'mode': 'rb'}) enter seek(5) "
                                  'read(32) seek(44) read(32) exit(Boom) | closed: [True]',
 'failure/read2-raises-exit-raises': "raised OSError('exit failed',) cause=None suppress_context=False "
                                     "context=Boom('second read',) | io: open(*('img',), **{'mode': 'rb'}) "
                                     'enter seek(5) read(32) seek(44) read(32) exit(Boom) | closed: [True]',
 'failure/read2-raises-exit-true': 'raised UnboundLocalError("cannot access local variable \'data\' where it '
                                   'is not associated with a value",) cause=None suppress_context=False '
                                   "context=None | io: open(*('img',), **{'mode': 'rb'}) enter seek(5) "
                                   'read(32) seek(44) read(32) exit(Boom) | closed: [True]',
 'failure/read2-runtime-error': "raised RuntimeError('generator raised StopIteration',) cause=None "
                                "suppress_context=False context=None | io: open(*('img',), **{'mode': 'rb'}) "
                                'enter seek(5) read(32) seek(44) read(32) exit(RuntimeError) | closed: '
                                '[True]',
 'failure/read2-stop-iteration': "raised StopIteration('stop',) cause=None suppress_context=False "
                                 "context=None | io: open(*('img',), **{'mode': 'rb'}) enter seek(5) "
                                 'read(32) seek(44) read(32) exit(StopIteration) | closed: [True]',
 'failure/read2-stop-iteration-exit-true': 'raised UnboundLocalError("cannot access local variable \'data\' '
                                           'where it is not associated with a value",) cause=None '
                                           "suppress_context=False context=None | io: open(*('img',), "
                                           "**{'mode': 'rb'}) enter seek(5) read(32) seek(44) read(32) "
                                           'exit(StopIteration) | closed: [True]',
 'failure/read3-raises': "raised Boom('third read',) cause=None suppress_context=False context=None | io: "
                         "open(*('img',), **{'mode': 'rb'}) enter seek(5) read(32) seek(44) read(32) "
                         'seek(83) read(6) exit(Boom) | closed: [True]',
 'failure/short-read-empty': "raised ValueError('all input arrays must have the same shape',) cause=None "
                             "suppress_context=False context=None | io: open(*('img',), **{'mode': 'rb'}) "
                             'enter seek(5) read(32) seek(44) read(32) seek(83) read(6) exit(ValueError) | '
                             'closed: [True]',
 'failure/short-read2': "raised ValueError('all input arrays must have the same shape',) cause=None "
                        "suppress_context=False context=None | io: open(*('img',), **{'mode': 'rb'}) enter "
                        'seek(5) read(32) seek(44) read(32) seek(83) read(6) exit(ValueError) | closed: '
                        '[True]',
 'failure/short-read2-odd': "raised ValueError('all input arrays must have the same shape',) cause=None "
                            "suppress_context=False context=None | io: open(*('img',), **{'mode': 'rb'}) "
                            'enter seek(5) read(32) seek(44) read(32) seek(83) read(6) exit(ValueError) | '
                            'closed: [True]',
 'failure/unknown-type-code': "raised ValueError('unknown type code: F*8',) cause=None "
                              "suppress_context=False context=None | io: open(*('img',), **{'mode': 'rb'}) "
                              'enter seek(5) read(32) exit(ValueError) | closed: [True]',
 'failure/unknown-type-code-empty-selection': 'returned ndarray <c8 (0, 3) [] writeable=True | io: '
                                              "open(*('img',), **{'mode': 'rb'}) enter exit(None) | closed: "
                                              '[True]',
 'failure/unknown-type-code-exit-true': 'raised UnboundLocalError("cannot access local variable \'data\' '
                                        'where it is not associated with a value",) cause=None '
                                        "suppress_context=False context=None | io: open(*('img',), "
                                        "**{'mode': 'rb'}) enter seek(5) read(32) exit(ValueError) | closed: "
                                        '[True]',
 'index/C*8/0/all': 'returned ndarray <c8 (3,) [-2j, (1-1.75j), (2-1.5j)] writeable=True | io: '
                    "open(*('img',), **{'mode': 'rb'}) enter seek(5) read(86) exit(None) | closed: [True]",
 'index/C*8/0:0/all': "returned ndarray <c8 (0, 3) [] writeable=True | io: open(*('img',), **{'mode': 'rb'}) "
                      'enter exit(None) | closed: [True]',
 'index/C*8/::-1/1': 'returned ndarray <c8 (7,) [(19+2.75j), (16+2j), (13+1.25j), (10+0.5j), (7-0.25j), '
                     "(4-1j), (1-1.75j)] writeable=True | io: open(*('img',), **{'mode': 'rb'}) enter "
                     'seek(191) read(24) seek(98) read(86) seek(5) read(86) exit(None) | closed: [True]',
 'index/C*8/all/all': 'returned ndarray <c8 (7, 3) [[-2j, (1-1.75j), (2-1.5j)], [(3-1.25j), (4-1j), '
                      '(5-0.75j)], [(6-0.5j), (7-0.25j), (8+0j)], [(9+0.25j), (10+0.5j), (11+0.75j)], '
                      '[(12+1j), (13+1.25j), (14+1.5j)], [(15+1.75j), (16+2j), (17+2.25j)], [(18+2.5j), '
                      "(19+2.75j), (20+3j)]] writeable=True | io: open(*('img',), **{'mode': 'rb'}) enter "
                      'seek(5) read(86) seek(98) read(86) seek(191) read(24) exit(None) | closed: [True]',
 'index/C*8/list-unordered/all': 'returned ndarray <c8 (4, 3) [[(18+2.5j), (19+2.75j), (20+3j)], [-2j, '
                                 '(1-1.75j), (2-1.5j)], [(9+0.25j), (10+0.5j), (11+0.75j)], [(9+0.25j), '
                                 "(10+0.5j), (11+0.75j)]] writeable=True | io: open(*('img',), **{'mode': "
                                 "'rb'}) enter seek(191) read(24) seek(5) read(86) seek(98) read(86) "
                                 'exit(None) | closed: [True]',
 'index/IU2/-1/1': "returned numpy.uint16 np.uint16(4886) | io: open(*('img',), **{'mode': 'rb'}) enter "
                   'seek(83) read(6) exit(None) | closed: [True]',
 'index/IU2/-1/all': "returned ndarray <u2 (3,) [4629, 4886, 5143] writeable=True | io: open(*('img',), "
                     "**{'mode': 'rb'}) enter seek(83) read(6) exit(None) | closed: [True]",
 'index/IU2/-1::-3/1': "returned ndarray <u2 (3,) [4886, 2573, 260] writeable=True | io: open(*('img',), "
                       "**{'mode': 'rb'}) enter seek(83) read(6) seek(44) read(32) seek(5) read(32) "
                       'exit(None) | closed: [True]',
 'index/IU2/-1::-3/all': 'returned ndarray <u2 (3, 3) [[4629, 4886, 5143], [2316, 2573, 2830], [3, 260, '
                         "517]] writeable=True | io: open(*('img',), **{'mode': 'rb'}) enter seek(83) "
                         'read(6) seek(44) read(32) seek(5) read(32) exit(None) | closed: [True]',
 'index/IU2/-7/1': "returned numpy.uint16 np.uint16(260) | io: open(*('img',), **{'mode': 'rb'}) enter "
                   'seek(5) read(32) exit(None) | closed: [True]',
 'index/IU2/-7/all': "returned ndarray <u2 (3,) [3, 260, 517] writeable=True | io: open(*('img',), "
                     "**{'mode': 'rb'}) enter seek(5) read(32) exit(None) | closed: [True]",
 'index/IU2/0/-1': "returned numpy.uint16 np.uint16(517) | io: open(*('img',), **{'mode': 'rb'}) enter "
                   'seek(5) read(32) exit(None) | closed: [True]',
 'index/IU2/0/0:2': "returned ndarray <u2 (2,) [3, 260] writeable=True | io: open(*('img',), **{'mode': "
                    "'rb'}) enter seek(5) read(32) exit(None) | closed: [True]",
 'index/IU2/0/1': "returned numpy.uint16 np.uint16(260) | io: open(*('img',), **{'mode': 'rb'}) enter "
                  'seek(5) read(32) exit(None) | closed: [True]',
 'index/IU2/0/::-1': "returned ndarray <u2 (3,) [517, 260, 3] writeable=True | io: open(*('img',), "
                     "**{'mode': 'rb'}) enter seek(5) read(32) exit(None) | closed: [True]",
 'index/IU2/0/all': "returned ndarray <u2 (3,) [3, 260, 517] writeable=True | io: open(*('img',), **{'mode': "
                    "'rb'}) enter seek(5) read(32) exit(None) | closed: [True]",
 'index/IU2/0/list': "returned ndarray <u2 (2,) [517, 3] writeable=True | io: open(*('img',), **{'mode': "
                     "'rb'}) enter seek(5) read(32) exit(None) | closed: [True]",
 'index/IU2/0/missing': "returned ndarray <u2 (3,) [3, 260, 517] writeable=True | io: open(*('img',), "
                        "**{'mode': 'rb'}) enter seek(5) read(32) exit(None) | closed: [True]",
 'index/IU2/0/newaxis': "returned ndarray <u2 (1, 3) [[3, 260, 517]] writeable=True | io: open(*('img',), "
                        "**{'mode': 'rb'}) enter seek(5) read(32) exit(None) | closed: [True]",
 'index/IU2/0/out-of-range': "raised IndexError('index 3 is out of bounds for axis 1 with size 3',) "
                             "cause=None suppress_context=False context=None | io: open(*('img',), "
                             "**{'mode': 'rb'}) enter seek(5) read(32) exit(None) | closed: [True]",
 'index/IU2/0/too-many': "raised IndexError('too many indices for array: array is 2-dimensional, but 3 were "
                         "indexed',) cause=None suppress_context=False context=None | io: open(*('img',), "
                         "**{'mode': 'rb'}) enter seek(5) read(32) exit(None) | closed: [True]",
 'index/IU2/0:0/1': "returned ndarray <u2 (0,) [] writeable=True | io: open(*('img',), **{'mode': 'rb'}) "
                    'enter exit(None) | closed: [True]',
 'index/IU2/0:0/all': "returned ndarray <u2 (0, 3) [] writeable=True | io: open(*('img',), **{'mode': 'rb'}) "
                      'enter exit(None) | closed: [True]',
 'index/IU2/0:1/1': "returned ndarray <u2 (1,) [260] writeable=True | io: open(*('img',), **{'mode': 'rb'}) "
                    'enter seek(5) read(32) exit(None) | closed: [True]',
 'index/IU2/0:1/all': "returned ndarray <u2 (1, 3) [[3, 260, 517]] writeable=True | io: open(*('img',), "
                      "**{'mode': 'rb'}) enter seek(5) read(32) exit(None) | closed: [True]",
 'index/IU2/100:200/1': "returned ndarray <u2 (0,) [] writeable=True | io: open(*('img',), **{'mode': 'rb'}) "
                        'enter exit(None) | closed: [True]',
 'index/IU2/100:200/all': "returned ndarray <u2 (0, 3) [] writeable=True | io: open(*('img',), **{'mode': "
                          "'rb'}) enter exit(None) | closed: [True]",
 'index/IU2/1::2/1': "returned ndarray <u2 (3,) [1031, 2573, 4115] writeable=True | io: open(*('img',), "
                     "**{'mode': 'rb'}) enter seek(5) read(32) seek(44) read(32) exit(None) | closed: [True]",
 'index/IU2/1::2/all': 'returned ndarray <u2 (3, 3) [[774, 1031, 1288], [2316, 2573, 2830], [3858, 4115, '
                       "4372]] writeable=True | io: open(*('img',), **{'mode': 'rb'}) enter seek(5) read(32) "
                       'seek(44) read(32) exit(None) | closed: [True]',
 'index/IU2/2:5/1': "returned ndarray <u2 (3,) [1802, 2573, 3344] writeable=True | io: open(*('img',), "
                    "**{'mode': 'rb'}) enter seek(5) read(32) seek(44) read(32) exit(None) | closed: [True]",
 'index/IU2/2:5/all': 'returned ndarray <u2 (3, 3) [[1545, 1802, 2059], [2316, 2573, 2830], [3087, 3344, '
                      "3601]] writeable=True | io: open(*('img',), **{'mode': 'rb'}) enter seek(5) read(32) "
                      'seek(44) read(32) exit(None) | closed: [True]',
 'index/IU2/3/1': "returned numpy.uint16 np.uint16(2573) | io: open(*('img',), **{'mode': 'rb'}) enter "
                  'seek(44) read(32) exit(None) | closed: [True]',
 'index/IU2/3/all': "returned ndarray <u2 (3,) [2316, 2573, 2830] writeable=True | io: open(*('img',), "
                    "**{'mode': 'rb'}) enter seek(44) read(32) exit(None) | closed: [True]",
 'index/IU2/5:2/-1': "returned ndarray <u2 (0,) [] writeable=True | io: open(*('img',), **{'mode': 'rb'}) "
                     'enter exit(None) | closed: [True]',
 'index/IU2/5:2/0:2': "returned ndarray <u2 (0, 2) [] writeable=True | io: open(*('img',), **{'mode': 'rb'}) "
                      'enter exit(None) | closed: [True]',
 'index/IU2/5:2/1': "returned ndarray <u2 (0,) [] writeable=True | io: open(*('img',), **{'mode': 'rb'}) "
                    'enter exit(None) | closed: [True]',
 'index/IU2/5:2/::-1': "returned ndarray <u2 (0, 3) [] writeable=True | io: open(*('img',), **{'mode': "
                       "'rb'}) enter exit(None) | closed: [True]",
 'index/IU2/5:2/all': "returned ndarray <u2 (0, 3) [] writeable=True | io: open(*('img',), **{'mode': 'rb'}) "
                      'enter exit(None) | closed: [True]',
 'index/IU2/5:2/list': "returned ndarray <u2 (0, 2) [] writeable=True | io: open(*('img',), **{'mode': "
                       "'rb'}) enter exit(None) | closed: [True]",
 'index/IU2/5:2/missing': "returned ndarray <u2 (0, 3) [] writeable=True | io: open(*('img',), **{'mode': "
                          "'rb'}) enter exit(None) | closed: [True]",
 'index/IU2/5:2/newaxis': "returned ndarray <u2 (0, 1, 3) [] writeable=True | io: open(*('img',), **{'mode': "
                          "'rb'}) enter exit(None) | closed: [True]",
 'index/IU2/5:2/out-of-range': "raised IndexError('index 3 is out of bounds for axis 1 with size 3',) "
                               "cause=None suppress_context=False context=None | io: open(*('img',), "
                               "**{'mode': 'rb'}) enter exit(None) | closed: [True]",
 'index/IU2/5:2/too-many': "raised IndexError('too many indices for array: array is 2-dimensional, but 3 "
                           "were indexed',) cause=None suppress_context=False context=None | io: "
                           "open(*('img',), **{'mode': 'rb'}) enter exit(None) | closed: [True]",
 'index/IU2/6/1': "returned numpy.uint16 np.uint16(4886) | io: open(*('img',), **{'mode': 'rb'}) enter "
                  'seek(83) read(6) exit(None) | closed: [True]',
 'index/IU2/6/all': "returned ndarray <u2 (3,) [4629, 4886, 5143] writeable=True | io: open(*('img',), "
                    "**{'mode': 'rb'}) enter seek(83) read(6) exit(None) | closed: [True]",
 'index/IU2/7:/1': "returned ndarray <u2 (0,) [] writeable=True | io: open(*('img',), **{'mode': 'rb'}) "
                   'enter exit(None) | closed: [True]',
 'index/IU2/7:/all': "returned ndarray <u2 (0, 3) [] writeable=True | io: open(*('img',), **{'mode': 'rb'}) "
                     'enter exit(None) | closed: [True]',
 'index/IU2/::-1/1': 'returned ndarray <u2 (7,) [4886, 4115, 3344, 2573, 1802, 1031, 260] writeable=True | '
                     "io: open(*('img',), **{'mode': 'rb'}) enter seek(83) read(6) seek(44) read(32) seek(5) "
                     'read(32) exit(None) | closed: [True]',
 'index/IU2/::-1/all': 'returned ndarray <u2 (7, 3) [[4629, 4886, 5143], [3858, 4115, 4372], [3087, 3344, '
                       '3601], [2316, 2573, 2830], [1545, 1802, 2059], [774, 1031, 1288], [3, 260, 517]] '
                       "writeable=True | io: open(*('img',), **{'mode': 'rb'}) enter seek(83) read(6) "
                       'seek(44) read(32) seek(5) read(32) exit(None) | closed: [True]',
 'index/IU2/True/1': "returned numpy.uint16 np.uint16(1031) | io: open(*('img',), **{'mode': 'rb'}) enter "
                     'seek(5) read(32) exit(None) | closed: [True]',
 'index/IU2/True/all': "returned ndarray <u2 (3,) [774, 1031, 1288] writeable=True | io: open(*('img',), "
                       "**{'mode': 'rb'}) enter seek(5) read(32) exit(None) | closed: [True]",
 'index/IU2/all/-1': 'returned ndarray <u2 (7,) [517, 1288, 2059, 2830, 3601, 4372, 5143] writeable=True | '
                     "io: open(*('img',), **{'mode': 'rb'}) enter seek(5) read(32) seek(44) read(32) "
                     'seek(83) read(6) exit(None) | closed: [True]',
 'index/IU2/all/0:2': 'returned ndarray <u2 (7, 2) [[3, 260], [774, 1031], [1545, 1802], [2316, 2573], '
                      "[3087, 3344], [3858, 4115], [4629, 4886]] writeable=True | io: open(*('img',), "
                      "**{'mode': 'rb'}) enter seek(5) read(32) seek(44) read(32) seek(83) read(6) "
                      'exit(None) | closed: [True]',
 'index/IU2/all/1': 'returned ndarray <u2 (7,) [260, 1031, 1802, 2573, 3344, 4115, 4886] writeable=True | '
                    "io: open(*('img',), **{'mode': 'rb'}) enter seek(5) read(32) seek(44) read(32) seek(83) "
                    'read(6) exit(None) | closed: [True]',
 'index/IU2/all/::-1': 'returned ndarray <u2 (7, 3) [[517, 260, 3], [1288, 1031, 774], [2059, 1802, 1545], '
                       '[2830, 2573, 2316], [3601, 3344, 3087], [4372, 4115, 3858], [5143, 4886, 4629]] '
                       "writeable=True | io: open(*('img',), **{'mode': 'rb'}) enter seek(5) read(32) "
                       'seek(44) read(32) seek(83) read(6) exit(None) | closed: [True]',
 'index/IU2/all/all': 'returned ndarray <u2 (7, 3) [[3, 260, 517], [774, 1031, 1288], [1545, 1802, 2059], '
                      '[2316, 2573, 2830], [3087, 3344, 3601], [3858, 4115, 4372], [4629, 4886, 5143]] '
                      "writeable=True | io: open(*('img',), **{'mode': 'rb'}) enter seek(5) read(32) "
                      'seek(44) read(32) seek(83) read(6) exit(None) | closed: [True]',
 'index/IU2/all/list': 'returned ndarray <u2 (7, 2) [[517, 3], [1288, 774], [2059, 1545], [2830, 2316], '
                       "[3601, 3087], [4372, 3858], [5143, 4629]] writeable=True | io: open(*('img',), "
                       "**{'mode': 'rb'}) enter seek(5) read(32) seek(44) read(32) seek(83) read(6) "
                       'exit(None) | closed: [True]',
 'index/IU2/all/missing': 'returned ndarray <u2 (7, 3) [[3, 260, 517], [774, 1031, 1288], [1545, 1802, '
                          '2059], [2316, 2573, 2830], [3087, 3344, 3601], [3858, 4115, 4372], [4629, 4886, '
                          "5143]] writeable=True | io: open(*('img',), **{'mode': 'rb'}) enter seek(5) "
                          'read(32) seek(44) read(32) seek(83) read(6) exit(None) | closed: [True]',
 'index/IU2/all/newaxis': 'returned ndarray <u2 (7, 1, 3) [[[3, 260, 517]], [[774, 1031, 1288]], [[1545, '
                          '1802, 2059]], [[2316, 2573, 2830]], [[3087, 3344, 3601]], [[3858, 4115, 4372]], '
                          "[[4629, 4886, 5143]]] writeable=True | io: open(*('img',), **{'mode': 'rb'}) "
                          'enter seek(5) read(32) seek(44) read(32) seek(83) read(6) exit(None) | closed: '
                          '[True]',
 'index/IU2/all/out-of-range': "raised IndexError('index 3 is out of bounds for axis 1 with size 3',) "
                               "cause=None suppress_context=False context=None | io: open(*('img',), "
                               "**{'mode': 'rb'}) enter seek(5) read(32) seek(44) read(32) seek(83) read(6) "
                               'exit(None) | closed: [True]',
 'index/IU2/all/too-many': "raised IndexError('too many indices for array: array is 2-dimensional, but 3 "
                           "were indexed',) cause=None suppress_context=False context=None | io: "
                           "open(*('img',), **{'mode': 'rb'}) enter seek(5) read(32) seek(44) read(32) "
                           'seek(83) read(6) exit(None) | closed: [True]',
 'index/IU2/ellipsis/1': 'raised TypeError("\'ellipsis\' object is not iterable",) cause=None '
                         'suppress_context=False context=None | io:  | closed: []',
 'index/IU2/ellipsis/all': 'raised TypeError("\'ellipsis\' object is not iterable",) cause=None '
                           'suppress_context=False context=None | io:  | closed: []',
 'index/IU2/float/1': 'raised TypeError("\'float\' object is not iterable",) cause=None '
                      'suppress_context=False context=None | io:  | closed: []',
 'index/IU2/float/all': 'raised TypeError("\'float\' object is not iterable",) cause=None '
                        'suppress_context=False context=None | io:  | closed: []',
 'index/IU2/list-empty/1': "returned ndarray <u2 (0,) [] writeable=True | io: open(*('img',), **{'mode': "
                           "'rb'}) enter exit(None) | closed: [True]",
 'index/IU2/list-empty/all': "returned ndarray <u2 (0, 3) [] writeable=True | io: open(*('img',), **{'mode': "
                             "'rb'}) enter exit(None) | closed: [True]",
 'index/IU2/list-negative/1': "returned ndarray <u2 (2,) [4886, 260] writeable=True | io: open(*('img',), "
                              "**{'mode': 'rb'}) enter seek(83) read(6) seek(5) read(32) exit(None) | "
                              'closed: [True]',
 'index/IU2/list-negative/all': 'returned ndarray <u2 (2, 3) [[4629, 4886, 5143], [3, 260, 517]] '
                                "writeable=True | io: open(*('img',), **{'mode': 'rb'}) enter seek(83) "
                                'read(6) seek(5) read(32) exit(None) | closed: [True]',
 'index/IU2/list-out-of-range/1': "raised IndexError('list index out of range',) cause=None "
                                  "suppress_context=False context=TypeError('list indices must be integers "
                                  "or slices, not list',) | io:  | closed: []",
 'index/IU2/list-out-of-range/all': "raised IndexError('list index out of range',) cause=None "
                                    "suppress_context=False context=TypeError('list indices must be integers "
                                    "or slices, not list',) | io:  | closed: []",
 'index/IU2/list-unordered/1': 'returned ndarray <u2 (4,) [4886, 260, 2573, 2573] writeable=True | io: '
                               "open(*('img',), **{'mode': 'rb'}) enter seek(83) read(6) seek(5) read(32) "
                               'seek(44) read(32) exit(None) | closed: [True]',
 'index/IU2/list-unordered/all': 'returned ndarray <u2 (4, 3) [[4629, 4886, 5143], [3, 260, 517], [2316, '
                                 "2573, 2830], [2316, 2573, 2830]] writeable=True | io: open(*('img',), "
                                 "**{'mode': 'rb'}) enter seek(83) read(6) seek(5) read(32) seek(44) "
                                 'read(32) exit(None) | closed: [True]',
 'index/IU2/list/-1': "returned ndarray <u2 (3,) [517, 3601, 4372] writeable=True | io: open(*('img',), "
                      "**{'mode': 'rb'}) enter seek(5) read(32) seek(44) read(32) exit(None) | closed: "
                      '[True]',
 'index/IU2/list/0:2': 'returned ndarray <u2 (3, 2) [[3, 260], [3087, 3344], [3858, 4115]] writeable=True | '
                       "io: open(*('img',), **{'mode': 'rb'}) enter seek(5) read(32) seek(44) read(32) "
                       'exit(None) | closed: [True]',
 'index/IU2/list/1': "returned ndarray <u2 (3,) [260, 3344, 4115] writeable=True | io: open(*('img',), "
                     "**{'mode': 'rb'}) enter seek(5) read(32) seek(44) read(32) exit(None) | closed: [True]",
 'index/IU2/list/::-1': 'returned ndarray <u2 (3, 3) [[517, 260, 3], [3601, 3344, 3087], [4372, 4115, 3858]] '
                        "writeable=True | io: open(*('img',), **{'mode': 'rb'}) enter seek(5) read(32) "
                        'seek(44) read(32) exit(None) | closed: [True]',
 'index/IU2/list/all': 'returned ndarray <u2 (3, 3) [[3, 260, 517], [3087, 3344, 3601], [3858, 4115, 4372]] '
                       "writeable=True | io: open(*('img',), **{'mode': 'rb'}) enter seek(5) read(32) "
                       'seek(44) read(32) exit(None) | closed: [True]',
 'index/IU2/list/list': 'returned ndarray <u2 (3, 2) [[517, 3], [3601, 3087], [4372, 3858]] writeable=True | '
                        "io: open(*('img',), **{'mode': 'rb'}) enter seek(5) read(32) seek(44) read(32) "
                        'exit(None) | closed: [True]',
 'index/IU2/list/missing': 'returned ndarray <u2 (3, 3) [[3, 260, 517], [3087, 3344, 3601], [3858, 4115, '
                           "4372]] writeable=True | io: open(*('img',), **{'mode': 'rb'}) enter seek(5) "
                           'read(32) seek(44) read(32) exit(None) | closed: [True]',
 'index/IU2/list/newaxis': 'returned ndarray <u2 (3, 1, 3) [[[3, 260, 517]], [[3087, 3344, 3601]], [[3858, '
                           "4115, 4372]]] writeable=True | io: open(*('img',), **{'mode': 'rb'}) enter "
                           'seek(5) read(32) seek(44) read(32) exit(None) | closed: [True]',
 'index/IU2/list/out-of-range': "raised IndexError('index 3 is out of bounds for axis 1 with size 3',) "
                                "cause=None suppress_context=False context=None | io: open(*('img',), "
                                "**{'mode': 'rb'}) enter seek(5) read(32) seek(44) read(32) exit(None) | "
                                'closed: [True]',
 'index/IU2/list/too-many': "raised IndexError('too many indices for array: array is 2-dimensional, but 3 "
                            "were indexed',) cause=None suppress_context=False context=None | io: "
                            "open(*('img',), **{'mode': 'rb'}) enter seek(5) read(32) seek(44) read(32) "
                            'exit(None) | closed: [True]',
 'index/IU2/ndarray/1': "returned ndarray <u2 (2,) [260, 4886] writeable=True | io: open(*('img',), "
                        "**{'mode': 'rb'}) enter seek(5) read(32) seek(83) read(6) exit(None) | closed: "
                        '[True]',
 'index/IU2/ndarray/all': 'returned ndarray <u2 (2, 3) [[3, 260, 517], [4629, 4886, 5143]] writeable=True | '
                          "io: open(*('img',), **{'mode': 'rb'}) enter seek(5) read(32) seek(83) read(6) "
                          'exit(None) | closed: [True]',
 'index/IU2/none/1': 'raised TypeError("\'NoneType\' object is not iterable",) cause=None '
                     'suppress_context=False context=None | io:  | closed: []',
 'index/IU2/none/all': 'raised TypeError("\'NoneType\' object is not iterable",) cause=None '
                       'suppress_context=False context=None | io:  | closed: []',
 'index/IU2/np-int/1': 'raised TypeError("\'numpy.int64\' object is not iterable",) cause=None '
                       'suppress_context=False context=None | io:  | closed: []',
 'index/IU2/np-int/all': 'raised TypeError("\'numpy.int64\' object is not iterable",) cause=None '
                         'suppress_context=False context=None | io:  | closed: []',
 'index/IU2/out-of-range-negative/1': "raised IndexError('list index out of range',) cause=None "
                                      "suppress_context=False context=TypeError('list indices must be "
                                      "integers or slices, not list',) | io:  | closed: []",
 'index/IU2/out-of-range-negative/all': "raised IndexError('list index out of range',) cause=None "
                                        "suppress_context=False context=TypeError('list indices must be "
                                        "integers or slices, not list',) | io:  | closed: []",
 'index/IU2/out-of-range/1': "raised IndexError('list index out of range',) cause=None "
                             "suppress_context=False context=TypeError('list indices must be integers or "
                             "slices, not list',) | io:  | closed: []",
 'index/IU2/out-of-range/all': "raised IndexError('list index out of range',) cause=None "
                               "suppress_context=False context=TypeError('list indices must be integers or "
                               "slices, not list',) | io:  | closed: []",
 'index/IU2/range/1': 'returned ndarray <u2 (4,) [1802, 2573, 3344, 4115] writeable=True | io: '
                      "open(*('img',), **{'mode': 'rb'}) enter seek(5) read(32) seek(44) read(32) exit(None) "
                      '| closed: [True]',
 'index/IU2/range/all': 'returned ndarray <u2 (4, 3) [[1545, 1802, 2059], [2316, 2573, 2830], [3087, 3344, '
                        "3601], [3858, 4115, 4372]] writeable=True | io: open(*('img',), **{'mode': 'rb'}) "
                        'enter seek(5) read(32) seek(44) read(32) exit(None) | closed: [True]',
 'index/IU2/str/1': "raised TypeError('list indices must be integers or slices, not str',) cause=None "
                    "suppress_context=False context=TypeError('list indices must be integers or slices, not "
                    "list',) | io:  | closed: []",
 'index/IU2/str/all': "raised TypeError('list indices must be integers or slices, not str',) cause=None "
                      "suppress_context=False context=TypeError('list indices must be integers or slices, "
                      "not list',) | io:  | closed: []",
 'index/IU2/tuple/1': "returned ndarray <u2 (2,) [1031, 1802] writeable=True | io: open(*('img',), "
                      "**{'mode': 'rb'}) enter seek(5) read(32) exit(None) | closed: [True]",
 'index/IU2/tuple/all': 'returned ndarray <u2 (2, 3) [[774, 1031, 1288], [1545, 1802, 2059]] writeable=True '
                        "| io: open(*('img',), **{'mode': 'rb'}) enter seek(5) read(32) exit(None) | closed: "
                        '[True]',
 'index/bare-int': 'raised TypeError("\'int\' object is not subscriptable",) cause=None '
                   'suppress_context=False context=None | io:  | closed: []',
 'index/bare-slice': 'raised TypeError("\'slice\' object is not subscriptable",) cause=None '
                     'suppress_context=False context=None | io:  | closed: []',
 'index/empty-tuple': "raised IndexError('tuple index out of range',) cause=None suppress_context=False "
                      'context=None | io:  | closed: []',
 'index/list-of-indexers': 'returned ndarray <u2 (2, 3) [[774, 1031, 1288], [1545, 1802, 2059]] '
                           "writeable=True | io: open(*('img',), **{'mode': 'rb'}) enter seek(5) read(32) "
                           'exit(None) | closed: [True]',
 'memory/all': 'ndarray <c8 (7, 3) [[-2j, (1-1.75j), (2-1.5j)], [(3-1.25j), (4-1j), (5-0.75j)], [(6-0.5j), '
               '(7-0.25j), (8+0j)], [(9+0.25j), (10+0.5j), (11+0.75j)], [(12+1j), (13+1.25j), (14+1.5j)], '
               '[(15+1.75j), (16+2j), (17+2.25j)], [(18+2.5j), (19+2.75j), (20+3j)]] writeable=True',
 'memory/missing': 'FileNotFoundError',
 'memory/np-asarray-roundtrip': 'ndarray <c8 (3,) [(3-1.25j), (9+0.25j), (15+1.75j)] writeable=True',
 'memory/row': 'ndarray <c8 (2,) [(16+2j), (17+2.25j)] writeable=True',
 'public-names': ['Array', 'extract_ranges', 'parse_data', 'read_chunk', 'relocate_ranges'],
 'shape/1d-empty': "returned ndarray <u2 (0,) [] writeable=True | io: open(*('img',), **{'mode': 'rb'}) "
                   'enter exit(None) | closed: [True]',
 'shape/1d-int': "returned ndarray <u2 (3,) [1545, 1802, 2059] writeable=True | io: open(*('img',), "
                 "**{'mode': 'rb'}) enter seek(5) read(32) exit(None) | closed: [True]",
 'shape/1d-slice': 'returned ndarray <u2 (2, 3) [[1545, 1802, 2059], [2316, 2573, 2830]] writeable=True | '
                   "io: open(*('img',), **{'mode': 'rb'}) enter seek(5) read(32) seek(44) read(32) "
                   'exit(None) | closed: [True]',
 'shape/3d-empty': "returned ndarray <u2 (0, 5, 2) [] writeable=True | io: open(*('img',), **{'mode': 'rb'}) "
                   'enter exit(None) | closed: [True]',
 'shape/bad-dtype': 'returned ndarray <u2 (2, 3) [[3, 260, 517], [774, 1031, 1288]] writeable=True | io: '
                    "open(*('img',), **{'mode': 'rb'}) enter seek(5) read(32) exit(None) | closed: [True]",
 'shape/bad-dtype-empty': 'raised TypeError("data type \'no-such-dtype\' not understood",) cause=None '
                          "suppress_context=False context=None | io: open(*('img',), **{'mode': 'rb'}) enter "
                          'exit(TypeError) | closed: [True]',
 'shape/declared-dtype-differs': 'returned ndarray <u2 (2, 3) [[3, 260, 517], [774, 1031, 1288]] '
                                 "writeable=True | io: open(*('img',), **{'mode': 'rb'}) enter seek(5) "
                                 'read(32) exit(None) | closed: [True]',
 'shape/declared-dtype-differs-empty': "returned ndarray <f4 (0, 3) [] writeable=True | io: open(*('img',), "
                                       "**{'mode': 'rb'}) enter exit(None) | closed: [True]",
 'shape/no-records-all': "returned ndarray <u2 (0, 3) [] writeable=True | io: open(*('img',), **{'mode': "
                         "'rb'}) enter exit(None) | closed: [True]",
 'shape/no-records-int': "raised IndexError('list index out of range',) cause=None suppress_context=False "
                         "context=TypeError('list indices must be integers or slices, not list',) | io:  | "
                         'closed: []',
 'shape/none-shape': 'returned ndarray <u2 (2, 3) [[3, 260, 517], [774, 1031, 1288]] writeable=True | io: '
                     "open(*('img',), **{'mode': 'rb'}) enter seek(5) read(32) exit(None) | closed: [True]",
 'shape/none-shape-empty': "returned ndarray <u2 (0, 3) [] writeable=True | io: open(*('img',), **{'mode': "
                           "'rb'}) enter exit(None) | closed: [True]",
 'shape/odd-record': "raised ValueError('buffer size must be a multiple of element size',) cause=None "
                     "suppress_context=False context=None | io: open(*('img',), **{'mode': 'rb'}) enter "
                     'seek(5) read(32) exit(ValueError) | closed: [True]',
 'shape/ragged': "raised ValueError('all input arrays must have the same shape',) cause=None "
                 "suppress_context=False context=None | io: open(*('img',), **{'mode': 'rb'}) enter seek(5) "
                 'read(32) exit(ValueError) | closed: [True]',
 'shape/ragged-single': "returned ndarray <u2 (2,) [774, 1031] writeable=True | io: open(*('img',), "
                        "**{'mode': 'rb'}) enter seek(5) read(32) exit(None) | closed: [True]",
 'shape/scalar-shape-empty': "returned ndarray <u2 (0,) [] writeable=True | io: open(*('img',), **{'mode': "
                             "'rb'}) enter exit(None) | closed: [True]",
 'spy/calls': ["read_chunk(*['<file>'], **{'offset': 57, 'size': 19})",
               "extract_ranges(*[b'\\x0c\\x0f\\r\\x10\\x0e\\x11\\xdd\\xdd\\xee\\xee\\xee\\xee\\xee\\x0f\\x12\\x10\\x13\\x11\\x14', "
               '[(0, 6), (13, 19)]], **{})',
               "parse_data(*[b'\\x0c\\x0f\\r\\x10\\x0e\\x11'], **{'type_code': 'IU2'})",
               "parse_data(*[b'\\x0f\\x12\\x10\\x13\\x11\\x14'], **{'type_code': 'IU2'})",
               "read_chunk(*['<file>'], **{'offset': 5, 'size': 19})",
               "extract_ranges(*[b'\\x00\\x03\\x01\\x04\\x02\\x05\\xdd\\xdd\\xee\\xee\\xee\\xee\\xee\\x03\\x06\\x04\\x07\\x05\\x08', "
               '[(0, 6)]], **{})',
               "parse_data(*[b'\\x00\\x03\\x01\\x04\\x02\\x05'], **{'type_code': 'IU2'})"],
 'spy/result': 'returned ndarray <u2 (3, 3) [[3087, 3344, 3601], [3858, 4115, 4372], [3, 260, 517]] '
               "writeable=True | io: open(*('img',), **{'mode': 'rb'}) enter seek(57) read(19) seek(5) "
               'read(19) exit(None) | closed: [True]'}


def test_equiv():
    assert EXPECTED is not None, "expected values have not been recorded"
    observed = observe()
    assert sorted(observed) == sorted(EXPECTED)
    for key in EXPECTED:
        assert observed[key] == EXPECTED[key], key


if __name__ == "__main__":
    if "--record" in sys.argv:
        print("EXPECTED = " + pprint.pformat(observe(), width=110, sort_dicts=True))
    else:
        test_equiv()
        print(f"ok: {len(EXPECTED)} observations identical ({array.__file__})")
