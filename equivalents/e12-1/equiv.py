"""Equivalence check for refactoring 1 (``ceos_alos2.sar_image.io.parse_chunk``).

Usage::

    PYTHONPATH=<worktree> python _eq/1/equiv.py            # check against the recorded outcomes
    PYTHONPATH=<worktree> python _eq/1/equiv.py --record   # print the outcomes (run on clean HEAD)

It is also collectable by pytest (``test_equivalence``).

The outcomes in ``EXPECTED`` were recorded from the unchanged code (HEAD).
"""

import hashlib
import struct
import sys

import numpy as np
from construct import Int8ub, Int16ub, Struct

from ceos_alos2.sar_image import io


# --------------------------------------------------------------------------- helpers
def canon(obj):
    """type-preserving canonical representation"""
    tname = type(obj).__name__
    if isinstance(obj, dict):
        return (tname, [(k, canon(v)) for k, v in obj.items() if k != "_io"])
    if isinstance(obj, (list, tuple)):
        return (tname, [canon(v) for v in obj])
    return (tname, repr(obj))


def exc_chain(e):
    parts = []
    while e is not None:
        parts.append((type(e).__module__, type(e).__qualname__, str(e)))
        e = e.__cause__ or e.__context__
    return parts


def outcome(fn, *args, **kwargs):
    try:
        result = fn(*args, **kwargs)
    except BaseException as e:  # noqa: B902
        return ("raise", exc_chain(e))
    return ("ok", canon(result))


def digest(obj):
    text = repr(obj)
    if len(text) <= 300:
        return text
    return "sha256:" + hashlib.sha256(text.encode()).hexdigest() + f":{len(text)}"


def record(seq, rtype, length, line, declared_length=None, year=2020, fill=0):
    declared = length if declared_length is None else declared_length
    hdr = struct.pack(">IBBBBI", seq, 50, rtype, 18, 20, declared)
    body = struct.pack(">IIIIII", line, 1, 0, 4, 0, 1) + struct.pack(">III", year, 32, 1000 * line)
    raw = hdr + body
    if length <= len(raw):
        return raw[:length]
    return raw + bytes([fill]) * (length - len(raw))


def records(rtype, n, length, **kwargs):
    return b"".join(record(i + 1, rtype, length, i + 1, **kwargs) for i in range(n))


dummy_record_types = {
    10: Struct("preamble" / io.record_preamble, "a" / Int8ub, "b" / Int8ub, "c" / Int16ub),
    11: Struct("preamble" / io.record_preamble, "x" / Int8ub, "y" / Int8ub),
}


class CountingTable(dict):
    """dict that logs how it is queried"""

    def __init__(self, *args, **kwargs):
        super().__init__(*args, **kwargs)
        self.log = []

    def get(self, key, default=None):
        self.log.append(("get", key, default))
        return super().get(key, default)

    def __getitem__(self, key):
        self.log.append(("getitem", key))
        return super().__getitem__(key)

    def __contains__(self, key):
        self.log.append(("contains", key))
        return super().__contains__(key)


class LoggingBytes(bytes):
    """bytes that logs len() and slicing requests"""

    log = None

    def __len__(self):
        if self.log is not None:
            self.log.append("len")
        return super().__len__()


# --------------------------------------------------------------------------- cases
def cases():
    out = {}

    def add(name, content, element_size):
        assert name not in out, name
        out[name] = digest(outcome(io.parse_chunk, content, element_size))

    # regular chunks, real record tables
    for rtype, header in ((10, 544), (11, 192)):
        for n in (1, 2, 5):
            for length in (header, header + 8, header + 300):
                add(f"real-{rtype}-n{n}-len{length}", records(rtype, n, length), length)
        # record shorter than the fixed header
        add(f"real-{rtype}-short", records(rtype, 2, 100), 100)
        add(f"real-{rtype}-short12", records(rtype, 3, 12), 12)
        # declared record length differs from the element size
        add(
            f"real-{rtype}-declared-larger",
            records(rtype, 3, header + 16, declared_length=header + 32),
            header + 16,
        )
        add(
            f"real-{rtype}-declared-smaller",
            records(rtype, 3, header + 16, declared_length=header + 8),
            header + 16,
        )
        add(f"real-{rtype}-declared-zero", records(rtype, 2, header + 16, declared_length=0), header + 16)
        # invalid date
        add(f"real-{rtype}-year0", records(rtype, 2, header + 4, year=0), header + 4)
        # a single element spanning everything
        add(f"real-{rtype}-one-element", records(rtype, 4, header + 4), 4 * (header + 4))
        # other buffer types
        add(f"real-{rtype}-bytearray", bytearray(records(rtype, 2, header + 4)), header + 4)
        add(f"real-{rtype}-memoryview", memoryview(records(rtype, 2, header + 4)), header + 4)
        add(f"real-{rtype}-npint", records(rtype, 2, header + 4), np.int64(header + 4))
        add(f"real-{rtype}-float", records(rtype, 2, header + 4), float(header + 4))
        add(f"real-{rtype}-fill255", records(rtype, 2, header + 40, fill=255), header + 40)

    # mixed record types: the first one decides
    add("mixed-10-11", record(1, 10, 600, 1) + record(2, 11, 600, 2), 600)
    add("mixed-11-10", record(1, 11, 600, 1) + record(2, 10, 600, 2), 600)
    add("mixed-11-99", record(1, 11, 600, 1) + record(2, 99, 600, 2), 600)

    # size mismatches
    add("mismatch-3-2", b"\x00\x00\x00", 2)
    add("mismatch-1-2", b"\x00", 2)
    add("mismatch-real", records(11, 2, 200) + b"\x00", 200)
    add("mismatch-real-short", records(11, 2, 200)[:-1], 200)
    add("mismatch-larger-element", records(11, 1, 200), 201)
    add("mismatch-unknown-type", records(42, 2, 200) + b"\x01", 200)
    add("mismatch-negative", records(11, 2, 200), -3)
    add("mismatch-float", records(11, 2, 200), 7.5)
    add("mismatch-nan", records(11, 2, 200), float("nan"))
    add("mismatch-inf", records(11, 2, 200), float("inf"))

    # unknown record types
    for code in (0, 1, 9, 12, 50, 255):
        add(f"unknown-{code}", records(code, 2, 200), 200)
    add("unknown-zeros-12", bytes(12), 2)
    add("unknown-mismatch-first", bytes(13), 2)

    # degenerate sizes
    add("empty-content", b"", 5)
    add("empty-content-1", b"", 1)
    add("short-content", bytes(6), 3)
    add("short-content-11", bytes(11), 11)
    add("element-size-zero", records(11, 1, 200), 0)
    add("element-size-zero-empty", b"", 0)
    add("element-size-negative", records(11, 2, 200), -200)
    add("element-size-minus-one", records(11, 1, 200), -1)
    add("element-size-true", records(11, 1, 200), True)
    add("element-size-none", records(11, 1, 200), None)
    add("element-size-str", records(11, 1, 200), "200")
    add("content-none", None, 200)
    add("content-str", "a" * 24, 12)
    add("content-list", list(records(11, 1, 200)), 200)

    # the record table is looked up on the module at call time
    original = io.record_types
    try:
        io.record_types = dummy_record_types
        add(
            "dummy-signal",
            b"\x00\x00\x00\x01\x00\x0A\x00\x00\x00\x00\x00\x10\x02\x03\x00\x1F"
            + b"\x00\x00\x00\x02\x00\x0A\x00\x00\x00\x00\x00\x10\x04\x05\x00\x2F",
            16,
        )
        add(
            "dummy-processed",
            b"\x00\x00\x00\x01\x00\x0B\x00\x00\x00\x00\x00\x0E\x03\x04"
            + b"\x00\x00\x00\x02\x00\x0B\x00\x00\x00\x00\x00\x0E\x04\x05",
            14,
        )
        add("dummy-unknown", bytes(12), 2)
        add("dummy-mismatch", bytes(3), 2)
        add("dummy-trailing", bytes(4) + b"\x00\x0B" + bytes(6) + b"\x01\x02" + bytes(14), 14)

        io.record_types = {}
        add("empty-table", records(11, 1, 200), 200)

        io.record_types = {10: None, 11: dummy_record_types[11]}
        add("none-entry", records(10, 1, 200), 200)
        add("none-entry-other", records(11, 2, 14), 14)

        table = CountingTable(dummy_record_types)
        io.record_types = table
        add("counting-hit", records(11, 2, 14), 14)
        add("counting-miss", records(12, 2, 14), 14)
        add("counting-mismatch", records(12, 2, 14) + b"\x00", 14)
        out["counting-log"] = digest(table.log)
    finally:
        io.record_types = original

    # number of len() requests is not observable for bytes, but the slices are the same
    content = LoggingBytes(records(11, 2, 200))
    add("logging-bytes", content, 200)

    # result type
    result = io.parse_chunk(records(11, 2, 200), 200)
    out["result-types"] = digest((type(result).__name__, [type(r).__name__ for r in result]))
    # fresh list on every call
    again = io.parse_chunk(records(11, 2, 200), 200)
    out["result-fresh"] = digest((result is not again, result == again))

    return out


EXPECTED = {
 'real-10-n1-len544': 'sha256:44c77f1c8d706e427611273a7a8ef16cf12d3ec6ca774eb2ba934d15640d8924:4982',
 'real-10-n1-len552': 'sha256:b46ae1e2d425c551257ba2851ea08cdd15167973549983b8fa04fc34a8cd0e80:4982',
 'real-10-n1-len844': 'sha256:37ec51476aadbe5f8f237e9373be2eaf425c4e847fedcafe54b5694949f021aa:4984',
 'real-10-n2-len544': 'sha256:ba2c116172cec52139b6d9a3495a52e7a8dd1b57fb45606eff13db0ff1f12a0c:9950',
 'real-10-n2-len552': 'sha256:36f2ede463f3908ab190596df5bd0f8e3bc0aacd602c7ad989ae099c4db35de2:9950',
 'real-10-n2-len844': 'sha256:37e10187615e8e30df450d6f927081c285c461c1d61c4bcd72b029cfa9412980:9954',
 'real-10-n5-len544': 'sha256:c8df38d95f940ae6528b2ec57e23a0194c98f131b484da179244deaf01aab61a:24857',
 'real-10-n5-len552': 'sha256:73087ff248870689b1bdf24e48f8aa80f22e2ecc192aa6fd8adacae71edf7207:24857',
 'real-10-n5-len844': 'sha256:449e22a003fbe4942af0669e106ff5a7326d44235b0bee0942a5018d0790c8f1:24867',
 'real-10-short': "('raise', [('construct.core', 'StreamError', 'Error in path (parsing) -> "
                  'latitude_of_last_pixel\\nstream read less than specified amount, expected 4, '
                  "found 0')])",
 'real-10-short12': "('raise', [('construct.core', 'StreamError', 'Error in path (parsing) -> "
                    'sensor_acquisition_date -> year\\nstream read less than specified amount, '
                    "expected 4, found 0')])",
 'real-10-declared-larger': "('raise', [('builtins', 'ValueError', 'year 0 is out of range')])",
 'real-10-declared-smaller': "('raise', [('builtins', 'ValueError', 'year 0 is out of range')])",
 'real-10-declared-zero': 'sha256:24bf5a68c17e2a43f56760ec2dd3d364efbfdca76c6d3ce455d5aec9f7fc815a:9944',
 'real-10-year0': "('raise', [('builtins', 'ValueError', 'year 0 is out of range')])",
 'real-10-one-element': 'sha256:f8490b58fd00d4c5ee6c60d17bd63acae9f1d1b0a325a7549024a8805ee4ac26:4982',
 'real-10-bytearray': 'sha256:2577ca0e11c8325a3aa89db94877fa342f07f98881016d6efc7cbe2ef4794f8f:9950',
 'real-10-memoryview': 'sha256:2577ca0e11c8325a3aa89db94877fa342f07f98881016d6efc7cbe2ef4794f8f:9950',
 'real-10-npint': "('raise', [('construct.core', 'ConstructError', 'subcon[N] syntax expects "
                  "integer or context lambda')])",
 'real-10-float': "('raise', [('construct.core', 'ConstructError', 'subcon[N] syntax expects "
                  "integer or context lambda')])",
 'real-10-fill255': "('raise', [('builtins', 'OverflowError', 'date value out of range')])",
 'real-11-n1-len192': 'sha256:d22d79a19d0d8c1898d53994833554ad8dde749d7230895f53cfdbcc7dfd8ddd:3638',
 'real-11-n1-len200': 'sha256:9255df5e15f00f0afe96e275d98275497cb8b9de0b8119a54d57ad1757c731f4:3638',
 'real-11-n1-len492': 'sha256:5d9f3e1e32824fdb3bf4acf515edf009a1b08f9dcc9a9e703de3009e36e32761:3640',
 'real-11-n2-len192': 'sha256:1ba527db759869935d7617dbe685dcf9c52f6792464852b0234b64d5e6c3de91:7260',
 'real-11-n2-len200': 'sha256:1651321b46b0d2f5384732fe774986074102933f769dd4778eb5cda39eb74078:7260',
 'real-11-n2-len492': 'sha256:22bf1752d37838be08f47b2f18b80a9b751d0c7e007fa0bfc0ca4899a88d6d9b:7264',
 'real-11-n5-len192': 'sha256:66bb1d5e90a73798f08bc44ce5e30170b7c8b478f39dd9c000c017a86511bfb8:18126',
 'real-11-n5-len200': 'sha256:b4d256792d5b5075657ef74c2c0fddc1be496b58388cb1c3afa782d20b51f681:18127',
 'real-11-n5-len492': 'sha256:f4e2afe9f8fd93d868b9eb460eb40c57237ebdd7d59001c2366a5cf915da339e:18144',
 'real-11-short': "('raise', [('construct.core', 'StreamError', 'Error in path (parsing) -> "
                  'look_angle_of_nadir\\nstream read less than specified amount, expected 4, '
                  "found 0')])",
 'real-11-short12': "('raise', [('construct.core', 'StreamError', 'Error in path (parsing) -> "
                    'sensor_acquisition_date -> year\\nstream read less than specified amount, '
                    "expected 4, found 0')])",
 'real-11-declared-larger': "('raise', [('builtins', 'ValueError', 'year 0 is out of range')])",
 'real-11-declared-smaller': "('raise', [('builtins', 'ValueError', 'year 0 is out of range')])",
 'real-11-declared-zero': 'sha256:6719fdd5ac01eaad6559609120aeeccfe74563ebbd9b34e1c1b86cbcce83697d:7256',
 'real-11-year0': "('raise', [('builtins', 'ValueError', 'year 0 is out of range')])",
 'real-11-one-element': 'sha256:96055b753b15d957ad54e4dd9b4245bfd4aca9b37acb08e11af667f6e5cdc692:3638',
 'real-11-bytearray': 'sha256:8390f48a1bf25d13b28e254214000fbce4368e89d9257c8533f941ae5e9e60f6:7260',
 'real-11-memoryview': 'sha256:8390f48a1bf25d13b28e254214000fbce4368e89d9257c8533f941ae5e9e60f6:7260',
 'real-11-npint': "('raise', [('construct.core', 'ConstructError', 'subcon[N] syntax expects "
                  "integer or context lambda')])",
 'real-11-float': "('raise', [('construct.core', 'ConstructError', 'subcon[N] syntax expects "
                  "integer or context lambda')])",
 'real-11-fill255': 'sha256:e65e6e08a9f5d5ccbde7a7284cb1f2c600da97ad43da2fcebbcc55ebd74a3d72:7966',
 'mixed-10-11': 'sha256:18fad96c422514734789ca33afa29304dbfc5df2cf8e5f6865618965809b2e10:9952',
 'mixed-11-10': 'sha256:3608e80c83b869a6e11ffccda27a5825755a57704bf26b70af3026eede195ef2:7265',
 'mixed-11-99': 'sha256:736dec9f2a10bf5ae521314c8c10c572f7de4fbf853476e91bd52412a2b06f5e:7265',
 'mismatch-3-2': "('raise', [('builtins', 'ValueError', 'sizes mismatch: chunksize is 2 but got "
                 "3 bytes')])",
 'mismatch-1-2': "('raise', [('builtins', 'ValueError', 'sizes mismatch: chunksize is 0 but got "
                 "1 bytes')])",
 'mismatch-real': "('raise', [('builtins', 'ValueError', 'sizes mismatch: chunksize is 400 but "
                  "got 401 bytes')])",
 'mismatch-real-short': "('raise', [('builtins', 'ValueError', 'sizes mismatch: chunksize is 200 "
                        "but got 399 bytes')])",
 'mismatch-larger-element': "('raise', [('builtins', 'ValueError', 'sizes mismatch: chunksize is "
                            "0 but got 200 bytes')])",
 'mismatch-unknown-type': "('raise', [('builtins', 'ValueError', 'sizes mismatch: chunksize is "
                          "400 but got 401 bytes')])",
 'mismatch-negative': "('raise', [('builtins', 'ValueError', 'sizes mismatch: chunksize is 402 "
                      "but got 400 bytes')])",
 'mismatch-float': "('raise', [('builtins', 'ValueError', 'sizes mismatch: chunksize is 397.5 "
                   "but got 400 bytes')])",
 'mismatch-nan': "('raise', [('builtins', 'ValueError', 'sizes mismatch: chunksize is nan but "
                 "got 400 bytes')])",
 'mismatch-inf': "('raise', [('builtins', 'ValueError', 'sizes mismatch: chunksize is nan but "
                 "got 400 bytes')])",
 'unknown-0': "('raise', [('builtins', 'ValueError', 'unknown record type code: 0')])",
 'unknown-1': "('raise', [('builtins', 'ValueError', 'unknown record type code: 1')])",
 'unknown-9': "('raise', [('builtins', 'ValueError', 'unknown record type code: 9')])",
 'unknown-12': "('raise', [('builtins', 'ValueError', 'unknown record type code: 12')])",
 'unknown-50': "('raise', [('builtins', 'ValueError', 'unknown record type code: 50')])",
 'unknown-255': "('raise', [('builtins', 'ValueError', 'unknown record type code: 255')])",
 'unknown-zeros-12': "('raise', [('builtins', 'ValueError', 'unknown record type code: 0')])",
 'unknown-mismatch-first': "('raise', [('builtins', 'ValueError', 'sizes mismatch: chunksize is "
                           "12 but got 13 bytes')])",
 'empty-content': "('raise', [('construct.core', 'StreamError', 'Error in path (parsing) -> "
                  'record_sequence_number\\nstream read less than specified amount, expected 4, '
                  "found 0')])",
 'empty-content-1': "('raise', [('construct.core', 'StreamError', 'Error in path (parsing) -> "
                    'record_sequence_number\\nstream read less than specified amount, expected '
                    "4, found 0')])",
 'short-content': "('raise', [('construct.core', 'StreamError', 'Error in path (parsing) -> "
                  'second_record_subtype\\nstream read less than specified amount, expected 1, '
                  "found 0')])",
 'short-content-11': "('raise', [('construct.core', 'StreamError', 'Error in path (parsing) -> "
                     'record_length\\nstream read less than specified amount, expected 4, found '
                     "3')])",
 'element-size-zero': "('raise', [('builtins', 'ZeroDivisionError', 'integer division or modulo "
                      "by zero')])",
 'element-size-zero-empty': "('raise', [('builtins', 'ZeroDivisionError', 'integer division or "
                            "modulo by zero')])",
 'element-size-negative': "('raise', [('construct.core', 'RangeError', 'Error in path "
                          "(parsing)\\ninvalid count -2')])",
 'element-size-minus-one': "('raise', [('construct.core', 'RangeError', 'Error in path "
                           "(parsing)\\ninvalid count -200')])",
 'element-size-true': "('raise', [('construct.core', 'StreamError', 'Error in path (parsing) -> "
                      'preamble -> record_sequence_number\\nstream read less than specified '
                      "amount, expected 4, found 0')])",
 'element-size-none': '(\'raise\', [(\'builtins\', \'TypeError\', "unsupported operand type(s) '
                      'for //: \'int\' and \'NoneType\'")])',
 'element-size-str': '(\'raise\', [(\'builtins\', \'TypeError\', "unsupported operand type(s) '
                     'for //: \'int\' and \'str\'")])',
 'content-none': '(\'raise\', [(\'builtins\', \'TypeError\', "object of type \'NoneType\' has no '
                 'len()")])',
 'content-str': '(\'raise\', [(\'builtins\', \'TypeError\', "a bytes-like object is required, '
                'not \'str\'")])',
 'content-list': '(\'raise\', [(\'builtins\', \'TypeError\', "a bytes-like object is required, '
                 'not \'list\'")])',
 'dummy-signal': 'sha256:bb2940ba23515d32755a768184e50f15b0804504005f02dac98e894c4c46c41d:700',
 'dummy-processed': 'sha256:3f5b76cc6626dea65ce20f3c18049e5c79271e2115259804ec204eb997317155:656',
 'dummy-unknown': "('raise', [('builtins', 'ValueError', 'unknown record type code: 0')])",
 'dummy-mismatch': "('raise', [('builtins', 'ValueError', 'sizes mismatch: chunksize is 2 but "
                   "got 3 bytes')])",
 'dummy-trailing': 'sha256:d8247ba0e38b8a6637df9a2c7f813255c87a1bf62e23eb6d46e0b2b0581851a0:653',
 'empty-table': "('raise', [('builtins', 'ValueError', 'unknown record type code: 11')])",
 'none-entry': "('raise', [('builtins', 'ValueError', 'unknown record type code: 10')])",
 'none-entry-other': 'sha256:d45a95d6fc394681256d5f06786a53a6fac082fb1f23865caf6ec51e9dd62b5f:662',
 'counting-hit': 'sha256:d45a95d6fc394681256d5f06786a53a6fac082fb1f23865caf6ec51e9dd62b5f:662',
 'counting-miss': "('raise', [('builtins', 'ValueError', 'unknown record type code: 12')])",
 'counting-mismatch': "('raise', [('builtins', 'ValueError', 'sizes mismatch: chunksize is 28 "
                      "but got 29 bytes')])",
 'counting-log': "[('get', 11, None), ('get', 12, None)]",
 'logging-bytes': 'sha256:1651321b46b0d2f5384732fe774986074102933f769dd4778eb5cda39eb74078:7260',
 'result-types': "('list', ['Container', 'Container'])",
 'result-fresh': '(True, True)',
}


def test_equivalence():
    actual = cases()
    assert set(actual) == set(EXPECTED)
    different = {k: (actual[k], EXPECTED[k]) for k in actual if actual[k] != EXPECTED[k]}
    assert not different, different


if __name__ == "__main__":
    if "--record" in sys.argv:
        import pprint

        pprint.pprint(cases(), width=100, sort_dicts=False)
    else:
        test_equivalence()
        print(f"OK: {len(EXPECTED)} outcomes identical ({io.__file__})")
