"""Equivalence check for refactoring 2 (ceos_alos2/volume_directory/metadata.py).

Run: cd /tmp/wt13/e107 && PYTHONPATH=/tmp/wt13/e107 /venv/bin/python _eq/2/equiv.py
With --record it prints the observed outcomes (used once, on the unchanged code).
"""
import copy
import struct
import sys

from ceos_alos2.hierarchy import Group
from ceos_alos2.volume_directory import io as vio
from ceos_alos2.volume_directory import metadata, open_volume_directory


def describe(result):
    if isinstance(result, Group):
        return (
            "Group",
            result.path,
            result.url,
            describe(result.data),
            describe(result.attrs),
        )
    if isinstance(result, dict):
        return ("dict", [(k, describe(v)) for k, v in result.items()])
    if isinstance(result, list):
        return ("list", [describe(v) for v in result])
    return (type(result).__name__, repr(result))


def outcome(func, *args):
    try:
        result = func(*args)
    except BaseException as e:  # noqa: B902
        cause = e.__cause__
        return (
            "raise",
            type(e).__name__,
            str(e),
            None if cause is None else (type(cause).__name__, str(cause)),
        )
    return ("ok", describe(result))


def preamble(seq, length):
    return struct.pack(">IBBBBI", seq, 192, 192, 18, 18, length)


def a(value, width):
    return str(value).ljust(width)[:width].encode("ascii")


def i(value, width):
    return str(value).rjust(width)[:width].encode("ascii")


def volume_descriptor(n_files, datetime="2014082912345678", n_text=1):
    parts = [
        preamble(1, 360), a("A", 2), a("", 2), a("CEOS-SAR", 12), a("A", 2), a("A", 2),
        a("001.001", 12), a("PHYSVOL", 16), a("LOGVOL", 16), a("VOLSET", 16),
        i(1, 2), i(1, 2), i(1, 2), i(1, 2), i(1, 4), i(1, 4), i(1, 4),
        a(datetime, 16), a("JAPAN", 12), a("JAXA", 8), a("SCMO", 12),
        i(n_files, 4), i(n_text, 4), a("", 92), a("local", 100),
    ]
    data = b"".join(parts)
    assert len(data) == 360, len(data)
    return data


def file_descriptor(n):
    parts = [
        preamble(n + 1, 360), a("A", 2), a("", 2), i(n, 4), a(f"FILE{n}", 16),
        a("SAR LEADER FILE", 28), a("SARL", 4), a("MIXED BINARY AND ASCII", 28), a("MBAA", 4),
        i(10, 8), i(720, 8), i(4680, 8), a("VARIABLE", 12), a("VARE", 4),
        i(1, 2), i(1, 2), i(1, 8), i(10, 8), a("", 100), a("", 100),
    ]
    data = b"".join(parts)
    assert len(data) == 360, len(data)
    return data


def text_record(product="PRODUCT: WBDR1.1__D", creation="JAXA 20140829"):
    parts = [
        preamble(9, 360), a("A", 2), a("", 2), a(product, 40), a(creation, 60),
        a("TAPE", 40), a("ORBIT:ALOS2014555550-140829", 40), a("SCENE LOC", 40), a("", 124),
    ]
    data = b"".join(parts)
    assert len(data) == 360, len(data)
    return data


def volume_file(n_files, **kwargs):
    fds = b"".join(file_descriptor(n) for n in range(1, n_files + 1))
    return volume_descriptor(n_files, **kwargs) + fds + text_record()


class CountingMapper(dict):
    def __init__(self, *args):
        super().__init__(*args)
        self.requests = []

    def __getitem__(self, key):
        self.requests.append(key)
        return super().__getitem__(key)


text_inputs = [
    {},
    {"preamble": {"a": 1}, "ascii_ebcdic_flag": "A", "blanks": "", "physical_tape_id": "T"},
    {
        "preamble": 1,
        "product_id": "P",
        "location_and_datetime_of_product_creation": "L",
        "physical_tape_id": "T",
        "scene_id": "S",
        "scene_location_id": "SL",
        "blanks": "",
    },
    {"scene_id": "S", "location_and_datetime_of_product_creation": None, "z": [1, 2]},
    {"product_creation": "already", "location_and_datetime_of_product_creation": "new"},
    {"location_and_datetime_of_product_creation": "new", "product_creation": "already"},
    {1: 2, ("a",): 3, None: 4},
    None,
    [("preamble", 1)],
    5,
    "abc",
]
descriptor_inputs = [
    {},
    {"logical_volume_creation_datetime": "2014082912345678", "spare": "", "x": 1},
    {"logical_volume_creation_datetime": "20140829", "x": 1},
    {"logical_volume_creation_datetime": "", "x": 1},
    {"creation_datetime": "2014082912345678"},
    {"software_release_and_revision_level": "1", "physical_volume_id": "p", "preamble": {}},
    None,
    3,
]
record_inputs = [
    {},
    {"file_descriptors": [1, 2, 3]},
    {"volume_descriptor": {}, "text_record": {}, "file_descriptors": []},
    {
        "volume_descriptor": {
            "preamble": {},
            "logical_volume_id": "LV",
            "logical_volume_creation_datetime": "2014082912345678",
        },
        "file_descriptors": [{"a": 1}],
        "text_record": {"scene_id": "S", "location_and_datetime_of_product_creation": "L"},
    },
    # order of keys matters for the flattened result; duplicates: last wins
    {
        "text_record": {"scene_id": "S", "logical_volume_id": "from text"},
        "volume_descriptor": {"logical_volume_id": "from descriptor", "scene_id": "S2"},
    },
    {"extra": 1, "other": {"nested": {"deep": 1}}, "text_record": {"blanks": ""}},
    {"volume_descriptor": {"logical_volume_creation_datetime": "garbage"}},
    {"volume_descriptor": None},
    {"text_record": 4},
    {"volume_descriptor": {"logical_volume_creation_datetime": "bad"}, "text_record": None},
    None,
    [],
    7,
]


def collect():
    observed = {}
    for name, func, inputs in [
        ("transform_text", metadata.transform_text, text_inputs),
        ("transform_volume_descriptor", metadata.transform_volume_descriptor, descriptor_inputs),
        ("transform_record", metadata.transform_record, record_inputs),
    ]:
        results = []
        for value in inputs:
            before = copy.deepcopy(value)
            results.append(outcome(func, value))
            assert value == before, (name, "input mutated")
        observed[name] = results

    files = {
        "VOL-0": volume_file(0),
        "VOL-1": volume_file(1),
        "VOL-4": volume_file(4),
        "VOL-baddate": volume_file(2, datetime="20140829"),
        "VOL-blankdate": volume_file(2, datetime=""),
        "VOL-short": volume_file(3)[:-10],
        "VOL-truncated": volume_file(3)[:500],
        "VOL-empty": b"",
        "VOL-long": volume_file(1) + b"trailing",
        "VOL-nonascii": volume_file(1).replace(b"JAXA", b"J\xffXA"),
        "VOL-nan-count": volume_file(1).replace(i(1, 4) + i(1, 4) + a("", 92), a("x", 4) + i(1, 4) + a("", 92)),
    }
    opened = []
    for path in [*files, "VOL-missing", None, 3]:
        mapper = CountingMapper(files)
        opened.append((repr(path), outcome(open_volume_directory, mapper, path), list(map(repr, mapper.requests))))
    observed["open_volume_directory"] = opened
    observed["parse_then_transform"] = [
        outcome(lambda p=path: metadata.transform_record(vio.parse_data(files[p])))
        for path in ["VOL-0", "VOL-4"]
    ]
    observed["names"] = sorted(
        n
        for n in [
            "curry", "pipe", "apply_to_items", "dissoc", "Group", "normalize_datetime",
            "remove_nesting_layer", "rename", "transform_volume_descriptor", "transform_text",
            "transform_record",
        ]
        if hasattr(metadata, n)
    )
    return observed


EXPECTED = None
EXPECTED = {'transform_text': [('ok', ('dict', [])),
                    ('ok', ('dict', [])),
                    ('ok',
                     ('dict',
                      [('product_id', ('str', "'P'")),
                       ('product_creation', ('str', "'L'")),
                       ('scene_id', ('str', "'S'")),
                       ('scene_location_id', ('str', "'SL'"))])),
                    ('ok',
                     ('dict',
                      [('scene_id', ('str', "'S'")),
                       ('product_creation', ('NoneType', 'None')),
                       ('z', ('list', [('int', '1'), ('int', '2')]))])),
                    ('ok', ('dict', [('product_creation', ('str', "'new'"))])),
                    ('ok', ('dict', [('product_creation', ('str', "'already'"))])),
                    ('ok', ('dict', [(1, ('int', '2')), (('a',), ('int', '3')), (None, ('int', '4'))])),
                    ('raise', 'AttributeError', "'NoneType' object has no attribute 'items'", None),
                    ('raise', 'AttributeError', "'list' object has no attribute 'items'", None),
                    ('raise', 'AttributeError', "'int' object has no attribute 'items'", None),
                    ('raise', 'AttributeError', "'str' object has no attribute 'items'", None)],
 'transform_volume_descriptor': [('ok', ('dict', [])),
                                 ('ok',
                                  ('dict',
                                   [('creation_datetime', ('str', "'2014-08-29T12:34:56.780000'")),
                                    ('x', ('int', '1'))])),
                                 ('raise',
                                  'ValueError',
                                  "time data '20140829' does not match format '%Y%m%d%H%M%S%f'",
                                  None),
                                 ('raise',
                                  'ValueError',
                                  "time data '' does not match format '%Y%m%d%H%M%S%f'",
                                  None),
                                 ('ok',
                                  ('dict', [('creation_datetime', ('str', "'2014-08-29T12:34:56.780000'"))])),
                                 ('ok',
                                  ('dict',
                                   [('software_version', ('str', "'1'")),
                                    ('physical_volume_id', ('str', "'p'"))])),
                                 ('raise',
                                  'AttributeError',
                                  "'NoneType' object has no attribute 'items'",
                                  None),
                                 ('raise', 'AttributeError', "'int' object has no attribute 'items'", None)],
 'transform_record': [('ok', ('Group', '/', None, ('dict', []), ('dict', []))),
                      ('ok', ('Group', '/', None, ('dict', []), ('dict', []))),
                      ('ok', ('Group', '/', None, ('dict', []), ('dict', []))),
                      ('ok',
                       ('Group',
                        '/',
                        None,
                        ('dict', []),
                        ('dict',
                         [('logical_volume_id', ('str', "'LV'")),
                          ('creation_datetime', ('str', "'2014-08-29T12:34:56.780000'")),
                          ('scene_id', ('str', "'S'")),
                          ('product_creation', ('str', "'L'"))]))),
                      ('ok',
                       ('Group',
                        '/',
                        None,
                        ('dict', []),
                        ('dict',
                         [('scene_id', ('str', "'S2'")),
                          ('logical_volume_id', ('str', "'from descriptor'"))]))),
                      ('ok',
                       ('Group',
                        '/',
                        None,
                        ('dict', []),
                        ('dict', [('extra', ('int', '1')), ('nested', ('dict', [('deep', ('int', '1'))]))]))),
                      ('raise',
                       'ValueError',
                       "time data 'garbage' does not match format '%Y%m%d%H%M%S%f'",
                       None),
                      ('raise', 'AttributeError', "'NoneType' object has no attribute 'items'", None),
                      ('raise', 'AttributeError', "'int' object has no attribute 'items'", None),
                      ('raise', 'ValueError', "time data 'bad' does not match format '%Y%m%d%H%M%S%f'", None),
                      ('raise', 'AttributeError', "'NoneType' object has no attribute 'items'", None),
                      ('raise', 'AttributeError', "'list' object has no attribute 'items'", None),
                      ('raise', 'AttributeError', "'int' object has no attribute 'items'", None)],
 'open_volume_directory': [("'VOL-0'",
                            ('ok',
                             ('Group',
                              '/',
                              None,
                              ('dict', []),
                              ('dict',
                               [('control_document_id', ('str', "'CEOS-SAR'")),
                                ('control_document_revision_level', ('str', "'A'")),
                                ('record_format_revision_level', ('str', "'A'")),
                                ('software_version', ('str', "'001.001'")),
                                ('physical_volume_id', ('str', "'PHYSVOL'")),
                                ('logical_volume_id', ('str', "'LOGVOL'")),
                                ('volume_set_id', ('str', "'VOLSET'")),
                                ('creation_datetime', ('str', "'2014-08-29T12:34:56.780000'")),
                                ('creation_country', ('str', "'JAPAN'")),
                                ('creation_agency', ('str', "'JAXA'")),
                                ('creation_facility', ('str', "'SCMO'")),
                                ('product_id', ('str', "'PRODUCT: WBDR1.1__D'")),
                                ('product_creation', ('str', "'JAXA 20140829'")),
                                ('scene_id', ('str', "'ORBIT:ALOS2014555550-140829'")),
                                ('scene_location_id', ('str', "'SCENE LOC'"))]))),
                            ["'VOL-0'"]),
                           ("'VOL-1'",
                            ('ok',
                             ('Group',
                              '/',
                              None,
                              ('dict', []),
                              ('dict',
                               [('control_document_id', ('str', "'CEOS-SAR'")),
                                ('control_document_revision_level', ('str', "'A'")),
                                ('record_format_revision_level', ('str', "'A'")),
                                ('software_version', ('str', "'001.001'")),
                                ('physical_volume_id', ('str', "'PHYSVOL'")),
                                ('logical_volume_id', ('str', "'LOGVOL'")),
                                ('volume_set_id', ('str', "'VOLSET'")),
                                ('creation_datetime', ('str', "'2014-08-29T12:34:56.780000'")),
                                ('creation_country', ('str', "'JAPAN'")),
                                ('creation_agency', ('str', "'JAXA'")),
                                ('creation_facility', ('str', "'SCMO'")),
                                ('product_id', ('str', "'PRODUCT: WBDR1.1__D'")),
                                ('product_creation', ('str', "'JAXA 20140829'")),
                                ('scene_id', ('str', "'ORBIT:ALOS2014555550-140829'")),
                                ('scene_location_id', ('str', "'SCENE LOC'"))]))),
                            ["'VOL-1'"]),
                           ("'VOL-4'",
                            ('ok',
                             ('Group',
                              '/',
                              None,
                              ('dict', []),
                              ('dict',
                               [('control_document_id', ('str', "'CEOS-SAR'")),
                                ('control_document_revision_level', ('str', "'A'")),
                                ('record_format_revision_level', ('str', "'A'")),
                                ('software_version', ('str', "'001.001'")),
                                ('physical_volume_id', ('str', "'PHYSVOL'")),
                                ('logical_volume_id', ('str', "'LOGVOL'")),
                                ('volume_set_id', ('str', "'VOLSET'")),
                                ('creation_datetime', ('str', "'2014-08-29T12:34:56.780000'")),
                                ('creation_country', ('str', "'JAPAN'")),
                                ('creation_agency', ('str', "'JAXA'")),
                                ('creation_facility', ('str', "'SCMO'")),
                                ('product_id', ('str', "'PRODUCT: WBDR1.1__D'")),
                                ('product_creation', ('str', "'JAXA 20140829'")),
                                ('scene_id', ('str', "'ORBIT:ALOS2014555550-140829'")),
                                ('scene_location_id', ('str', "'SCENE LOC'"))]))),
                            ["'VOL-4'"]),
                           ("'VOL-baddate'",
                            ('raise',
                             'ValueError',
                             "time data '20140829' does not match format '%Y%m%d%H%M%S%f'",
                             None),
                            ["'VOL-baddate'"]),
                           ("'VOL-blankdate'",
                            ('raise',
                             'ValueError',
                             "time data '' does not match format '%Y%m%d%H%M%S%f'",
                             None),
                            ["'VOL-blankdate'"]),
                           ("'VOL-short'",
                            ('raise',
                             'StreamError',
                             'Error in path (parsing) -> text_record -> blanks\n'
                             'stream read less than specified amount, expected 124, found 114',
                             None),
                            ["'VOL-short'"]),
                           ("'VOL-truncated'",
                            ('raise',
                             'StreamError',
                             'Error in path (parsing) -> file_descriptors -> '
                             'number_of_the_physical_volume_set_containing_the_first_record_of_the_file\n'
                             'stream read less than specified amount, expected 2, found 0',
                             None),
                            ["'VOL-truncated'"]),
                           ("'VOL-empty'",
                            ('raise',
                             'StreamError',
                             'Error in path (parsing) -> volume_descriptor -> preamble -> '
                             'record_sequence_number\n'
                             'stream read less than specified amount, expected 4, found 0',
                             None),
                            ["'VOL-empty'"]),
                           ("'VOL-long'",
                            ('ok',
                             ('Group',
                              '/',
                              None,
                              ('dict', []),
                              ('dict',
                               [('control_document_id', ('str', "'CEOS-SAR'")),
                                ('control_document_revision_level', ('str', "'A'")),
                                ('record_format_revision_level', ('str', "'A'")),
                                ('software_version', ('str', "'001.001'")),
                                ('physical_volume_id', ('str', "'PHYSVOL'")),
                                ('logical_volume_id', ('str', "'LOGVOL'")),
                                ('volume_set_id', ('str', "'VOLSET'")),
                                ('creation_datetime', ('str', "'2014-08-29T12:34:56.780000'")),
                                ('creation_country', ('str', "'JAPAN'")),
                                ('creation_agency', ('str', "'JAXA'")),
                                ('creation_facility', ('str', "'SCMO'")),
                                ('product_id', ('str', "'PRODUCT: WBDR1.1__D'")),
                                ('product_creation', ('str', "'JAXA 20140829'")),
                                ('scene_id', ('str', "'ORBIT:ALOS2014555550-140829'")),
                                ('scene_location_id', ('str', "'SCENE LOC'"))]))),
                            ["'VOL-long'"]),
                           ("'VOL-nonascii'",
                            ('raise',
                             'StringError',
                             "cannot use encoding 'ascii' to decode b'J\\xffXA    '",
                             None),
                            ["'VOL-nonascii'"]),
                           ("'VOL-nan-count'",
                            ('raise', 'ValueError', "invalid literal for int() with base 10: 'x'", None),
                            ["'VOL-nan-count'"]),
                           ("'VOL-missing'",
                            ('raise',
                             'FileNotFoundError',
                             'Cannot open VOL-missing',
                             ('KeyError', "'VOL-missing'")),
                            ["'VOL-missing'"]),
                           ('None',
                            ('raise', 'FileNotFoundError', 'Cannot open None', ('KeyError', 'None')),
                            ['None']),
                           ('3', ('raise', 'FileNotFoundError', 'Cannot open 3', ('KeyError', '3')), ['3'])],
 'parse_then_transform': [('ok',
                           ('Group',
                            '/',
                            None,
                            ('dict', []),
                            ('dict',
                             [('control_document_id', ('str', "'CEOS-SAR'")),
                              ('control_document_revision_level', ('str', "'A'")),
                              ('record_format_revision_level', ('str', "'A'")),
                              ('software_version', ('str', "'001.001'")),
                              ('physical_volume_id', ('str', "'PHYSVOL'")),
                              ('logical_volume_id', ('str', "'LOGVOL'")),
                              ('volume_set_id', ('str', "'VOLSET'")),
                              ('creation_datetime', ('str', "'2014-08-29T12:34:56.780000'")),
                              ('creation_country', ('str', "'JAPAN'")),
                              ('creation_agency', ('str', "'JAXA'")),
                              ('creation_facility', ('str', "'SCMO'")),
                              ('product_id', ('str', "'PRODUCT: WBDR1.1__D'")),
                              ('product_creation', ('str', "'JAXA 20140829'")),
                              ('scene_id', ('str', "'ORBIT:ALOS2014555550-140829'")),
                              ('scene_location_id', ('str', "'SCENE LOC'"))]))),
                          ('ok',
                           ('Group',
                            '/',
                            None,
                            ('dict', []),
                            ('dict',
                             [('control_document_id', ('str', "'CEOS-SAR'")),
                              ('control_document_revision_level', ('str', "'A'")),
                              ('record_format_revision_level', ('str', "'A'")),
                              ('software_version', ('str', "'001.001'")),
                              ('physical_volume_id', ('str', "'PHYSVOL'")),
                              ('logical_volume_id', ('str', "'LOGVOL'")),
                              ('volume_set_id', ('str', "'VOLSET'")),
                              ('creation_datetime', ('str', "'2014-08-29T12:34:56.780000'")),
                              ('creation_country', ('str', "'JAPAN'")),
                              ('creation_agency', ('str', "'JAXA'")),
                              ('creation_facility', ('str', "'SCMO'")),
                              ('product_id', ('str', "'PRODUCT: WBDR1.1__D'")),
                              ('product_creation', ('str', "'JAXA 20140829'")),
                              ('scene_id', ('str', "'ORBIT:ALOS2014555550-140829'")),
                              ('scene_location_id', ('str', "'SCENE LOC'"))])))],
 'names': ['Group',
           'apply_to_items',
           'curry',
           'dissoc',
           'normalize_datetime',
           'pipe',
           'remove_nesting_layer',
           'rename',
           'transform_record',
           'transform_text',
           'transform_volume_descriptor']}


if __name__ == "__main__":
    observed = collect()
    if "--record" in sys.argv:
        import pprint

        pprint.pprint(observed, width=110, sort_dicts=False)
        sys.exit(0)
    assert EXPECTED is not None
    assert observed.keys() == EXPECTED.keys()
    n = 0
    for key in EXPECTED:
        exp, obs = EXPECTED[key], observed[key]
        assert len(exp) == len(obs), key
        for idx, (e, o) in enumerate(zip(exp, obs)):
            assert e == o, (key, idx, e, o)
            n += 1
    print(f"OK: {n} recorded outcomes reproduced ({metadata.__file__})")
