"""Equivalence check for refactoring 3 (`ceos_alos2.volume_directory.metadata`).

Run as::

    cd /tmp/wt8/e67 && PYTHONPATH=/tmp/wt8/e67 /venv/bin/python _eq/3/equiv.py

The table ``EXPECTED`` was recorded from the unchanged code (``--record`` prints it);
the script has to pass with and without ``patch.diff`` applied.
"""

import collections
import struct
import sys
import types

import fsspec

from ceos_alos2.hierarchy import Group
from ceos_alos2.volume_directory import io, metadata, open_volume_directory, structure


def describe_exception(e):
    cause = e.__cause__
    context = e.__context__
    return (
        "raises",
        type(e).__name__,
        str(e),
        None if cause is None else (type(cause).__name__, str(cause)),
        None if context is None else (type(context).__name__, str(context)),
    )


def describe(result):
    if isinstance(result, Group):
        return (
            "Group",
            result.path,
            result.url,
            type(result.data).__name__,
            repr(result.data),
            type(result.attrs).__name__,
            repr(result.attrs),
        )
    # the repr of a dict records the order of the keys and the types of the values
    return (type(result).__name__, repr(result))


def call(func, *args):
    try:
        result = func(*args)
    except Exception as e:  # noqa: BLE001
        return describe_exception(e)

    return ("returns",) + describe(result)


def call_unchanged(func, mapping):
    """call, and check that the input was neither modified nor returned"""
    before = repr(mapping)
    outcome = call(func, mapping)
    return outcome, repr(mapping) == before


full_volume_descriptor = {
    "preamble": {
        "record_sequence_number": 1,
        "first_record_subtype": 192,
        "record_type": 192,
        "second_record_subtype": 18,
        "third_record_subtype": 18,
        "record_length": 360,
    },
    "ascii_ebcdic_flag": "A",
    "blanks": "",
    "superstructure_format_control_document_id": "CEOS-SAR",
    "superstructure_format_control_document_revision_level": "A",
    "superstructure_record_format_revision_level": "A",
    "software_release_and_revision_level": "001.001",
    "physical_volume_id": "",
    "logical_volume_id": "ALOS2225333200",
    "volume_set_id": "",
    "total_number_of_physical_volumes_in_logical_volume": 1,
    "physical_volume_sequence_number_of_the_first_tape": 1,
    "physical_volume_sequence_number_of_the_last_tape": 1,
    "physical_volume_sequence_number_of_the_current_tape": 1,
    "file_number_in_the_logical_volume": 1,
    "logical_volume_within_a_volume_set": 1,
    "logical_volume_number_within_physical_volume": 1,
    "logical_volume_creation_datetime": "2020101117233798",
    "logical_volume_generation_country": "JAPAN",
    "logical_volume_generating_agency": "JAXA",
    "logical_volume_generating_facility": "SCMO",
    "number_of_file_pointer_records": 4,
    "number_of_text_records_in_volume_directory": 1,
    "spare": "",
    "local_use_segment": "",
}
full_text_record = {
    "preamble": {"record_sequence_number": 6, "record_length": 360},
    "ascii_ebcdic_flag": "A",
    "blanks": "",
    "product_id": "PRODUCT:WWDR1.5RUA",
    "location_and_datetime_of_product_creation": "PROCESS:JAPAN-JAXA-ALOS2-SCMO  20201011 172337",
    "physical_tape_id": "",
    "scene_id": "ORBIT:ALOS2225333200-180726",
    "scene_location_id": "",
}

volume_descriptor_inputs = {
    "empty": {},
    "full": full_volume_descriptor,
    "full-reversed": dict(reversed(list(full_volume_descriptor.items()))),
    "ignored-only": {k: full_volume_descriptor[k] for k in ["preamble", "blanks", "spare", "local_use_segment"]},
    "unknown-keys": {"z": 1, "a": [1, 2], "m": {"nested": {"spare": 1}}, "spare1": "", "blanks2": ""},
    "translated-name-given": {"creation_datetime": "2020101117233798", "creation_country": "x"},
    "collision-old-first": {
        "logical_volume_creation_datetime": "garbage",
        "b": 1,
        "creation_datetime": "2020101117233798",
    },
    "collision-new-first": {
        "creation_datetime": "garbage",
        "b": 1,
        "logical_volume_creation_datetime": "2020101117233798",
    },
    "collision-bad-last": {
        "creation_datetime": "2020101117233798",
        "logical_volume_creation_datetime": "garbage",
    },
    "collision-other": {"software_version": "a", "x": 0, "software_release_and_revision_level": "b"},
    "datetime-short": {"logical_volume_creation_datetime": "20201011172337"},
    "datetime-long-fraction": {"logical_volume_creation_datetime": "20201011172337987654"},
    "datetime-too-long": {"logical_volume_creation_datetime": "202010111723379876543"},
    "datetime-empty": {"logical_volume_creation_datetime": ""},
    "datetime-invalid": {"a": 1, "logical_volume_creation_datetime": "2020131117233798"},
    "datetime-int": {"logical_volume_creation_datetime": 2020101117233798},
    "datetime-none": {"creation_datetime": None},
    "datetime-bytes": {"creation_datetime": b"2020101117233798"},
    "non-string-keys": {1: "a", None: "b", (1, 2): "c", "preamble": "d", 2.5: "e"},
    "translation-target-as-key": {"control_document_id": 1, "superstructure_format_control_document_id": 2},
}
text_inputs = {
    "empty": {},
    "full": full_text_record,
    "full-reversed": dict(reversed(list(full_text_record.items()))),
    "ignored-only": {"preamble": {}, "ascii_ebcdic_flag": "a", "blanks": "", "physical_tape_id": 1},
    "collision-old-first": {"location_and_datetime_of_product_creation": "a", "x": 1, "product_creation": "b"},
    "collision-new-first": {"product_creation": "b", "x": 1, "location_and_datetime_of_product_creation": "a"},
    "unknown-keys": {"spare": 1, "local_use_segment": 2, "creation_datetime": "not touched", 3: 4},
}
non_mappings = [None, 5, "abc", [("a", 1)], (("a", 1),), {"a"}, b"ab"]


class Loud(dict):
    """dict subclass with its own items"""

    def items(self):
        return [(k, v) for k, v in super().items() if k != "hidden"]


def other_mapping_types(base):
    yield "OrderedDict", collections.OrderedDict(base)
    yield "mappingproxy", types.MappingProxyType(dict(base))
    yield "defaultdict", collections.defaultdict(list, base)
    yield "Loud", Loud(base, hidden=1)
    yield "ChainMap", collections.ChainMap(dict(base), {"extra": 1})


record_inputs = {
    "empty": {},
    "sections-only": {
        "volume_descriptor": full_volume_descriptor,
        "file_descriptors": [{"b": 2}, {"c": 3}],
        "text_record": full_text_record,
    },
    "text-first": {
        "text_record": full_text_record,
        "file_descriptors": [],
        "volume_descriptor": full_volume_descriptor,
    },
    "only-file-descriptors": {"file_descriptors": [{"a": 1}]},
    "no-file-descriptors": {"volume_descriptor": {"a": 1, "b": 2}, "text_record": {"c": 3, "d": 4}},
    "missing-text": {"volume_descriptor": {"a": 1, "preamble": 2}},
    "scalars": {"x": 1, "volume_descriptor": {"a": 1}, "y": [1, 2], "text_record": {"d": 4}, "z": None},
    "unknown-sections": {"other": {"p": 1, "preamble": 2, "q": {"deep": {"er": 1}}}, "volume_descriptor": {"a": 1}},
    "collisions": {
        "a": "scalar",
        "volume_descriptor": {"a": "vd", "b": "vd", "scene_id": "vd"},
        "text_record": {"b": "text", "scene_id": "text", "c": "text"},
        "c": "scalar",
        "b": "scalar",
    },
    "name-collision": {"volume_descriptor": {"text_record": 1, "file_descriptors": 2}, "text_record": {"x": 1}},
    "bad-datetime": {
        "volume_descriptor": {"logical_volume_creation_datetime": "nope"},
        "text_record": {"x": 1},
    },
    "section-not-a-mapping": {"volume_descriptor": 5, "text_record": {"x": 1}},
    "text-not-a-mapping": {"volume_descriptor": {"x": 1}, "text_record": None},
    "empty-sections": {"volume_descriptor": {}, "text_record": {}},
    "odict-sections": {
        "volume_descriptor": collections.OrderedDict(b=1, a=2),
        "other": collections.OrderedDict(d=1, c=2),
        "text_record": Loud(e=1, hidden=2),
        "loud": Loud(f=1, hidden=2),
        "proxy": types.MappingProxyType({"g": 1}),
    },
    "non-string-keys": {1: {"a": 1}, None: 2, "volume_descriptor": {3: 4}},
}


# binary records for the high-level functions
def build(struct_, values):
    parts = []
    for subcon in struct_.subcons:
        size = subcon.sizeof()
        if subcon.name == "preamble":
            parts.append(struct.pack(">IBBBBI", *values.get("preamble", (1, 192, 192, 18, 18, 360))))
            continue
        value = values.get(subcon.name, "")
        if isinstance(value, int):
            text = str(value).rjust(size)
        else:
            text = str(value).ljust(size)
        assert len(text) == size, (subcon.name, text)
        parts.append(text.encode("ascii"))
    return b"".join(parts)


def volume_directory_bytes(n_files, creation="2020101117233798", declared=None):
    vd = build(
        structure.volume_descriptor,
        {
            "ascii_ebcdic_flag": "A",
            "superstructure_format_control_document_id": "CEOS-SAR",
            "superstructure_format_control_document_revision_level": "A",
            "superstructure_record_format_revision_level": "A",
            "software_release_and_revision_level": "001.001",
            "logical_volume_id": "ALOS2225333200",
            "total_number_of_physical_volumes_in_logical_volume": 1,
            "physical_volume_sequence_number_of_the_first_tape": 1,
            "physical_volume_sequence_number_of_the_last_tape": 1,
            "physical_volume_sequence_number_of_the_current_tape": 1,
            "file_number_in_the_logical_volume": 1,
            "logical_volume_within_a_volume_set": 1,
            "logical_volume_number_within_physical_volume": 1,
            "logical_volume_creation_datetime": creation,
            "logical_volume_generation_country": "JAPAN",
            "logical_volume_generating_agency": "JAXA",
            "logical_volume_generating_facility": "SCMO",
            "number_of_file_pointer_records": n_files if declared is None else declared,
            "number_of_text_records_in_volume_directory": 1,
        },
    )
    fds = [
        build(
            structure.file_descriptor,
            {
                "preamble": (2 + i, 219, 192, 18, 18, 360),
                "ascii_ebcdic_flag": "A",
                "referenced_file_number": i + 1,
                "referenced_file_name_id": f"FILE{i}",
                "number_of_records_in_referenced_file": 10 * i,
            },
        )
        for i in range(n_files)
    ]
    text = build(
        structure.text_record,
        {
            "preamble": (2 + n_files, 18, 63, 18, 18, 360),
            "ascii_ebcdic_flag": "A",
            "product_id": "PRODUCT:WWDR1.5RUA",
            "location_and_datetime_of_product_creation": "PROCESS:JAPAN-JAXA-ALOS2-SCMO  20201011 172337",
            "physical_tape_id": "TAPE",
            "scene_id": "ORBIT:ALOS2225333200-180726",
            "scene_location_id": "SCENE LOCATION",
        },
    )
    return vd + b"".join(fds) + text


class RecordingMapper(dict):
    def __init__(self, *args, **kwargs):
        super().__init__(*args, **kwargs)
        self.requests = []

    def __getitem__(self, key):
        self.requests.append(key)
        return super().__getitem__(key)


def high_level_runs():
    observed = []
    contents = {
        "VOL-0": volume_directory_bytes(0),
        "VOL-1": volume_directory_bytes(1),
        "VOL-4": volume_directory_bytes(4),
        "VOL-blank-datetime": volume_directory_bytes(2, creation=""),
        "VOL-bad-datetime": volume_directory_bytes(2, creation="2020139917233798"),
        "VOL-truncated": volume_directory_bytes(4)[:1000],
        "VOL-too-many-declared": volume_directory_bytes(1, declared=3),
        "VOL-blank-count": volume_directory_bytes(0, declared=""),
        "VOL-empty": b"",
    }
    mapper = RecordingMapper(contents)
    for path in list(contents) + ["VOL-missing", "dir/VOL-missing"]:
        observed.append(("open_volume_directory", path, call(open_volume_directory, mapper, path)))
    observed.append(("requests", list(mapper.requests)))

    memory = fsspec.get_mapper("memory://equiv3")
    memory["a/VOL-2"] = volume_directory_bytes(2)
    for path in ["a/VOL-2", "a/VOL-3"]:
        observed.append(("memory", path, call(io.open_volume_directory, memory, path)))

    parsed = io.parse_data(contents["VOL-4"])
    observed.append(("parsed-keys", list(parsed), len(parsed["file_descriptors"])))
    observed.append(("parsed-transformed", call_unchanged(metadata.transform_record, parsed)))
    return observed


def patched_runs():
    observed = []
    originals = (metadata.transform_volume_descriptor, metadata.transform_text)
    mapping = {
        "first": 1,
        "text_record": {"t": 1},
        "file_descriptors": [{"b": 2}],
        "volume_descriptor": {"v": 1},
        "last": {"l": 1},
    }
    variants = {
        "recording": (lambda m: {"vd": m}, lambda m: {"text": m}),
        "scalars": (lambda m: 1, lambda m: [2]),
        "none": (lambda m: None, lambda m: None),
        "subclass": (lambda m: collections.OrderedDict(z=1, y=2), lambda m: Loud(k=1, hidden=2)),
        "failing-text": (lambda m: {"vd": 1}, lambda m: (_ for _ in ()).throw(RuntimeError("text"))),
        "failing-both": (
            lambda m: (_ for _ in ()).throw(KeyError("vd")),
            lambda m: (_ for _ in ()).throw(RuntimeError("text")),
        ),
    }
    for label, (vd, text) in variants.items():
        calls = []

        def recorder(kind, f):
            def wrapper(m):
                calls.append((kind, repr(m)))
                return f(m)

            return wrapper

        metadata.transform_volume_descriptor = recorder("volume_descriptor", vd)
        metadata.transform_text = recorder("text_record", text)
        try:
            observed.append(("patched", label, call_unchanged(metadata.transform_record, mapping), list(calls)))
        finally:
            metadata.transform_volume_descriptor, metadata.transform_text = originals
    return observed


def observe():
    observed = []
    for label, mapping in volume_descriptor_inputs.items():
        observed.append(("volume_descriptor", label, call_unchanged(metadata.transform_volume_descriptor, mapping)))
    for label, mapping in text_inputs.items():
        observed.append(("text", label, call_unchanged(metadata.transform_text, mapping)))
    for label, mapping in record_inputs.items():
        observed.append(("record", label, call_unchanged(metadata.transform_record, mapping)))

    for value in non_mappings:
        observed.append(("volume_descriptor", repr(value), call(metadata.transform_volume_descriptor, value)))
        observed.append(("text", repr(value), call(metadata.transform_text, value)))
        observed.append(("record", repr(value), call(metadata.transform_record, value)))

    for label, mapping in other_mapping_types(full_volume_descriptor):
        observed.append(("volume_descriptor", label, call(metadata.transform_volume_descriptor, mapping)))
    for label, mapping in other_mapping_types(full_text_record):
        observed.append(("text", label, call(metadata.transform_text, mapping)))
    for label, mapping in other_mapping_types(record_inputs["sections-only"]):
        observed.append(("record", label, call(metadata.transform_record, mapping)))

    # fresh objects on every call, also for inputs without anything to do
    same = {"a": 1}
    for func in (metadata.transform_volume_descriptor, metadata.transform_text):
        result = func(same)
        observed.append(("fresh", func.__name__, type(result) is dict, result is not same, result == same))
    first = metadata.transform_record({"volume_descriptor": {"a": {"shared": []}}})
    second = metadata.transform_record({"volume_descriptor": {"a": {"shared": []}}})
    observed.append(("fresh", "transform_record", first is not second, first.attrs is not second.attrs, first == second))
    shared = {"shared": []}
    items = [shared]
    group = metadata.transform_record({"volume_descriptor": {"a": shared}, "b": items, "c": {"d": shared}})
    observed.append(
        ("shared-values", group.attrs["a"] is shared, group.attrs["b"] is items, group.attrs["d"] is shared)
    )

    observed.extend(high_level_runs())
    observed.extend(patched_runs())
    return observed


# fmt: off
EXPECTED = [('volume_descriptor', 'empty', (('returns', 'dict', '{}'), True)),
 ('volume_descriptor',
  'full',
  (('returns',
    'dict',
    "{'control_document_id': 'CEOS-SAR', 'control_document_revision_level': 'A', 'record_format_revision_level': 'A', 'software_version': '001.001', "
    "'physical_volume_id': '', 'logical_volume_id': 'ALOS2225333200', 'volume_set_id': '', 'creation_datetime': '2020-10-11T17:23:37.980000', "
    "'creation_country': 'JAPAN', 'creation_agency': 'JAXA', 'creation_facility': 'SCMO'}"),
   True)),
 ('volume_descriptor',
  'full-reversed',
  (('returns',
    'dict',
    "{'creation_facility': 'SCMO', 'creation_agency': 'JAXA', 'creation_country': 'JAPAN', 'creation_datetime': '2020-10-11T17:23:37.980000', "
    "'volume_set_id': '', 'logical_volume_id': 'ALOS2225333200', 'physical_volume_id': '', 'software_version': '001.001', "
    "'record_format_revision_level': 'A', 'control_document_revision_level': 'A', 'control_document_id': 'CEOS-SAR'}"),
   True)),
 ('volume_descriptor', 'ignored-only', (('returns', 'dict', '{}'), True)),
 ('volume_descriptor',
  'unknown-keys',
  (('returns', 'dict', "{'z': 1, 'a': [1, 2], 'm': {'nested': {'spare': 1}}, 'spare1': '', 'blanks2': ''}"), True)),
 ('volume_descriptor',
  'translated-name-given',
  (('returns', 'dict', "{'creation_datetime': '2020-10-11T17:23:37.980000', 'creation_country': 'x'}"), True)),
 ('volume_descriptor', 'collision-old-first', (('returns', 'dict', "{'creation_datetime': '2020-10-11T17:23:37.980000', 'b': 1}"), True)),
 ('volume_descriptor', 'collision-new-first', (('returns', 'dict', "{'creation_datetime': '2020-10-11T17:23:37.980000', 'b': 1}"), True)),
 ('volume_descriptor',
  'collision-bad-last',
  (('raises', 'ValueError', "time data 'garbage' does not match format '%Y%m%d%H%M%S%f'", None, None), True)),
 ('volume_descriptor', 'collision-other', (('returns', 'dict', "{'software_version': 'b', 'x': 0}"), True)),
 ('volume_descriptor', 'datetime-short', (('returns', 'dict', "{'creation_datetime': '2020-10-11T17:23:03.700000'}"), True)),
 ('volume_descriptor', 'datetime-long-fraction', (('returns', 'dict', "{'creation_datetime': '2020-10-11T17:23:37.987654'}"), True)),
 ('volume_descriptor', 'datetime-too-long', (('raises', 'ValueError', 'unconverted data remains: 3', None, None), True)),
 ('volume_descriptor', 'datetime-empty', (('raises', 'ValueError', "time data '' does not match format '%Y%m%d%H%M%S%f'", None, None), True)),
 ('volume_descriptor', 'datetime-invalid', (('returns', 'dict', "{'a': 1, 'creation_datetime': '2020-01-31T11:07:23.379800'}"), True)),
 ('volume_descriptor', 'datetime-int', (('raises', 'TypeError', 'strptime() argument 1 must be str, not int', None, None), True)),
 ('volume_descriptor', 'datetime-none', (('raises', 'TypeError', 'strptime() argument 1 must be str, not None', None, None), True)),
 ('volume_descriptor', 'datetime-bytes', (('raises', 'TypeError', 'strptime() argument 1 must be str, not bytes', None, None), True)),
 ('volume_descriptor', 'non-string-keys', (('returns', 'dict', "{1: 'a', None: 'b', (1, 2): 'c', 2.5: 'e'}"), True)),
 ('volume_descriptor', 'translation-target-as-key', (('returns', 'dict', "{'control_document_id': 2}"), True)),
 ('text', 'empty', (('returns', 'dict', '{}'), True)),
 ('text',
  'full',
  (('returns',
    'dict',
    "{'product_id': 'PRODUCT:WWDR1.5RUA', 'product_creation': 'PROCESS:JAPAN-JAXA-ALOS2-SCMO  20201011 172337', 'scene_id': "
    "'ORBIT:ALOS2225333200-180726', 'scene_location_id': ''}"),
   True)),
 ('text',
  'full-reversed',
  (('returns',
    'dict',
    "{'scene_location_id': '', 'scene_id': 'ORBIT:ALOS2225333200-180726', 'product_creation': 'PROCESS:JAPAN-JAXA-ALOS2-SCMO  20201011 172337', "
    "'product_id': 'PRODUCT:WWDR1.5RUA'}"),
   True)),
 ('text', 'ignored-only', (('returns', 'dict', '{}'), True)),
 ('text', 'collision-old-first', (('returns', 'dict', "{'product_creation': 'b', 'x': 1}"), True)),
 ('text', 'collision-new-first', (('returns', 'dict', "{'product_creation': 'a', 'x': 1}"), True)),
 ('text', 'unknown-keys', (('returns', 'dict', "{'spare': 1, 'local_use_segment': 2, 'creation_datetime': 'not touched', 3: 4}"), True)),
 ('record', 'empty', (('returns', 'Group', '/', None, 'dict', '{}', 'dict', '{}'), True)),
 ('record',
  'sections-only',
  (('returns',
    'Group',
    '/',
    None,
    'dict',
    '{}',
    'dict',
    "{'control_document_id': 'CEOS-SAR', 'control_document_revision_level': 'A', 'record_format_revision_level': 'A', 'software_version': '001.001', "
    "'physical_volume_id': '', 'logical_volume_id': 'ALOS2225333200', 'volume_set_id': '', 'creation_datetime': '2020-10-11T17:23:37.980000', "
    "'creation_country': 'JAPAN', 'creation_agency': 'JAXA', 'creation_facility': 'SCMO', 'product_id': 'PRODUCT:WWDR1.5RUA', 'product_creation': "
    "'PROCESS:JAPAN-JAXA-ALOS2-SCMO  20201011 172337', 'scene_id': 'ORBIT:ALOS2225333200-180726', 'scene_location_id': ''}"),
   True)),
 ('record',
  'text-first',
  (('returns',
    'Group',
    '/',
    None,
    'dict',
    '{}',
    'dict',
    "{'product_id': 'PRODUCT:WWDR1.5RUA', 'product_creation': 'PROCESS:JAPAN-JAXA-ALOS2-SCMO  20201011 172337', 'scene_id': "
    "'ORBIT:ALOS2225333200-180726', 'scene_location_id': '', 'control_document_id': 'CEOS-SAR', 'control_document_revision_level': 'A', "
    "'record_format_revision_level': 'A', 'software_version': '001.001', 'physical_volume_id': '', 'logical_volume_id': 'ALOS2225333200', "
    "'volume_set_id': '', 'creation_datetime': '2020-10-11T17:23:37.980000', 'creation_country': 'JAPAN', 'creation_agency': 'JAXA', "
    "'creation_facility': 'SCMO'}"),
   True)),
 ('record', 'only-file-descriptors', (('returns', 'Group', '/', None, 'dict', '{}', 'dict', '{}'), True)),
 ('record', 'no-file-descriptors', (('returns', 'Group', '/', None, 'dict', '{}', 'dict', "{'a': 1, 'b': 2, 'c': 3, 'd': 4}"), True)),
 ('record', 'missing-text', (('returns', 'Group', '/', None, 'dict', '{}', 'dict', "{'a': 1}"), True)),
 ('record', 'scalars', (('returns', 'Group', '/', None, 'dict', '{}', 'dict', "{'x': 1, 'a': 1, 'y': [1, 2], 'd': 4, 'z': None}"), True)),
 ('record',
  'unknown-sections',
  (('returns', 'Group', '/', None, 'dict', '{}', 'dict', "{'p': 1, 'preamble': 2, 'q': {'deep': {'er': 1}}, 'a': 1}"), True)),
 ('record',
  'collisions',
  (('returns', 'Group', '/', None, 'dict', '{}', 'dict', "{'a': 'vd', 'b': 'scalar', 'scene_id': 'text', 'c': 'scalar'}"), True)),
 ('record', 'name-collision', (('returns', 'Group', '/', None, 'dict', '{}', 'dict', "{'text_record': 1, 'file_descriptors': 2, 'x': 1}"), True)),
 ('record', 'bad-datetime', (('raises', 'ValueError', "time data 'nope' does not match format '%Y%m%d%H%M%S%f'", None, None), True)),
 ('record', 'section-not-a-mapping', (('raises', 'AttributeError', "'int' object has no attribute 'items'", None, None), True)),
 ('record', 'text-not-a-mapping', (('raises', 'AttributeError', "'NoneType' object has no attribute 'items'", None, None), True)),
 ('record', 'empty-sections', (('returns', 'Group', '/', None, 'dict', '{}', 'dict', '{}'), True)),
 ('record',
  'odict-sections',
  (('returns', 'Group', '/', None, 'dict', '{}', 'dict', "{'b': 1, 'a': 2, 'd': 1, 'c': 2, 'e': 1, 'f': 1, 'proxy': mappingproxy({'g': 1})}"), True)),
 ('record', 'non-string-keys', (('returns', 'Group', '/', None, 'dict', '{}', 'dict', "{'a': 1, None: 2, 3: 4}"), True)),
 ('volume_descriptor', 'None', ('raises', 'AttributeError', "'NoneType' object has no attribute 'items'", None, None)),
 ('text', 'None', ('raises', 'AttributeError', "'NoneType' object has no attribute 'items'", None, None)),
 ('record', 'None', ('raises', 'AttributeError', "'NoneType' object has no attribute 'items'", None, None)),
 ('volume_descriptor', '5', ('raises', 'AttributeError', "'int' object has no attribute 'items'", None, None)),
 ('text', '5', ('raises', 'AttributeError', "'int' object has no attribute 'items'", None, None)),
 ('record', '5', ('raises', 'AttributeError', "'int' object has no attribute 'items'", None, None)),
 ('volume_descriptor', "'abc'", ('raises', 'AttributeError', "'str' object has no attribute 'items'", None, None)),
 ('text', "'abc'", ('raises', 'AttributeError', "'str' object has no attribute 'items'", None, None)),
 ('record', "'abc'", ('raises', 'AttributeError', "'str' object has no attribute 'items'", None, None)),
 ('volume_descriptor', "[('a', 1)]", ('raises', 'AttributeError', "'list' object has no attribute 'items'", None, None)),
 ('text', "[('a', 1)]", ('raises', 'AttributeError', "'list' object has no attribute 'items'", None, None)),
 ('record', "[('a', 1)]", ('raises', 'AttributeError', "'list' object has no attribute 'items'", None, None)),
 ('volume_descriptor', "(('a', 1),)", ('raises', 'AttributeError', "'tuple' object has no attribute 'items'", None, None)),
 ('text', "(('a', 1),)", ('raises', 'AttributeError', "'tuple' object has no attribute 'items'", None, None)),
 ('record', "(('a', 1),)", ('raises', 'AttributeError', "'tuple' object has no attribute 'items'", None, None)),
 ('volume_descriptor', "{'a'}", ('raises', 'AttributeError', "'set' object has no attribute 'items'", None, None)),
 ('text', "{'a'}", ('raises', 'AttributeError', "'set' object has no attribute 'items'", None, None)),
 ('record', "{'a'}", ('raises', 'AttributeError', "'set' object has no attribute 'items'", None, None)),
 ('volume_descriptor', "b'ab'", ('raises', 'AttributeError', "'bytes' object has no attribute 'items'", None, None)),
 ('text', "b'ab'", ('raises', 'AttributeError', "'bytes' object has no attribute 'items'", None, None)),
 ('record', "b'ab'", ('raises', 'AttributeError', "'bytes' object has no attribute 'items'", None, None)),
 ('volume_descriptor',
  'OrderedDict',
  ('returns',
   'dict',
   "{'control_document_id': 'CEOS-SAR', 'control_document_revision_level': 'A', 'record_format_revision_level': 'A', 'software_version': '001.001', "
   "'physical_volume_id': '', 'logical_volume_id': 'ALOS2225333200', 'volume_set_id': '', 'creation_datetime': '2020-10-11T17:23:37.980000', "
   "'creation_country': 'JAPAN', 'creation_agency': 'JAXA', 'creation_facility': 'SCMO'}")),
 ('volume_descriptor',
  'mappingproxy',
  ('returns',
   'dict',
   "{'control_document_id': 'CEOS-SAR', 'control_document_revision_level': 'A', 'record_format_revision_level': 'A', 'software_version': '001.001', "
   "'physical_volume_id': '', 'logical_volume_id': 'ALOS2225333200', 'volume_set_id': '', 'creation_datetime': '2020-10-11T17:23:37.980000', "
   "'creation_country': 'JAPAN', 'creation_agency': 'JAXA', 'creation_facility': 'SCMO'}")),
 ('volume_descriptor',
  'defaultdict',
  ('returns',
   'dict',
   "{'control_document_id': 'CEOS-SAR', 'control_document_revision_level': 'A', 'record_format_revision_level': 'A', 'software_version': '001.001', "
   "'physical_volume_id': '', 'logical_volume_id': 'ALOS2225333200', 'volume_set_id': '', 'creation_datetime': '2020-10-11T17:23:37.980000', "
   "'creation_country': 'JAPAN', 'creation_agency': 'JAXA', 'creation_facility': 'SCMO'}")),
 ('volume_descriptor',
  'Loud',
  ('returns',
   'dict',
   "{'control_document_id': 'CEOS-SAR', 'control_document_revision_level': 'A', 'record_format_revision_level': 'A', 'software_version': '001.001', "
   "'physical_volume_id': '', 'logical_volume_id': 'ALOS2225333200', 'volume_set_id': '', 'creation_datetime': '2020-10-11T17:23:37.980000', "
   "'creation_country': 'JAPAN', 'creation_agency': 'JAXA', 'creation_facility': 'SCMO'}")),
 ('volume_descriptor',
  'ChainMap',
  ('returns',
   'dict',
   "{'extra': 1, 'control_document_id': 'CEOS-SAR', 'control_document_revision_level': 'A', 'record_format_revision_level': 'A', 'software_version': "
   "'001.001', 'physical_volume_id': '', 'logical_volume_id': 'ALOS2225333200', 'volume_set_id': '', 'creation_datetime': "
   "'2020-10-11T17:23:37.980000', 'creation_country': 'JAPAN', 'creation_agency': 'JAXA', 'creation_facility': 'SCMO'}")),
 ('text',
  'OrderedDict',
  ('returns',
   'dict',
   "{'product_id': 'PRODUCT:WWDR1.5RUA', 'product_creation': 'PROCESS:JAPAN-JAXA-ALOS2-SCMO  20201011 172337', 'scene_id': "
   "'ORBIT:ALOS2225333200-180726', 'scene_location_id': ''}")),
 ('text',
  'mappingproxy',
  ('returns',
   'dict',
   "{'product_id': 'PRODUCT:WWDR1.5RUA', 'product_creation': 'PROCESS:JAPAN-JAXA-ALOS2-SCMO  20201011 172337', 'scene_id': "
   "'ORBIT:ALOS2225333200-180726', 'scene_location_id': ''}")),
 ('text',
  'defaultdict',
  ('returns',
   'dict',
   "{'product_id': 'PRODUCT:WWDR1.5RUA', 'product_creation': 'PROCESS:JAPAN-JAXA-ALOS2-SCMO  20201011 172337', 'scene_id': "
   "'ORBIT:ALOS2225333200-180726', 'scene_location_id': ''}")),
 ('text',
  'Loud',
  ('returns',
   'dict',
   "{'product_id': 'PRODUCT:WWDR1.5RUA', 'product_creation': 'PROCESS:JAPAN-JAXA-ALOS2-SCMO  20201011 172337', 'scene_id': "
   "'ORBIT:ALOS2225333200-180726', 'scene_location_id': ''}")),
 ('text',
  'ChainMap',
  ('returns',
   'dict',
   "{'extra': 1, 'product_id': 'PRODUCT:WWDR1.5RUA', 'product_creation': 'PROCESS:JAPAN-JAXA-ALOS2-SCMO  20201011 172337', 'scene_id': "
   "'ORBIT:ALOS2225333200-180726', 'scene_location_id': ''}")),
 ('record',
  'OrderedDict',
  ('returns',
   'Group',
   '/',
   None,
   'dict',
   '{}',
   'dict',
   "{'control_document_id': 'CEOS-SAR', 'control_document_revision_level': 'A', 'record_format_revision_level': 'A', 'software_version': '001.001', "
   "'physical_volume_id': '', 'logical_volume_id': 'ALOS2225333200', 'volume_set_id': '', 'creation_datetime': '2020-10-11T17:23:37.980000', "
   "'creation_country': 'JAPAN', 'creation_agency': 'JAXA', 'creation_facility': 'SCMO', 'product_id': 'PRODUCT:WWDR1.5RUA', 'product_creation': "
   "'PROCESS:JAPAN-JAXA-ALOS2-SCMO  20201011 172337', 'scene_id': 'ORBIT:ALOS2225333200-180726', 'scene_location_id': ''}")),
 ('record',
  'mappingproxy',
  ('returns',
   'Group',
   '/',
   None,
   'dict',
   '{}',
   'dict',
   "{'control_document_id': 'CEOS-SAR', 'control_document_revision_level': 'A', 'record_format_revision_level': 'A', 'software_version': '001.001', "
   "'physical_volume_id': '', 'logical_volume_id': 'ALOS2225333200', 'volume_set_id': '', 'creation_datetime': '2020-10-11T17:23:37.980000', "
   "'creation_country': 'JAPAN', 'creation_agency': 'JAXA', 'creation_facility': 'SCMO', 'product_id': 'PRODUCT:WWDR1.5RUA', 'product_creation': "
   "'PROCESS:JAPAN-JAXA-ALOS2-SCMO  20201011 172337', 'scene_id': 'ORBIT:ALOS2225333200-180726', 'scene_location_id': ''}")),
 ('record',
  'defaultdict',
  ('returns',
   'Group',
   '/',
   None,
   'dict',
   '{}',
   'dict',
   "{'control_document_id': 'CEOS-SAR', 'control_document_revision_level': 'A', 'record_format_revision_level': 'A', 'software_version': '001.001', "
   "'physical_volume_id': '', 'logical_volume_id': 'ALOS2225333200', 'volume_set_id': '', 'creation_datetime': '2020-10-11T17:23:37.980000', "
   "'creation_country': 'JAPAN', 'creation_agency': 'JAXA', 'creation_facility': 'SCMO', 'product_id': 'PRODUCT:WWDR1.5RUA', 'product_creation': "
   "'PROCESS:JAPAN-JAXA-ALOS2-SCMO  20201011 172337', 'scene_id': 'ORBIT:ALOS2225333200-180726', 'scene_location_id': ''}")),
 ('record',
  'Loud',
  ('returns',
   'Group',
   '/',
   None,
   'dict',
   '{}',
   'dict',
   "{'control_document_id': 'CEOS-SAR', 'control_document_revision_level': 'A', 'record_format_revision_level': 'A', 'software_version': '001.001', "
   "'physical_volume_id': '', 'logical_volume_id': 'ALOS2225333200', 'volume_set_id': '', 'creation_datetime': '2020-10-11T17:23:37.980000', "
   "'creation_country': 'JAPAN', 'creation_agency': 'JAXA', 'creation_facility': 'SCMO', 'product_id': 'PRODUCT:WWDR1.5RUA', 'product_creation': "
   "'PROCESS:JAPAN-JAXA-ALOS2-SCMO  20201011 172337', 'scene_id': 'ORBIT:ALOS2225333200-180726', 'scene_location_id': ''}")),
 ('record',
  'ChainMap',
  ('returns',
   'Group',
   '/',
   None,
   'dict',
   '{}',
   'dict',
   "{'extra': 1, 'control_document_id': 'CEOS-SAR', 'control_document_revision_level': 'A', 'record_format_revision_level': 'A', 'software_version': "
   "'001.001', 'physical_volume_id': '', 'logical_volume_id': 'ALOS2225333200', 'volume_set_id': '', 'creation_datetime': "
   "'2020-10-11T17:23:37.980000', 'creation_country': 'JAPAN', 'creation_agency': 'JAXA', 'creation_facility': 'SCMO', 'product_id': "
   "'PRODUCT:WWDR1.5RUA', 'product_creation': 'PROCESS:JAPAN-JAXA-ALOS2-SCMO  20201011 172337', 'scene_id': 'ORBIT:ALOS2225333200-180726', "
   "'scene_location_id': ''}")),
 ('fresh', 'transform_volume_descriptor', True, True, True),
 ('fresh', 'transform_text', True, True, True),
 ('fresh', 'transform_record', True, True, True),
 ('shared-values', True, True, True),
 ('open_volume_directory',
  'VOL-0',
  ('returns',
   'Group',
   '/',
   None,
   'dict',
   '{}',
   'dict',
   "{'control_document_id': 'CEOS-SAR', 'control_document_revision_level': 'A', 'record_format_revision_level': 'A', 'software_version': '001.001', "
   "'physical_volume_id': '', 'logical_volume_id': 'ALOS2225333200', 'volume_set_id': '', 'creation_datetime': '2020-10-11T17:23:37.980000', "
   "'creation_country': 'JAPAN', 'creation_agency': 'JAXA', 'creation_facility': 'SCMO', 'product_id': 'PRODUCT:WWDR1.5RUA', 'product_creation': "
   "'PROCESS:JAPAN-JAXA-ALOS2-SCMO  20201011 172337', 'scene_id': 'ORBIT:ALOS2225333200-180726', 'scene_location_id': 'SCENE LOCATION'}")),
 ('open_volume_directory',
  'VOL-1',
  ('returns',
   'Group',
   '/',
   None,
   'dict',
   '{}',
   'dict',
   "{'control_document_id': 'CEOS-SAR', 'control_document_revision_level': 'A', 'record_format_revision_level': 'A', 'software_version': '001.001', "
   "'physical_volume_id': '', 'logical_volume_id': 'ALOS2225333200', 'volume_set_id': '', 'creation_datetime': '2020-10-11T17:23:37.980000', "
   "'creation_country': 'JAPAN', 'creation_agency': 'JAXA', 'creation_facility': 'SCMO', 'product_id': 'PRODUCT:WWDR1.5RUA', 'product_creation': "
   "'PROCESS:JAPAN-JAXA-ALOS2-SCMO  20201011 172337', 'scene_id': 'ORBIT:ALOS2225333200-180726', 'scene_location_id': 'SCENE LOCATION'}")),
 ('open_volume_directory',
  'VOL-4',
  ('returns',
   'Group',
   '/',
   None,
   'dict',
   '{}',
   'dict',
   "{'control_document_id': 'CEOS-SAR', 'control_document_revision_level': 'A', 'record_format_revision_level': 'A', 'software_version': '001.001', "
   "'physical_volume_id': '', 'logical_volume_id': 'ALOS2225333200', 'volume_set_id': '', 'creation_datetime': '2020-10-11T17:23:37.980000', "
   "'creation_country': 'JAPAN', 'creation_agency': 'JAXA', 'creation_facility': 'SCMO', 'product_id': 'PRODUCT:WWDR1.5RUA', 'product_creation': "
   "'PROCESS:JAPAN-JAXA-ALOS2-SCMO  20201011 172337', 'scene_id': 'ORBIT:ALOS2225333200-180726', 'scene_location_id': 'SCENE LOCATION'}")),
 ('open_volume_directory', 'VOL-blank-datetime', ('raises', 'ValueError', "time data '' does not match format '%Y%m%d%H%M%S%f'", None, None)),
 ('open_volume_directory',
  'VOL-bad-datetime',
  ('returns',
   'Group',
   '/',
   None,
   'dict',
   '{}',
   'dict',
   "{'control_document_id': 'CEOS-SAR', 'control_document_revision_level': 'A', 'record_format_revision_level': 'A', 'software_version': '001.001', "
   "'physical_volume_id': '', 'logical_volume_id': 'ALOS2225333200', 'volume_set_id': '', 'creation_datetime': '2020-01-03T09:09:17.233798', "
   "'creation_country': 'JAPAN', 'creation_agency': 'JAXA', 'creation_facility': 'SCMO', 'product_id': 'PRODUCT:WWDR1.5RUA', 'product_creation': "
   "'PROCESS:JAPAN-JAXA-ALOS2-SCMO  20201011 172337', 'scene_id': 'ORBIT:ALOS2225333200-180726', 'scene_location_id': 'SCENE LOCATION'}")),
 ('open_volume_directory',
  'VOL-truncated',
  ('raises',
   'StreamError',
   'Error in path (parsing) -> file_descriptors -> local_use_segment\nstream read less than specified amount, expected 100, found 20',
   None,
   None)),
 ('open_volume_directory', 'VOL-too-many-declared', ('raises', 'ValueError', "invalid literal for int() with base 10: 'PROD'", None, None)),
 ('open_volume_directory', 'VOL-blank-count', ('raises', 'RangeError', 'Error in path (parsing) -> file_descriptors\ninvalid count -1', None, None)),
 ('open_volume_directory',
  'VOL-empty',
  ('raises',
   'StreamError',
   'Error in path (parsing) -> volume_descriptor -> preamble -> record_sequence_number\nstream read less than specified amount, expected 4, found 0',
   None,
   None)),
 ('open_volume_directory',
  'VOL-missing',
  ('raises', 'FileNotFoundError', 'Cannot open VOL-missing', ('KeyError', "'VOL-missing'"), ('KeyError', "'VOL-missing'"))),
 ('open_volume_directory',
  'dir/VOL-missing',
  ('raises', 'FileNotFoundError', 'Cannot open dir/VOL-missing', ('KeyError', "'dir/VOL-missing'"), ('KeyError', "'dir/VOL-missing'"))),
 ('requests',
  ['VOL-0',
   'VOL-1',
   'VOL-4',
   'VOL-blank-datetime',
   'VOL-bad-datetime',
   'VOL-truncated',
   'VOL-too-many-declared',
   'VOL-blank-count',
   'VOL-empty',
   'VOL-missing',
   'dir/VOL-missing']),
 ('memory',
  'a/VOL-2',
  ('returns',
   'Group',
   '/',
   None,
   'dict',
   '{}',
   'dict',
   "{'control_document_id': 'CEOS-SAR', 'control_document_revision_level': 'A', 'record_format_revision_level': 'A', 'software_version': '001.001', "
   "'physical_volume_id': '', 'logical_volume_id': 'ALOS2225333200', 'volume_set_id': '', 'creation_datetime': '2020-10-11T17:23:37.980000', "
   "'creation_country': 'JAPAN', 'creation_agency': 'JAXA', 'creation_facility': 'SCMO', 'product_id': 'PRODUCT:WWDR1.5RUA', 'product_creation': "
   "'PROCESS:JAPAN-JAXA-ALOS2-SCMO  20201011 172337', 'scene_id': 'ORBIT:ALOS2225333200-180726', 'scene_location_id': 'SCENE LOCATION'}")),
 ('memory', 'a/VOL-3', ('raises', 'FileNotFoundError', 'Cannot open a/VOL-3', ('KeyError', "'a/VOL-3'"), ('KeyError', "'a/VOL-3'"))),
 ('parsed-keys', ['volume_descriptor', 'file_descriptors', 'text_record'], 4),
 ('parsed-transformed',
  (('returns',
    'Group',
    '/',
    None,
    'dict',
    '{}',
    'dict',
    "{'control_document_id': 'CEOS-SAR', 'control_document_revision_level': 'A', 'record_format_revision_level': 'A', 'software_version': '001.001', "
    "'physical_volume_id': '', 'logical_volume_id': 'ALOS2225333200', 'volume_set_id': '', 'creation_datetime': '2020-10-11T17:23:37.980000', "
    "'creation_country': 'JAPAN', 'creation_agency': 'JAXA', 'creation_facility': 'SCMO', 'product_id': 'PRODUCT:WWDR1.5RUA', 'product_creation': "
    "'PROCESS:JAPAN-JAXA-ALOS2-SCMO  20201011 172337', 'scene_id': 'ORBIT:ALOS2225333200-180726', 'scene_location_id': 'SCENE LOCATION'}"),
   True)),
 ('patched',
  'recording',
  (('returns', 'Group', '/', None, 'dict', '{}', 'dict', "{'first': 1, 'text': {'t': 1}, 'vd': {'v': 1}, 'l': 1}"), True),
  [('text_record', "{'t': 1}"), ('volume_descriptor', "{'v': 1}")]),
 ('patched',
  'scalars',
  (('returns', 'Group', '/', None, 'dict', '{}', 'dict', "{'first': 1, 'text_record': [2], 'volume_descriptor': 1, 'l': 1}"), True),
  [('text_record', "{'t': 1}"), ('volume_descriptor', "{'v': 1}")]),
 ('patched',
  'none',
  (('returns', 'Group', '/', None, 'dict', '{}', 'dict', "{'first': 1, 'text_record': None, 'volume_descriptor': None, 'l': 1}"), True),
  [('text_record', "{'t': 1}"), ('volume_descriptor', "{'v': 1}")]),
 ('patched',
  'subclass',
  (('returns', 'Group', '/', None, 'dict', '{}', 'dict', "{'first': 1, 'k': 1, 'z': 1, 'y': 2, 'l': 1}"), True),
  [('text_record', "{'t': 1}"), ('volume_descriptor', "{'v': 1}")]),
 ('patched', 'failing-text', (('raises', 'RuntimeError', 'text', None, None), True), [('text_record', "{'t': 1}")]),
 ('patched', 'failing-both', (('raises', 'RuntimeError', 'text', None, None), True), [('text_record', "{'t': 1}")])]
# fmt: on


def main():
    observed = observe()
    if "--record" in sys.argv:
        import pprint

        pprint.pprint(observed, width=150)
        return

    assert len(observed) == len(EXPECTED), (len(observed), len(EXPECTED))
    for new, old in zip(observed, EXPECTED):
        assert new == old, f"\nobserved: {new!r}\nexpected: {old!r}"
    print(f"ok: {len(observed)} observations identical")


def test_equivalence():
    assert observe() == EXPECTED


if __name__ == "__main__":
    main()
