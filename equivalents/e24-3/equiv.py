"""Equivalence check for refactoring 3 (ceos_alos2/sar_leader/platform_position.py).

Run as

    cd /tmp/wt4/e24 && PYTHONPATH=/tmp/wt4/e24 /venv/bin/python _eq/3/equiv.py

(or through pytest).  Covers ``transform_composite_datetime``,
``transform_positions`` (including the inputs for which toolz' ``curry``
swallows a ``TypeError`` and returns a partial instead) and, end to end,
``transform_platform_position`` on records parsed from synthesised bytes.
Every case renders the result (or the exception type and message) together
with the state of the arguments after the call into a type-, order- and
value-sensitive string and compares it with the string recorded from the
unchanged code.
"""
# --------------------------------------------------------------------------
# generic harness: canonical, type-aware rendering of results + byte synthesis
# --------------------------------------------------------------------------
import math
import os
import struct as _struct
import sys

import construct
import numpy as np

HERE = os.path.dirname(os.path.abspath(__file__))
ROOT = os.path.dirname(os.path.dirname(HERE))
if ROOT not in sys.path:
    sys.path.insert(0, ROOT)

from ceos_alos2 import datatypes  # noqa: E402
from ceos_alos2.hierarchy import Group, Variable  # noqa: E402
from ceos_alos2.utils import to_dict  # noqa: E402


def canon(obj):
    """Render ``obj`` as a string that is sensitive to types, order and values."""
    if isinstance(obj, Group):
        return (
            f"Group(path={obj.path!r}, url={obj.url!r},"
            f" attrs={canon(obj.attrs)}, data={canon(obj.data)})"
        )
    if isinstance(obj, Variable):
        return f"Variable(dims={canon(obj.dims)}, data={canon(obj.data)}, attrs={canon(obj.attrs)})"
    if isinstance(obj, np.ndarray):
        if obj.dtype.kind in "mM":
            values = obj.astype("int64").tolist()
        else:
            values = obj.tolist()
        return f"ndarray[{obj.dtype.str}, {obj.shape}]({canon(values)})"
    if isinstance(obj, np.generic):
        return f"{type(obj).__name__}({obj!r})"
    if isinstance(obj, dict):
        items = ", ".join(f"{canon(k)}: {canon(v)}" for k, v in obj.items())
        return f"{type(obj).__name__}{{{items}}}"
    if isinstance(obj, (list, tuple)):
        items = ", ".join(canon(v) for v in obj)
        return f"{type(obj).__name__}[{items}]"
    if isinstance(obj, float):
        if math.isnan(obj):
            return "float(nan)"
        return f"float({obj!r})"
    if isinstance(obj, complex):
        return f"complex({canon(obj.real)}, {canon(obj.imag)})"
    if isinstance(obj, BaseException):
        return f"raised {type(obj).__module__}.{type(obj).__qualname__}({str(obj)!r})"
    if obj is None or isinstance(obj, (bool, int, str, bytes)):
        return f"{type(obj).__name__}({obj!r})"
    return f"<{type(obj).__module__}.{type(obj).__qualname__}>"


def outcome(func, *args, **kwargs):
    """Call ``func`` and render result (or exception) and the arguments afterwards."""
    try:
        result = func(*args, **kwargs)
    except Exception as e:  # noqa: BLE001
        result = e
    return f"{canon(result)} || args after: {canon(list(args))} {canon(kwargs)}"


# --- byte synthesis for the fixed-width construct definitions -------------


def _width(con):
    return con.sizeof()


def synth(con, counter, overrides=None, path=""):
    """Build bytes that ``con`` parses, numbering the fields with ``counter``."""
    overrides = overrides or {}
    if isinstance(con, construct.Renamed):
        new_path = f"{path}.{con.name}" if path else con.name
        if new_path in overrides:
            return overrides[new_path]
        return synth(con.subcon, counter, overrides, new_path)
    if isinstance(con, construct.Struct):
        return b"".join(synth(sub, counter, overrides, path) for sub in con.subcons)
    if isinstance(con, construct.Array):
        return b"".join(
            synth(con.subcon, counter, overrides, f"{path}[{i}]") for i in range(con.count)
        )
    if isinstance(con, construct.Enum):
        choices = list(con.encmapping.values())
        value = choices[next(counter) % len(choices)]
        n = _width(con.subcon)
        if isinstance(value, int):
            return str(value).rjust(n).encode("ascii")
        return str(value).ljust(n).encode("ascii")
    if isinstance(con, (datatypes.Metadata, datatypes.Factor)):
        return synth(con.subcon, counter, overrides, path)
    if isinstance(con, datatypes.AsciiComplex):
        return synth(con.subcon, counter, overrides, path)
    if isinstance(con, datatypes.AsciiInteger):
        n = _width(con)
        i = next(counter)
        if i % 11 == 10:
            return b" " * n
        return str(i % 10 ** min(n, 6)).rjust(n).encode("ascii")
    if isinstance(con, datatypes.AsciiFloat):
        n = _width(con)
        i = next(counter)
        if i % 13 == 12:
            return b" " * n
        text = f"{(-1) ** i * (i + 0.25) * 1.5:.{max(n - 9, 1)}E}" if n >= 14 else f"{i % 90}.5"
        return text.rjust(n).encode("ascii")[:n]
    if isinstance(con, datatypes.PaddedString):
        n = _width(con)
        i = next(counter)
        return f"s{i}".ljust(n).encode("ascii")[:n]
    if isinstance(con, construct.FormatField):
        return _struct.pack(con.fmtstr, next(counter) % 200)
    raise TypeError(f"cannot synthesise {con!r} at {path}")


def describe(con, depth=0):
    """Structural fingerprint of a construct definition (names, classes, sizes, attrs)."""
    if isinstance(con, construct.Renamed):
        return f"{con.name!r}/" + describe(con.subcon, depth)
    if isinstance(con, construct.Struct):
        inner = ", ".join(describe(sub, depth + 1) for sub in con.subcons)
        return f"Struct({inner})"
    if isinstance(con, construct.Array):
        count = con.count if isinstance(con.count, int) else "<expr>"
        return f"Array[{count}]({describe(con.subcon, depth + 1)})"
    if isinstance(con, construct.Enum):
        return f"Enum({describe(con.subcon)}, {sorted(con.encmapping.items(), key=repr)!r})"
    if isinstance(con, datatypes.Metadata):
        return f"Metadata({describe(con.subcon)}, {con.attrs!r})"
    if isinstance(con, datatypes.Factor):
        return f"Factor({describe(con.subcon)}, {con.factor!r})"
    if isinstance(con, datatypes.AsciiComplex):
        return f"AsciiComplex({describe(con.subcon)})"
    if isinstance(con, (datatypes.AsciiInteger, datatypes.AsciiFloat, datatypes.PaddedString)):
        try:
            size = con.sizeof()
        except Exception:  # noqa: BLE001 - size depends on the parsing context
            size = "<expr>"
        return f"{type(con).__name__}({size})"
    if isinstance(con, construct.FormatField):
        return f"FormatField({con.fmtstr!r})"
    return f"<{type(con).__name__}>"


def counter_from(start):
    import itertools

    return itertools.count(start)


def shorten(text, limit=400):
    """Keep the recording small: long renderings become head + length + sha256."""
    if len(text) <= limit:
        return text
    import hashlib

    digest = hashlib.sha256(text.encode("utf-8")).hexdigest()
    return f"{text[:limit]} ... [{len(text)} chars, sha256 {digest}]"


def report(cases, expected):
    """Evaluate ``cases`` (name -> thunk returning str) against ``expected``."""
    actual = {name: shorten(thunk()) for name, thunk in cases.items()}
    if "--record" in sys.argv:
        import pprint

        with open(os.path.join(HERE, "expected.txt"), "w") as f:
            f.write("EXPECTED = " + pprint.pformat(actual, width=110, sort_dicts=False) + "\n")
        print(f"recorded {len(actual)} cases")
        return []

    failures = []
    if list(actual) != list(expected):
        failures.append(f"case names differ: {sorted(set(actual) ^ set(expected))}")
    for name, value in actual.items():
        if expected.get(name) != value:
            failures.append(f"{name}:\n  expected {expected.get(name)}\n  actual   {value}")
    return failures


# --------------------------------------------------------------------------
# cases: ceos_alos2.sar_leader.platform_position
# --------------------------------------------------------------------------
import collections  # noqa: E402
import decimal  # noqa: E402
import fractions  # noqa: E402

from ceos_alos2.sar_leader import platform_position as pp  # noqa: E402

CASES = {}

# --- transform_composite_datetime ---------------------------------------------

for _name, _mapping in {
    "typical": {"date": "2011 07 16", "day_of_year": 197, "seconds_of_day": 3024.375},
    "only needed keys": {"date": "2011 07 16", "seconds_of_day": 0.0},
    "reversed keys": {"seconds_of_day": 1.5, "date": "2020 02 29"},
    "extra whitespace": {"date": "  2011   07\t16\n", "seconds_of_day": 86399.999999},
    "single digits": {"date": "2011 7 6", "seconds_of_day": 1},
    "already dashed": {"date": "2011-07-16", "seconds_of_day": 1},
    "two parts": {"date": "2011 0716", "seconds_of_day": 1},
    "four parts": {"date": "2011 07 16 01", "seconds_of_day": 1},
    "empty date": {"date": "", "seconds_of_day": 1},
    "invalid month": {"date": "2011 13 01", "seconds_of_day": 1},
    "invalid day": {"date": "2011 02 30", "seconds_of_day": 1},
    "year 1": {"date": "0001 01 01", "seconds_of_day": -1},
    "year 9999": {"date": "9999 12 31", "seconds_of_day": 86400},
    "integer seconds": {"date": "2011 07 16", "seconds_of_day": 86400},
    "bool seconds": {"date": "2011 07 16", "seconds_of_day": True},
    "negative seconds": {"date": "2011 01 01", "seconds_of_day": -0.5},
    "more than a day": {"date": "2011 12 31", "seconds_of_day": 3 * 86400 + 0.25},
    "microsecond rounding": {"date": "2011 07 16", "seconds_of_day": 0.0000005},
    "microsecond rounding up": {"date": "2011 07 16", "seconds_of_day": 0.0000015},
    "sub-microsecond": {"date": "2011 07 16", "seconds_of_day": 1e-9},
    "nan seconds": {"date": "2011 07 16", "seconds_of_day": float("nan")},
    "inf seconds": {"date": "2011 07 16", "seconds_of_day": float("inf")},
    "huge seconds": {"date": "2011 07 16", "seconds_of_day": 1e20},
    "string seconds": {"date": "2011 07 16", "seconds_of_day": "12"},
    "None seconds": {"date": "2011 07 16", "seconds_of_day": None},
    "numpy seconds": {"date": "2011 07 16", "seconds_of_day": np.float64(12.5)},
    "numpy int seconds": {"date": "2011 07 16", "seconds_of_day": np.int64(12)},
    "decimal seconds": {"date": "2011 07 16", "seconds_of_day": decimal.Decimal("1.5")},
    "fraction seconds": {"date": "2011 07 16", "seconds_of_day": fractions.Fraction(3, 2)},
    "missing date": {"seconds_of_day": 1.0},
    "missing seconds": {"date": "2011 07 16"},
    "missing both": {},
    "invalid date and missing seconds": {"date": "abc"},
    "invalid date and invalid seconds": {"date": "abc", "seconds_of_day": "x"},
    "bytes date": {"date": b"2011 07 16", "seconds_of_day": 1},
    "None date": {"date": None, "seconds_of_day": 1},
    "integer date": {"date": 20110716, "seconds_of_day": 1},
    "list date": {"date": ["2011", "07", "16"], "seconds_of_day": 1},
    "tuple metadata seconds": {"date": "2011 07 16", "seconds_of_day": (1.0, {"units": "s"})},
}.items():
    CASES[f"datetime/{_name}"] = lambda m=_mapping: outcome(pp.transform_composite_datetime, m)
CASES["datetime/not a mapping"] = lambda: outcome(pp.transform_composite_datetime, ["2011 07 16", 1])
CASES["datetime/defaultdict"] = lambda: outcome(
    pp.transform_composite_datetime, collections.defaultdict(lambda: "2011 07 16", seconds_of_day=2)
)


# --- transform_positions ----------------------------------------------------------


def orbit(i, units=("m", "m/s"), components=("x", "y", "z"), sections=("position", "velocity")):
    return {
        section: {
            name: (float(10 * i + j + 100 * k), {"units": unit})
            for j, name in enumerate(components)
        }
        for k, (section, unit) in enumerate(zip(sections, units))
    }


def gen(values):
    yield from values


def positions_case(elements):
    return lambda: outcome(pp.transform_positions, elements)


CASES["positions/empty"] = positions_case([])
CASES["positions/empty tuple"] = positions_case(())
CASES["positions/one"] = positions_case([orbit(1)])
CASES["positions/two"] = positions_case([orbit(1), orbit(2)])
CASES["positions/five as tuple"] = positions_case(tuple(orbit(i) for i in range(5)))
CASES["positions/generator"] = lambda: canon(pp.transform_positions(gen([orbit(1), orbit(2)])))
CASES["positions/section order follows first element"] = positions_case(
    [orbit(1, sections=("velocity", "position")), orbit(2)]
)
CASES["positions/component order follows first element"] = positions_case(
    [orbit(1, components=("z", "x", "y")), orbit(2)]
)
CASES["positions/missing section in second"] = positions_case(
    [orbit(1), orbit(2, sections=("position",))]
)
CASES["positions/missing component in second"] = positions_case(
    [orbit(1), orbit(2, components=("x", "y"))]
)
CASES["positions/additional component in second"] = positions_case(
    [orbit(1, components=("x",)), orbit(2)]
)
CASES["positions/other names"] = positions_case(
    [orbit(i, components=("along", "across"), sections=("a", "b")) for i in range(3)]
)
CASES["positions/metadata differs (first wins)"] = positions_case(
    [orbit(1, units=("m", "m/s")), orbit(2, units=("km", "km/s"))]
)
CASES["positions/no metadata"] = positions_case(
    [{"position": {"x": 1.0, "y": 2.0}}, {"position": {"x": 3.0, "y": 4.0}}]
)
CASES["positions/mixed metadata"] = positions_case(
    [{"position": {"x": (1.0, {"u": 1})}}, {"position": {"x": 3.0}}]
)
CASES["positions/mixed metadata, bare first"] = positions_case(
    [{"position": {"x": 3.0}}, {"position": {"x": (1.0, {"u": 1})}}]
)
CASES["positions/three-tuples"] = positions_case([{"position": {"x": (1.0, {"u": 1}, "extra")}}])
CASES["positions/empty sections"] = positions_case([{"position": {}, "velocity": {}}])
CASES["positions/empty elements"] = positions_case([{}, {}])
CASES["positions/nan and inf"] = positions_case(
    [{"p": {"x": (float("nan"), {})}}, {"p": {"x": (float("inf"), {})}}]
)
CASES["positions/ordered dicts"] = positions_case(
    [collections.OrderedDict(position=collections.OrderedDict(x=(1.0, {"units": "m"})))]
)
# inputs on which `curry(merge_with, list)` swallows the TypeError and returns a partial
CASES["positions/quirk: single scalar element"] = positions_case([5])
CASES["positions/quirk: scalar section"] = positions_case([{"position": 5}])
CASES["positions/quirk: None section"] = positions_case([{"position": None}])
CASES["positions/quirk: two scalar sections"] = positions_case(
    [{"position": 5, "velocity": 6}, {"position": 7}]
)
CASES["positions/quirk: single None element"] = positions_case([None])
# other malformed inputs
CASES["positions/two scalar elements"] = positions_case([5, 6])
CASES["positions/nested list element"] = positions_case([[5]])
CASES["positions/nested list of dicts"] = positions_case([[orbit(1), orbit(2)]])
CASES["positions/list section"] = positions_case([{"position": [5]}])
CASES["positions/string section"] = positions_case([{"position": "ab"}])
CASES["positions/scalar"] = positions_case(5)
CASES["positions/None"] = positions_case(None)
CASES["positions/string"] = positions_case("ab")
CASES["positions/dict instead of list"] = positions_case(orbit(1))
CASES["positions/single dict of scalars"] = positions_case({"a": 1})
CASES["positions/pairs instead of dicts"] = positions_case([[("position", 1)]])


def positions_identity():
    elements = [orbit(1), orbit(2)]
    first_metadata = elements[0]["position"]["x"][1]
    result = pp.transform_positions(elements)
    variables = [var for section in result.values() for var in section.values()]
    other = pp.transform_positions(elements)
    return canon(
        {
            "n variables": len(variables),
            "dims shared within a call": all(var[0] is variables[0][0] for var in variables),
            "dims fresh per call": other["position"]["x"][0] is not variables[0][0],
            "metadata is the first input metadata": result["position"]["x"][2] is first_metadata,
            "plain dicts": type(result) is dict and all(type(v) is dict for v in result.values()),
            "tuples": all(type(var) is tuple for var in variables),
            "input untouched": canon(elements),
        }
    )


CASES["positions/identity"] = positions_identity


# --- transform_platform_position (end to end) ----------------------------------------


def record(start, date=b"2011 07  16 ", overrides=None):
    overrides = {"datetime_of_first_point.date": date} | (overrides or {})
    data = synth(pp.platform_position_record, counter_from(start), overrides)
    return to_dict(pp.platform_position_record.parse(data))


def platform_case(mapping):
    return lambda: outcome(pp.transform_platform_position, mapping)


CASES["record/describe"] = lambda: describe(pp.platform_position_record)
CASES["record/sizeof"] = lambda: canon(pp.platform_position_record.sizeof())
for _start in [0, 1, 2, 7, 50, 333, 4000]:
    CASES[f"record/parsed from {_start}"] = lambda s=_start: canon(record(s))
    CASES[f"platform/parsed from {_start}"] = platform_case(record(_start))
CASES["platform/leap second flag 0"] = platform_case(
    record(1, overrides={"occurrence_flag_of_a_leap_second": b"0"})
)
CASES["platform/leap second flag blank"] = platform_case(
    record(1, overrides={"occurrence_flag_of_a_leap_second": b" "})
)
CASES["platform/invalid date"] = platform_case(record(1, date=b"            "))
CASES["platform/blank seconds"] = platform_case(
    record(1, overrides={"datetime_of_first_point.seconds_of_day": b" " * 22})
)
CASES["platform/empty"] = platform_case({})
CASES["platform/only ignored"] = platform_case(
    {"preamble": {"a": 1}, "number_of_data_points": 28, "greenwich_mean_hour_angle": (1.0, {})}
)
CASES["platform/minimal"] = platform_case(
    {
        "orbital_elements_designator": "decision",
        "orbital_elements": {"position": {"x": (1.0, {"units": "m"})}},
        "positions": [orbit(1), orbit(2)],
        "occurrence_flag_of_a_leap_second": 0,
        "time_interval_between_data_points": (60.0, {"units": "s"}),
    }
)
CASES["platform/designator without orbital elements"] = platform_case(
    {"orbital_elements_designator": "preliminary"}
)
CASES["platform/orbital elements without designator"] = platform_case(
    {"orbital_elements": {"position": {"x": (1.0, {"units": "m"})}}}
)
CASES["platform/spares and unknown keys"] = platform_case(
    {"spare1": "x", "blanks": "y", "blanks12": "z", "spare_me": 1, "unknown": (2.0, {"units": "m"})}
)
CASES["platform/empty positions"] = platform_case({"positions": []})
CASES["platform/scalar positions"] = platform_case({"positions": 3})
CASES["platform/quirky positions"] = platform_case({"positions": [5]})
CASES["platform/broken datetime"] = platform_case({"datetime_of_first_point": {"date": "x"}})
CASES["platform/not a mapping"] = platform_case([1])


# --------------------------------------------------------------------------
# expectations recorded from the UNCHANGED code (git HEAD 405b008), `--record`
# --------------------------------------------------------------------------
# fmt: off
EXPECTED = {'datetime/typical': "str('2011-07-16T00:50:24.375000') || args after: list[dict{str('date'): str('2011 07 "
                     "16'), str('day_of_year'): int(197), str('seconds_of_day'): float(3024.375)}] dict{}",
 'datetime/only needed keys': "str('2011-07-16T00:00:00') || args after: list[dict{str('date'): str('2011 07 "
                              "16'), str('seconds_of_day'): float(0.0)}] dict{}",
 'datetime/reversed keys': "str('2020-02-29T00:00:01.500000') || args after: "
                           "list[dict{str('seconds_of_day'): float(1.5), str('date'): str('2020 02 29')}] "
                           'dict{}',
 'datetime/extra whitespace': "str('2011-07-16T23:59:59.999999') || args after: list[dict{str('date'): "
                              "str('  2011   07\\t16\\n'), str('seconds_of_day'): float(86399.999999)}] "
                              'dict{}',
 'datetime/single digits': "str('2011-07-06T00:00:01') || args after: list[dict{str('date'): str('2011 7 "
                           "6'), str('seconds_of_day'): int(1)}] dict{}",
 'datetime/already dashed': "str('2011-07-16T00:00:01') || args after: list[dict{str('date'): "
                            "str('2011-07-16'), str('seconds_of_day'): int(1)}] dict{}",
 'datetime/two parts': 'raised builtins.ValueError("time data \'2011-0716\' does not match format '
                       '\'%Y-%m-%d\'") || args after: list[dict{str(\'date\'): str(\'2011 0716\'), '
                       "str('seconds_of_day'): int(1)}] dict{}",
 'datetime/four parts': "raised builtins.ValueError('unconverted data remains: -01') || args after: "
                        "list[dict{str('date'): str('2011 07 16 01'), str('seconds_of_day'): int(1)}] dict{}",
 'datetime/empty date': 'raised builtins.ValueError("time data \'\' does not match format \'%Y-%m-%d\'") || '
                        "args after: list[dict{str('date'): str(''), str('seconds_of_day'): int(1)}] dict{}",
 'datetime/invalid month': 'raised builtins.ValueError("time data \'2011-13-01\' does not match format '
                           '\'%Y-%m-%d\'") || args after: list[dict{str(\'date\'): str(\'2011 13 01\'), '
                           "str('seconds_of_day'): int(1)}] dict{}",
 'datetime/invalid day': "raised builtins.ValueError('day is out of range for month') || args after: "
                         "list[dict{str('date'): str('2011 02 30'), str('seconds_of_day'): int(1)}] dict{}",
 'datetime/year 1': "raised builtins.OverflowError('date value out of range') || args after: "
                    "list[dict{str('date'): str('0001 01 01'), str('seconds_of_day'): int(-1)}] dict{}",
 'datetime/year 9999': "raised builtins.OverflowError('date value out of range') || args after: "
                       "list[dict{str('date'): str('9999 12 31'), str('seconds_of_day'): int(86400)}] dict{}",
 'datetime/integer seconds': "str('2011-07-17T00:00:00') || args after: list[dict{str('date'): str('2011 07 "
                             "16'), str('seconds_of_day'): int(86400)}] dict{}",
 'datetime/bool seconds': "str('2011-07-16T00:00:01') || args after: list[dict{str('date'): str('2011 07 "
                          "16'), str('seconds_of_day'): bool(True)}] dict{}",
 'datetime/negative seconds': "str('2010-12-31T23:59:59.500000') || args after: list[dict{str('date'): "
                              "str('2011 01 01'), str('seconds_of_day'): float(-0.5)}] dict{}",
 'datetime/more than a day': "str('2012-01-03T00:00:00.250000') || args after: list[dict{str('date'): "
                             "str('2011 12 31'), str('seconds_of_day'): float(259200.25)}] dict{}",
 'datetime/microsecond rounding': "str('2011-07-16T00:00:00') || args after: list[dict{str('date'): "
                                  "str('2011 07 16'), str('seconds_of_day'): float(5e-07)}] dict{}",
 'datetime/microsecond rounding up': "str('2011-07-16T00:00:00.000002') || args after: "
                                     "list[dict{str('date'): str('2011 07 16'), str('seconds_of_day'): "
                                     'float(1.5e-06)}] dict{}',
 'datetime/sub-microsecond': "str('2011-07-16T00:00:00') || args after: list[dict{str('date'): str('2011 07 "
                             "16'), str('seconds_of_day'): float(1e-09)}] dict{}",
 'datetime/nan seconds': "raised builtins.ValueError('cannot convert float NaN to integer') || args after: "
                         "list[dict{str('date'): str('2011 07 16'), str('seconds_of_day'): float(nan)}] "
                         'dict{}',
 'datetime/inf seconds': "raised builtins.OverflowError('cannot convert float infinity to integer') || args "
                         "after: list[dict{str('date'): str('2011 07 16'), str('seconds_of_day'): "
                         'float(inf)}] dict{}',
 'datetime/huge seconds': "raised builtins.OverflowError('Python int too large to convert to C int') || args "
                          "after: list[dict{str('date'): str('2011 07 16'), str('seconds_of_day'): "
                          'float(1e+20)}] dict{}',
 'datetime/string seconds': "raised builtins.TypeError('unsupported type for timedelta seconds component: "
                            "str') || args after: list[dict{str('date'): str('2011 07 16'), "
                            "str('seconds_of_day'): str('12')}] dict{}",
 'datetime/None seconds': "raised builtins.TypeError('unsupported type for timedelta seconds component: "
                          "NoneType') || args after: list[dict{str('date'): str('2011 07 16'), "
                          "str('seconds_of_day'): NoneType(None)}] dict{}",
 'datetime/numpy seconds': "str('2011-07-16T00:00:12.500000') || args after: list[dict{str('date'): "
                           "str('2011 07 16'), str('seconds_of_day'): float64(np.float64(12.5))}] dict{}",
 'datetime/numpy int seconds': "raised builtins.TypeError('unsupported type for timedelta seconds component: "
                               "numpy.int64') || args after: list[dict{str('date'): str('2011 07 16'), "
                               "str('seconds_of_day'): int64(np.int64(12))}] dict{}",
 'datetime/decimal seconds': "raised builtins.TypeError('unsupported type for timedelta seconds component: "
                             "decimal.Decimal') || args after: list[dict{str('date'): str('2011 07 16'), "
                             "str('seconds_of_day'): <decimal.Decimal>}] dict{}",
 'datetime/fraction seconds': "raised builtins.TypeError('unsupported type for timedelta seconds component: "
                              "Fraction') || args after: list[dict{str('date'): str('2011 07 16'), "
                              "str('seconds_of_day'): <fractions.Fraction>}] dict{}",
 'datetime/missing date': 'raised builtins.KeyError("\'date\'") || args after: '
                          "list[dict{str('seconds_of_day'): float(1.0)}] dict{}",
 'datetime/missing seconds': 'raised builtins.KeyError("\'seconds_of_day\'") || args after: '
                             "list[dict{str('date'): str('2011 07 16')}] dict{}",
 'datetime/missing both': 'raised builtins.KeyError("\'date\'") || args after: list[dict{}] dict{}',
 'datetime/invalid date and missing seconds': 'raised builtins.ValueError("time data \'abc\' does not match '
                                              'format \'%Y-%m-%d\'") || args after: list[dict{str(\'date\'): '
                                              "str('abc')}] dict{}",
 'datetime/invalid date and invalid seconds': 'raised builtins.ValueError("time data \'abc\' does not match '
                                              'format \'%Y-%m-%d\'") || args after: list[dict{str(\'date\'): '
                                              "str('abc'), str('seconds_of_day'): str('x')}] dict{}",
 'datetime/bytes date': "raised builtins.TypeError('sequence item 0: expected str instance, bytes found') || "
                        "args after: list[dict{str('date'): bytes(b'2011 07 16'), str('seconds_of_day'): "
                        'int(1)}] dict{}',
 'datetime/None date': 'raised builtins.AttributeError("\'NoneType\' object has no attribute \'split\'") || '
                       "args after: list[dict{str('date'): NoneType(None), str('seconds_of_day'): int(1)}] "
                       'dict{}',
 'datetime/integer date': 'raised builtins.AttributeError("\'int\' object has no attribute \'split\'") || '
                          "args after: list[dict{str('date'): int(20110716), str('seconds_of_day'): int(1)}] "
                          'dict{}',
 'datetime/list date': 'raised builtins.AttributeError("\'list\' object has no attribute \'split\'") || args '
                       "after: list[dict{str('date'): list[str('2011'), str('07'), str('16')], "
                       "str('seconds_of_day'): int(1)}] dict{}",
 'datetime/tuple metadata seconds': "raised builtins.TypeError('unsupported type for timedelta seconds "
                                    "component: tuple') || args after: list[dict{str('date'): str('2011 07 "
                                    "16'), str('seconds_of_day'): tuple[float(1.0), dict{str('units'): "
                                    "str('s')}]}] dict{}",
 'datetime/not a mapping': "raised builtins.TypeError('list indices must be integers or slices, not str') || "
                           "args after: list[list[str('2011 07 16'), int(1)]] dict{}",
 'datetime/defaultdict': "str('2011-07-16T00:00:02') || args after: list[defaultdict{str('seconds_of_day'): "
                         "int(2), str('date'): str('2011 07 16')}] dict{}",
 'positions/empty': 'dict{} || args after: list[list[]] dict{}',
 'positions/empty tuple': 'dict{} || args after: list[tuple[]] dict{}',
 'positions/one': "dict{str('position'): dict{str('x'): tuple[list[str('positions')], list[float(10.0)], "
                  "dict{str('units'): str('m')}], str('y'): tuple[list[str('positions')], list[float(11.0)], "
                  "dict{str('units'): str('m')}], str('z'): tuple[list[str('positions')], list[float(12.0)], "
                  "dict{str('units'): str('m')}]}, str('velocity'): dict{str('x'): "
                  "tuple[list[str('positions')], list[float(110.0)], dict{str('units'): s ... [1053 chars, "
                  'sha256 7712e759c3b6220b234a2f064d528d0b713762240fd7a538982b2a9ada59f4f1]',
 'positions/two': "dict{str('position'): dict{str('x'): tuple[list[str('positions')], list[float(10.0), "
                  "float(20.0)], dict{str('units'): str('m')}], str('y'): tuple[list[str('positions')], "
                  "list[float(11.0), float(21.0)], dict{str('units'): str('m')}], str('z'): "
                  "tuple[list[str('positions')], list[float(12.0), float(22.0)], dict{str('units'): "
                  "str('m')}]}, str('velocity'): dict{str('x'): tuple[list[str('positions')], l ... [1555 "
                  'chars, sha256 a38c4508d9ac589dafd08c9f8cf00f13193d38e117fa5e84d4740a7816032ea7]',
 'positions/five as tuple': "dict{str('position'): dict{str('x'): tuple[list[str('positions')], "
                            'list[float(0.0), float(10.0), float(20.0), float(30.0), float(40.0)], '
                            "dict{str('units'): str('m')}], str('y'): tuple[list[str('positions')], "
                            'list[float(1.0), float(11.0), float(21.0), float(31.0), float(41.0)], '
                            "dict{str('units'): str('m')}], str('z'): tuple[list[str('positions')], "
                            'list[float(2.0), float(12.0), float(22.0), float(32 ... [3056 chars, sha256 '
                            '497a296841f62f163dc230dd26d6f76ae51f32fa2022ef66f7b1263c9ab14782]',
 'positions/generator': "dict{str('position'): dict{str('x'): tuple[list[str('positions')], "
                        "list[float(10.0), float(20.0)], dict{str('units'): str('m')}], str('y'): "
                        "tuple[list[str('positions')], list[float(11.0), float(21.0)], dict{str('units'): "
                        "str('m')}], str('z'): tuple[list[str('positions')], list[float(12.0), float(22.0)], "
                        "dict{str('units'): str('m')}]}, str('velocity'): dict{str('x'): "
                        "tuple[list[str('positions')], l ... [680 chars, sha256 "
                        '75fd7356f8888257156ee43721fd8ef9f18d9c049a0d2c9243b93decfab6f115]',
 'positions/section order follows first element': "dict{str('velocity'): dict{str('x'): "
                                                  "tuple[list[str('positions')], list[float(10.0), "
                                                  "float(120.0)], dict{str('units'): str('m')}], str('y'): "
                                                  "tuple[list[str('positions')], list[float(11.0), "
                                                  "float(121.0)], dict{str('units'): str('m')}], str('z'): "
                                                  "tuple[list[str('positions')], list[float(12.0), "
                                                  "float(122.0)], dict{str('units'): str('m')}]}, "
                                                  "str('position'): dict{str('x'): "
                                                  "tuple[list[str('positions')] ... [1555 chars, sha256 "
                                                  'e3d5588e96a8cce11bfc9a0cfb85e0002e2818ca61b3ca934080e09123bcc588]',
 'positions/component order follows first element': "dict{str('position'): dict{str('z'): "
                                                    "tuple[list[str('positions')], list[float(10.0), "
                                                    "float(22.0)], dict{str('units'): str('m')}], str('x'): "
                                                    "tuple[list[str('positions')], list[float(11.0), "
                                                    "float(20.0)], dict{str('units'): str('m')}], str('y'): "
                                                    "tuple[list[str('positions')], list[float(12.0), "
                                                    "float(21.0)], dict{str('units'): str('m')}]}, "
                                                    "str('velocity'): dict{str('z'): "
                                                    "tuple[list[str('positions')], l ... [1555 chars, sha256 "
                                                    'd54cebfc53521964693a3139f0835b44c78eea080b8af7965a79f4f9bad03489]',
 'positions/missing section in second': "dict{str('position'): dict{str('x'): tuple[list[str('positions')], "
                                        "list[float(10.0), float(20.0)], dict{str('units'): str('m')}], "
                                        "str('y'): tuple[list[str('positions')], list[float(11.0), "
                                        "float(21.0)], dict{str('units'): str('m')}], str('z'): "
                                        "tuple[list[str('positions')], list[float(12.0), float(22.0)], "
                                        "dict{str('units'): str('m')}]}, str('velocity'): dict{str('x'): "
                                        "tuple[list[str('positions')], l ... [1301 chars, sha256 "
                                        '73416e7e79fef17c657efc68d9971d6ac546f55fe16f5dbd8047ffe66ef1a725]',
 'positions/missing component in second': "dict{str('position'): dict{str('x'): "
                                          "tuple[list[str('positions')], list[float(10.0), float(20.0)], "
                                          "dict{str('units'): str('m')}], str('y'): "
                                          "tuple[list[str('positions')], list[float(11.0), float(21.0)], "
                                          "dict{str('units'): str('m')}], str('z'): "
                                          "tuple[list[str('positions')], list[float(12.0)], "
                                          "dict{str('units'): str('m')}]}, str('velocity'): dict{str('x'): "
                                          "tuple[list[str('positions')], list[float(110 ... [1405 chars, "
                                          'sha256 '
                                          '95eedb88b0e37afacd7f4e521e0f4732e47090b7a1182d98a9191895d0ab1541]',
 'positions/additional component in second': "dict{str('position'): dict{str('x'): "
                                             "tuple[list[str('positions')], list[float(10.0), float(20.0)], "
                                             "dict{str('units'): str('m')}], str('y'): "
                                             "tuple[list[str('positions')], list[float(21.0)], "
                                             "dict{str('units'): str('m')}], str('z'): "
                                             "tuple[list[str('positions')], list[float(22.0)], "
                                             "dict{str('units'): str('m')}]}, str('velocity'): "
                                             "dict{str('x'): tuple[list[str('positions')], "
                                             'list[float(110.0), float(12 ... [1255 chars, sha256 '
                                             'd1d7d72c0c24e2a54449de82c8a457ff65be4301acb032eb988e30d555205cfa]',
 'positions/other names': "dict{str('a'): dict{str('along'): tuple[list[str('positions')], list[float(0.0), "
                          "float(10.0), float(20.0)], dict{str('units'): str('m')}], str('across'): "
                          "tuple[list[str('positions')], list[float(1.0), float(11.0), float(21.0)], "
                          "dict{str('units'): str('m')}]}, str('b'): dict{str('along'): "
                          "tuple[list[str('positions')], list[float(100.0), float(110.0), float(120.0)], "
                          "dict{str('units'): str('m/s')}],  ... [1463 chars, sha256 "
                          'a8deacc26cde62f63005d6009ba8c699ce3f5280dac77f23ac740a7085307f05]',
 'positions/metadata differs (first wins)': "dict{str('position'): dict{str('x'): "
                                            "tuple[list[str('positions')], list[float(10.0), float(20.0)], "
                                            "dict{str('units'): str('m')}], str('y'): "
                                            "tuple[list[str('positions')], list[float(11.0), float(21.0)], "
                                            "dict{str('units'): str('m')}], str('z'): "
                                            "tuple[list[str('positions')], list[float(12.0), float(22.0)], "
                                            "dict{str('units'): str('m')}]}, str('velocity'): dict{str('x'): "
                                            "tuple[list[str('positions')], l ... [1561 chars, sha256 "
                                            '39f64daa9eda5e1b02b54416f5e7850afac4d1ef2e6336cebe4a8364b4c2261d]',
 'positions/no metadata': "dict{str('position'): dict{str('x'): tuple[list[str('positions')], "
                          "list[float(1.0), float(3.0)], dict{}], str('y'): tuple[list[str('positions')], "
                          'list[float(2.0), float(4.0)], dict{}]}} || args after: '
                          "list[list[dict{str('position'): dict{str('x'): float(1.0), str('y'): "
                          "float(2.0)}}, dict{str('position'): dict{str('x'): float(3.0), str('y'): "
                          'float(4.0)}}]] dict{}',
 'positions/mixed metadata': 'raised builtins.TypeError("\'float\' object is not iterable") || args after: '
                             "list[list[dict{str('position'): dict{str('x'): tuple[float(1.0), "
                             "dict{str('u'): int(1)}]}}, dict{str('position'): dict{str('x'): float(3.0)}}]] "
                             'dict{}',
 'positions/mixed metadata, bare first': "dict{str('position'): dict{str('x'): tuple[list[str('positions')], "
                                         "list[float(3.0), tuple[float(1.0), dict{str('u'): int(1)}]], "
                                         "dict{}]}} || args after: list[list[dict{str('position'): "
                                         "dict{str('x'): float(3.0)}}, dict{str('position'): dict{str('x'): "
                                         "tuple[float(1.0), dict{str('u'): int(1)}]}}]] dict{}",
 'positions/three-tuples': "raised builtins.ValueError('too many values to unpack (expected 2)') || args "
                           "after: list[list[dict{str('position'): dict{str('x'): tuple[float(1.0), "
                           "dict{str('u'): int(1)}, str('extra')]}}]] dict{}",
 'positions/empty sections': "dict{str('position'): dict{}, str('velocity'): dict{}} || args after: "
                             "list[list[dict{str('position'): dict{}, str('velocity'): dict{}}]] dict{}",
 'positions/empty elements': 'dict{} || args after: list[list[dict{}, dict{}]] dict{}',
 'positions/nan and inf': "dict{str('p'): dict{str('x'): tuple[list[str('positions')], list[float(nan), "
                          "float(inf)], dict{}]}} || args after: list[list[dict{str('p'): dict{str('x'): "
                          "tuple[float(nan), dict{}]}}, dict{str('p'): dict{str('x'): tuple[float(inf), "
                          'dict{}]}}]] dict{}',
 'positions/ordered dicts': "dict{str('position'): dict{str('x'): tuple[list[str('positions')], "
                            "list[float(1.0)], dict{str('units'): str('m')}]}} || args after: "
                            "list[list[OrderedDict{str('position'): OrderedDict{str('x'): tuple[float(1.0), "
                            "dict{str('units'): str('m')}]}}]] dict{}",
 'positions/quirk: single scalar element': 'raised builtins.AttributeError("\'curry\' object has no '
                                           'attribute \'keys\'") || args after: list[list[int(5)]] dict{}',
 'positions/quirk: scalar section': 'raised builtins.AttributeError("\'curry\' object has no attribute '
                                    '\'keys\'") || args after: list[list[dict{str(\'position\'): int(5)}]] '
                                    'dict{}',
 'positions/quirk: None section': 'raised builtins.AttributeError("\'curry\' object has no attribute '
                                  '\'keys\'") || args after: list[list[dict{str(\'position\'): '
                                  'NoneType(None)}]] dict{}',
 'positions/quirk: two scalar sections': 'raised builtins.AttributeError("\'int\' object has no attribute '
                                         '\'items\'") || args after: list[list[dict{str(\'position\'): '
                                         "int(5), str('velocity'): int(6)}, dict{str('position'): int(7)}]] "
                                         'dict{}',
 'positions/quirk: single None element': 'raised builtins.AttributeError("\'curry\' object has no attribute '
                                         '\'keys\'") || args after: list[list[NoneType(None)]] dict{}',
 'positions/two scalar elements': 'raised builtins.AttributeError("\'int\' object has no attribute '
                                  '\'items\'") || args after: list[list[int(5), int(6)]] dict{}',
 'positions/nested list element': 'raised builtins.AttributeError("\'int\' object has no attribute '
                                  '\'items\'") || args after: list[list[list[int(5)]]] dict{}',
 'positions/nested list of dicts': "dict{str('position'): dict{str('x'): tuple[list[str('positions')], "
                                   "list[float(10.0), float(20.0)], dict{str('units'): str('m')}], str('y'): "
                                   "tuple[list[str('positions')], list[float(11.0), float(21.0)], "
                                   "dict{str('units'): str('m')}], str('z'): tuple[list[str('positions')], "
                                   "list[float(12.0), float(22.0)], dict{str('units'): str('m')}]}, "
                                   "str('velocity'): dict{str('x'): tuple[list[str('positions')], l ... "
                                   '[1561 chars, sha256 '
                                   '0a15fba92ad3bec9061e10018f4b9a6afe6dd3c660aad62b79db6c78d4719dae]',
 'positions/list section': 'raised builtins.AttributeError("\'int\' object has no attribute \'items\'") || '
                           "args after: list[list[dict{str('position'): list[int(5)]}]] dict{}",
 'positions/string section': 'raised builtins.AttributeError("\'str\' object has no attribute \'items\'") || '
                             "args after: list[list[dict{str('position'): str('ab')}]] dict{}",
 'positions/scalar': "raised builtins.TypeError('toolz.dicttoolz.merge_with() argument after * must be an "
                     "iterable, not int') || args after: list[int(5)] dict{}",
 'positions/None': "raised builtins.TypeError('toolz.dicttoolz.merge_with() argument after * must be an "
                   "iterable, not NoneType') || args after: list[NoneType(None)] dict{}",
 'positions/string': 'raised builtins.AttributeError("\'str\' object has no attribute \'items\'") || args '
                     "after: list[str('ab')] dict{}",
 'positions/dict instead of list': 'raised builtins.AttributeError("\'str\' object has no attribute '
                                   '\'items\'") || args after: list[dict{str(\'position\'): dict{str(\'x\'): '
                                   "tuple[float(10.0), dict{str('units'): str('m')}], str('y'): "
                                   "tuple[float(11.0), dict{str('units'): str('m')}], str('z'): "
                                   "tuple[float(12.0), dict{str('units'): str('m')}]}, str('velocity'): "
                                   "dict{str('x'): tuple[float(110.0), dict{str('units'): str('m/s')}], "
                                   "str('y'): tuple ... [519 chars, sha256 "
                                   '1750fa956d7819f6dfd85f62cd2aacf607b2c06d44d1ec8ef07a0eff08087be4]',
 'positions/single dict of scalars': 'raised builtins.AttributeError("\'str\' object has no attribute '
                                     '\'items\'") || args after: list[dict{str(\'a\'): int(1)}] dict{}',
 'positions/pairs instead of dicts': 'raised builtins.AttributeError("\'tuple\' object has no attribute '
                                     '\'items\'") || args after: list[list[list[tuple[str(\'position\'), '
                                     'int(1)]]]] dict{}',
 'positions/identity': "dict{str('n variables'): int(6), str('dims shared within a call'): bool(True), "
                       "str('dims fresh per call'): bool(True), str('metadata is the first input metadata'): "
                       "bool(True), str('plain dicts'): bool(True), str('tuples'): bool(True), str('input "
                       'untouched\'): str("list[dict{str(\'position\'): dict{str(\'x\'): tuple[float(10.0), '
                       "dict{str('units'): str('m')}], str('y'): tuple[float(11.0), dict{str('units ... "
                       '[1113 chars, sha256 '
                       '724b6eeaef7152248ce58f96396e6a2ecc40231779d6f3a4f132fa49f97f1794]',
 'record/describe': "Struct('preamble'/Struct('record_sequence_number'/FormatField('>L'), "
                    "'first_record_subtype'/FormatField('>B'), 'record_type'/FormatField('>B'), "
                    "'second_record_subtype'/FormatField('>B'), 'third_record_subtype'/FormatField('>B'), "
                    "'record_length'/FormatField('>L')), "
                    "'orbital_elements_designator'/Enum(PaddedString(32), [(EnumIntegerString.new(0, "
                    "'preliminary'), '0'), (EnumIntegerString.new(1, 'decisi ... [2029 chars, sha256 "
                    '36ac33ae82e91f53f5ff0693659cc247f59dceffd854c775201f03acc3fa4729]',
 'record/sizeof': 'int(4680)',
 'record/parsed from 0': "dict{str('preamble'): dict{str('record_sequence_number'): int(0), "
                         "str('first_record_subtype'): int(1), str('record_type'): int(2), "
                         "str('second_record_subtype'): int(3), str('third_record_subtype'): int(4), "
                         "str('record_length'): int(5)}, str('orbital_elements_designator'): "
                         "str('preliminary'), str('orbital_elements'): dict{str('position'): dict{str('x'): "
                         "tuple[float(-10.875), dict{str('units'): str( ... [13988 chars, sha256 "
                         'ab937f91351c736b61fd1e30ccac79c4d56b29c76fdaab9aa337a01697ce98c7]',
 'platform/parsed from 0': "Group(path='/', url=None, attrs=dict{str('datetime_of_first_point'): "
                           "str('2011-07-15T23:59:37.125000'), str('reference_coordinate_system'): "
                           "str('s17'), str('leap_second'): bool(True)}, "
                           "data=dict{str('sampling_frequency'): Variable(dims=tuple[], data=float(24.375), "
                           "attrs=dict{str('units'): str('s')}), str('orbital_elements'): "
                           "Group(path='/orbital_elements', url=None, attrs=dict{str('type'): str('pr ... "
                           '[19557 chars, sha256 '
                           'd16e8e75026162ee148e43577732f92132ba8ccb8122b231431b43f69820f408]',
 'record/parsed from 1': "dict{str('preamble'): dict{str('record_sequence_number'): int(1), "
                         "str('first_record_subtype'): int(2), str('record_type'): int(3), "
                         "str('second_record_subtype'): int(4), str('third_record_subtype'): int(5), "
                         "str('record_length'): int(6)}, str('orbital_elements_designator'): "
                         "str('decision'), str('orbital_elements'): dict{str('position'): dict{str('x'): "
                         "tuple[float(12.375), dict{str('units'): str('m') ... [13987 chars, sha256 "
                         '26cdc53c88cc3a85336a229b8a76cb5e24201b4d88abe370db767f0753174f2b]',
 'platform/parsed from 1': "Group(path='/', url=None, attrs=dict{str('datetime_of_first_point'): "
                           "str('2011-07-16T00:00:24.375000'), str('reference_coordinate_system'): "
                           "str('s18'), str('leap_second'): bool(True)}, "
                           "data=dict{str('sampling_frequency'): Variable(dims=tuple[], data=float(-25.875), "
                           "attrs=dict{str('units'): str('s')}), str('orbital_elements'): "
                           "Group(path='/orbital_elements', url=None, attrs=dict{str('type'): str('d ... "
                           '[19555 chars, sha256 '
                           'de4b0003eb91c7d407703f90477838633b7a919765ca9d4f0380d5b62f9fed14]',
 'record/parsed from 2': "dict{str('preamble'): dict{str('record_sequence_number'): int(2), "
                         "str('first_record_subtype'): int(3), str('record_type'): int(4), "
                         "str('second_record_subtype'): int(5), str('third_record_subtype'): int(6), "
                         "str('record_length'): int(7)}, str('orbital_elements_designator'): "
                         "str('high_precision'), str('orbital_elements'): dict{str('position'): "
                         "dict{str('x'): tuple[float(-13.875), dict{str('units'): s ... [13989 chars, sha256 "
                         'e807a1fbb21266cb23bbc1711a0bd6a24b71f16ba2603b5d2651b5cf921c7b84]',
 'platform/parsed from 2': "Group(path='/', url=None, attrs=dict{str('datetime_of_first_point'): "
                           "str('2011-07-15T23:59:34.125000'), str('reference_coordinate_system'): "
                           "str('s19'), str('leap_second'): bool(True)}, "
                           "data=dict{str('sampling_frequency'): Variable(dims=tuple[], data=float(27.375), "
                           "attrs=dict{str('units'): str('s')}), str('orbital_elements'): "
                           "Group(path='/orbital_elements', url=None, attrs=dict{str('type'): str('hi ... "
                           '[19559 chars, sha256 '
                           '602e8fd73b0e47e9e18cebd3ec0f54c5b1178cd2e078fa4815076512b5d4bbd2]',
 'record/parsed from 7': "dict{str('preamble'): dict{str('record_sequence_number'): int(7), "
                         "str('first_record_subtype'): int(8), str('record_type'): int(9), "
                         "str('second_record_subtype'): int(10), str('third_record_subtype'): int(11), "
                         "str('record_length'): int(12)}, str('orbital_elements_designator'): "
                         "str('decision'), str('orbital_elements'): dict{str('position'): dict{str('x'): "
                         "tuple[float(21.375), dict{str('units'): str(' ... [13995 chars, sha256 "
                         '6875cf08106af7451bab8a01fe3952ac360f631473340100f3e16e184d719218]',
 'platform/parsed from 7': "Group(path='/', url=None, attrs=dict{str('datetime_of_first_point'): "
                           "str('2011-07-16T00:00:33.375000'), str('reference_coordinate_system'): "
                           "str('s24'), str('leap_second'): bool(True)}, "
                           "data=dict{str('sampling_frequency'): Variable(dims=tuple[], data=float(-34.875), "
                           "attrs=dict{str('units'): str('s')}), str('orbital_elements'): "
                           "Group(path='/orbital_elements', url=None, attrs=dict{str('type'): str('d ... "
                           '[19572 chars, sha256 '
                           'b89b8b5e2a5656b4b9e09305f905e2fa1fcc6250c6917d0253a9aed76fb3b870]',
 'record/parsed from 50': "dict{str('preamble'): dict{str('record_sequence_number'): int(50), "
                          "str('first_record_subtype'): int(51), str('record_type'): int(52), "
                          "str('second_record_subtype'): int(53), str('third_record_subtype'): int(54), "
                          "str('record_length'): int(55)}, str('orbital_elements_designator'): "
                          "str('high_precision'), str('orbital_elements'): dict{str('position'): "
                          "dict{str('x'): tuple[float(-85.875), dict{str('unit ... [14045 chars, sha256 "
                          'dc1e2f6e6fd77c2f9e02bb7fe5861846b1f70ef23b5c7d1c562f75e40ef86543]',
 'platform/parsed from 50': "Group(path='/', url=None, attrs=dict{str('datetime_of_first_point'): "
                            "str('2011-07-15T23:58:22.125000'), str('reference_coordinate_system'): "
                            "str('s67'), str('leap_second'): bool(True)}, "
                            "data=dict{str('sampling_frequency'): Variable(dims=tuple[], data=float(99.375), "
                            "attrs=dict{str('units'): str('s')}), str('orbital_elements'): "
                            "Group(path='/orbital_elements', url=None, attrs=dict{str('type'): str('hi ... "
                            '[19664 chars, sha256 '
                            'dd1f5aa299da6406b6f0bb0b84a4f07a9007f7d07bca8c2822b9e5badb8780d1]',
 'record/parsed from 333': "dict{str('preamble'): dict{str('record_sequence_number'): int(133), "
                           "str('first_record_subtype'): int(134), str('record_type'): int(135), "
                           "str('second_record_subtype'): int(136), str('third_record_subtype'): int(137), "
                           "str('record_length'): int(138)}, str('orbital_elements_designator'): "
                           "str('preliminary'), str('orbital_elements'): dict{str('position'): "
                           "dict{str('x'): tuple[float(510.375), dict{str('u ... [14061 chars, sha256 "
                           'f57cf56c57552b7a6de4fbf1208c129659022c238c13b333ab8a66bb4bf08281]',
 'platform/parsed from 333': "Group(path='/', url=None, attrs=dict{str('datetime_of_first_point'): "
                             "str('2011-07-16T00:08:42.375000'), str('reference_coordinate_system'): "
                             "str('s350'), str('leap_second'): bool(True)}, "
                             "data=dict{str('sampling_frequency'): Variable(dims=tuple[], "
                             "data=float(-523.875), attrs=dict{str('units'): str('s')}), "
                             "str('orbital_elements'): Group(path='/orbital_elements', url=None, "
                             "attrs=dict{str('type'): str( ... [19686 chars, sha256 "
                             '86c1468a07f9edabaf9335c56ab4903828eba4a0af29e7e9ba7aa4b0a12205f0]',
 'record/parsed from 4000': "dict{str('preamble'): dict{str('record_sequence_number'): int(0), "
                            "str('first_record_subtype'): int(1), str('record_type'): int(2), "
                            "str('second_record_subtype'): int(3), str('third_record_subtype'): int(4), "
                            "str('record_length'): int(5)}, str('orbital_elements_designator'): "
                            "str('decision'), str('orbital_elements'): dict{str('position'): dict{str('x'): "
                            "tuple[float(-6010.875), dict{str('units'): str(' ... [14212 chars, sha256 "
                            '4b5bbdd32c1cebb8675e95bec1f4b03d5d50a1c39f2c813a121b5206d07d2ae9]',
 'platform/parsed from 4000': "Group(path='/', url=None, attrs=dict{str('datetime_of_first_point'): "
                              "str('2011-07-15T22:19:37.125000'), str('reference_coordinate_system'): "
                              "str('s4017'), str('leap_second'): bool(True)}, "
                              "data=dict{str('sampling_frequency'): Variable(dims=tuple[], data=float(nan), "
                              "attrs=dict{str('units'): str('s')}), str('orbital_elements'): "
                              "Group(path='/orbital_elements', url=None, attrs=dict{str('type'): str('dec "
                              '... [19997 chars, sha256 '
                              'e05567ae5fb125e99393f5bc1233b325dcd36eea54b145629aee27feb416de8e]',
 'platform/leap second flag 0': "Group(path='/', url=None, attrs=dict{str('datetime_of_first_point'): "
                                "str('2011-07-16T00:00:24.375000'), str('reference_coordinate_system'): "
                                "str('s18'), str('leap_second'): bool(False)}, "
                                "data=dict{str('sampling_frequency'): Variable(dims=tuple[], "
                                "data=float(-25.875), attrs=dict{str('units'): str('s')}), "
                                "str('orbital_elements'): Group(path='/orbital_elements', url=None, "
                                "attrs=dict{str('type'): str(' ... [19556 chars, sha256 "
                                '5fabd1f07a98d2b10ec486fc1bbf7f886d503959ce42e2da0afe8edf6fc5586a]',
 'platform/leap second flag blank': "Group(path='/', url=None, attrs=dict{str('datetime_of_first_point'): "
                                    "str('2011-07-16T00:00:24.375000'), str('reference_coordinate_system'): "
                                    "str('s18'), str('leap_second'): bool(True)}, "
                                    "data=dict{str('sampling_frequency'): Variable(dims=tuple[], "
                                    "data=float(-25.875), attrs=dict{str('units'): str('s')}), "
                                    "str('orbital_elements'): Group(path='/orbital_elements', url=None, "
                                    "attrs=dict{str('type'): str('d ... [19556 chars, sha256 "
                                    '4e364db91311ae74f156cf94b102edc164cb0b01b0dd3ba53702536849c4acc9]',
 'platform/invalid date': 'raised builtins.ValueError("time data \'\' does not match format \'%Y-%m-%d\'") '
                          "|| args after: list[dict{str('preamble'): dict{str('record_sequence_number'): "
                          "int(1), str('first_record_subtype'): int(2), str('record_type'): int(3), "
                          "str('second_record_subtype'): int(4), str('third_record_subtype'): int(5), "
                          "str('record_length'): int(6)}, str('orbital_elements_designator'): "
                          "str('decision'), str('orbital_e ... [14080 chars, sha256 "
                          'e263895610bcb661259fa7881d1cf66b6c227f3dc0608e8cf1e97ed400bf89b0]',
 'platform/blank seconds': "raised builtins.ValueError('cannot convert float NaN to integer') || args after: "
                           "list[dict{str('preamble'): dict{str('record_sequence_number'): int(1), "
                           "str('first_record_subtype'): int(2), str('record_type'): int(3), "
                           "str('second_record_subtype'): int(4), str('third_record_subtype'): int(5), "
                           "str('record_length'): int(6)}, str('orbital_elements_designator'): "
                           "str('decision'), str('orbital_elements'): ... [14075 chars, sha256 "
                           '3c11aabf1b14fd52810e5c150d99c5a5741f282289d1bc7f13c79ce3704c022c]',
 'platform/empty': "Group(path='/', url=None, attrs=dict{}, data=dict{}) || args after: list[dict{}] dict{}",
 'platform/only ignored': "Group(path='/', url=None, attrs=dict{}, data=dict{}) || args after: "
                          "list[dict{str('preamble'): dict{str('a'): int(1)}, str('number_of_data_points'): "
                          "int(28), str('greenwich_mean_hour_angle'): tuple[float(1.0), dict{}]}] dict{}",
 'platform/minimal': "Group(path='/', url=None, attrs=dict{str('leap_second'): bool(False)}, "
                     "data=dict{str('sampling_frequency'): Variable(dims=tuple[], data=float(60.0), "
                     "attrs=dict{str('units'): str('s')}), str('orbital_elements'): "
                     "Group(path='/orbital_elements', url=None, attrs=dict{str('type'): str('decision')}, "
                     "data=dict{str('position'): Group(path='/orbital_elements/position', url=None, "
                     'attrs=dict{}, data=dict{str ... [2691 chars, sha256 '
                     'c573b7442f98c24e7e3ae4f00c9e1f3685d19e8356627bf922efa88eae2a248c]',
 'platform/designator without orbital elements': "Group(path='/', url=None, attrs=dict{}, "
                                                 "data=dict{str('orbital_elements'): "
                                                 "Group(path='/orbital_elements', url=None, "
                                                 "attrs=dict{str('type'): str('preliminary')}, "
                                                 'data=dict{})}) || args after: '
                                                 "list[dict{str('orbital_elements_designator'): "
                                                 "str('preliminary')}] dict{}",
 'platform/orbital elements without designator': "Group(path='/', url=None, attrs=dict{}, "
                                                 "data=dict{str('orbital_elements'): "
                                                 "Group(path='/orbital_elements', url=None, attrs=dict{}, "
                                                 "data=dict{str('position'): "
                                                 "Group(path='/orbital_elements/position', url=None, "
                                                 "attrs=dict{}, data=dict{str('x'): Variable(dims=tuple[], "
                                                 "data=float(1.0), attrs=dict{str('units'): str('m')})})})}) "
                                                 "|| args after: list[dict{str('orbital_elements'): "
                                                 "dict{str('position'): dic ... [470 chars, sha256 "
                                                 'fdb5b82e31badd253246761ec24230e161648f56086c071b1e5001d8fbfbc41a]',
 'platform/spares and unknown keys': "Group(path='/', url=None, attrs=dict{str('spare_me'): int(1)}, "
                                     "data=dict{str('unknown'): Variable(dims=tuple[], data=float(2.0), "
                                     "attrs=dict{str('units'): str('m')})}) || args after: "
                                     "list[dict{str('spare1'): str('x'), str('blanks'): str('y'), "
                                     "str('blanks12'): str('z'), str('spare_me'): int(1), str('unknown'): "
                                     "tuple[float(2.0), dict{str('units'): str('m')}]}] dict{}",
 'platform/empty positions': "Group(path='/', url=None, attrs=dict{}, data=dict{str('positions'): "
                             "Group(path='/positions', url=None, attrs=dict{}, data=dict{})}) || args after: "
                             "list[dict{str('positions'): list[]}] dict{}",
 'platform/scalar positions': "raised builtins.TypeError('toolz.dicttoolz.merge_with() argument after * must "
                              "be an iterable, not int') || args after: list[dict{str('positions'): int(3)}] "
                              'dict{}',
 'platform/quirky positions': 'raised builtins.AttributeError("\'curry\' object has no attribute \'keys\'") '
                              "|| args after: list[dict{str('positions'): list[int(5)]}] dict{}",
 'platform/broken datetime': 'raised builtins.ValueError("time data \'x\' does not match format '
                             '\'%Y-%m-%d\'") || args after: list[dict{str(\'datetime_of_first_point\'): '
                             "dict{str('date'): str('x')}}] dict{}",
 'platform/not a mapping': 'raised builtins.AttributeError("\'list\' object has no attribute \'items\'") || '
                           'args after: list[list[int(1)]] dict{}'}
# fmt: on


def test_equivalence():
    failures = report(CASES, EXPECTED)
    assert not failures, "\n".join(failures)


if __name__ == "__main__":
    import ceos_alos2

    print("ceos_alos2 from", ceos_alos2.__file__)
    failures = report(CASES, EXPECTED)
    if "--record" not in sys.argv:
        for failure in failures:
            print("MISMATCH", failure)
        print(f"{len(CASES) - len(failures)} of {len(CASES)} cases identical to the recording")
        sys.exit(1 if failures else 0)
