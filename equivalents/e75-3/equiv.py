"""Equivalence checks for refactoring 3.

Touched: ceos_alos2/sar_leader/map_projection.py (filter_map_projection,
transform_general_info; new private helper _projection_section and two private
module level constants).

Run as a script (`python equiv.py`) or through pytest.  `python equiv.py --record`
prints EXPECTED as computed by the code under test (the values in this file were
recorded from the unchanged code at HEAD).
"""
import collections
import copy
import sys

from ceos_alos2.sar_leader import io, map_projection

# ---- synthetic SAR leader builder (copied verbatim into each equiv.py that needs it) ----
import struct as _struct

from construct import Struct as _Struct


def _unwrap(con):
    while not isinstance(con, _Struct):
        con = con.subcon
    return con


def _locate(con, path):
    con = _unwrap(con)
    off = 0
    head, *rest = path
    for sc in con.subcons:
        if sc.name == head:
            if rest:
                inner, size = _locate(sc, rest)
                return off + inner, size
            return off, sc.sizeof()
        off += sc.sizeof()
    raise KeyError(head)


def _preamble(length, seq=1):
    return _struct.pack(">IBBBBI", seq, 18, 10, 18, 20, length)


def _fixed(con, fields, seq=1):
    size = con.sizeof()
    buf = bytearray(_preamble(size, seq) + b" " * (size - 12))
    for path, text in fields.items():
        off, width = _locate(con, path.split("/"))
        raw = text.encode("ascii")
        assert len(raw) <= width, (path, width)
        buf[off : off + width] = raw.ljust(width)
    return bytes(buf)


def build_leader(
    n_map=1,
    designator="UTM-PROJECTION",
    n_points=2,
    n_channels=2,
    date="2020 03 04",
    scene_center_time="20200102030405678900",
    attitude_values=True,
    seconds_of_day="3661.5",
):
    from ceos_alos2.sar_leader.dataset_summary import dataset_summary_record
    from ceos_alos2.sar_leader.facility_related_data import facility_related_data_5_record
    from ceos_alos2.sar_leader.file_descriptor import file_descriptor_record
    from ceos_alos2.sar_leader.map_projection import map_projection_record
    from ceos_alos2.sar_leader.platform_position import platform_position_record
    from ceos_alos2.sar_leader.radiometric_data import radiometric_data_record

    fd = _fixed(file_descriptor_record, {"map_projection/number_of_records": str(n_map)})
    ds = _fixed(
        dataset_summary_record,
        {
            "scene_center_time": scene_center_time,
            "line_spacing": "2.5",
            "sensor_platform_mission_identifier": "ALOS2",
            "base_band_conversion_flag": "YES",
            "range_compression_flag": "NO",
            "echo_tracker_status": "ON",
            "weighting_function_in_azimuth": "1",
            "weighting_function_in_range": "1",
            "clutter_lock_applied_flag": "OFF",
            "auto_focusing_applied_flag": "YES",
            "motion_compensation_indicator": "1",
        },
    )
    mp = b"".join(
        _fixed(
            map_projection_record,
            {
                "map_projection_designator": designator,
                "map_projection_general_information/number_of_lines": str(100 + i),
                "map_projection_general_information/number_of_pixels_per_line": "250",
                "utm_projection/zone_number": "31",
                "ups_projection/scale_factor": "0.994",
                "national_system_projection/projection_descriptor": "LCC",
                "corner_points/projected/top_left_corner/northing": "1.5",
                "corner_points/geographic/bottom_left_corner/longitude": "-3.25",
                "conversion_coefficients/map_projection_to_pixels/A11": "2.25",
                "conversion_coefficients/pixels_to_map_projection/B24": "-1e-3",
            },
        )
        for i in range(n_map)
    )
    pp = _fixed(
        platform_position_record,
        {
            "orbital_elements_designator": "1",
            "datetime_of_first_point/date": date,
            "datetime_of_first_point/day_of_year": "64",
            "datetime_of_first_point/seconds_of_day": seconds_of_day,
            "time_interval_between_data_points": "60.0",
            "occurrence_flag_of_a_leap_second": "0",
        },
    )
    points = b""
    for i in range(n_points):
        p = bytearray(b" " * 120)
        if attitude_values:
            p[0:4] = str(10 + i).rjust(4).encode()
            p[4:12] = str(1000 * (i + 1)).rjust(8).encode()
            p[12:16] = b"   1"
            p[16:20] = b"   0"
            p[24:38] = f"{0.5 * i:14.6f}".encode()
            p[66:70] = b"   0"
            p[78:92] = f"{-0.25 * i:14.6f}".encode()
        points += bytes(p)
    att_len = 12 + 4 + len(points) + 7
    att = _preamble(att_len) + str(n_points).rjust(4).encode() + points + b" " * 7
    rd = _fixed(
        radiometric_data_record, {"calibration_factor": "-83.0"}
    )
    dqs = bytearray(_preamble(1620) + b" " * (1620 - 12))
    dqs[26:30] = str(n_channels).rjust(4).encode()
    dqs[222 : 222 + 16] = b"1.25".ljust(16)
    facs = b""
    for i in range(4):
        length = 66 + 10 * (i + 1)
        body = bytearray(b" " * (length - 12))
        body[0:4] = str(i + 1).rjust(4).encode()
        body[54:] = (b"raw%d" % i).ljust(length - 66)
        facs += _preamble(length, seq=i + 1) + bytes(body)
    f5 = _fixed(
        facility_related_data_5_record,
        {"prf_switching_flag": "1", "calibration_mode_data_location_flag": "2", "record_sequence_number": "5"},
    )
    return fd + ds + mp + pp + att + rd + bytes(dqs) + facs + f5


def plain(obj):
    """canonical, comparable representation of Group / Variable / containers"""
    import numpy as np

    from ceos_alos2.hierarchy import Group, Variable

    if isinstance(obj, Group):
        return (
            "Group",
            obj.path,
            obj.url,
            [(k, plain(v)) for k, v in obj.data.items()],
            plain(obj.attrs),
        )
    if isinstance(obj, Variable):
        return ("Variable", plain(obj.dims), plain(obj.data), plain(obj.attrs))
    if isinstance(obj, np.ndarray):
        return ("ndarray", str(obj.dtype), obj.shape, repr(obj.tolist()))
    if isinstance(obj, dict):
        return ("dict", [(k, plain(v)) for k, v in obj.items()])
    if isinstance(obj, (list, tuple)):
        return (type(obj).__name__, [plain(v) for v in obj])
    return (type(obj).__name__, repr(obj))


def digest(obj):
    import hashlib

    return hashlib.sha256(repr(plain(obj)).encode()).hexdigest()
# ---- end of builder ----


EXPECTED = {'filter/no-designator': ('returned',
                          ('dict',
                           [('a', ('int', '1')),
                            ('utm_projection', ('dict', [])),
                            ('ups_projection', ('dict', []))])),
 'filter/designator-none': ('returned',
                            ('dict',
                             [('first', ('int', '0')),
                              ('map_projection_designator', ('NoneType', 'None')),
                              ('utm_projection', ('dict', [('type', ('str', "'utm'"))])),
                              ('middle', ('int', '1')),
                              ('ups_projection', ('dict', [('type', ('str', "'ups'"))])),
                              ('national_system_projection',
                               ('dict', [('type', ('str', "'national'"))])),
                              ('last', ('int', '2'))])),
 'filter/empty-mapping': ('returned', ('dict', [])),
 'filter/only-designator-utm': ('returned', ('dict', [])),
 'filter/only-designator-unknown': ('returned', ('dict', [])),
 'filter/utm-missing-section': ('returned', ('dict', [('other', ('int', '2'))])),
 'filter/existing-projection-before': ('returned', ('dict', [('projection', ('str', "'new'"))])),
 'filter/existing-projection-after': ('returned', ('dict', [('projection', ('str', "'old'"))])),
 'filter/none-key-unknown-designator': ('returned',
                                        ('dict',
                                         [('projection', ('str', "'nothing'")),
                                          ('a', ('int', '1'))])),
 'filter/none-key-known-designator': ('returned',
                                      ('dict',
                                       [(None, ('str', "'nothing'")), ('a', ('int', '1'))])),
 'filter/mapping-none': ('raised', 'AttributeError', "'NoneType' object has no attribute 'get'"),
 'filter/mapping-list': ('raised', 'AttributeError', "'list' object has no attribute 'get'"),
 'filter/mapping-only-get': ('raised',
                             'AttributeError',
                             "'OnlyGet' object has no attribute 'items'"),
 'filter/sections-not-dicts': ('returned', ('dict', [('projection', ('str', "''"))])),
 "filter/designator-00-'UTM-PROJECTION'": ('returned',
                                           ('dict',
                                            [('first', ('int', '0')),
                                             ('projection', ('dict', [('type', ('str', "'utm'"))])),
                                             ('middle', ('int', '1')),
                                             ('last', ('int', '2'))])),
 "filter/designator-01-'utm-projection'": ('returned',
                                           ('dict',
                                            [('first', ('int', '0')),
                                             ('projection', ('dict', [('type', ('str', "'utm'"))])),
                                             ('middle', ('int', '1')),
                                             ('last', ('int', '2'))])),
 "filter/designator-02-'Utm-x'": ('returned',
                                  ('dict',
                                   [('first', ('int', '0')),
                                    ('projection', ('dict', [('type', ('str', "'utm'"))])),
                                    ('middle', ('int', '1')),
                                    ('last', ('int', '2'))])),
 "filter/designator-03-'UTM-'": ('returned',
                                 ('dict',
                                  [('first', ('int', '0')),
                                   ('projection', ('dict', [('type', ('str', "'utm'"))])),
                                   ('middle', ('int', '1')),
                                   ('last', ('int', '2'))])),
 "filter/designator-04-'utm-a-b'": ('returned',
                                    ('dict',
                                     [('first', ('int', '0')),
                                      ('projection', ('dict', [('type', ('str', "'utm'"))])),
                                      ('middle', ('int', '1')),
                                      ('last', ('int', '2'))])),
 "filter/designator-05-'UPS-PROJECTION'": ('returned',
                                           ('dict',
                                            [('first', ('int', '0')),
                                             ('middle', ('int', '1')),
                                             ('projection', ('dict', [('type', ('str', "'ups'"))])),
                                             ('last', ('int', '2'))])),
 "filter/designator-06-'ups-'": ('returned',
                                 ('dict',
                                  [('first', ('int', '0')),
                                   ('middle', ('int', '1')),
                                   ('projection', ('dict', [('type', ('str', "'ups'"))])),
                                   ('last', ('int', '2'))])),
 "filter/designator-07-'LCC-PROJECTION'": ('returned',
                                           ('dict',
                                            [('first', ('int', '0')),
                                             ('middle', ('int', '1')),
                                             ('projection',
                                              ('dict', [('type', ('str', "'national'"))])),
                                             ('last', ('int', '2'))])),
 "filter/designator-08-'lcc-conformal-conic'": ('returned',
                                                ('dict',
                                                 [('first', ('int', '0')),
                                                  ('middle', ('int', '1')),
                                                  ('projection',
                                                   ('dict', [('type', ('str', "'national'"))])),
                                                  ('last', ('int', '2'))])),
 "filter/designator-09-'MER-PROJECTION'": ('returned',
                                           ('dict',
                                            [('first', ('int', '0')),
                                             ('middle', ('int', '1')),
                                             ('projection',
                                              ('dict', [('type', ('str', "'national'"))])),
                                             ('last', ('int', '2'))])),
 "filter/designator-10-'mer-cator'": ('returned',
                                      ('dict',
                                       [('first', ('int', '0')),
                                        ('middle', ('int', '1')),
                                        ('projection', ('dict', [('type', ('str', "'national'"))])),
                                        ('last', ('int', '2'))])),
 "filter/designator-11-' utm-x'": ('returned',
                                   ('dict',
                                    [('first', ('int', '0')),
                                     ('middle', ('int', '1')),
                                     ('last', ('int', '2'))])),
 "filter/designator-12-'utm -x'": ('returned',
                                   ('dict',
                                    [('first', ('int', '0')),
                                     ('middle', ('int', '1')),
                                     ('last', ('int', '2'))])),
 "filter/designator-13-'utmx-y'": ('returned',
                                   ('dict',
                                    [('first', ('int', '0')),
                                     ('middle', ('int', '1')),
                                     ('last', ('int', '2'))])),
 "filter/designator-14-'foo-bar'": ('returned',
                                    ('dict',
                                     [('first', ('int', '0')),
                                      ('middle', ('int', '1')),
                                      ('last', ('int', '2'))])),
 "filter/designator-15-'-'": ('returned',
                              ('dict',
                               [('first', ('int', '0')),
                                ('middle', ('int', '1')),
                                ('last', ('int', '2'))])),
 "filter/designator-16-'-utm'": ('returned',
                                 ('dict',
                                  [('first', ('int', '0')),
                                   ('middle', ('int', '1')),
                                   ('last', ('int', '2'))])),
 "filter/designator-17-'--'": ('returned',
                               ('dict',
                                [('first', ('int', '0')),
                                 ('middle', ('int', '1')),
                                 ('last', ('int', '2'))])),
 "filter/designator-18-'utm_projection-x'": ('returned',
                                             ('dict',
                                              [('first', ('int', '0')),
                                               ('middle', ('int', '1')),
                                               ('last', ('int', '2'))])),
 "filter/designator-19-'projection-x'": ('returned',
                                         ('dict',
                                          [('first', ('int', '0')),
                                           ('middle', ('int', '1')),
                                           ('last', ('int', '2'))])),
 "filter/designator-20-''": ('raised',
                             'ValueError',
                             'not enough values to unpack (expected 2, got 1)'),
 "filter/designator-21-'nodash'": ('raised',
                                   'ValueError',
                                   'not enough values to unpack (expected 2, got 1)'),
 "filter/designator-22-'UTM'": ('raised',
                                'ValueError',
                                'not enough values to unpack (expected 2, got 1)'),
 "filter/designator-23-'utm_x'": ('raised',
                                  'ValueError',
                                  'not enough values to unpack (expected 2, got 1)'),
 "filter/designator-24-' '": ('raised',
                              'ValueError',
                              'not enough values to unpack (expected 2, got 1)'),
 'filter/designator-25-5': ('raised', 'AttributeError', "'int' object has no attribute 'lower'"),
 'filter/designator-26-1.5': ('raised',
                              'AttributeError',
                              "'float' object has no attribute 'lower'"),
 "filter/designator-27-b'UTM-X'": ('raised',
                                   'TypeError',
                                   "a bytes-like object is required, not 'str'"),
 "filter/designator-28-['utm-x']": ('raised',
                                    'AttributeError',
                                    "'list' object has no attribute 'lower'"),
 "filter/designator-29-('utm', 'x')": ('raised',
                                       'AttributeError',
                                       "'tuple' object has no attribute 'lower'"),
 "filter/designator-30-{'utm': 'x'}": ('raised',
                                       'AttributeError',
                                       "'dict' object has no attribute 'lower'"),
 'filter/designator-31-True': ('raised',
                               'AttributeError',
                               "'bool' object has no attribute 'lower'"),
 "filter/designator-32-'UPS-like'": ('returned',
                                     ('dict',
                                      [('first', ('int', '0')),
                                       ('middle', ('int', '1')),
                                       ('projection', ('dict', [('type', ('str', "'ups'"))])),
                                       ('last', ('int', '2'))])),
 "filter/designator-33-'nodash'": ('raised',
                                   'ValueError',
                                   'not enough values to unpack (expected 2, got 1)'),
 'filter/sequence': [('dict',
                      [('first', ('int', '0')),
                       ('middle', ('int', '1')),
                       ('projection', ('dict', [('type', ('str', "'ups'"))])),
                       ('last', ('int', '2'))]),
                     ('dict',
                      [('first', ('int', '0')), ('middle', ('int', '1')), ('last', ('int', '2'))]),
                     ('dict',
                      [('first', ('int', '0')),
                       ('projection', ('dict', [('type', ('str', "'utm'"))])),
                       ('middle', ('int', '1')),
                       ('last', ('int', '2'))]),
                     ('dict',
                      [('first', ('int', '0')),
                       ('middle', ('int', '1')),
                       ('projection', ('dict', [('type', ('str', "'national'"))])),
                       ('last', ('int', '2'))]),
                     ('dict',
                      [('first', ('int', '0')),
                       ('projection', ('dict', [('type', ('str', "'utm'"))])),
                       ('middle', ('int', '1')),
                       ('last', ('int', '2'))]),
                     ('dict',
                      [('first', ('int', '0')),
                       ('middle', ('int', '1')),
                       ('projection', ('dict', [('type', ('str', "'national'"))])),
                       ('last', ('int', '2'))]),
                     ('dict',
                      [('first', ('int', '0')), ('middle', ('int', '1')), ('last', ('int', '2'))]),
                     ('dict',
                      [('first', ('int', '0')),
                       ('middle', ('int', '1')),
                       ('projection', ('dict', [('type', ('str', "'ups'"))])),
                       ('last', ('int', '2'))])],
 'general_info/both': ('returned',
                       ('dict', [('n_columns', ('int', '10')), ('n_rows', ('int', '20'))])),
 'general_info/reordered-with-extra': ('returned',
                                       ('dict',
                                        [('a', ('int', '1')),
                                         ('n_rows', ('int', '20')),
                                         ('b',
                                          ('tuple',
                                           [('float', '1.5'),
                                            ('dict', [('units', ('str', "'m'"))])])),
                                         ('n_columns', ('int', '10'))])),
 'general_info/neither': ('returned', ('dict', [('map_projection_type', ('str', "'x'"))])),
 'general_info/empty': ('returned', ('dict', [])),
 'general_info/collision-after': ('returned', ('dict', [('n_rows', ('int', '2'))])),
 'general_info/collision-before': ('returned', ('dict', [('n_columns', ('int', '1'))])),
 'general_info/none': ('raised', 'AttributeError', "'NoneType' object has no attribute 'keys'"),
 'general_info/list': ('raised', 'AttributeError', "'list' object has no attribute 'keys'"),
 'general_info/int': ('raised', 'AttributeError', "'int' object has no attribute 'keys'"),
 'general_info/tuple-pair': ('raised', 'AttributeError', "'tuple' object has no attribute 'keys'"),
 'general_info/ordered': ('returned', ('dict', [('n_rows', ('int', '1')), ('x', ('int', '2'))])),
 "map_projection/'UTM-PROJECTION'": ('returned',
                                     'bb7605e5f428d6d1f9ea9788ba356f6ec881ee08119e826c5d2d6efa95f561d2',
                                     ['general_information',
                                      'ellipsoid_parameters',
                                      'projection',
                                      'corner_points',
                                      'conversion_coefficients'],
                                     [],
                                     ('Group',
                                      '/projection',
                                      None,
                                      [],
                                      ('dict',
                                       [('type', ('str', "'utm'")),
                                        ('zone_number', ('str', "'31'")),
                                        ('scale_factor', ('float', '0.9996'))]))),
 "map_projection/'ups-x'": ('returned',
                            'bc10548b8ad17c5db07a2813fd2b07fb027d5f7ee1a67c5c00570f10e97c2d02',
                            ['general_information',
                             'ellipsoid_parameters',
                             'projection',
                             'corner_points',
                             'conversion_coefficients'],
                            [],
                            ('Group',
                             '/projection',
                             None,
                             [],
                             ('dict',
                              [('type', ('str', "'ups'")), ('scale_factor', ('float', '0.994'))]))),
 "map_projection/'LCC-1'": ('returned',
                            'b74d4468fdad06370e543dbbc17954a3b405dab2182f42b0963b22ec9b0c8680',
                            ['general_information',
                             'ellipsoid_parameters',
                             'projection',
                             'corner_points',
                             'conversion_coefficients'],
                            [],
                            ('Group',
                             '/projection',
                             None,
                             [('standard_parallel',
                               ('Group',
                                '/projection/standard_parallel',
                                None,
                                [('phi1',
                                  ('Variable',
                                   ('tuple', []),
                                   ('float', '1.0'),
                                   ('dict', [('units', ('str', "'deg'"))])))],
                                ('dict', [])))],
                             ('dict', [('projection_descriptor', ('str', "'lcc'"))]))),
 "map_projection/'mer-'": ('returned',
                           'b74d4468fdad06370e543dbbc17954a3b405dab2182f42b0963b22ec9b0c8680',
                           ['general_information',
                            'ellipsoid_parameters',
                            'projection',
                            'corner_points',
                            'conversion_coefficients'],
                           [],
                           ('Group',
                            '/projection',
                            None,
                            [('standard_parallel',
                              ('Group',
                               '/projection/standard_parallel',
                               None,
                               [('phi1',
                                 ('Variable',
                                  ('tuple', []),
                                  ('float', '1.0'),
                                  ('dict', [('units', ('str', "'deg'"))])))],
                               ('dict', [])))],
                            ('dict', [('projection_descriptor', ('str', "'lcc'"))]))),
 "map_projection/'other-thing'": ('returned',
                                  'efaf01ed7d1f6c4543e1e6d94c0c9bc6a448d578c654c694527f2bd65b165bc6',
                                  ['general_information',
                                   'ellipsoid_parameters',
                                   'corner_points',
                                   'conversion_coefficients'],
                                  [],
                                  None),
 "map_projection/'nodash'": ('raised',
                             'ValueError',
                             'not enough values to unpack (expected 2, got 1)'),
 "map_projection/''": ('raised', 'ValueError', 'not enough values to unpack (expected 2, got 1)'),
 'map_projection/None': ('returned',
                         '5be3f1c8c4685865482eb1b06a4f0a8e89b2de3ca976d25da3d2f2de8287644d',
                         ['general_information',
                          'ellipsoid_parameters',
                          'utm_projection',
                          'ups_projection',
                          'national_system_projection',
                          'corner_points',
                          'conversion_coefficients'],
                         ['map_projection_designator'],
                         None),
 'map_projection/7': ('raised', 'AttributeError', "'int' object has no attribute 'lower'"),
 'map_projection/no-designator': ('returned',
                                  '4d03917da94860c393da41d2c89430a1c7a7fcf6e74e10a481ba48d105963efd',
                                  ['general_information',
                                   'ellipsoid_parameters',
                                   'utm_projection',
                                   'ups_projection',
                                   'national_system_projection',
                                   'corner_points',
                                   'conversion_coefficients'],
                                  [],
                                  None),
 'map_projection/only-general-info': ('returned',
                                      '3db6848b88aa0f76191a1681610f39a1849ff1b84a9fef79389f642e5b718b07',
                                      ['general_information'],
                                      [],
                                      None),
 'map_projection/empty': ('returned',
                          '24d0cce9cc7f3f0ef841e50aeefa91047fe80d4adf2a7c6bf3c5670b0a5a0f78',
                          [],
                          [],
                          None),
 'leader/default': ('digest', 'aad2ccadb302e342ae7ddc59aa0aa45b638153ee64032bcecf4f2214a9f4f5a2'),
 'leader-map-projection/default': '29a4670baae9577f71c896666d3828910ac9ae98fc816249fdba01a88df06efe',
 'leader-map-projection-keys/default': ['general_information',
                                        'ellipsoid_parameters',
                                        'projection',
                                        'corner_points',
                                        'conversion_coefficients'],
 'leader/n_map=0': ('digest', 'e650abc55251cb8de9ee5073890be033ffafe7c9baaffca50ff010c09bbf390c'),
 'leader/lcc2': ('digest', 'e4818c2d0af1a14065e36fbe0b2495f90aef495242f72c1f4bce92909bf85378'),
 'leader-map-projection/lcc2': 'bb17afe816dcbd2106f27ff834bfc539731db2fd4e3dce9ca3801cdd8a360061',
 'leader-map-projection-keys/lcc2': ['general_information',
                                     'ellipsoid_parameters',
                                     'projection',
                                     'corner_points',
                                     'conversion_coefficients'],
 'leader/mer': ('digest', 'e4818c2d0af1a14065e36fbe0b2495f90aef495242f72c1f4bce92909bf85378'),
 'leader-map-projection/mer': 'bb17afe816dcbd2106f27ff834bfc539731db2fd4e3dce9ca3801cdd8a360061',
 'leader-map-projection-keys/mer': ['general_information',
                                    'ellipsoid_parameters',
                                    'projection',
                                    'corner_points',
                                    'conversion_coefficients'],
 'leader/ups': ('digest', '0ad48d5b3c68a5c95e7e45ece41d8a18a35ad456dfedcb29725353b6bb3a0ebf'),
 'leader-map-projection/ups': '06078b9b7c815429d696aebb0c69c7ef567ed8cdc9e1ec4107bcff9fcf8040b0',
 'leader-map-projection-keys/ups': ['general_information',
                                    'ellipsoid_parameters',
                                    'projection',
                                    'corner_points',
                                    'conversion_coefficients'],
 'leader/lower': ('digest', 'aad2ccadb302e342ae7ddc59aa0aa45b638153ee64032bcecf4f2214a9f4f5a2'),
 'leader-map-projection/lower': '29a4670baae9577f71c896666d3828910ac9ae98fc816249fdba01a88df06efe',
 'leader-map-projection-keys/lower': ['general_information',
                                      'ellipsoid_parameters',
                                      'projection',
                                      'corner_points',
                                      'conversion_coefficients'],
 'leader/unknown': ('digest', 'cee6fefa06d9fc3c996e71a2a598fb77b8780a2b7dab44754b3762ad93713901'),
 'leader-map-projection/unknown': '762440be80692d55be89be05b706ef24cd2fe272dd3ee9b89332a548b3588d0d',
 'leader-map-projection-keys/unknown': ['general_information',
                                        'ellipsoid_parameters',
                                        'corner_points',
                                        'conversion_coefficients'],
 'leader/nodash': ('raised', 'ValueError', 'not enough values to unpack (expected 2, got 1)'),
 'leader/blank': ('raised', 'ValueError', 'not enough values to unpack (expected 2, got 1)'),
 'leader/dash': ('digest', 'cee6fefa06d9fc3c996e71a2a598fb77b8780a2b7dab44754b3762ad93713901'),
 'leader-map-projection/dash': '762440be80692d55be89be05b706ef24cd2fe272dd3ee9b89332a548b3588d0d',
 'leader-map-projection-keys/dash': ['general_information',
                                     'ellipsoid_parameters',
                                     'corner_points',
                                     'conversion_coefficients']}
OBSERVED = {}


def outcome(func, *args):
    try:
        result = func(*args)
    except Exception as e:
        return ("raised", type(e).__name__, str(e))
    return ("returned", plain(result))


def check(key, value):
    assert key not in OBSERVED, key
    OBSERVED[key] = value
    if "--record" in sys.argv:
        return
    assert EXPECTED[key] == value, (key, EXPECTED[key], value)


def full(designator, **extra):
    mapping = {
        "first": 0,
        "map_projection_designator": designator,
        "utm_projection": {"type": "utm"},
        "middle": 1,
        "ups_projection": {"type": "ups"},
        "national_system_projection": {"type": "national"},
        "last": 2,
    }
    mapping.update(extra)
    return mapping


class StrLike:
    """not a str, but quacks enough"""

    def __init__(self, value):
        self.value = value

    def lower(self):
        return self.value.lower()

    def __repr__(self):
        return "StrLike(%r)" % self.value


class OnlyGet:
    def get(self, key, default=None):
        return "utm-x"


def filter_cases():
    cases = {
        "no-designator": {"a": 1, "utm_projection": {}, "ups_projection": {}},
        "designator-none": full(None),
        "empty-mapping": {},
        "only-designator-utm": {"map_projection_designator": "UTM-PROJECTION"},
        "only-designator-unknown": {"map_projection_designator": "x-y"},
        "utm-missing-section": {
            "map_projection_designator": "utm-a",
            "ups_projection": 1,
            "other": 2,
        },
        "existing-projection-before": collections.OrderedDict(
            [("projection", "old"), ("map_projection_designator", "ups-1"), ("ups_projection", "new")]
        ),
        "existing-projection-after": {
            "map_projection_designator": "ups-1",
            "ups_projection": "new",
            "projection": "old",
        },
        "none-key-unknown-designator": {None: "nothing", "map_projection_designator": "zzz-1", "a": 1},
        "none-key-known-designator": {None: "nothing", "map_projection_designator": "mer-1", "a": 1},
        "mapping-none": None,
        "mapping-list": [("map_projection_designator", "utm-1")],
        "mapping-only-get": OnlyGet(),
        "sections-not-dicts": {
            "map_projection_designator": "LCC-",
            "utm_projection": None,
            "ups_projection": 0,
            "national_system_projection": "",
        },
    }
    designators = [
        "UTM-PROJECTION",
        "utm-projection",
        "Utm-x",
        "UTM-",
        "utm-a-b",
        "UPS-PROJECTION",
        "ups-",
        "LCC-PROJECTION",
        "lcc-conformal-conic",
        "MER-PROJECTION",
        "mer-cator",
        " utm-x",
        "utm -x",
        "utmx-y",
        "foo-bar",
        "-",
        "-utm",
        "--",
        "utm_projection-x",
        "projection-x",
        "",
        "nodash",
        "UTM",
        "utm_x",
        " ",
        5,
        1.5,
        b"UTM-X",
        ["utm-x"],
        ("utm", "x"),
        {"utm": "x"},
        True,
        StrLike("UPS-like"),
        StrLike("nodash"),
    ]
    for index, designator in enumerate(designators):
        cases["designator-%02d-%r" % (index, getattr(designator, "value", designator))] = full(
            designator
        )
    return cases


def test_filter_map_projection():
    for name, mapping in filter_cases().items():
        before = copy.deepcopy(mapping) if isinstance(mapping, dict) else None
        check("filter/" + name, outcome(map_projection.filter_map_projection, mapping))
        if before is not None:
            # the input is never modified
            assert plain(before) == plain(mapping), name

    # without designator the very same object comes back, otherwise a new dict
    mapping = {"a": 1}
    assert map_projection.filter_map_projection(mapping) is mapping
    mapping = full(None)
    assert map_projection.filter_map_projection(mapping) is mapping
    mapping = full("utm-1")
    result = map_projection.filter_map_projection(mapping)
    assert result is not mapping and type(result) is dict
    assert result["projection"] is mapping["utm_projection"]
    assert list(result) == ["first", "projection", "middle", "last"]

    # repeated / interleaved calls do not influence each other
    order = ["ups-1", "x-y", "utm-1", "mer-1", "utm-1", "lcc-2", "x-y", "ups-1"]
    results = [plain(map_projection.filter_map_projection(full(d))) for d in order]
    assert results[0] == results[7] and results[1] == results[6] and results[2] == results[4]
    assert results[3] == results[5]
    check("filter/sequence", results)


def test_transform_general_info():
    cases = {
        "both": {"number_of_pixels_per_line": 10, "number_of_lines": 20},
        "reordered-with-extra": {
            "a": 1,
            "number_of_lines": 20,
            "b": (1.5, {"units": "m"}),
            "number_of_pixels_per_line": 10,
        },
        "neither": {"map_projection_type": "x"},
        "empty": {},
        "collision-after": {"number_of_lines": 1, "n_rows": 2},
        "collision-before": {"n_columns": 2, "number_of_pixels_per_line": 1},
        "none": None,
        "list": [1],
        "int": 3,
        "tuple-pair": ({"number_of_lines": 1}, {}),
        "ordered": collections.OrderedDict([("number_of_lines", 1), ("x", 2)]),
    }
    for name, mapping in cases.items():
        check("general_info/" + name, outcome(map_projection.transform_general_info, mapping))

    mapping = {"number_of_lines": 1}
    result = map_projection.transform_general_info(mapping)
    assert result is not mapping and mapping == {"number_of_lines": 1} and type(result) is dict


def record(designator, **extra):
    point = {
        "northing": (1.0, {"units": "km"}),
        "easting": (2.0, {"units": "km"}),
    }
    geo = {
        "latitude": (1.0, {"units": "deg"}),
        "longitude": (2.0, {"units": "deg"}),
    }
    corners = ["top_left_corner", "top_right_corner", "bottom_right_corner", "bottom_left_corner"]
    mapping = {
        "preamble": {"record_length": 1620},
        "blanks": "",
        "map_projection_general_information": {
            "map_projection_type": "geocoded",
            "number_of_pixels_per_line": 100,
            "number_of_lines": 200,
            "platform_headings": (12.5, {"units": "deg"}),
        },
        "map_projection_ellipsoid_parameters": {
            "reference_ellipsoid": "GRS80",
            "semimajor_axis": (6378.137, {"units": "m"}),
            "datum_shift_parameters": {"dx": (0.0, {"units": "m"})},
            "scale_factor": 0.0,
        },
        "map_projection_designator": designator,
        "utm_projection": {
            "type": "utm",
            "zone_number": "31",
            "map_origin": {"false_easting": (0.0, {"units": "m"})},
            "blanks1": "",
            "scale_factor": 0.9996,
        },
        "ups_projection": {"type": "ups", "scale_factor": 0.994},
        "national_system_projection": {
            "projection_descriptor": "lcc",
            "map_origin": {"false_easting": (0.0, {"units": "m"})},
            "standard_parallel": {"phi1": (1.0, {"units": "deg"})},
            "standard_parallel2": {"param1": (1.0, {"units": "deg"})},
            "central_meridian": {"param1": (1.0, {"units": "deg"})},
            "blanks": "",
        },
        "corner_points": {
            "projected": {c: point for c in corners},
            "geographic": {c: geo for c in corners},
            "terrain_heights_relative_to_ellipsoid": {c: (0.0, {"units": "deg"}) for c in corners},
        },
        "conversion_coefficients": {
            "map_projection_to_pixels": ({"A11": 1.0, "A12": 2.0}, {"formula": "f"}),
            "pixels_to_map_projection": ({"B11": 3.0, "B12": 4.0}, {"formula": "g"}),
        },
    }
    mapping.update(extra)
    return mapping


def summarized(func, *args):
    try:
        result = func(*args)
    except Exception as e:
        return ("raised", type(e).__name__, str(e))
    projection = result.data.get("projection")
    return (
        "returned",
        digest(result),
        list(result.data),
        list(result.attrs),
        plain(projection) if projection is not None else None,
    )


def test_transform_map_projection():
    for designator in ["UTM-PROJECTION", "ups-x", "LCC-1", "mer-", "other-thing", "nodash", "", None, 7]:
        mapping = record(designator)
        check(
            "map_projection/%r" % (designator,),
            summarized(map_projection.transform_map_projection, mapping),
        )
    mapping = record("utm-1")
    del mapping["map_projection_designator"]
    check("map_projection/no-designator", summarized(map_projection.transform_map_projection, mapping))
    check(
        "map_projection/only-general-info",
        summarized(
            map_projection.transform_map_projection,
            {"map_projection_general_information": {"number_of_lines": 2}},
        ),
    )
    check("map_projection/empty", summarized(map_projection.transform_map_projection, {}))


def test_whole_leader():
    variants = {
        "default": {},
        "n_map=0": dict(n_map=0),
        "lcc2": dict(n_map=2, designator="LCC-XX"),
        "mer": dict(designator="MER-"),
        "ups": dict(designator="UPS-a-b"),
        "lower": dict(designator="utm-lower"),
        "unknown": dict(designator="foo-bar"),
        "nodash": dict(designator="nodash"),
        "blank": dict(designator=""),
        "dash": dict(designator="-"),
    }
    for name, kwargs in variants.items():
        binary = build_leader(**kwargs)

        def opened():
            return io.open_sar_leader({"LED": binary}, "LED")

        result = outcome(opened)
        if result[0] == "returned":
            group = opened()
            check("leader/" + name, ("digest", digest(group)))
            if "map_projection" in group.data:
                check("leader-map-projection/" + name, digest(group["map_projection"]))
                check("leader-map-projection-keys/" + name, list(group["map_projection"].data))
        else:
            check("leader/" + name, result)


def test_public_names():
    for name in [
        "projected_map_point",
        "geographic_map_point",
        "map_projection_record",
        "filter_map_projection",
        "transform_general_info",
        "transform_ellipsoid_parameters",
        "transform_projection",
        "transform_corner_points",
        "transform_conversion_coefficients",
        "transform_map_projection",
        # imported helpers stay importable from here, too
        "operator",
        "cons",
        "get",
        "remove",
        "curry",
        "pipe",
        "merge_with",
        "valmap",
        "dissoc",
        "apply_to_items",
        "rename",
        "as_group",
        "remove_spares",
    ]:
        assert hasattr(map_projection, name), name


TESTS = [
    test_filter_map_projection,
    test_transform_general_info,
    test_transform_map_projection,
    test_whole_leader,
    test_public_names,
]

if __name__ == "__main__":
    for test in TESTS:
        test()
    if "--record" in sys.argv:
        import pprint

        print("EXPECTED = " + pprint.pformat(OBSERVED, width=100, sort_dicts=False))
    else:
        print("OK: %d check groups, %d recorded values" % (len(TESTS), len(OBSERVED)))
