"""Equivalence check for refactoring 4 (record layouts of the image files:
ceos_alos2/sar_image/processed_data.py, signal_data.py and ceos_alos2/common.py).

Run as ``python _eq/4/equiv.py`` (or through pytest).  ``--record`` prints the
observations instead of comparing them (used once, on the unchanged code).
"""

import hashlib
import io
import pprint
import struct
import sys

import construct

from ceos_alos2 import common
from ceos_alos2.sar_image import io as image_io
from ceos_alos2.sar_image import processed_data, signal_data
from ceos_alos2.sar_image.file_descriptor import file_descriptor_record
from ceos_alos2.sar_image.processed_data import processed_data_record
from ceos_alos2.sar_image.signal_data import signal_data_record
from ceos_alos2.utils import to_dict

LAYOUTS = {"processed": (processed_data_record, 11), "signal": (signal_data_record, 10)}


def outcome(func, *args, **kwargs):
    try:
        value = func(*args, **kwargs)
    except Exception as e:  # noqa: BLE001
        return ("raise", type(e).__name__, str(e))
    return ("ok", type(value).__name__, repr(value))


def digest(value):
    return hashlib.sha256(repr(value).encode()).hexdigest()[:24]


def noise(label, size):
    """deterministic pseudo-random bytes"""
    chunks = []
    counter = 0
    while sum(map(len, chunks)) < size:
        chunks.append(hashlib.sha256(f"{label}:{counter}".encode()).digest())
        counter += 1
    return b"".join(chunks)[:size]


SINGLETONS = {
    id(getattr(construct, name)): name
    for name in ("Int8ub", "Int16ub", "Int32ub", "Int64ub", "Tell", "Pass")
}


def dump(con, instances):
    """structure of a construct: classes, names and parameters"""
    if id(con) in SINGLETONS:
        return SINGLETONS[id(con)]

    instances.setdefault(type(con).__name__, set()).add(id(con))
    entry = {"class": type(con).__name__}
    for key, value in vars(con).items():
        if key in ("docs", "parsed", "flagbuildnone") and not value:
            continue
        if key == "subcon":
            entry[key] = dump(value, instances)
        elif key == "subcons":
            entry[key] = [dump(sub, instances) for sub in value]
        elif key == "_subcons":
            entry[key] = sorted(value)
        elif key == "attrs":
            instances.setdefault("attrs", set()).add(id(value))
            entry[key] = dict(value)
        elif key in ("encmapping", "decmapping", "ksymapping"):
            entry[key] = [(repr(k), repr(v)) for k, v in value.items()]
        elif isinstance(value, (int, float, str, bytes, bool, type(None))):
            entry[key] = (type(value).__name__, value)
        else:
            entry[key] = repr(value)
    return entry


def offset_of(layout, name):
    offset = 0
    for subcon in layout.subcons:
        if subcon.name == name:
            return offset
        offset += subcon.sizeof()
    raise KeyError(name)


def make_record(kind, label, n_data=16, record_length=None, date=(2019, 32, 40669123)):
    layout, record_type = LAYOUTS[kind]
    header_size = offset_of(layout, "data")
    if record_length is None:
        record_length = header_size + n_data
    record = bytearray(noise(f"{kind}:{label}", header_size + n_data))
    record[:12] = struct.pack(">IBBBBI", 7, 50, record_type, 18, 20, record_length)
    start = offset_of(layout, "sensor_acquisition_date")
    record[start : start + 12] = struct.pack(">III", *date)
    if kind == "signal":
        start = offset_of(layout, "sensor_acquisition_date_microseconds")
        record[start : start + 8] = struct.pack(">Q", date[2] * 1000 + 456)
    return bytes(record)


def make_file_descriptor(n_records, record_size):
    body = bytearray((b"0123456789" * 80)[:720])
    body[:12] = struct.pack(">IBBBBI", 1, 50, 192, 18, 18, 720)
    for name, value in (
        ("number_of_sar_data_records", n_records),
        ("sar_data_record_length", record_size),
    ):
        start = offset_of(file_descriptor_record, name)
        body[start : start + 6] = f"{value:6d}".encode()
    return bytes(body)


class LoggedFile(io.BytesIO):
    def __init__(self, data):
        super().__init__(data)
        self.requests = []

    def read(self, size=-1):
        self.requests.append(("read", self.tell(), size))
        return super().read(size)

    def seek(self, *args):
        self.requests.append(("seek", *args))
        return super().seek(*args)


def observe():
    obs = {}

    # --- names ------------------------------------------------------------
    obs["names:common"] = [n for n in ("record_preamble", "Int8ub", "Int32ub", "Struct")
                           if hasattr(common, n)]  # fmt: skip
    obs["names:processed"] = [
        n
        for n in ("processed_data_record", "Bytes", "Computed", "Int32ub", "Seek", "Struct",
                  "Tell", "this", "record_preamble", "DatetimeYdms", "Factor", "Metadata",
                  "StripNullBytes", "pulse_polarization", "sar_channel_code", "sar_channel_id")
        if hasattr(processed_data, n)
    ]  # fmt: skip
    obs["names:signal"] = [
        n
        for n in ("signal_data_record", "Bytes", "Computed", "Int32ub", "Int64ub", "Seek",
                  "Struct", "Tell", "this", "record_preamble", "DatetimeYdms", "DatetimeYdus",
                  "Factor", "Metadata", "StripNullBytes", "Flag", "chirp_type_designator",
                  "platform_position_parameters_update", "pulse_polarization",
                  "sar_channel_code", "sar_channel_id")
        if hasattr(signal_data, n)
    ]  # fmt: skip
    obs["names:preamble-shared"] = [
        layout.subcons[1].subcon is common.record_preamble for layout, _ in LAYOUTS.values()
    ]
    obs["names:io"] = {
        code: layout is LAYOUTS[kind][0]
        for (code, layout), kind in zip(sorted(image_io.record_types.items()),
                                        ("signal", "processed"))
    }  # fmt: skip

    # --- structure --------------------------------------------------------
    for kind, (layout, _) in LAYOUTS.items():
        instances = {}
        structure = dump(layout, instances)
        obs[f"{kind}:members"] = [
            (sub.name, type(sub.subcon).__name__, outcome(sub.sizeof)[1:]) for sub in layout.subcons
        ]
        obs[f"{kind}:structure"] = digest(structure)
        obs[f"{kind}:data"] = structure["subcons"][-1]
        obs[f"{kind}:wrapped"] = [
            sub for sub in structure["subcons"] if isinstance(sub["subcon"], dict)
        ][:6]
        obs[f"{kind}:instances"] = {name: len(ids) for name, ids in sorted(instances.items())}
        obs[f"{kind}:header-size"] = offset_of(layout, "data")
        obs[f"{kind}:sizeof"] = outcome(layout.sizeof)

    # --- single records ---------------------------------------------------
    for kind, (layout, _) in LAYOUTS.items():
        header_size = offset_of(layout, "data")
        for label in range(12):
            data = make_record(kind, label, n_data=label * 3)
            parsed = outcome(lambda: to_dict(layout.parse(data)))
            obs[f"{kind}:parse:{label}"] = parsed if label < 2 else (parsed[:2], digest(parsed))
            obs[f"{kind}:parse:{label}:data"] = outcome(lambda: to_dict(layout.parse(data).data))
        data = make_record(kind, "types")
        obs[f"{kind}:types"] = outcome(
            lambda: [
                (k, type(v).__name__, [type(e).__name__ for e in v] if type(v) is tuple else None)
                for k, v in layout.parse(data).items()
            ]
        )
        obs[f"{kind}:str"] = outcome(lambda: str(layout.parse(data)))

        # the recorded record length decides on the size and the end of the data
        for record_length in (0, 1, 12, header_size - 1, header_size, header_size + 1, 1000,
                              2**16, 2**32 - 1):  # fmt: skip
            data = make_record(kind, "length", n_data=32, record_length=record_length)
            stream = io.BytesIO(b"##" + data)
            stream.seek(2)
            obs[f"{kind}:length:{record_length}"] = (
                outcome(lambda: to_dict(layout.parse_stream(stream).data)),
                stream.tell(),
            )
            both = Struct_pair(layout)
            obs[f"{kind}:length:{record_length}:followed"] = outcome(
                lambda: both.parse(data + b"\x01\x02\x03\x04" * 300).after
            )

        # truncated input
        data = make_record(kind, "short", n_data=4)
        for size in (0, 1, 11, 12, 13, 40, 100, header_size - 1, header_size, header_size + 3):
            obs[f"{kind}:short:{size}"] = outcome(lambda: to_dict(layout.parse(data[:size]).data))

        # broken dates fail before the data section is reached
        for date in ((0, 1, 0), (2019, 4294967295, 0), (10000, 1, 1)):
            data = make_record(kind, "date", date=date)
            obs[f"{kind}:date:{date}"] = outcome(layout.parse, data)

        obs[f"{kind}:build"] = outcome(layout.build, {})[:2]
        obs[f"{kind}:build:parsed"] = outcome(layout.build, layout.parse(make_record(kind, 0)))[:2]

    # --- arrays of records, as read by the library --------------------------
    for kind, (layout, _) in LAYOUTS.items():
        header_size = offset_of(layout, "data")
        for n_records, n_data in ((1, 0), (1, 40), (3, 8), (7, 100), (20, 1)):
            record_size = header_size + n_data
            content = b"".join(make_record(kind, f"r{i}", n_data=n_data) for i in range(n_records))
            records = outcome(lambda: to_dict(image_io.parse_chunk(content, record_size)))
            obs[f"{kind}:chunk:{n_records}:{n_data}"] = (records[:2], digest(records))
            obs[f"{kind}:chunk:{n_records}:{n_data}:positions"] = outcome(
                lambda: [
                    (r.record_start, r.data.start, r.data.size, r.data.stop)
                    for r in image_io.parse_chunk(content, record_size)
                ]
            )
            obs[f"{kind}:chunk:{n_records}:{n_data}:adjusted"] = outcome(
                lambda: [
                    (r.record_start, r.data.start, r.data.size, r.data.stop)
                    for r in image_io.adjust_offsets(
                        image_io.parse_chunk(content, record_size), offset=720
                    )
                ]
            )
            obs[f"{kind}:chunk:{n_records}:{n_data}:mismatch"] = outcome(
                image_io.parse_chunk, content + b"\x00", record_size + 2
            )

            for records_per_chunk in (1, 2, 1024):
                f = LoggedFile(make_file_descriptor(n_records, record_size) + content)
                result = outcome(lambda: image_io.read_metadata(f, records_per_chunk))
                key = f"{kind}:file:{n_records}:{n_data}:{records_per_chunk}"
                obs[key] = (result[:2], digest(result))
                obs[f"{key}:requests"] = (len(f.requests), digest(f.requests), f.requests[:4])
                obs[f"{key}:positions"] = outcome(
                    lambda: [
                        (r["record_start"], r["data"]["start"], r["data"]["size"], r["data"]["stop"])
                        for r in image_io.read_metadata(
                            io.BytesIO(f.getvalue()), records_per_chunk
                        )[1]
                    ]
                )

        # record lengths which disagree with the spacing of the records
        content = b"".join(
            make_record(kind, f"m{i}", n_data=8, record_length=header_size + 4) for i in range(3)
        )
        obs[f"{kind}:chunk:overlapping"] = outcome(
            lambda: [
                (r.record_start, r.data.start, r.data.size, r.data.stop)
                for r in image_io.parse_chunk(content, header_size + 8)
            ]
        )
        obs[f"{kind}:chunk:overlapping:3x"] = outcome(layout[3].parse, content)[:2]

    return obs


def Struct_pair(layout):
    return construct.Struct("record" / layout, "after" / construct.Bytes(4))


# recorded with the unchanged code (--record)
EXPECTED = {'names:common': ['record_preamble', 'Int8ub', 'Int32ub', 'Struct'],
 'names:processed': ['processed_data_record',
                     'Bytes',
                     'Computed',
                     'Int32ub',
                     'Seek',
                     'Struct',
                     'Tell',
                     'this',
                     'record_preamble',
                     'DatetimeYdms',
                     'Factor',
                     'Metadata',
                     'StripNullBytes',
                     'pulse_polarization',
                     'sar_channel_code',
                     'sar_channel_id'],
 'names:signal': ['signal_data_record',
                  'Bytes',
                  'Computed',
                  'Int32ub',
                  'Int64ub',
                  'Seek',
                  'Struct',
                  'Tell',
                  'this',
                  'record_preamble',
                  'DatetimeYdms',
                  'DatetimeYdus',
                  'Factor',
                  'Metadata',
                  'StripNullBytes',
                  'Flag',
                  'chirp_type_designator',
                  'platform_position_parameters_update',
                  'pulse_polarization',
                  'sar_channel_code',
                  'sar_channel_id'],
 'names:preamble-shared': [True, True],
 'names:io': {10: True, 11: True},
 'processed:members': [('record_start', 'Tell', ('int', '0')),
                       ('preamble', 'Struct', ('int', '12')),
                       ('sar_image_data_line_number', 'FormatField', ('int', '4')),
                       ('sar_image_data_record_index', 'FormatField', ('int', '4')),
                       ('actual_count_of_left_fill_pixels', 'FormatField', ('int', '4')),
                       ('actual_count_of_data_pixels', 'FormatField', ('int', '4')),
                       ('actual_count_of_right_fill_pixels', 'FormatField', ('int', '4')),
                       ('sensor_parameters_update_flag', 'FormatField', ('int', '4')),
                       ('sensor_acquisition_date', 'DatetimeYdms', ('int', '12')),
                       ('sar_channel_id', 'Enum', ('int', '2')),
                       ('sar_channel_code', 'Enum', ('int', '2')),
                       ('transmitted_pulse_polarization', 'Enum', ('int', '2')),
                       ('received_pulse_polarization', 'Enum', ('int', '2')),
                       ('prf', 'Metadata', ('int', '4')),
                       ('scan_id', 'FormatField', ('int', '4')),
                       ('slant_range_to_first_pixel', 'Metadata', ('int', '4')),
                       ('slant_range_to_mid_pixel', 'Metadata', ('int', '4')),
                       ('slant_range_to_last_pixel', 'Metadata', ('int', '4')),
                       ('doppler_centroid_value_at_first_pixel', 'Metadata', ('int', '4')),
                       ('doppler_centroid_value_at_mid_pixel', 'Metadata', ('int', '4')),
                       ('doppler_centroid_value_at_last_pixel', 'Metadata', ('int', '4')),
                       ('azimuth_fm_rate_of_first_pixel', 'Metadata', ('int', '4')),
                       ('azimuth_fm_rate_of_mid_pixel', 'Metadata', ('int', '4')),
                       ('azimuth_fm_rate_of_last_pixel', 'Metadata', ('int', '4')),
                       ('look_angle_of_nadir', 'Metadata', ('int', '4')),
                       ('azimuth_squint_angle', 'Metadata', ('int', '4')),
                       ('blanks1', 'StripNullBytes', ('int', '20')),
                       ('geographic_reference_parameter_update_flag', 'FormatField', ('int', '4')),
                       ('latitude_of_first_pixel', 'Metadata', ('int', '4')),
                       ('latitude_of_center_pixel', 'Metadata', ('int', '4')),
                       ('latitude_of_last_pixel', 'Metadata', ('int', '4')),
                       ('longitude_of_first_pixel', 'Metadata', ('int', '4')),
                       ('longitude_of_center_pixel', 'Metadata', ('int', '4')),
                       ('longitude_of_last_pixel', 'Metadata', ('int', '4')),
                       ('northing_of_first_pixel', 'Metadata', ('int', '4')),
                       ('blanks2', 'StripNullBytes', ('int', '4')),
                       ('northing_of_last_pixel', 'Metadata', ('int', '4')),
                       ('easting_of_first_pixel', 'Metadata', ('int', '4')),
                       ('blanks3', 'StripNullBytes', ('int', '4')),
                       ('easting_of_last_pixel', 'Metadata', ('int', '4')),
                       ('line_heading', 'Metadata', ('int', '4')),
                       ('blanks4', 'StripNullBytes', ('int', '8')),
                       ('data',
                        'Struct',
                        ('SizeofError',
                         'Error in path (sizeof) -> data -> stop\n'
                         'Seek only moves the stream, size is not meaningful'))],
 'processed:structure': '734db891166ffa134a40deb9',
 'processed:data': {'class': 'Renamed',
                    'name': ('str', 'data'),
                    'flagbuildnone': ('bool', True),
                    'subcon': {'class': 'Struct',
                               'name': ('NoneType', None),
                               'flagbuildnone': ('bool', True),
                               'subcons': [{'class': 'Renamed',
                                            'name': ('str', 'start'),
                                            'flagbuildnone': ('bool', True),
                                            'subcon': 'Tell'},
                                           {'class': 'Renamed',
                                            'name': ('str', 'size'),
                                            'flagbuildnone': ('bool', True),
                                            'subcon': {'class': 'Computed',
                                                       'name': ('NoneType', None),
                                                       'flagbuildnone': ('bool', True),
                                                       'func': "(this['_']['preamble']['record_length'] "
                                                               "- (this['start'] - "
                                                               "this['_']['record_start']))"}},
                                           {'class': 'Renamed',
                                            'name': ('str', 'stop'),
                                            'flagbuildnone': ('bool', True),
                                            'subcon': {'class': 'Seek',
                                                       'name': ('NoneType', None),
                                                       'flagbuildnone': ('bool', True),
                                                       'at': "(this['_']['record_start'] + "
                                                             "this['_']['preamble']['record_length'])",
                                                       'whence': ('int', 0)}}],
                               '_subcons': ['size', 'start', 'stop']}},
 'processed:wrapped': [{'class': 'Renamed',
                        'name': ('str', 'preamble'),
                        'subcon': {'class': 'Struct',
                                   'name': ('NoneType', None),
                                   'subcons': [{'class': 'Renamed',
                                                'name': ('str', 'record_sequence_number'),
                                                'subcon': 'Int32ub'},
                                               {'class': 'Renamed',
                                                'name': ('str', 'first_record_subtype'),
                                                'subcon': 'Int8ub'},
                                               {'class': 'Renamed',
                                                'name': ('str', 'record_type'),
                                                'subcon': 'Int8ub'},
                                               {'class': 'Renamed',
                                                'name': ('str', 'second_record_subtype'),
                                                'subcon': 'Int8ub'},
                                               {'class': 'Renamed',
                                                'name': ('str', 'third_record_subtype'),
                                                'subcon': 'Int8ub'},
                                               {'class': 'Renamed',
                                                'name': ('str', 'record_length'),
                                                'subcon': 'Int32ub'}],
                                   '_subcons': ['first_record_subtype',
                                                'record_length',
                                                'record_sequence_number',
                                                'record_type',
                                                'second_record_subtype',
                                                'third_record_subtype']}},
                       {'class': 'Renamed',
                        'name': ('str', 'sensor_acquisition_date'),
                        'subcon': {'class': 'DatetimeYdms',
                                   'name': ('NoneType', None),
                                   'subcon': {'class': 'Struct',
                                              'name': ('NoneType', None),
                                              'subcons': [{'class': 'Renamed',
                                                           'name': ('str', 'year'),
                                                           'subcon': 'Int32ub'},
                                                          {'class': 'Renamed',
                                                           'name': ('str', 'day_of_year'),
                                                           'subcon': 'Int32ub'},
                                                          {'class': 'Renamed',
                                                           'name': ('str', 'milliseconds'),
                                                           'subcon': 'Int32ub'}],
                                              '_subcons': ['day_of_year',
                                                           'milliseconds',
                                                           'year']}}},
                       {'class': 'Renamed',
                        'name': ('str', 'sar_channel_id'),
                        'subcon': {'class': 'Enum',
                                   'name': ('NoneType', None),
                                   'subcon': 'Int16ub',
                                   'encmapping': [('EnumIntegerString.new(1, '
                                                   "'single_polarization')",
                                                   '1'),
                                                  ("EnumIntegerString.new(2, 'dual_polarization')",
                                                   '2'),
                                                  ("EnumIntegerString.new(4, 'full_polarization')",
                                                   '4')],
                                   'decmapping': [('1',
                                                   'EnumIntegerString.new(1, '
                                                   "'single_polarization')"),
                                                  ('2',
                                                   "EnumIntegerString.new(2, 'dual_polarization')"),
                                                  ('4',
                                                   'EnumIntegerString.new(4, '
                                                   "'full_polarization')")],
                                   'ksymapping': [('1', "'single_polarization'"),
                                                  ('2', "'dual_polarization'"),
                                                  ('4', "'full_polarization'")]}},
                       {'class': 'Renamed',
                        'name': ('str', 'sar_channel_code'),
                        'subcon': {'class': 'Enum',
                                   'name': ('NoneType', None),
                                   'subcon': 'Int16ub',
                                   'encmapping': [("EnumIntegerString.new(0, 'L')", '0'),
                                                  ("EnumIntegerString.new(1, 'S')", '1'),
                                                  ("EnumIntegerString.new(2, 'C')", '2'),
                                                  ("EnumIntegerString.new(3, 'X')", '3'),
                                                  ("EnumIntegerString.new(4, 'KU')", '4'),
                                                  ("EnumIntegerString.new(5, 'KA')", '5')],
                                   'decmapping': [('0', "EnumIntegerString.new(0, 'L')"),
                                                  ('1', "EnumIntegerString.new(1, 'S')"),
                                                  ('2', "EnumIntegerString.new(2, 'C')"),
                                                  ('3', "EnumIntegerString.new(3, 'X')"),
                                                  ('4', "EnumIntegerString.new(4, 'KU')"),
                                                  ('5', "EnumIntegerString.new(5, 'KA')")],
                                   'ksymapping': [('0', "'L'"),
                                                  ('1', "'S'"),
                                                  ('2', "'C'"),
                                                  ('3', "'X'"),
                                                  ('4', "'KU'"),
                                                  ('5', "'KA'")]}},
                       {'class': 'Renamed',
                        'name': ('str', 'transmitted_pulse_polarization'),
                        'subcon': {'class': 'Enum',
                                   'name': ('NoneType', None),
                                   'subcon': 'Int16ub',
                                   'encmapping': [("EnumIntegerString.new(0, 'horizontal')", '0'),
                                                  ("EnumIntegerString.new(1, 'vertical')", '1')],
                                   'decmapping': [('0', "EnumIntegerString.new(0, 'horizontal')"),
                                                  ('1', "EnumIntegerString.new(1, 'vertical')")],
                                   'ksymapping': [('0', "'horizontal'"), ('1', "'vertical'")]}},
                       {'class': 'Renamed',
                        'name': ('str', 'received_pulse_polarization'),
                        'subcon': {'class': 'Enum',
                                   'name': ('NoneType', None),
                                   'subcon': 'Int16ub',
                                   'encmapping': [("EnumIntegerString.new(0, 'horizontal')", '0'),
                                                  ("EnumIntegerString.new(1, 'vertical')", '1')],
                                   'decmapping': [('0', "EnumIntegerString.new(0, 'horizontal')"),
                                                  ('1', "EnumIntegerString.new(1, 'vertical')")],
                                   'ksymapping': [('0', "'horizontal'"), ('1', "'vertical'")]}}],
 'processed:instances': {'Bytes': 4,
                         'Computed': 1,
                         'DatetimeYdms': 1,
                         'Enum': 3,
                         'Factor': 12,
                         'Metadata': 23,
                         'Renamed': 55,
                         'Seek': 1,
                         'StripNullBytes': 4,
                         'Struct': 4,
                         'attrs': 23},
 'processed:header-size': 192,
 'processed:sizeof': ('raise',
                      'SizeofError',
                      'Error in path (sizeof) -> data -> stop\n'
                      'Seek only moves the stream, size is not meaningful'),
 'signal:members': [('record_start', 'Tell', ('int', '0')),
                    ('preamble', 'Struct', ('int', '12')),
                    ('sar_image_data_line_number', 'FormatField', ('int', '4')),
                    ('sar_image_data_record_index', 'FormatField', ('int', '4')),
                    ('actual_count_of_left_fill_pixels', 'FormatField', ('int', '4')),
                    ('actual_count_of_data_pixels', 'FormatField', ('int', '4')),
                    ('actual_count_of_right_fill_pixels', 'FormatField', ('int', '4')),
                    ('sensor_parameters_update_flag', 'FormatField', ('int', '4')),
                    ('sensor_acquisition_date', 'DatetimeYdms', ('int', '12')),
                    ('sar_channel_id', 'Enum', ('int', '2')),
                    ('sar_channel_code', 'Enum', ('int', '2')),
                    ('transmitted_pulse_polarization', 'Enum', ('int', '2')),
                    ('received_pulse_polarization', 'Enum', ('int', '2')),
                    ('prf', 'Metadata', ('int', '4')),
                    ('scan_id', 'FormatField', ('int', '4')),
                    ('onboard_range_compressed_flag', 'Flag', ('int', '2')),
                    ('chirp_type_designator', 'Enum', ('int', '2')),
                    ('chirp_length', 'Metadata', ('int', '4')),
                    ('chirp_constant_coefficient', 'Metadata', ('int', '4')),
                    ('chirp_linear_coefficient', 'Metadata', ('int', '4')),
                    ('chirp_quadratic_coefficient', 'Metadata', ('int', '4')),
                    ('sensor_acquisition_date_microseconds', 'DatetimeYdus', ('int', '8')),
                    ('receiver_gain', 'Metadata', ('int', '4')),
                    ('invalid_line_flag', 'Flag', ('int', '4')),
                    ('elevation_angle_at_nadir_of_antenna', 'Struct', ('int', '8')),
                    ('antenna_squint_angle', 'Struct', ('int', '8')),
                    ('slant_range_to_first_data_sample', 'Metadata', ('int', '4')),
                    ('data_record_window_position', 'Metadata', ('int', '4')),
                    ('blanks1', 'FormatField', ('int', '4')),
                    ('platform_position_parameters_update_flag', 'Enum', ('int', '4')),
                    ('platform_latitude', 'Metadata', ('int', '4')),
                    ('platform_longitude', 'Metadata', ('int', '4')),
                    ('platform_altitude', 'Metadata', ('int', '4')),
                    ('platform_ground_speed', 'Metadata', ('int', '4')),
                    ('platform_velocity', 'Struct', ('int', '12')),
                    ('platform_acceleration', 'Struct', ('int', '12')),
                    ('platform_track_angle', 'Metadata', ('int', '4')),
                    ('platform_true_track_angle', 'Metadata', ('int', '4')),
                    ('platform_attitude', 'Struct', ('int', '12')),
                    ('latitude_of_first_pixel', 'Metadata', ('int', '4')),
                    ('latitude_of_center_pixel', 'Metadata', ('int', '4')),
                    ('latitude_of_last_pixel', 'Metadata', ('int', '4')),
                    ('longitude_of_first_pixel', 'Metadata', ('int', '4')),
                    ('longitude_of_center_pixel', 'Metadata', ('int', '4')),
                    ('longitude_of_last_pixel', 'Metadata', ('int', '4')),
                    ('burst_number', 'FormatField', ('int', '4')),
                    ('line_number_in_this_burst', 'FormatField', ('int', '4')),
                    ('blanks2', 'StripNullBytes', ('int', '60')),
                    ('alos2_frame_number', 'FormatField', ('int', '4')),
                    ('palsar_auxiliary_data', 'StripNullBytes', ('int', '256')),
                    ('data',
                     'Struct',
                     ('SizeofError',
                      'Error in path (sizeof) -> data -> stop\n'
                      'Seek only moves the stream, size is not meaningful'))],
 'signal:structure': '646fb23306b99f612928c371',
 'signal:data': {'class': 'Renamed',
                 'name': ('str', 'data'),
                 'flagbuildnone': ('bool', True),
                 'subcon': {'class': 'Struct',
                            'name': ('NoneType', None),
                            'flagbuildnone': ('bool', True),
                            'subcons': [{'class': 'Renamed',
                                         'name': ('str', 'start'),
                                         'flagbuildnone': ('bool', True),
                                         'subcon': 'Tell'},
                                        {'class': 'Renamed',
                                         'name': ('str', 'size'),
                                         'flagbuildnone': ('bool', True),
                                         'subcon': {'class': 'Computed',
                                                    'name': ('NoneType', None),
                                                    'flagbuildnone': ('bool', True),
                                                    'func': "(this['_']['preamble']['record_length'] "
                                                            "- (this['start'] - "
                                                            "this['_']['record_start']))"}},
                                        {'class': 'Renamed',
                                         'name': ('str', 'stop'),
                                         'flagbuildnone': ('bool', True),
                                         'subcon': {'class': 'Seek',
                                                    'name': ('NoneType', None),
                                                    'flagbuildnone': ('bool', True),
                                                    'at': "(this['_']['record_start'] + "
                                                          "this['_']['preamble']['record_length'])",
                                                    'whence': ('int', 0)}}],
                            '_subcons': ['size', 'start', 'stop']}},
 'signal:wrapped': [{'class': 'Renamed',
                     'name': ('str', 'preamble'),
                     'subcon': {'class': 'Struct',
                                'name': ('NoneType', None),
                                'subcons': [{'class': 'Renamed',
                                             'name': ('str', 'record_sequence_number'),
                                             'subcon': 'Int32ub'},
                                            {'class': 'Renamed',
                                             'name': ('str', 'first_record_subtype'),
                                             'subcon': 'Int8ub'},
                                            {'class': 'Renamed',
                                             'name': ('str', 'record_type'),
                                             'subcon': 'Int8ub'},
                                            {'class': 'Renamed',
                                             'name': ('str', 'second_record_subtype'),
                                             'subcon': 'Int8ub'},
                                            {'class': 'Renamed',
                                             'name': ('str', 'third_record_subtype'),
                                             'subcon': 'Int8ub'},
                                            {'class': 'Renamed',
                                             'name': ('str', 'record_length'),
                                             'subcon': 'Int32ub'}],
                                '_subcons': ['first_record_subtype',
                                             'record_length',
                                             'record_sequence_number',
                                             'record_type',
                                             'second_record_subtype',
                                             'third_record_subtype']}},
                    {'class': 'Renamed',
                     'name': ('str', 'sensor_acquisition_date'),
                     'subcon': {'class': 'DatetimeYdms',
                                'name': ('NoneType', None),
                                'subcon': {'class': 'Struct',
                                           'name': ('NoneType', None),
                                           'subcons': [{'class': 'Renamed',
                                                        'name': ('str', 'year'),
                                                        'subcon': 'Int32ub'},
                                                       {'class': 'Renamed',
                                                        'name': ('str', 'day_of_year'),
                                                        'subcon': 'Int32ub'},
                                                       {'class': 'Renamed',
                                                        'name': ('str', 'milliseconds'),
                                                        'subcon': 'Int32ub'}],
                                           '_subcons': ['day_of_year', 'milliseconds', 'year']}}},
                    {'class': 'Renamed',
                     'name': ('str', 'sar_channel_id'),
                     'subcon': {'class': 'Enum',
                                'name': ('NoneType', None),
                                'subcon': 'Int16ub',
                                'encmapping': [("EnumIntegerString.new(1, 'single_polarization')",
                                                '1'),
                                               ("EnumIntegerString.new(2, 'dual_polarization')",
                                                '2'),
                                               ("EnumIntegerString.new(4, 'full_polarization')",
                                                '4')],
                                'decmapping': [('1',
                                                "EnumIntegerString.new(1, 'single_polarization')"),
                                               ('2',
                                                "EnumIntegerString.new(2, 'dual_polarization')"),
                                               ('4',
                                                "EnumIntegerString.new(4, 'full_polarization')")],
                                'ksymapping': [('1', "'single_polarization'"),
                                               ('2', "'dual_polarization'"),
                                               ('4', "'full_polarization'")]}},
                    {'class': 'Renamed',
                     'name': ('str', 'sar_channel_code'),
                     'subcon': {'class': 'Enum',
                                'name': ('NoneType', None),
                                'subcon': 'Int16ub',
                                'encmapping': [("EnumIntegerString.new(0, 'L')", '0'),
                                               ("EnumIntegerString.new(1, 'S')", '1'),
                                               ("EnumIntegerString.new(2, 'C')", '2'),
                                               ("EnumIntegerString.new(3, 'X')", '3'),
                                               ("EnumIntegerString.new(4, 'KU')", '4'),
                                               ("EnumIntegerString.new(5, 'KA')", '5')],
                                'decmapping': [('0', "EnumIntegerString.new(0, 'L')"),
                                               ('1', "EnumIntegerString.new(1, 'S')"),
                                               ('2', "EnumIntegerString.new(2, 'C')"),
                                               ('3', "EnumIntegerString.new(3, 'X')"),
                                               ('4', "EnumIntegerString.new(4, 'KU')"),
                                               ('5', "EnumIntegerString.new(5, 'KA')")],
                                'ksymapping': [('0', "'L'"),
                                               ('1', "'S'"),
                                               ('2', "'C'"),
                                               ('3', "'X'"),
                                               ('4', "'KU'"),
                                               ('5', "'KA'")]}},
                    {'class': 'Renamed',
                     'name': ('str', 'transmitted_pulse_polarization'),
                     'subcon': {'class': 'Enum',
                                'name': ('NoneType', None),
                                'subcon': 'Int16ub',
                                'encmapping': [("EnumIntegerString.new(0, 'horizontal')", '0'),
                                               ("EnumIntegerString.new(1, 'vertical')", '1')],
                                'decmapping': [('0', "EnumIntegerString.new(0, 'horizontal')"),
                                               ('1', "EnumIntegerString.new(1, 'vertical')")],
                                'ksymapping': [('0', "'horizontal'"), ('1', "'vertical'")]}},
                    {'class': 'Renamed',
                     'name': ('str', 'received_pulse_polarization'),
                     'subcon': {'class': 'Enum',
                                'name': ('NoneType', None),
                                'subcon': 'Int16ub',
                                'encmapping': [("EnumIntegerString.new(0, 'horizontal')", '0'),
                                               ("EnumIntegerString.new(1, 'vertical')", '1')],
                                'decmapping': [('0', "EnumIntegerString.new(0, 'horizontal')"),
                                               ('1', "EnumIntegerString.new(1, 'vertical')")],
                                'ksymapping': [('0', "'horizontal'"), ('1', "'vertical'")]}}],
 'signal:instances': {'Bytes': 2,
                      'Computed': 1,
                      'DatetimeYdms': 1,
                      'DatetimeYdus': 1,
                      'Enum': 5,
                      'Factor': 13,
                      'Flag': 2,
                      'Metadata': 33,
                      'Renamed': 76,
                      'Seek': 1,
                      'StripNullBytes': 2,
                      'Struct': 9,
                      'attrs': 33},
 'signal:header-size': 544,
 'signal:sizeof': ('raise',
                   'SizeofError',
                   'Error in path (sizeof) -> data -> stop\n'
                   'Seek only moves the stream, size is not meaningful'),
 'processed:parse:0': ('ok',
                       'dict',
                       "{'record_start': 0, 'preamble': {'record_sequence_number': 7, "
                       "'first_record_subtype': 50, 'record_type': 11, 'second_record_subtype': "
                       "18, 'third_record_subtype': 20, 'record_length': 192}, "
                       "'sar_image_data_line_number': 2648451766, 'sar_image_data_record_index': "
                       "2011840644, 'actual_count_of_left_fill_pixels': 4141444934, "
                       "'actual_count_of_data_pixels': 4145564017, "
                       "'actual_count_of_right_fill_pixels': 2697365124, "
                       "'sensor_parameters_update_flag': 1000843629, 'sensor_acquisition_date': "
                       "datetime.datetime(2019, 2, 1, 11, 17, 49, 123000), 'sar_channel_id': 6312, "
                       "'sar_channel_code': 9262, 'transmitted_pulse_polarization': 4499, "
                       "'received_pulse_polarization': 9467, 'prf': (233711331, {'units': 'mHz'}), "
                       "'scan_id': 504817886, 'slant_range_to_first_pixel': (3332501347, {'units': "
                       "'m'}), 'slant_range_to_mid_pixel': (2495331558, {'units': 'm'}), "
                       "'slant_range_to_last_pixel': (4161145322, {'units': 'm'}), "
                       "'doppler_centroid_value_at_first_pixel': (2573725.77, {'units': 'Hz'}), "
                       "'doppler_centroid_value_at_mid_pixel': (2754400.92, {'units': 'Hz'}), "
                       "'doppler_centroid_value_at_last_pixel': (4149557.214, {'units': 'Hz'}), "
                       "'azimuth_fm_rate_of_first_pixel': (1822617436, {'units': 'Hz/ms'}), "
                       "'azimuth_fm_rate_of_mid_pixel': (2388703979, {'units': 'Hz/ms'}), "
                       "'azimuth_fm_rate_of_last_pixel': (4065816912, {'units': 'Hz/ms'}), "
                       "'look_angle_of_nadir': (1547.263528, {'units': 'deg'}), "
                       "'azimuth_squint_angle': (293.486705, {'units': 'deg'}), 'blanks1': "
                       "b'p~\\xac8t\\xfb\\xda:\\xf1\\x19]\\nCJ\\xef}\\x1a\\xe1D\\xbc', "
                       "'geographic_reference_parameter_update_flag': 4058219169, "
                       "'latitude_of_first_pixel': (4125.952986, {'units': 'deg'}), "
                       "'latitude_of_center_pixel': (620.2365139999999, {'units': 'deg'}), "
                       "'latitude_of_last_pixel': (168.86448299999998, {'units': 'deg'}), "
                       "'longitude_of_first_pixel': (1830.052502, {'units': 'deg'}), "
                       "'longitude_of_center_pixel': (1516.31306, {'units': 'deg'}), "
                       "'longitude_of_last_pixel': (2718.686533, {'units': 'deg'}), "
                       "'northing_of_first_pixel': (745660024, {'units': 'm'}), 'blanks2': "
                       "b'j\\x92\\xcd\\xb7', 'northing_of_last_pixel': (2470034434, {'units': "
                       "'m'}), 'easting_of_first_pixel': (1476662092, {'units': 'm'}), 'blanks3': "
                       "b'#K\\x0e\\x04', 'easting_of_last_pixel': (1074866090, {'units': 'm'}), "
                       "'line_heading': (779.863654, {'units': 'deg'}), 'blanks4': "
                       "b'\\xcb!\\x94|\\xa4\\xdf$\\x1d', 'data': {'start': 192, 'size': 0, 'stop': "
                       '192}}'),
 'processed:parse:0:data': ('ok', 'dict', "{'start': 192, 'size': 0, 'stop': 192}"),
 'processed:parse:1': ('ok',
                       'dict',
                       "{'record_start': 0, 'preamble': {'record_sequence_number': 7, "
                       "'first_record_subtype': 50, 'record_type': 11, 'second_record_subtype': "
                       "18, 'third_record_subtype': 20, 'record_length': 195}, "
                       "'sar_image_data_line_number': 1579386745, 'sar_image_data_record_index': "
                       "2977320179, 'actual_count_of_left_fill_pixels': 2635097337, "
                       "'actual_count_of_data_pixels': 3222504766, "
                       "'actual_count_of_right_fill_pixels': 132478570, "
                       "'sensor_parameters_update_flag': 1096816808, 'sensor_acquisition_date': "
                       "datetime.datetime(2019, 2, 1, 11, 17, 49, 123000), 'sar_channel_id': "
                       "18498, 'sar_channel_code': 38180, 'transmitted_pulse_polarization': 891, "
                       "'received_pulse_polarization': 40517, 'prf': (244508800, {'units': "
                       "'mHz'}), 'scan_id': 443837926, 'slant_range_to_first_pixel': (3307728014, "
                       "{'units': 'm'}), 'slant_range_to_mid_pixel': (3918446341, {'units': 'm'}), "
                       "'slant_range_to_last_pixel': (803781806, {'units': 'm'}), "
                       "'doppler_centroid_value_at_first_pixel': (88174.312, {'units': 'Hz'}), "
                       "'doppler_centroid_value_at_mid_pixel': (2655711.624, {'units': 'Hz'}), "
                       "'doppler_centroid_value_at_last_pixel': (2355829.676, {'units': 'Hz'}), "
                       "'azimuth_fm_rate_of_first_pixel': (3993102303, {'units': 'Hz/ms'}), "
                       "'azimuth_fm_rate_of_mid_pixel': (1646341931, {'units': 'Hz/ms'}), "
                       "'azimuth_fm_rate_of_last_pixel': (154622234, {'units': 'Hz/ms'}), "
                       "'look_angle_of_nadir': (3848.1020479999997, {'units': 'deg'}), "
                       "'azimuth_squint_angle': (2511.232025, {'units': 'deg'}), 'blanks1': "
                       "b'2@\\xa5\\x18\\\\>;\\x19!\\x11\\xca\\x9b\\x97<\\xbe=@;\\x8a\\x91', "
                       "'geographic_reference_parameter_update_flag': 3217901907, "
                       "'latitude_of_first_pixel': (4144.738633999999, {'units': 'deg'}), "
                       "'latitude_of_center_pixel': (82.24140299999999, {'units': 'deg'}), "
                       "'latitude_of_last_pixel': (884.670253, {'units': 'deg'}), "
                       "'longitude_of_first_pixel': (1193.364329, {'units': 'deg'}), "
                       "'longitude_of_center_pixel': (2054.022588, {'units': 'deg'}), "
                       "'longitude_of_last_pixel': (4241.560727, {'units': 'deg'}), "
                       "'northing_of_first_pixel': (2354757436, {'units': 'm'}), 'blanks2': "
                       "b'\\x07/r8', 'northing_of_last_pixel': (1701959472, {'units': 'm'}), "
                       "'easting_of_first_pixel': (4266992950, {'units': 'm'}), 'blanks3': "
                       "b'B\\xe1\\xd8\\x04', 'easting_of_last_pixel': (2861854467, {'units': "
                       "'m'}), 'line_heading': (3171.33661, {'units': 'deg'}), 'blanks4': "
                       "b'#?2\\xbbYA\\xee\\xae', 'data': {'start': 192, 'size': 3, 'stop': 195}}"),
 'processed:parse:1:data': ('ok', 'dict', "{'start': 192, 'size': 3, 'stop': 195}"),
 'processed:parse:2': (('ok', 'dict'), '5e8172ce0a5f4e68a9f38197'),
 'processed:parse:2:data': ('ok', 'dict', "{'start': 192, 'size': 6, 'stop': 198}"),
 'processed:parse:3': (('ok', 'dict'), 'ed20b9dff34d022626f071c6'),
 'processed:parse:3:data': ('ok', 'dict', "{'start': 192, 'size': 9, 'stop': 201}"),
 'processed:parse:4': (('ok', 'dict'), 'ae3401b13d99b52cc6168409'),
 'processed:parse:4:data': ('ok', 'dict', "{'start': 192, 'size': 12, 'stop': 204}"),
 'processed:parse:5': (('ok', 'dict'), '91a2385577160a2461536bd0'),
 'processed:parse:5:data': ('ok', 'dict', "{'start': 192, 'size': 15, 'stop': 207}"),
 'processed:parse:6': (('ok', 'dict'), '7fae86c5bd769e234858464b'),
 'processed:parse:6:data': ('ok', 'dict', "{'start': 192, 'size': 18, 'stop': 210}"),
 'processed:parse:7': (('ok', 'dict'), 'e572acd4e509ba8b0a01e447'),
 'processed:parse:7:data': ('ok', 'dict', "{'start': 192, 'size': 21, 'stop': 213}"),
 'processed:parse:8': (('ok', 'dict'), '141626b8ecb0eddf9e4e3cb1'),
 'processed:parse:8:data': ('ok', 'dict', "{'start': 192, 'size': 24, 'stop': 216}"),
 'processed:parse:9': (('ok', 'dict'), '5dce4829e552d0a698264b70'),
 'processed:parse:9:data': ('ok', 'dict', "{'start': 192, 'size': 27, 'stop': 219}"),
 'processed:parse:10': (('ok', 'dict'), '3c02d1d97ba5188cf7146fba'),
 'processed:parse:10:data': ('ok', 'dict', "{'start': 192, 'size': 30, 'stop': 222}"),
 'processed:parse:11': (('ok', 'dict'), '4c4cbc835e9de999183e3fee'),
 'processed:parse:11:data': ('ok', 'dict', "{'start': 192, 'size': 33, 'stop': 225}"),
 'processed:types': ('ok',
                     'list',
                     "[('_io', 'BytesIO', None), ('record_start', 'int', None), ('preamble', "
                     "'Container', None), ('sar_image_data_line_number', 'int', None), "
                     "('sar_image_data_record_index', 'int', None), "
                     "('actual_count_of_left_fill_pixels', 'int', None), "
                     "('actual_count_of_data_pixels', 'int', None), "
                     "('actual_count_of_right_fill_pixels', 'int', None), "
                     "('sensor_parameters_update_flag', 'int', None), ('sensor_acquisition_date', "
                     "'datetime', None), ('sar_channel_id', 'EnumInteger', None), "
                     "('sar_channel_code', 'EnumInteger', None), "
                     "('transmitted_pulse_polarization', 'EnumInteger', None), "
                     "('received_pulse_polarization', 'EnumInteger', None), ('prf', 'tuple', "
                     "['int', 'dict']), ('scan_id', 'int', None), ('slant_range_to_first_pixel', "
                     "'tuple', ['int', 'dict']), ('slant_range_to_mid_pixel', 'tuple', ['int', "
                     "'dict']), ('slant_range_to_last_pixel', 'tuple', ['int', 'dict']), "
                     "('doppler_centroid_value_at_first_pixel', 'tuple', ['float', 'dict']), "
                     "('doppler_centroid_value_at_mid_pixel', 'tuple', ['float', 'dict']), "
                     "('doppler_centroid_value_at_last_pixel', 'tuple', ['float', 'dict']), "
                     "('azimuth_fm_rate_of_first_pixel', 'tuple', ['int', 'dict']), "
                     "('azimuth_fm_rate_of_mid_pixel', 'tuple', ['int', 'dict']), "
                     "('azimuth_fm_rate_of_last_pixel', 'tuple', ['int', 'dict']), "
                     "('look_angle_of_nadir', 'tuple', ['float', 'dict']), "
                     "('azimuth_squint_angle', 'tuple', ['float', 'dict']), ('blanks1', 'bytes', "
                     "None), ('geographic_reference_parameter_update_flag', 'int', None), "
                     "('latitude_of_first_pixel', 'tuple', ['float', 'dict']), "
                     "('latitude_of_center_pixel', 'tuple', ['float', 'dict']), "
                     "('latitude_of_last_pixel', 'tuple', ['float', 'dict']), "
                     "('longitude_of_first_pixel', 'tuple', ['float', 'dict']), "
                     "('longitude_of_center_pixel', 'tuple', ['float', 'dict']), "
                     "('longitude_of_last_pixel', 'tuple', ['float', 'dict']), "
                     "('northing_of_first_pixel', 'tuple', ['int', 'dict']), ('blanks2', 'bytes', "
                     "None), ('northing_of_last_pixel', 'tuple', ['int', 'dict']), "
                     "('easting_of_first_pixel', 'tuple', ['int', 'dict']), ('blanks3', 'bytes', "
                     "None), ('easting_of_last_pixel', 'tuple', ['int', 'dict']), ('line_heading', "
                     "'tuple', ['float', 'dict']), ('blanks4', 'bytes', None), ('data', "
                     "'Container', None)]"),
 'processed:str': ('ok',
                   'str',
                   '"Container: \\n    record_start = 0\\n    preamble = Container: \\n        '
                   'record_sequence_number = 7\\n        first_record_subtype = 50\\n        '
                   'record_type = 11\\n        second_record_subtype = 18\\n        '
                   'third_record_subtype = 20\\n        record_length = 208\\n    '
                   'sar_image_data_line_number = 4017696256\\n    sar_image_data_record_index = '
                   '3935484874\\n    actual_count_of_left_fill_pixels = 757748826\\n    '
                   'actual_count_of_data_pixels = 329326510\\n    '
                   'actual_count_of_right_fill_pixels = 1902096006\\n    '
                   'sensor_parameters_update_flag = 2651841469\\n    sensor_acquisition_date = '
                   '2019-02-01 11:17:49.123000\\n    sar_channel_id = (enum) (unknown) 19488\\n    '
                   'sar_channel_code = (enum) (unknown) 55256\\n    transmitted_pulse_polarization '
                   '= (enum) (unknown) 2401\\n    received_pulse_polarization = (enum) (unknown) '
                   "54597\\n    prf = (592254225, {'units': 'mHz'})\\n    scan_id = 11748223\\n    "
                   "slant_range_to_first_pixel = (1309613932, {'units': 'm'})\\n    "
                   "slant_range_to_mid_pixel = (2703584803, {'units': 'm'})\\n    "
                   "slant_range_to_last_pixel = (1185831426, {'units': 'm'})\\n    "
                   "doppler_centroid_value_at_first_pixel = (3977397.631, {'units': 'Hz'})\\n    "
                   "doppler_centroid_value_at_mid_pixel = (2279476.143, {'units': 'Hz'})\\n    "
                   "doppler_centroid_value_at_last_pixel = (75317.53, {'units': 'Hz'})\\n    "
                   "azimuth_fm_rate_of_first_pixel = (839363838, {'units': 'Hz/ms'})\\n    "
                   "azimuth_fm_rate_of_mid_pixel = (1918738273, {'units': 'Hz/ms'})\\n    "
                   "azimuth_fm_rate_of_last_pixel = (2849108693, {'units': 'Hz/ms'})\\n    "
                   "look_angle_of_nadir = (3389.9261119999996, {'units': 'deg'})\\n    "
                   "azimuth_squint_angle = (1826.90665, {'units': 'deg'})\\n    blanks1 = "
                   "b'\\\\xe4\\\\xaa\\\\xb3Y\\\\xc8=)\\\\x95\\\\xad\\\\xa4\\\\xc9\\\\x0bV\\\\x99w\\\\xe5'... "
                   '(truncated, total 20)\\n    geographic_reference_parameter_update_flag = '
                   "3964938658\\n    latitude_of_first_pixel = (3606.897826, {'units': "
                   "'deg'})\\n    latitude_of_center_pixel = (156.720567, {'units': 'deg'})\\n    "
                   "latitude_of_last_pixel = (4086.874993, {'units': 'deg'})\\n    "
                   "longitude_of_first_pixel = (1932.100708, {'units': 'deg'})\\n    "
                   "longitude_of_center_pixel = (2167.797109, {'units': 'deg'})\\n    "
                   "longitude_of_last_pixel = (2767.5159869999998, {'units': 'deg'})\\n    "
                   "northing_of_first_pixel = (4235004398, {'units': 'm'})\\n    blanks2 = "
                   "b'th^\\\\xf5' (total 4)\\n    northing_of_last_pixel = (2250941536, {'units': "
                   "'m'})\\n    easting_of_first_pixel = (4089437855, {'units': 'm'})\\n    "
                   "blanks3 = b'+\\\\x9f\\\\t\\\\x8e' (total 4)\\n    easting_of_last_pixel = "
                   "(3795944606, {'units': 'm'})\\n    line_heading = (1912.4104869999999, "
                   "{'units': 'deg'})\\n    blanks4 = b'\\\\x12WX\\\\xe3\\\\x88aT}' (total "
                   '8)\\n    data = Container: \\n        start = 192\\n        size = '
                   '16\\n        stop = 208"'),
 'processed:length:0': (('ok', 'dict', "{'start': 194, 'size': -192, 'stop': 2}"), 2),
 'processed:length:0:followed': ('ok', 'bytes', "b'\\x00\\x00\\x00\\x07'"),
 'processed:length:1': (('ok', 'dict', "{'start': 194, 'size': -191, 'stop': 3}"), 3),
 'processed:length:1:followed': ('ok', 'bytes', "b'\\x00\\x00\\x072'"),
 'processed:length:12': (('ok', 'dict', "{'start': 194, 'size': -180, 'stop': 14}"), 14),
 'processed:length:12:followed': ('ok', 'bytes', "b'\\x97\\xca\\xf3B'"),
 'processed:length:191': (('ok', 'dict', "{'start': 194, 'size': -1, 'stop': 193}"), 193),
 'processed:length:191:followed': ('ok', 'bytes', "b'\\xa3\\xc0\\xc56'"),
 'processed:length:192': (('ok', 'dict', "{'start': 194, 'size': 0, 'stop': 194}"), 194),
 'processed:length:192:followed': ('ok', 'bytes', "b'\\xc0\\xc56I'"),
 'processed:length:193': (('ok', 'dict', "{'start': 194, 'size': 1, 'stop': 195}"), 195),
 'processed:length:193:followed': ('ok', 'bytes', "b'\\xc56I\\x15'"),
 'processed:length:1000': (('ok', 'dict', "{'start': 194, 'size': 808, 'stop': 1002}"), 1002),
 'processed:length:1000:followed': ('ok', 'bytes', "b'\\x01\\x02\\x03\\x04'"),
 'processed:length:65536': (('ok', 'dict', "{'start': 194, 'size': 65344, 'stop': 65538}"), 65538),
 'processed:length:65536:followed': ('raise',
                                     'StreamError',
                                     'Error in path (parsing) -> after\n'
                                     'stream read less than specified amount, expected 4, found 0'),
 'processed:length:4294967295': (('ok',
                                  'dict',
                                  "{'start': 194, 'size': 4294967103, 'stop': 4294967297}"),
                                 4294967297),
 'processed:length:4294967295:followed': ('raise',
                                          'StreamError',
                                          'Error in path (parsing) -> after\n'
                                          'stream read less than specified amount, expected 4, '
                                          'found 0'),
 'processed:short:0': ('raise',
                       'StreamError',
                       'Error in path (parsing) -> preamble -> record_sequence_number\n'
                       'stream read less than specified amount, expected 4, found 0'),
 'processed:short:1': ('raise',
                       'StreamError',
                       'Error in path (parsing) -> preamble -> record_sequence_number\n'
                       'stream read less than specified amount, expected 4, found 1'),
 'processed:short:11': ('raise',
                        'StreamError',
                        'Error in path (parsing) -> preamble -> record_length\n'
                        'stream read less than specified amount, expected 4, found 3'),
 'processed:short:12': ('raise',
                        'StreamError',
                        'Error in path (parsing) -> sar_image_data_line_number\n'
                        'stream read less than specified amount, expected 4, found 0'),
 'processed:short:13': ('raise',
                        'StreamError',
                        'Error in path (parsing) -> sar_image_data_line_number\n'
                        'stream read less than specified amount, expected 4, found 1'),
 'processed:short:40': ('raise',
                        'StreamError',
                        'Error in path (parsing) -> sensor_acquisition_date -> day_of_year\n'
                        'stream read less than specified amount, expected 4, found 0'),
 'processed:short:100': ('raise',
                         'StreamError',
                         'Error in path (parsing) -> look_angle_of_nadir\n'
                         'stream read less than specified amount, expected 4, found 0'),
 'processed:short:191': ('raise',
                         'StreamError',
                         'Error in path (parsing) -> blanks4\n'
                         'stream read less than specified amount, expected 8, found 7'),
 'processed:short:192': ('ok', 'dict', "{'start': 192, 'size': 4, 'stop': 196}"),
 'processed:short:195': ('ok', 'dict', "{'start': 192, 'size': 4, 'stop': 196}"),
 'processed:date:(0, 1, 0)': ('raise', 'ValueError', 'year 0 is out of range'),
 'processed:date:(2019, 4294967295, 0)': ('raise',
                                          'OverflowError',
                                          'Python int too large to convert to C int'),
 'processed:date:(10000, 1, 1)': ('raise', 'ValueError', 'year 10000 is out of range'),
 'processed:build': ('raise', 'KeyError'),
 'processed:build:parsed': ('raise', 'NotImplementedError'),
 'signal:parse:0': ('ok',
                    'dict',
                    "{'record_start': 0, 'preamble': {'record_sequence_number': 7, "
                    "'first_record_subtype': 50, 'record_type': 10, 'second_record_subtype': 18, "
                    "'third_record_subtype': 20, 'record_length': 544}, "
                    "'sar_image_data_line_number': 1799634467, 'sar_image_data_record_index': "
                    "1847214322, 'actual_count_of_left_fill_pixels': 744477766, "
                    "'actual_count_of_data_pixels': 2937133592, "
                    "'actual_count_of_right_fill_pixels': 2649335102, "
                    "'sensor_parameters_update_flag': 3813804934, 'sensor_acquisition_date': "
                    "datetime.datetime(2019, 2, 1, 11, 17, 49, 123000), 'sar_channel_id': 606, "
                    "'sar_channel_code': 6178, 'transmitted_pulse_polarization': 28436, "
                    "'received_pulse_polarization': 22763, 'prf': (2402912423, {'units': 'mHz'}), "
                    "'scan_id': 2770637248, 'onboard_range_compressed_flag': True, "
                    "'chirp_type_designator': 10409, 'chirp_length': (2027920328, {'units': "
                    "'ns'}), 'chirp_constant_coefficient': (1439738742, {'units': 'Hz'}), "
                    "'chirp_linear_coefficient': (2242411042, {'units': 'Hz/µs'}), "
                    "'chirp_quadratic_coefficient': (1552051543, {'units': 'Hz/µs^2'}), "
                    "'sensor_acquisition_date_microseconds': datetime.datetime(2019, 2, 1, 11, 17, "
                    "49, 123456), 'receiver_gain': (4042077971, {'units': 'dB'}), "
                    "'invalid_line_flag': True, 'elevation_angle_at_nadir_of_antenna': "
                    "{'electronic': (2855270890, {'units': 'deg'}), 'mechanic': (2401287653, "
                    "{'units': 'deg'})}, 'antenna_squint_angle': {'electronic': (1685271245, "
                    "{'units': 'deg'}), 'mechanic': (2988458889, {'units': 'deg'})}, "
                    "'slant_range_to_first_data_sample': (3213249044, {'units': 'm'}), "
                    "'data_record_window_position': (2132789506, {'units': 'ns'}), 'blanks1': "
                    "194571007, 'platform_position_parameters_update_flag': 4110908618, "
                    "'platform_latitude': (2492.362636, {'units': 'deg'}), 'platform_longitude': "
                    "(4154.569159, {'units': 'deg'}), 'platform_altitude': (2685571155, {'units': "
                    "'deg'}), 'platform_ground_speed': (813185383, {'units': 'cm/s'}), "
                    "'platform_velocity': {'x': (2104573084, {'units': 'cm/s'}), 'y': (1839347641, "
                    "{'units': 'cm/s'}), 'z': (2880229298, {'units': 'cm/s'})}, "
                    "'platform_acceleration': {'x': (682711409, {'units': 'cm/s^2'}), 'y': "
                    "(3454252577, {'units': 'cm/s^2'}), 'z': (58061339, {'units': 'cm/s^2'})}, "
                    "'platform_track_angle': (4254.895027, {'units': 'deg'}), "
                    "'platform_true_track_angle': (2403.730538, {'units': 'deg'}), "
                    "'platform_attitude': {'pitch': (4183.561603, {'units': 'deg'}), 'roll': "
                    "(1043.556012, {'units': 'deg'}), 'yaw': (380.950763, {'units': 'deg'})}, "
                    "'latitude_of_first_pixel': (1189.689781, {'units': 'deg'}), "
                    "'latitude_of_center_pixel': (4282.805026, {'units': 'deg'}), "
                    "'latitude_of_last_pixel': (1822.78264, {'units': 'deg'}), "
                    "'longitude_of_first_pixel': (2120.104606, {'units': 'deg'}), "
                    "'longitude_of_center_pixel': (1268.303604, {'units': 'deg'}), "
                    "'longitude_of_last_pixel': (3702.164831, {'units': 'deg'}), 'burst_number': "
                    "2592819892, 'line_number_in_this_burst': 3324638107, 'blanks2': "
                    "b'\\xe9\\x18,%\\xea\\x08\\x85\\x12\\xf1\\xa1C/\\xb0\\xa1*\\x17 "
                    '\\xfaY\\x03\\xc4"\\x85\\x7f`\\xca\\xd0\\xaf2J5\\xb9\\xe0\\xf6hF\\x8a\\x113\\xe6<J\\x91$\\x05\\x91\\xb7\\xdf\\xf9VV\\xd1\\x86\\x0c\\x83+\\x13\\x82~\\x12\', '
                    "'alos2_frame_number': 3869264343, 'palsar_auxiliary_data': "
                    'b"\'A\\xf2;E%\\x11\\xc3A\\x93\\xe8\\x16DY;o\\x05M\\x13\\xc4\\x14=\\x06~\\x8b9I\\x9b\\xc9\\xf2n\\xc4\\xe0\\x1d\\x8b\\xfc\\x1a\\xb2\\x82\\x8f\\xa7\\xe5z\\xe9\\x1b\\x14+\\xea\\xd3<\\xc3\\xb0R\\x91\\x08\\x82~\\xe7\\xc8\\x9cS\\xb2W\\x8cD '
                    '\\x85\\x88\\xc0\\x8dRT^\\x88\\xf8r\\xe4V.\\xc3\\xbc\\x8df{v\\x99\\xbd\\x87\\xf9\\xb7\\x96\\x14\\x94\\x11\\xad\\xa2(`\\x03_w\\x83\\xb1\\xea\\xea\\xc8\\xa1\\xdf\\xc7\\x05\\x8e\\xe60\\x8bZ0\\xccY\\xff\\x84\\xa6\\x1b\\x08\\n\\xf9\\xdb\\xca6\\xc7\\x94\\xd0?#\\x03\\xf8,\\x06\\xab\\xa7\\xed\\xf0\\xe3\\x1ekW\\x99s\\xcb\\xc6\\xb4O\\x9c\\xda\'3\\x17\\xa4\\xd5`\\xdf.pG\\x0eI\\xc6\\x876\\xb7,U\'=\\xa1.\\x8e\\xdcZ\\xc8\\xeaz\\x97\\xa2\\xddZ{\\xf1\\x17#=\\n\\x98\\x81\'\\xa0\\x1e\\xf0\\xa3\\xd6\\xdav\\x83\\xcc\\xa0\\xe3\\xab\\x9a1\\x8b\\xb4S\\xea\\x04\\xcd\\x16\\xd8\\x11\\xc8k\\x0c\\xa62\\x916l\\xd7\\x02\\x9cs\\xeb\\xa9FW\\xaeV\\xa9\\xb6\\x0e\\xf0\\xbe\\x02\\xaf\\x81\\xae\\x84\\xfaXr<\\xed\\x92\\xf1\\xdd{\\x01?", '
                    "'data': {'start': 544, 'size': 0, 'stop': 544}}"),
 'signal:parse:0:data': ('ok', 'dict', "{'start': 544, 'size': 0, 'stop': 544}"),
 'signal:parse:1': ('ok',
                    'dict',
                    "{'record_start': 0, 'preamble': {'record_sequence_number': 7, "
                    "'first_record_subtype': 50, 'record_type': 10, 'second_record_subtype': 18, "
                    "'third_record_subtype': 20, 'record_length': 547}, "
                    "'sar_image_data_line_number': 2605437510, 'sar_image_data_record_index': "
                    "3116417983, 'actual_count_of_left_fill_pixels': 608118474, "
                    "'actual_count_of_data_pixels': 2804784907, "
                    "'actual_count_of_right_fill_pixels': 1940460319, "
                    "'sensor_parameters_update_flag': 2040250653, 'sensor_acquisition_date': "
                    "datetime.datetime(2019, 2, 1, 11, 17, 49, 123000), 'sar_channel_id': 2138, "
                    "'sar_channel_code': 4905, 'transmitted_pulse_polarization': 38574, "
                    "'received_pulse_polarization': 3130, 'prf': (3355411539, {'units': 'mHz'}), "
                    "'scan_id': 1781519008, 'onboard_range_compressed_flag': True, "
                    "'chirp_type_designator': 7640, 'chirp_length': (2805225168, {'units': 'ns'}), "
                    "'chirp_constant_coefficient': (2324622850, {'units': 'Hz'}), "
                    "'chirp_linear_coefficient': (1410669539, {'units': 'Hz/µs'}), "
                    "'chirp_quadratic_coefficient': (3960078906, {'units': 'Hz/µs^2'}), "
                    "'sensor_acquisition_date_microseconds': datetime.datetime(2019, 2, 1, 11, 17, "
                    "49, 123456), 'receiver_gain': (2279596741, {'units': 'dB'}), "
                    "'invalid_line_flag': True, 'elevation_angle_at_nadir_of_antenna': "
                    "{'electronic': (2372685799, {'units': 'deg'}), 'mechanic': (3218784873, "
                    "{'units': 'deg'})}, 'antenna_squint_angle': {'electronic': (1636704428, "
                    "{'units': 'deg'}), 'mechanic': (3513121522, {'units': 'deg'})}, "
                    "'slant_range_to_first_data_sample': (980095868, {'units': 'm'}), "
                    "'data_record_window_position': (144676843, {'units': 'ns'}), 'blanks1': "
                    "648199154, 'platform_position_parameters_update_flag': 1862004416, "
                    "'platform_latitude': (1966.7897189999999, {'units': 'deg'}), "
                    "'platform_longitude': (1681.514997, {'units': 'deg'}), 'platform_altitude': "
                    "(1804423586, {'units': 'deg'}), 'platform_ground_speed': (3834085850, "
                    "{'units': 'cm/s'}), 'platform_velocity': {'x': (1460632385, {'units': "
                    "'cm/s'}), 'y': (521589883, {'units': 'cm/s'}), 'z': (2041842473, {'units': "
                    "'cm/s'})}, 'platform_acceleration': {'x': (1599457060, {'units': 'cm/s^2'}), "
                    "'y': (360702717, {'units': 'cm/s^2'}), 'z': (475731470, {'units': "
                    "'cm/s^2'})}, 'platform_track_angle': (91.450745, {'units': 'deg'}), "
                    "'platform_true_track_angle': (1777.7311909999999, {'units': 'deg'}), "
                    "'platform_attitude': {'pitch': (1106.295465, {'units': 'deg'}), 'roll': "
                    "(1817.3756059999998, {'units': 'deg'}), 'yaw': (1991.9975029999998, {'units': "
                    "'deg'})}, 'latitude_of_first_pixel': (2250.5980759999998, {'units': 'deg'}), "
                    "'latitude_of_center_pixel': (889.526969, {'units': 'deg'}), "
                    "'latitude_of_last_pixel': (1084.367013, {'units': 'deg'}), "
                    "'longitude_of_first_pixel': (462.11231499999997, {'units': 'deg'}), "
                    "'longitude_of_center_pixel': (3449.483921, {'units': 'deg'}), "
                    "'longitude_of_last_pixel': (3881.082466, {'units': 'deg'}), 'burst_number': "
                    "306057542, 'line_number_in_this_burst': 2400261222, 'blanks2': "
                    "b'\\x11p\\x03\\x1f\\x9c\\xa0Me\\xeb\\xc7\\x7f\\x01\\xac\\xbf=\\x91]\\x96\\xa0x9\\xf3}X\\xd7\\xf8\\xa3_\\x1d\\x82\\xc2e[\\xdf\\xac\\xb2\\xfa\\x85P\\x8bf\\x06\\x02VN\\xe2s\\xe2\\x86\\x98\\xdc\\x0cG\\xaf1\\x93\\xdex`Y', "
                    "'alos2_frame_number': 2639813757, 'palsar_auxiliary_data': "
                    'b\'\\xdc\\xe8\\x9a\\xe9Xd\\xa7\\x0c\\x03\\x01\\x0c\\xa0\\x95\\xe8\\x03\\xba=m\\xad\\x05\\xe8\\xbd+\\xa3\\x10\\xe5Z\\x1bu\\xc9v\\x9e\\xf2\\xfe\\x9a&\\xc0\\xdb\\xa1\\xec\\x94y\\x93\\x999\\xb5\\xb9\\xb0\\xd6\\xb5\\xc0\\xbb%\\x02<4^\\xea\\xc8\\xfb_\\xf0T\\xdcZ\\x9ef"\\xf9\\xcb\\xc4\\x8d\\x1fGm\\xc2T\\xd1\\x1d\\x05\\xe7M\\x8bHS\\xe3\\xfd\\x83W\\xf4\\xd8O\\x8f:w\\xf9\\x0c\\xf4(\\x04\\x0f\\xd3o\\xfeP\\x15=\\x816\\xe0->\\xbb\\x9b\\x00j\\xd2\\xee6\\x16)\\x9cy\\xc58\\xe1f\\x0fp\\x8cG\\xa3\\xa1\\xed2\\xaf\\xb0:\\xf8\\xb9\\x0e"0\\x93X[6\\x05\\x17\\xb0\\x87\\x92\\xeb\\x888\\x88/S\\xc3f\\xa7\\xff<u\\r\\xec\\xf9\\x89\\x92\\xb4\\xda"\\xd9\\xd4m\\xf0\\x13b\\xda\\xcbF\\x19k\\xdd\\xe5\\xc9c\\xbbmq\\x88i?\\xb0\\x83\\x96\\x9fv\\x16\\xc6nY\\xb4\\x8d3\\xb3\\xd0\\\\)\\xccp\\x0c\\xbe\\xb7!F\\t\\xca|\\xba\\x81\\xa4\\xf2P\\xd4\\xe2\\xcf\\xe3\\xb3\\xceN\\xfa?\\x84\\xa1.\\xdf\\xd4\\xfc\\xb9\\xd5\\xd1(\\xdd\\x14\\xbd(\\xe7\\x8d~U%\\xa2\\x9fR\\xc1\', '
                    "'data': {'start': 544, 'size': 3, 'stop': 547}}"),
 'signal:parse:1:data': ('ok', 'dict', "{'start': 544, 'size': 3, 'stop': 547}"),
 'signal:parse:2': (('ok', 'dict'), '165c797bce83d3ada2963b91'),
 'signal:parse:2:data': ('ok', 'dict', "{'start': 544, 'size': 6, 'stop': 550}"),
 'signal:parse:3': (('ok', 'dict'), '7cb309503a4e501dbe067225'),
 'signal:parse:3:data': ('ok', 'dict', "{'start': 544, 'size': 9, 'stop': 553}"),
 'signal:parse:4': (('ok', 'dict'), '6707e702d5b3c01d139b7393'),
 'signal:parse:4:data': ('ok', 'dict', "{'start': 544, 'size': 12, 'stop': 556}"),
 'signal:parse:5': (('ok', 'dict'), 'a356c07b978026f6e88c4753'),
 'signal:parse:5:data': ('ok', 'dict', "{'start': 544, 'size': 15, 'stop': 559}"),
 'signal:parse:6': (('ok', 'dict'), '079559bda995f9bb5d8b683f'),
 'signal:parse:6:data': ('ok', 'dict', "{'start': 544, 'size': 18, 'stop': 562}"),
 'signal:parse:7': (('ok', 'dict'), '54f4a4fc41da2e1bbf94989e'),
 'signal:parse:7:data': ('ok', 'dict', "{'start': 544, 'size': 21, 'stop': 565}"),
 'signal:parse:8': (('ok', 'dict'), '52d5dbfcd6ffd6dae7e692d0'),
 'signal:parse:8:data': ('ok', 'dict', "{'start': 544, 'size': 24, 'stop': 568}"),
 'signal:parse:9': (('ok', 'dict'), '74bf017a94bb81cdaee6a288'),
 'signal:parse:9:data': ('ok', 'dict', "{'start': 544, 'size': 27, 'stop': 571}"),
 'signal:parse:10': (('ok', 'dict'), '2144b16fa82d1200378fd485'),
 'signal:parse:10:data': ('ok', 'dict', "{'start': 544, 'size': 30, 'stop': 574}"),
 'signal:parse:11': (('ok', 'dict'), 'ddc043e4e297ee56688e972e'),
 'signal:parse:11:data': ('ok', 'dict', "{'start': 544, 'size': 33, 'stop': 577}"),
 'signal:types': ('ok',
                  'list',
                  "[('_io', 'BytesIO', None), ('record_start', 'int', None), ('preamble', "
                  "'Container', None), ('sar_image_data_line_number', 'int', None), "
                  "('sar_image_data_record_index', 'int', None), "
                  "('actual_count_of_left_fill_pixels', 'int', None), "
                  "('actual_count_of_data_pixels', 'int', None), "
                  "('actual_count_of_right_fill_pixels', 'int', None), "
                  "('sensor_parameters_update_flag', 'int', None), ('sensor_acquisition_date', "
                  "'datetime', None), ('sar_channel_id', 'EnumInteger', None), "
                  "('sar_channel_code', 'EnumInteger', None), ('transmitted_pulse_polarization', "
                  "'EnumInteger', None), ('received_pulse_polarization', 'EnumInteger', None), "
                  "('prf', 'tuple', ['int', 'dict']), ('scan_id', 'int', None), "
                  "('onboard_range_compressed_flag', 'bool', None), ('chirp_type_designator', "
                  "'EnumInteger', None), ('chirp_length', 'tuple', ['int', 'dict']), "
                  "('chirp_constant_coefficient', 'tuple', ['int', 'dict']), "
                  "('chirp_linear_coefficient', 'tuple', ['int', 'dict']), "
                  "('chirp_quadratic_coefficient', 'tuple', ['int', 'dict']), "
                  "('sensor_acquisition_date_microseconds', 'datetime', None), ('receiver_gain', "
                  "'tuple', ['int', 'dict']), ('invalid_line_flag', 'bool', None), "
                  "('elevation_angle_at_nadir_of_antenna', 'Container', None), "
                  "('antenna_squint_angle', 'Container', None), "
                  "('slant_range_to_first_data_sample', 'tuple', ['int', 'dict']), "
                  "('data_record_window_position', 'tuple', ['int', 'dict']), ('blanks1', 'int', "
                  "None), ('platform_position_parameters_update_flag', 'EnumInteger', None), "
                  "('platform_latitude', 'tuple', ['float', 'dict']), ('platform_longitude', "
                  "'tuple', ['float', 'dict']), ('platform_altitude', 'tuple', ['int', 'dict']), "
                  "('platform_ground_speed', 'tuple', ['int', 'dict']), ('platform_velocity', "
                  "'Container', None), ('platform_acceleration', 'Container', None), "
                  "('platform_track_angle', 'tuple', ['float', 'dict']), "
                  "('platform_true_track_angle', 'tuple', ['float', 'dict']), "
                  "('platform_attitude', 'Container', None), ('latitude_of_first_pixel', 'tuple', "
                  "['float', 'dict']), ('latitude_of_center_pixel', 'tuple', ['float', 'dict']), "
                  "('latitude_of_last_pixel', 'tuple', ['float', 'dict']), "
                  "('longitude_of_first_pixel', 'tuple', ['float', 'dict']), "
                  "('longitude_of_center_pixel', 'tuple', ['float', 'dict']), "
                  "('longitude_of_last_pixel', 'tuple', ['float', 'dict']), ('burst_number', "
                  "'int', None), ('line_number_in_this_burst', 'int', None), ('blanks2', 'bytes', "
                  "None), ('alos2_frame_number', 'int', None), ('palsar_auxiliary_data', 'bytes', "
                  "None), ('data', 'Container', None)]"),
 'signal:str': ('ok',
                'str',
                '"Container: \\n    record_start = 0\\n    preamble = Container: \\n        '
                'record_sequence_number = 7\\n        first_record_subtype = 50\\n        '
                'record_type = 10\\n        second_record_subtype = 18\\n        '
                'third_record_subtype = 20\\n        record_length = 560\\n    '
                'sar_image_data_line_number = 3174988036\\n    sar_image_data_record_index = '
                '3813629225\\n    actual_count_of_left_fill_pixels = 2612649803\\n    '
                'actual_count_of_data_pixels = 1010903967\\n    actual_count_of_right_fill_pixels '
                '= 4274156086\\n    sensor_parameters_update_flag = 210789726\\n    '
                'sensor_acquisition_date = 2019-02-01 11:17:49.123000\\n    sar_channel_id = '
                '(enum) (unknown) 60253\\n    sar_channel_code = (enum) (unknown) 14464\\n    '
                'transmitted_pulse_polarization = (enum) (unknown) 21398\\n    '
                'received_pulse_polarization = (enum) (unknown) 15778\\n    prf = (2494163693, '
                "{'units': 'mHz'})\\n    scan_id = 1026764025\\n    onboard_range_compressed_flag "
                '= True\\n    chirp_type_designator = (enum) (unknown) 51128\\n    chirp_length = '
                "(4036362028, {'units': 'ns'})\\n    chirp_constant_coefficient = (1117239793, "
                "{'units': 'Hz'})\\n    chirp_linear_coefficient = (4040594562, {'units': "
                "'Hz/µs'})\\n    chirp_quadratic_coefficient = (1212275209, {'units': "
                "'Hz/µs^2'})\\n    sensor_acquisition_date_microseconds = 2019-02-01 "
                "11:17:49.123456\\n    receiver_gain = (4257678561, {'units': 'dB'})\\n    "
                'invalid_line_flag = True\\n    elevation_angle_at_nadir_of_antenna = Container: '
                "\\n        electronic = (2926285001, {'units': 'deg'})\\n        mechanic = "
                "(537966392, {'units': 'deg'})\\n    antenna_squint_angle = Container: \\n        "
                "electronic = (2295515265, {'units': 'deg'})\\n        mechanic = (4195757433, "
                "{'units': 'deg'})\\n    slant_range_to_first_data_sample = (3640133396, {'units': "
                "'m'})\\n    data_record_window_position = (2506390606, {'units': 'ns'})\\n    "
                'blanks1 = 616672106\\n    platform_position_parameters_update_flag = (enum) '
                "(unknown) 1432678090\\n    platform_latitude = (2471.085291, {'units': "
                "'deg'})\\n    platform_longitude = (873.292022, {'units': 'deg'})\\n    "
                "platform_altitude = (1395536753, {'units': 'deg'})\\n    platform_ground_speed = "
                "(2870823457, {'units': 'cm/s'})\\n    platform_velocity = Container: \\n        x "
                "= (3758186769, {'units': 'cm/s'})\\n        y = (202372136, {'units': "
                "'cm/s'})\\n        z = (1384423005, {'units': 'cm/s'})\\n    "
                "platform_acceleration = Container: \\n        x = (3057300731, {'units': "
                "'cm/s^2'})\\n        y = (802307798, {'units': 'cm/s^2'})\\n        z = "
                "(603404533, {'units': 'cm/s^2'})\\n    platform_track_angle = "
                "(227.29253599999998, {'units': 'deg'})\\n    platform_true_track_angle = "
                "(6.4066209999999995, {'units': 'deg'})\\n    platform_attitude = Container: "
                "\\n        pitch = (203.330265, {'units': 'deg'})\\n        roll = "
                "(3799.3219169999998, {'units': 'deg'})\\n        yaw = (2597.1543119999997, "
                "{'units': 'deg'})\\n    latitude_of_first_pixel = (2064.642261, {'units': "
                "'deg'})\\n    latitude_of_center_pixel = (2689.928222, {'units': 'deg'})\\n    "
                "latitude_of_last_pixel = (896.9495029999999, {'units': 'deg'})\\n    "
                "longitude_of_first_pixel = (4213.609665999999, {'units': 'deg'})\\n    "
                "longitude_of_center_pixel = (3590.7476509999997, {'units': 'deg'})\\n    "
                "longitude_of_last_pixel = (3427.375235, {'units': 'deg'})\\n    burst_number = "
                '1506324487\\n    line_number_in_this_burst = 93687889\\n    blanks2 = '
                "b'\\\\rm\\\\xdb\\\\xf8\\\\xbb\\\\x15\\\\x06\\\\x16bZ\\\\x8dPB{~!'... (truncated, "
                'total 60)\\n    alos2_frame_number = 656353800\\n    palsar_auxiliary_data = '
                "b'\\\\xa1\\\\x19\\\\x80\\\\xd3%\\\\xef\\\\xc1C\\\\xfc\\\\xbd&)\\\\xf7\\\\xe9\\\\xe1\\\\x7f'... "
                '(truncated, total 256)\\n    data = Container: \\n        start = 544\\n        '
                'size = 16\\n        stop = 560"'),
 'signal:length:0': (('ok', 'dict', "{'start': 546, 'size': -544, 'stop': 2}"), 2),
 'signal:length:0:followed': ('ok', 'bytes', "b'\\x00\\x00\\x00\\x07'"),
 'signal:length:1': (('ok', 'dict', "{'start': 546, 'size': -543, 'stop': 3}"), 3),
 'signal:length:1:followed': ('ok', 'bytes', "b'\\x00\\x00\\x072'"),
 'signal:length:12': (('ok', 'dict', "{'start': 546, 'size': -532, 'stop': 14}"), 14),
 'signal:length:12:followed': ('ok', 'bytes', 'b"\\xd1\'\\x1f\\xe7"'),
 'signal:length:543': (('ok', 'dict', "{'start': 546, 'size': -1, 'stop': 545}"), 545),
 'signal:length:543:followed': ('ok', 'bytes', "b'\\x05\\xa5T\\x0c'"),
 'signal:length:544': (('ok', 'dict', "{'start': 546, 'size': 0, 'stop': 546}"), 546),
 'signal:length:544:followed': ('ok', 'bytes', "b'\\xa5T\\x0cR'"),
 'signal:length:545': (('ok', 'dict', "{'start': 546, 'size': 1, 'stop': 547}"), 547),
 'signal:length:545:followed': ('ok', 'bytes', "b'T\\x0cR\\r'"),
 'signal:length:1000': (('ok', 'dict', "{'start': 546, 'size': 456, 'stop': 1002}"), 1002),
 'signal:length:1000:followed': ('ok', 'bytes', "b'\\x01\\x02\\x03\\x04'"),
 'signal:length:65536': (('ok', 'dict', "{'start': 546, 'size': 64992, 'stop': 65538}"), 65538),
 'signal:length:65536:followed': ('raise',
                                  'StreamError',
                                  'Error in path (parsing) -> after\n'
                                  'stream read less than specified amount, expected 4, found 0'),
 'signal:length:4294967295': (('ok',
                               'dict',
                               "{'start': 546, 'size': 4294966751, 'stop': 4294967297}"),
                              4294967297),
 'signal:length:4294967295:followed': ('raise',
                                       'StreamError',
                                       'Error in path (parsing) -> after\n'
                                       'stream read less than specified amount, expected 4, found '
                                       '0'),
 'signal:short:0': ('raise',
                    'StreamError',
                    'Error in path (parsing) -> preamble -> record_sequence_number\n'
                    'stream read less than specified amount, expected 4, found 0'),
 'signal:short:1': ('raise',
                    'StreamError',
                    'Error in path (parsing) -> preamble -> record_sequence_number\n'
                    'stream read less than specified amount, expected 4, found 1'),
 'signal:short:11': ('raise',
                     'StreamError',
                     'Error in path (parsing) -> preamble -> record_length\n'
                     'stream read less than specified amount, expected 4, found 3'),
 'signal:short:12': ('raise',
                     'StreamError',
                     'Error in path (parsing) -> sar_image_data_line_number\n'
                     'stream read less than specified amount, expected 4, found 0'),
 'signal:short:13': ('raise',
                     'StreamError',
                     'Error in path (parsing) -> sar_image_data_line_number\n'
                     'stream read less than specified amount, expected 4, found 1'),
 'signal:short:40': ('raise',
                     'StreamError',
                     'Error in path (parsing) -> sensor_acquisition_date -> day_of_year\n'
                     'stream read less than specified amount, expected 4, found 0'),
 'signal:short:100': ('raise',
                      'StreamError',
                      'Error in path (parsing) -> elevation_angle_at_nadir_of_antenna -> '
                      'electronic\n'
                      'stream read less than specified amount, expected 4, found 0'),
 'signal:short:543': ('raise',
                      'StreamError',
                      'Error in path (parsing) -> palsar_auxiliary_data\n'
                      'stream read less than specified amount, expected 256, found 255'),
 'signal:short:544': ('ok', 'dict', "{'start': 544, 'size': 4, 'stop': 548}"),
 'signal:short:547': ('ok', 'dict', "{'start': 544, 'size': 4, 'stop': 548}"),
 'signal:date:(0, 1, 0)': ('raise', 'ValueError', 'year 0 is out of range'),
 'signal:date:(2019, 4294967295, 0)': ('raise',
                                       'OverflowError',
                                       'Python int too large to convert to C int'),
 'signal:date:(10000, 1, 1)': ('raise', 'ValueError', 'year 10000 is out of range'),
 'signal:build': ('raise', 'KeyError'),
 'signal:build:parsed': ('raise', 'NotImplementedError'),
 'processed:chunk:1:0': (('ok', 'list'), 'c4962d48ffadd12efeaba9a3'),
 'processed:chunk:1:0:positions': ('ok', 'list', '[(0, 192, 0, 192)]'),
 'processed:chunk:1:0:adjusted': ('ok', 'list', '[(720, 912, 0, 912)]'),
 'processed:chunk:1:0:mismatch': ('raise',
                                  'ValueError',
                                  'sizes mismatch: chunksize is 0 but got 193 bytes'),
 'processed:file:1:0:1': (('ok', 'tuple'), '5292828f9cae50873f35b3b8'),
 'processed:file:1:0:1:requests': (2,
                                   'aa94e83bcad0a8bcf4ca4e61',
                                   [('read', 0, 720), ('read', 720, 192)]),
 'processed:file:1:0:1:positions': ('ok', 'list', '[(720, 912, 0, 912)]'),
 'processed:file:1:0:2': (('ok', 'tuple'), '5292828f9cae50873f35b3b8'),
 'processed:file:1:0:2:requests': (2,
                                   'aa94e83bcad0a8bcf4ca4e61',
                                   [('read', 0, 720), ('read', 720, 192)]),
 'processed:file:1:0:2:positions': ('ok', 'list', '[(720, 912, 0, 912)]'),
 'processed:file:1:0:1024': (('ok', 'tuple'), '5292828f9cae50873f35b3b8'),
 'processed:file:1:0:1024:requests': (2,
                                      'aa94e83bcad0a8bcf4ca4e61',
                                      [('read', 0, 720), ('read', 720, 192)]),
 'processed:file:1:0:1024:positions': ('ok', 'list', '[(720, 912, 0, 912)]'),
 'processed:chunk:1:40': (('ok', 'list'), 'ab25c59cd0602ee138586e1e'),
 'processed:chunk:1:40:positions': ('ok', 'list', '[(0, 192, 40, 232)]'),
 'processed:chunk:1:40:adjusted': ('ok', 'list', '[(720, 912, 40, 952)]'),
 'processed:chunk:1:40:mismatch': ('raise',
                                   'ValueError',
                                   'sizes mismatch: chunksize is 0 but got 233 bytes'),
 'processed:file:1:40:1': (('ok', 'tuple'), '6d6c6b97cfe025e693fc40ec'),
 'processed:file:1:40:1:requests': (2,
                                    'd56908cbbad6f9c9a4d30b0c',
                                    [('read', 0, 720), ('read', 720, 232)]),
 'processed:file:1:40:1:positions': ('ok', 'list', '[(720, 912, 40, 952)]'),
 'processed:file:1:40:2': (('ok', 'tuple'), '6d6c6b97cfe025e693fc40ec'),
 'processed:file:1:40:2:requests': (2,
                                    'd56908cbbad6f9c9a4d30b0c',
                                    [('read', 0, 720), ('read', 720, 232)]),
 'processed:file:1:40:2:positions': ('ok', 'list', '[(720, 912, 40, 952)]'),
 'processed:file:1:40:1024': (('ok', 'tuple'), '6d6c6b97cfe025e693fc40ec'),
 'processed:file:1:40:1024:requests': (2,
                                       'd56908cbbad6f9c9a4d30b0c',
                                       [('read', 0, 720), ('read', 720, 232)]),
 'processed:file:1:40:1024:positions': ('ok', 'list', '[(720, 912, 40, 952)]'),
 'processed:chunk:3:8': (('ok', 'list'), '988e64fb9f4a7fe5eb67db9d'),
 'processed:chunk:3:8:positions': ('ok',
                                   'list',
                                   '[(0, 192, 8, 200), (200, 392, 8, 400), (400, 592, 8, 600)]'),
 'processed:chunk:3:8:adjusted': ('ok',
                                  'list',
                                  '[(720, 912, 8, 920), (920, 1112, 8, 1120), (1120, 1312, 8, '
                                  '1320)]'),
 'processed:chunk:3:8:mismatch': ('raise',
                                  'ValueError',
                                  'sizes mismatch: chunksize is 404 but got 601 bytes'),
 'processed:file:3:8:1': (('ok', 'tuple'), '1d73990f6c70190da4d969b4'),
 'processed:file:3:8:1:requests': (4,
                                   '915d4539dbff858e241c74f6',
                                   [('read', 0, 720),
                                    ('read', 720, 200),
                                    ('read', 920, 200),
                                    ('read', 1120, 200)]),
 'processed:file:3:8:1:positions': ('ok',
                                    'list',
                                    '[(720, 912, 8, 920), (920, 1112, 8, 1120), (1120, 1312, 8, '
                                    '1320)]'),
 'processed:file:3:8:2': (('ok', 'tuple'), '1d73990f6c70190da4d969b4'),
 'processed:file:3:8:2:requests': (3,
                                   'f8e927a0aa1290bac204a680',
                                   [('read', 0, 720), ('read', 720, 400), ('read', 1120, 200)]),
 'processed:file:3:8:2:positions': ('ok',
                                    'list',
                                    '[(720, 912, 8, 920), (920, 1112, 8, 1120), (1120, 1312, 8, '
                                    '1320)]'),
 'processed:file:3:8:1024': (('ok', 'tuple'), '1d73990f6c70190da4d969b4'),
 'processed:file:3:8:1024:requests': (2,
                                      '93b98b44e9cd3d8523d28a54',
                                      [('read', 0, 720), ('read', 720, 600)]),
 'processed:file:3:8:1024:positions': ('ok',
                                       'list',
                                       '[(720, 912, 8, 920), (920, 1112, 8, 1120), (1120, 1312, 8, '
                                       '1320)]'),
 'processed:chunk:7:100': (('ok', 'list'), 'f6ce66f05715f0a08206fb17'),
 'processed:chunk:7:100:positions': ('ok',
                                     'list',
                                     '[(0, 192, 100, 292), (292, 484, 100, 584), (584, 776, 100, '
                                     '876), (876, 1068, 100, 1168), (1168, 1360, 100, 1460), '
                                     '(1460, 1652, 100, 1752), (1752, 1944, 100, 2044)]'),
 'processed:chunk:7:100:adjusted': ('ok',
                                    'list',
                                    '[(720, 912, 100, 1012), (1012, 1204, 100, 1304), (1304, 1496, '
                                    '100, 1596), (1596, 1788, 100, 1888), (1888, 2080, 100, 2180), '
                                    '(2180, 2372, 100, 2472), (2472, 2664, 100, 2764)]'),
 'processed:chunk:7:100:mismatch': ('raise',
                                    'ValueError',
                                    'sizes mismatch: chunksize is 1764 but got 2045 bytes'),
 'processed:file:7:100:1': (('ok', 'tuple'), 'e4b42cc124c420e8d4150035'),
 'processed:file:7:100:1:requests': (8,
                                     '31820bbc81a744c85b085076',
                                     [('read', 0, 720),
                                      ('read', 720, 292),
                                      ('read', 1012, 292),
                                      ('read', 1304, 292)]),
 'processed:file:7:100:1:positions': ('ok',
                                      'list',
                                      '[(720, 912, 100, 1012), (1012, 1204, 100, 1304), (1304, '
                                      '1496, 100, 1596), (1596, 1788, 100, 1888), (1888, 2080, '
                                      '100, 2180), (2180, 2372, 100, 2472), (2472, 2664, 100, '
                                      '2764)]'),
 'processed:file:7:100:2': (('ok', 'tuple'), 'e4b42cc124c420e8d4150035'),
 'processed:file:7:100:2:requests': (5,
                                     '83bfad1976ec9ca4871a001f',
                                     [('read', 0, 720),
                                      ('read', 720, 584),
                                      ('read', 1304, 584),
                                      ('read', 1888, 584)]),
 'processed:file:7:100:2:positions': ('ok',
                                      'list',
                                      '[(720, 912, 100, 1012), (1012, 1204, 100, 1304), (1304, '
                                      '1496, 100, 1596), (1596, 1788, 100, 1888), (1888, 2080, '
                                      '100, 2180), (2180, 2372, 100, 2472), (2472, 2664, 100, '
                                      '2764)]'),
 'processed:file:7:100:1024': (('ok', 'tuple'), 'e4b42cc124c420e8d4150035'),
 'processed:file:7:100:1024:requests': (2,
                                        '123cf451062b0ab5b12fe2a6',
                                        [('read', 0, 720), ('read', 720, 2044)]),
 'processed:file:7:100:1024:positions': ('ok',
                                         'list',
                                         '[(720, 912, 100, 1012), (1012, 1204, 100, 1304), (1304, '
                                         '1496, 100, 1596), (1596, 1788, 100, 1888), (1888, 2080, '
                                         '100, 2180), (2180, 2372, 100, 2472), (2472, 2664, 100, '
                                         '2764)]'),
 'processed:chunk:20:1': (('ok', 'list'), '7077a4bc30b742e980788676'),
 'processed:chunk:20:1:positions': ('ok',
                                    'list',
                                    '[(0, 192, 1, 193), (193, 385, 1, 386), (386, 578, 1, 579), '
                                    '(579, 771, 1, 772), (772, 964, 1, 965), (965, 1157, 1, 1158), '
                                    '(1158, 1350, 1, 1351), (1351, 1543, 1, 1544), (1544, 1736, 1, '
                                    '1737), (1737, 1929, 1, 1930), (1930, 2122, 1, 2123), (2123, '
                                    '2315, 1, 2316), (2316, 2508, 1, 2509), (2509, 2701, 1, 2702), '
                                    '(2702, 2894, 1, 2895), (2895, 3087, 1, 3088), (3088, 3280, 1, '
                                    '3281), (3281, 3473, 1, 3474), (3474, 3666, 1, 3667), (3667, '
                                    '3859, 1, 3860)]'),
 'processed:chunk:20:1:adjusted': ('ok',
                                   'list',
                                   '[(720, 912, 1, 913), (913, 1105, 1, 1106), (1106, 1298, 1, '
                                   '1299), (1299, 1491, 1, 1492), (1492, 1684, 1, 1685), (1685, '
                                   '1877, 1, 1878), (1878, 2070, 1, 2071), (2071, 2263, 1, 2264), '
                                   '(2264, 2456, 1, 2457), (2457, 2649, 1, 2650), (2650, 2842, 1, '
                                   '2843), (2843, 3035, 1, 3036), (3036, 3228, 1, 3229), (3229, '
                                   '3421, 1, 3422), (3422, 3614, 1, 3615), (3615, 3807, 1, 3808), '
                                   '(3808, 4000, 1, 4001), (4001, 4193, 1, 4194), (4194, 4386, 1, '
                                   '4387), (4387, 4579, 1, 4580)]'),
 'processed:chunk:20:1:mismatch': ('raise',
                                   'ValueError',
                                   'sizes mismatch: chunksize is 3705 but got 3861 bytes'),
 'processed:file:20:1:1': (('ok', 'tuple'), 'b3bdebf20160420fbc147c48'),
 'processed:file:20:1:1:requests': (21,
                                    '946aae264d529301e2170e29',
                                    [('read', 0, 720),
                                     ('read', 720, 193),
                                     ('read', 913, 193),
                                     ('read', 1106, 193)]),
 'processed:file:20:1:1:positions': ('ok',
                                     'list',
                                     '[(720, 912, 1, 913), (913, 1105, 1, 1106), (1106, 1298, 1, '
                                     '1299), (1299, 1491, 1, 1492), (1492, 1684, 1, 1685), (1685, '
                                     '1877, 1, 1878), (1878, 2070, 1, 2071), (2071, 2263, 1, '
                                     '2264), (2264, 2456, 1, 2457), (2457, 2649, 1, 2650), (2650, '
                                     '2842, 1, 2843), (2843, 3035, 1, 3036), (3036, 3228, 1, '
                                     '3229), (3229, 3421, 1, 3422), (3422, 3614, 1, 3615), (3615, '
                                     '3807, 1, 3808), (3808, 4000, 1, 4001), (4001, 4193, 1, '
                                     '4194), (4194, 4386, 1, 4387), (4387, 4579, 1, 4580)]'),
 'processed:file:20:1:2': (('ok', 'tuple'), 'b3bdebf20160420fbc147c48'),
 'processed:file:20:1:2:requests': (11,
                                    '5ce4ff5069c459ab75a2f489',
                                    [('read', 0, 720),
                                     ('read', 720, 386),
                                     ('read', 1106, 386),
                                     ('read', 1492, 386)]),
 'processed:file:20:1:2:positions': ('ok',
                                     'list',
                                     '[(720, 912, 1, 913), (913, 1105, 1, 1106), (1106, 1298, 1, '
                                     '1299), (1299, 1491, 1, 1492), (1492, 1684, 1, 1685), (1685, '
                                     '1877, 1, 1878), (1878, 2070, 1, 2071), (2071, 2263, 1, '
                                     '2264), (2264, 2456, 1, 2457), (2457, 2649, 1, 2650), (2650, '
                                     '2842, 1, 2843), (2843, 3035, 1, 3036), (3036, 3228, 1, '
                                     '3229), (3229, 3421, 1, 3422), (3422, 3614, 1, 3615), (3615, '
                                     '3807, 1, 3808), (3808, 4000, 1, 4001), (4001, 4193, 1, '
                                     '4194), (4194, 4386, 1, 4387), (4387, 4579, 1, 4580)]'),
 'processed:file:20:1:1024': (('ok', 'tuple'), 'b3bdebf20160420fbc147c48'),
 'processed:file:20:1:1024:requests': (2,
                                       '95104da972394485e2cc0ddf',
                                       [('read', 0, 720), ('read', 720, 3860)]),
 'processed:file:20:1:1024:positions': ('ok',
                                        'list',
                                        '[(720, 912, 1, 913), (913, 1105, 1, 1106), (1106, 1298, '
                                        '1, 1299), (1299, 1491, 1, 1492), (1492, 1684, 1, 1685), '
                                        '(1685, 1877, 1, 1878), (1878, 2070, 1, 2071), (2071, '
                                        '2263, 1, 2264), (2264, 2456, 1, 2457), (2457, 2649, 1, '
                                        '2650), (2650, 2842, 1, 2843), (2843, 3035, 1, 3036), '
                                        '(3036, 3228, 1, 3229), (3229, 3421, 1, 3422), (3422, '
                                        '3614, 1, 3615), (3615, 3807, 1, 3808), (3808, 4000, 1, '
                                        '4001), (4001, 4193, 1, 4194), (4194, 4386, 1, 4387), '
                                        '(4387, 4579, 1, 4580)]'),
 'processed:chunk:overlapping': ('raise',
                                 'OverflowError',
                                 'signed integer is greater than maximum'),
 'processed:chunk:overlapping:3x': ('raise', 'OverflowError'),
 'signal:chunk:1:0': (('ok', 'list'), '3d38d315a2075ee1179565fb'),
 'signal:chunk:1:0:positions': ('ok', 'list', '[(0, 544, 0, 544)]'),
 'signal:chunk:1:0:adjusted': ('ok', 'list', '[(720, 1264, 0, 1264)]'),
 'signal:chunk:1:0:mismatch': ('raise',
                               'ValueError',
                               'sizes mismatch: chunksize is 0 but got 545 bytes'),
 'signal:file:1:0:1': (('ok', 'tuple'), 'd3a9dfc4d8989f517f4f2f75'),
 'signal:file:1:0:1:requests': (2,
                                '52548719216d4052e64a011f',
                                [('read', 0, 720), ('read', 720, 544)]),
 'signal:file:1:0:1:positions': ('ok', 'list', '[(720, 1264, 0, 1264)]'),
 'signal:file:1:0:2': (('ok', 'tuple'), 'd3a9dfc4d8989f517f4f2f75'),
 'signal:file:1:0:2:requests': (2,
                                '52548719216d4052e64a011f',
                                [('read', 0, 720), ('read', 720, 544)]),
 'signal:file:1:0:2:positions': ('ok', 'list', '[(720, 1264, 0, 1264)]'),
 'signal:file:1:0:1024': (('ok', 'tuple'), 'd3a9dfc4d8989f517f4f2f75'),
 'signal:file:1:0:1024:requests': (2,
                                   '52548719216d4052e64a011f',
                                   [('read', 0, 720), ('read', 720, 544)]),
 'signal:file:1:0:1024:positions': ('ok', 'list', '[(720, 1264, 0, 1264)]'),
 'signal:chunk:1:40': (('ok', 'list'), 'cc322fee5b983ddb247d8260'),
 'signal:chunk:1:40:positions': ('ok', 'list', '[(0, 544, 40, 584)]'),
 'signal:chunk:1:40:adjusted': ('ok', 'list', '[(720, 1264, 40, 1304)]'),
 'signal:chunk:1:40:mismatch': ('raise',
                                'ValueError',
                                'sizes mismatch: chunksize is 0 but got 585 bytes'),
 'signal:file:1:40:1': (('ok', 'tuple'), '72054f7f639e98c0dce1f5df'),
 'signal:file:1:40:1:requests': (2,
                                 '46514f931d8311e826de0ebe',
                                 [('read', 0, 720), ('read', 720, 584)]),
 'signal:file:1:40:1:positions': ('ok', 'list', '[(720, 1264, 40, 1304)]'),
 'signal:file:1:40:2': (('ok', 'tuple'), '72054f7f639e98c0dce1f5df'),
 'signal:file:1:40:2:requests': (2,
                                 '46514f931d8311e826de0ebe',
                                 [('read', 0, 720), ('read', 720, 584)]),
 'signal:file:1:40:2:positions': ('ok', 'list', '[(720, 1264, 40, 1304)]'),
 'signal:file:1:40:1024': (('ok', 'tuple'), '72054f7f639e98c0dce1f5df'),
 'signal:file:1:40:1024:requests': (2,
                                    '46514f931d8311e826de0ebe',
                                    [('read', 0, 720), ('read', 720, 584)]),
 'signal:file:1:40:1024:positions': ('ok', 'list', '[(720, 1264, 40, 1304)]'),
 'signal:chunk:3:8': (('ok', 'list'), '426666a46fa3747be60d4f2c'),
 'signal:chunk:3:8:positions': ('ok',
                                'list',
                                '[(0, 544, 8, 552), (552, 1096, 8, 1104), (1104, 1648, 8, 1656)]'),
 'signal:chunk:3:8:adjusted': ('ok',
                               'list',
                               '[(720, 1264, 8, 1272), (1272, 1816, 8, 1824), (1824, 2368, 8, '
                               '2376)]'),
 'signal:chunk:3:8:mismatch': ('raise',
                               'ValueError',
                               'sizes mismatch: chunksize is 1108 but got 1657 bytes'),
 'signal:file:3:8:1': (('ok', 'tuple'), 'cd43e042aee476d767780edf'),
 'signal:file:3:8:1:requests': (4,
                                'd4452ec516b0b66fc8b4b640',
                                [('read', 0, 720),
                                 ('read', 720, 552),
                                 ('read', 1272, 552),
                                 ('read', 1824, 552)]),
 'signal:file:3:8:1:positions': ('ok',
                                 'list',
                                 '[(720, 1264, 8, 1272), (1272, 1816, 8, 1824), (1824, 2368, 8, '
                                 '2376)]'),
 'signal:file:3:8:2': (('ok', 'tuple'), 'cd43e042aee476d767780edf'),
 'signal:file:3:8:2:requests': (3,
                                '337fea77ed39f6e586636afd',
                                [('read', 0, 720), ('read', 720, 1104), ('read', 1824, 552)]),
 'signal:file:3:8:2:positions': ('ok',
                                 'list',
                                 '[(720, 1264, 8, 1272), (1272, 1816, 8, 1824), (1824, 2368, 8, '
                                 '2376)]'),
 'signal:file:3:8:1024': (('ok', 'tuple'), 'cd43e042aee476d767780edf'),
 'signal:file:3:8:1024:requests': (2,
                                   '02b08cf0a810cb5a107832c5',
                                   [('read', 0, 720), ('read', 720, 1656)]),
 'signal:file:3:8:1024:positions': ('ok',
                                    'list',
                                    '[(720, 1264, 8, 1272), (1272, 1816, 8, 1824), (1824, 2368, 8, '
                                    '2376)]'),
 'signal:chunk:7:100': (('ok', 'list'), '4445f24a2326b5a6550f8bf8'),
 'signal:chunk:7:100:positions': ('ok',
                                  'list',
                                  '[(0, 544, 100, 644), (644, 1188, 100, 1288), (1288, 1832, 100, '
                                  '1932), (1932, 2476, 100, 2576), (2576, 3120, 100, 3220), (3220, '
                                  '3764, 100, 3864), (3864, 4408, 100, 4508)]'),
 'signal:chunk:7:100:adjusted': ('ok',
                                 'list',
                                 '[(720, 1264, 100, 1364), (1364, 1908, 100, 2008), (2008, 2552, '
                                 '100, 2652), (2652, 3196, 100, 3296), (3296, 3840, 100, 3940), '
                                 '(3940, 4484, 100, 4584), (4584, 5128, 100, 5228)]'),
 'signal:chunk:7:100:mismatch': ('raise',
                                 'ValueError',
                                 'sizes mismatch: chunksize is 3876 but got 4509 bytes'),
 'signal:file:7:100:1': (('ok', 'tuple'), '4e5534169653614ba607a818'),
 'signal:file:7:100:1:requests': (8,
                                  'e3334c0e89e786a99fa01b4a',
                                  [('read', 0, 720),
                                   ('read', 720, 644),
                                   ('read', 1364, 644),
                                   ('read', 2008, 644)]),
 'signal:file:7:100:1:positions': ('ok',
                                   'list',
                                   '[(720, 1264, 100, 1364), (1364, 1908, 100, 2008), (2008, 2552, '
                                   '100, 2652), (2652, 3196, 100, 3296), (3296, 3840, 100, 3940), '
                                   '(3940, 4484, 100, 4584), (4584, 5128, 100, 5228)]'),
 'signal:file:7:100:2': (('ok', 'tuple'), '4e5534169653614ba607a818'),
 'signal:file:7:100:2:requests': (5,
                                  'a70d03e8b6df3a33ef816481',
                                  [('read', 0, 720),
                                   ('read', 720, 1288),
                                   ('read', 2008, 1288),
                                   ('read', 3296, 1288)]),
 'signal:file:7:100:2:positions': ('ok',
                                   'list',
                                   '[(720, 1264, 100, 1364), (1364, 1908, 100, 2008), (2008, 2552, '
                                   '100, 2652), (2652, 3196, 100, 3296), (3296, 3840, 100, 3940), '
                                   '(3940, 4484, 100, 4584), (4584, 5128, 100, 5228)]'),
 'signal:file:7:100:1024': (('ok', 'tuple'), '4e5534169653614ba607a818'),
 'signal:file:7:100:1024:requests': (2,
                                     'bec28e90657129303a6a3420',
                                     [('read', 0, 720), ('read', 720, 4508)]),
 'signal:file:7:100:1024:positions': ('ok',
                                      'list',
                                      '[(720, 1264, 100, 1364), (1364, 1908, 100, 2008), (2008, '
                                      '2552, 100, 2652), (2652, 3196, 100, 3296), (3296, 3840, '
                                      '100, 3940), (3940, 4484, 100, 4584), (4584, 5128, 100, '
                                      '5228)]'),
 'signal:chunk:20:1': (('ok', 'list'), '9407fb16936737a4ca7bfa7b'),
 'signal:chunk:20:1:positions': ('ok',
                                 'list',
                                 '[(0, 544, 1, 545), (545, 1089, 1, 1090), (1090, 1634, 1, 1635), '
                                 '(1635, 2179, 1, 2180), (2180, 2724, 1, 2725), (2725, 3269, 1, '
                                 '3270), (3270, 3814, 1, 3815), (3815, 4359, 1, 4360), (4360, '
                                 '4904, 1, 4905), (4905, 5449, 1, 5450), (5450, 5994, 1, 5995), '
                                 '(5995, 6539, 1, 6540), (6540, 7084, 1, 7085), (7085, 7629, 1, '
                                 '7630), (7630, 8174, 1, 8175), (8175, 8719, 1, 8720), (8720, '
                                 '9264, 1, 9265), (9265, 9809, 1, 9810), (9810, 10354, 1, 10355), '
                                 '(10355, 10899, 1, 10900)]'),
 'signal:chunk:20:1:adjusted': ('ok',
                                'list',
                                '[(720, 1264, 1, 1265), (1265, 1809, 1, 1810), (1810, 2354, 1, '
                                '2355), (2355, 2899, 1, 2900), (2900, 3444, 1, 3445), (3445, 3989, '
                                '1, 3990), (3990, 4534, 1, 4535), (4535, 5079, 1, 5080), (5080, '
                                '5624, 1, 5625), (5625, 6169, 1, 6170), (6170, 6714, 1, 6715), '
                                '(6715, 7259, 1, 7260), (7260, 7804, 1, 7805), (7805, 8349, 1, '
                                '8350), (8350, 8894, 1, 8895), (8895, 9439, 1, 9440), (9440, 9984, '
                                '1, 9985), (9985, 10529, 1, 10530), (10530, 11074, 1, 11075), '
                                '(11075, 11619, 1, 11620)]'),
 'signal:chunk:20:1:mismatch': ('raise',
                                'ValueError',
                                'sizes mismatch: chunksize is 10393 but got 10901 bytes'),
 'signal:file:20:1:1': (('ok', 'tuple'), 'c32593e0e3434a2b381b50aa'),
 'signal:file:20:1:1:requests': (21,
                                 'c9f9e0dff6d7723a246b8a7d',
                                 [('read', 0, 720),
                                  ('read', 720, 545),
                                  ('read', 1265, 545),
                                  ('read', 1810, 545)]),
 'signal:file:20:1:1:positions': ('ok',
                                  'list',
                                  '[(720, 1264, 1, 1265), (1265, 1809, 1, 1810), (1810, 2354, 1, '
                                  '2355), (2355, 2899, 1, 2900), (2900, 3444, 1, 3445), (3445, '
                                  '3989, 1, 3990), (3990, 4534, 1, 4535), (4535, 5079, 1, 5080), '
                                  '(5080, 5624, 1, 5625), (5625, 6169, 1, 6170), (6170, 6714, 1, '
                                  '6715), (6715, 7259, 1, 7260), (7260, 7804, 1, 7805), (7805, '
                                  '8349, 1, 8350), (8350, 8894, 1, 8895), (8895, 9439, 1, 9440), '
                                  '(9440, 9984, 1, 9985), (9985, 10529, 1, 10530), (10530, 11074, '
                                  '1, 11075), (11075, 11619, 1, 11620)]'),
 'signal:file:20:1:2': (('ok', 'tuple'), 'c32593e0e3434a2b381b50aa'),
 'signal:file:20:1:2:requests': (11,
                                 '126056322e122a236b5b9db9',
                                 [('read', 0, 720),
                                  ('read', 720, 1090),
                                  ('read', 1810, 1090),
                                  ('read', 2900, 1090)]),
 'signal:file:20:1:2:positions': ('ok',
                                  'list',
                                  '[(720, 1264, 1, 1265), (1265, 1809, 1, 1810), (1810, 2354, 1, '
                                  '2355), (2355, 2899, 1, 2900), (2900, 3444, 1, 3445), (3445, '
                                  '3989, 1, 3990), (3990, 4534, 1, 4535), (4535, 5079, 1, 5080), '
                                  '(5080, 5624, 1, 5625), (5625, 6169, 1, 6170), (6170, 6714, 1, '
                                  '6715), (6715, 7259, 1, 7260), (7260, 7804, 1, 7805), (7805, '
                                  '8349, 1, 8350), (8350, 8894, 1, 8895), (8895, 9439, 1, 9440), '
                                  '(9440, 9984, 1, 9985), (9985, 10529, 1, 10530), (10530, 11074, '
                                  '1, 11075), (11075, 11619, 1, 11620)]'),
 'signal:file:20:1:1024': (('ok', 'tuple'), 'c32593e0e3434a2b381b50aa'),
 'signal:file:20:1:1024:requests': (2,
                                    '88b28c7139ef792422fde1b9',
                                    [('read', 0, 720), ('read', 720, 10900)]),
 'signal:file:20:1:1024:positions': ('ok',
                                     'list',
                                     '[(720, 1264, 1, 1265), (1265, 1809, 1, 1810), (1810, 2354, '
                                     '1, 2355), (2355, 2899, 1, 2900), (2900, 3444, 1, 3445), '
                                     '(3445, 3989, 1, 3990), (3990, 4534, 1, 4535), (4535, 5079, '
                                     '1, 5080), (5080, 5624, 1, 5625), (5625, 6169, 1, 6170), '
                                     '(6170, 6714, 1, 6715), (6715, 7259, 1, 7260), (7260, 7804, '
                                     '1, 7805), (7805, 8349, 1, 8350), (8350, 8894, 1, 8895), '
                                     '(8895, 9439, 1, 9440), (9440, 9984, 1, 9985), (9985, 10529, '
                                     '1, 10530), (10530, 11074, 1, 11075), (11075, 11619, 1, '
                                     '11620)]'),
 'signal:chunk:overlapping': ('raise', 'OverflowError', 'signed integer is greater than maximum'),
 'signal:chunk:overlapping:3x': ('raise', 'OverflowError')}


def test_equivalence():
    actual = observe()
    assert list(actual) == list(EXPECTED)
    for key, value in actual.items():
        assert value == EXPECTED[key], key


if __name__ == "__main__":
    if "--record" in sys.argv:
        pprint.pprint(observe(), width=100, sort_dicts=False)
    else:
        test_equivalence()
        print(f"ok: {len(EXPECTED)} observations identical")
