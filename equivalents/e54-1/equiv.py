"""Equivalence check for refactoring 1 (summary parsing moved / split into helpers).

Run as

    cd /tmp/wt7/e54 && PYTHONPATH=/tmp/wt7/e54 /venv/bin/python _eq/1/equiv.py

(or through pytest).  ``EXPECTED`` was recorded from the UNCHANGED code with
``python _eq/1/equiv.py --record``; the script has to pass with and without the patch.
"""

import pprint
import sys

import fsspec

from ceos_alos2 import summary
from ceos_alos2.hierarchy import Group

try:
    ExceptionGroup
except NameError:  # pragma: no cover
    from exceptiongroup import ExceptionGroup


def norm(obj):
    if isinstance(obj, Group):
        return (
            "Group",
            obj.path,
            obj.url,
            [(k, norm(v)) for k, v in obj.data.items()],
            norm(obj.attrs),
        )
    if isinstance(obj, dict):
        return (type(obj).__name__, [(norm(k), norm(v)) for k, v in obj.items()])
    if isinstance(obj, (list, tuple)):
        return (type(obj).__name__, [norm(v) for v in obj])
    if type(obj) is str:
        return obj
    return (type(obj).__name__, repr(obj))


def norm_exc(e):
    result = ["raises", type(e).__name__, repr(e.args)]
    if isinstance(e, ExceptionGroup):
        result.append(e.message)
        result.append([norm_exc(sub) for sub in e.exceptions])
    if e.__cause__ is not None or e.__context__ is not None:
        result.append(("cause", repr(e.__cause__), "context", repr(e.__context__)))
    return tuple(result)


def run(func, *args, **kwargs):
    try:
        return norm(func(*args, **kwargs))
    except BaseException as e:  # noqa: B902
        return norm_exc(e)


class RecordingMapper:
    """minimal mapper: records every request, raises KeyError for missing keys"""

    def __init__(self, content, root="memory:///some/root"):
        self.content = content
        self.root = root
        self.requests = []

    def __getitem__(self, key):
        self.requests.append(key)
        return self.content[key]


lines = [
    'Scs_SceneShift="0"',
    'Pds_ProductID="WWDR1.1__D"',
    "",
    " ",
    'Scs_SceneShift"0"',
    'PdsProductID="WWDR1.1__D"',
    'Sc_SceneShift="0"',
    'Scs1_SceneShift="0"',
    'Sc1_SceneShift="0"',
    'Scs_="0"',
    'Scs_A=""',
    'Scs_A="',
    'Scs_A="a"b"',
    'Scs_A="a" ',
    ' Scs_A="a"',
    'Scs_A_B="a=b"',
    'Scs_A="1"Scs_B="2"',
    'SCS_X="y"',
    'scs_X="y"',
    'Scs_Ä="ü"',
    'Äcs_A="1"',
    'Scs_A="a\tb"',
    'Scs_A="a\rb"',
    'Scs__="_"',
    'Scs_"="="',
]

contents = {
    "empty": "",
    "newline_only": "\n",
    "valid_lines": 'Scs_SceneShift="0"\nPds_ProductID="WWDR1.1__D"',
    "trailing_newline": 'Scs_SceneShift="0"\nPds_ProductID="WWDR1.1__D"\n',
    "crlf": 'Scs_SceneShift="0"\r\nPds_ProductID="WWDR1.1__D"\r\n',
    "other_linebreaks": 'Scs_A="0"\x0cPds_B="1"\x1cOdi_C="2" Img_D="3"\x85Ach_E="4"\vRad_F="5"',
    "blank_line_in_the_middle": 'Scs_SceneShift="0"\n\nPds_ProductID="WWDR1.1__D"',
    "invalid_lines": 'Scs_SceneShift"0"\nPdsProductID="WWDR1.1__D"',
    "mixed_validity": 'Scs_A="1"\nbroken\nPds_B="2"\n\nLbi_C="3"\nnope="x"',
    "many_invalid": (
        "\n".join(f"bad{i}" for i in range(12))
        + "\n"
        + "\n".join(f'Scs_K{i}="{i}"' for i in range(87))
        + "\nx\n\ny"
    ),
    "interleaved_sections": 'Scs_A="1"\nPds_B="2"\nScs_C="3"\nOdi_D="4"\nPds_E="5"\nScs_F="6"',
    "duplicate_keywords": 'Scs_A="1"\nScs_B="2"\nScs_A="3"\nPds_A="4"',
    "case_variants": 'Scs_A="1"\nSCS_B="2"\nscs_C="3"\nPds_D="4"\nsCS_A="5"',
    "case_variants_reordered": 'Pds_D="4"\nSCS_B="2"\nScs_A="1"\nPDS_E="5"',
    "unknown_sections": 'Xyz_A="1"\nabc_B="2"\nXyz_C="3"',
    "empty_keyword_and_value": 'Scs_=""\nScs_A=""\nScs_=""',
    "keyword_with_underscores": 'Ach_PRF_Check=""\nPdi_NoOfPixels_1=" 9196"',
    "quotes_in_value": 'Scs_A="a"b"\nScs_B="="',
    "full": "\n".join(
        [
            'Odi_SceneId="SARD000000276461-00043-005-000"',
            'Odi_SiteDateTime="20191011 14:43:15"',
            'Scs_SceneID="ALOS2290760600-191011"',
            'Scs_SceneShift="0"',
            'Pds_ProductID="WWDR1.1__D"',
            'Pds_ResamplingMethod="NN"',
            'Pds_UTM_ZoneNo="53"',
            'Pds_PixelSpacing="25.000000"',
            'Img_SceneCenterDateTime="20191011 14:43:15.525"',
            'Img_OffNadirAngle="21.3"',
            'Pdi_CntOfL11ProductFileName="5"',
            'Pdi_L11ProductFileName01="VOL-ALOS2290760600-191011-WWDR1.1__D"',
            'Pdi_L11ProductFileName02="LED-ALOS2290760600-191011-WWDR1.1__D"',
            'Pdi_L11ProductFileName03="IMG-HH-ALOS2290760600-191011-WWDR1.1__D-F1"',
            'Pdi_L11ProductFileName04="IMG-HV-ALOS2290760600-191011-WWDR1.1__D-F1"',
            'Pdi_L11ProductFileName05="TRL-ALOS2290760600-191011-WWDR1.1__D"',
            'Pdi_NoOfPixels_1=" 9196"',
            'Pdi_NoOfLines_1="60568"',
            'Pdi_ProductDataSize="798.2"',
            'Pdi_ProductFormat="CEOS"',
            'Pdi_BitPixel="16"',
            'Ach_PRF_Check=""',
            'Ach_TimeCheck="GOOD"',
            'Rad_PracticeResultCode="GOOD"',
            'Lbi_Sensor="SAR"',
            'Lbi_ObservationDate="20191011"',
            'Lbi_ProcessFacility="SCMO"',
        ]
    ),
}


def run_with_lineno(exc, lineno):
    original = exc
    try:
        result = summary.with_lineno(exc, lineno)
    except BaseException as e:  # noqa: B902
        return norm_exc(e)
    return (result is original, norm_exc(result))


def run_open_summary(content, path, root="memory:///some/root"):
    mapper = RecordingMapper(content, root=root)
    result = run(summary.open_summary, mapper, path)
    return (result, mapper.requests)


def run_open_summary_fsspec(path):
    fs = fsspec.filesystem("memory")
    fs.store.clear()
    mapper = fsspec.get_mapper("memory://eq1/root")
    mapper["summary.txt"] = contents["full"].encode()
    mapper["broken.txt"] = contents["mixed_validity"].encode()
    mapper["latin1.txt"] = 'Scs_A="\xe4"'.encode("latin-1")
    try:
        return run(summary.open_summary, mapper, path)
    finally:
        fs.store.clear()


def collect():
    results = {}

    for index, line in enumerate(lines):
        results[f"parse_line-{index:02d}"] = run(summary.parse_line, line)
    results["parse_line-bytes"] = run(summary.parse_line, b'Scs_A="1"')
    results["parse_line-none"] = run(summary.parse_line, None)

    match = summary.entry_re.fullmatch('Abc_Def_Ghi="j"')
    results["entry_re"] = (
        summary.entry_re.pattern,
        summary.entry_re.flags,
        norm(match.groupdict()),
    )

    results["with_lineno-simple"] = run_with_lineno(ValueError("invalid line"), 0)
    results["with_lineno-two_digits"] = run_with_lineno(ValueError("invalid line"), 17)
    results["with_lineno-three_digits"] = run_with_lineno(ValueError("invalid line"), 123)
    results["with_lineno-more_args"] = run_with_lineno(ValueError("msg", 1, "b"), 3)
    results["with_lineno-non_string"] = run_with_lineno(KeyError(("a", 1)), 5)
    results["with_lineno-no_args"] = run_with_lineno(ValueError(), 5)
    results["with_lineno-str_lineno"] = run_with_lineno(ValueError("a"), "x")

    for name, content in contents.items():
        results[f"parse_summary-{name}"] = run(summary.parse_summary, content)
    results["parse_summary-bytes"] = run(summary.parse_summary, b'Scs_A="1"')
    results["parse_summary-none"] = run(summary.parse_summary, None)

    files = {name + ".txt": content.encode() for name, content in contents.items()}
    files["not_utf8.txt"] = b'Scs_A="\xff"'
    files["string.txt"] = 'Scs_A="1"'
    for name in [
        "valid_lines",
        "crlf",
        "invalid_lines",
        "mixed_validity",
        "interleaved_sections",
        "case_variants",
        "unknown_sections",
        "full",
        "empty",
        "not_utf8",
        "string",
        "missing",
    ]:
        results[f"open_summary-{name}"] = run_open_summary(files, name + ".txt")
    results["open_summary-other_root"] = run_open_summary(files, "nope.txt", root="s3://bucket/x")

    for path in ["summary.txt", "broken.txt", "latin1.txt", "missing.txt"]:
        results[f"open_summary_fsspec-{path}"] = run_open_summary_fsspec(path)

    # the names stay importable from where they were
    results["names"] = sorted(
        name
        for name in ["entry_re", "parse_line", "with_lineno", "parse_summary", "section_names"]
        if hasattr(summary, name)
    )

    return results


EXPECTED = {'parse_line-00': ('dict', [('section', 'Scs'), ('keyword', 'SceneShift'), ('value', '0')]),
 'parse_line-01': ('dict', [('section', 'Pds'), ('keyword', 'ProductID'), ('value', 'WWDR1.1__D')]),
 'parse_line-02': ('raises', 'ValueError', "('invalid line',)"),
 'parse_line-03': ('raises', 'ValueError', "('invalid line',)"),
 'parse_line-04': ('raises', 'ValueError', "('invalid line',)"),
 'parse_line-05': ('raises', 'ValueError', "('invalid line',)"),
 'parse_line-06': ('raises', 'ValueError', "('invalid line',)"),
 'parse_line-07': ('raises', 'ValueError', "('invalid line',)"),
 'parse_line-08': ('raises', 'ValueError', "('invalid line',)"),
 'parse_line-09': ('dict', [('section', 'Scs'), ('keyword', ''), ('value', '0')]),
 'parse_line-10': ('dict', [('section', 'Scs'), ('keyword', 'A'), ('value', '')]),
 'parse_line-11': ('raises', 'ValueError', "('invalid line',)"),
 'parse_line-12': ('dict', [('section', 'Scs'), ('keyword', 'A'), ('value', 'a"b')]),
 'parse_line-13': ('raises', 'ValueError', "('invalid line',)"),
 'parse_line-14': ('raises', 'ValueError', "('invalid line',)"),
 'parse_line-15': ('dict', [('section', 'Scs'), ('keyword', 'A_B'), ('value', 'a=b')]),
 'parse_line-16': ('dict', [('section', 'Scs'), ('keyword', 'A'), ('value', '1"Scs_B="2')]),
 'parse_line-17': ('dict', [('section', 'SCS'), ('keyword', 'X'), ('value', 'y')]),
 'parse_line-18': ('dict', [('section', 'scs'), ('keyword', 'X'), ('value', 'y')]),
 'parse_line-19': ('dict', [('section', 'Scs'), ('keyword', 'Ä'), ('value', 'ü')]),
 'parse_line-20': ('raises', 'ValueError', "('invalid line',)"),
 'parse_line-21': ('dict', [('section', 'Scs'), ('keyword', 'A'), ('value', 'a\tb')]),
 'parse_line-22': ('dict', [('section', 'Scs'), ('keyword', 'A'), ('value', 'a\rb')]),
 'parse_line-23': ('dict', [('section', 'Scs'), ('keyword', '_'), ('value', '_')]),
 'parse_line-24': ('dict', [('section', 'Scs'), ('keyword', '"'), ('value', '=')]),
 'parse_line-bytes': ('raises',
                      'TypeError',
                      "('cannot use a string pattern on a bytes-like object',)"),
 'parse_line-none': ('raises',
                     'TypeError',
                     '("expected string or bytes-like object, got \'NoneType\'",)'),
 'entry_re': ('(?P<section>[A-Za-z]{3})_(?P<keyword>.*?)="(?P<value>.*?)"',
              32,
              ('dict', [('section', 'Abc'), ('keyword', 'Def_Ghi'), ('value', 'j')])),
 'with_lineno-simple': (True, ('raises', 'ValueError', "('line 00: invalid line',)")),
 'with_lineno-two_digits': (True, ('raises', 'ValueError', "('line 17: invalid line',)")),
 'with_lineno-three_digits': (True, ('raises', 'ValueError', "('line 123: invalid line',)")),
 'with_lineno-more_args': (True, ('raises', 'ValueError', "('line 03: msg', 1, 'b')")),
 'with_lineno-non_string': (True, ('raises', 'KeyError', '("line 05: (\'a\', 1)",)')),
 'with_lineno-no_args': ('raises', 'IndexError', "('tuple index out of range',)"),
 'with_lineno-str_lineno': ('raises',
                            'ValueError',
                            '("Unknown format code \'d\' for object of type \'str\'",)'),
 'parse_summary-empty': ('dict', []),
 'parse_summary-newline_only': ('raises',
                                'ExceptionGroup',
                                "('failed to parse the summary', [ValueError('line 00: invalid "
                                "line')])",
                                'failed to parse the summary',
                                [('raises', 'ValueError', "('line 00: invalid line',)")]),
 'parse_summary-valid_lines': ('dict',
                               [('scs', ('dict', [('SceneShift', '0')])),
                                ('pds', ('dict', [('ProductID', 'WWDR1.1__D')]))]),
 'parse_summary-trailing_newline': ('dict',
                                    [('scs', ('dict', [('SceneShift', '0')])),
                                     ('pds', ('dict', [('ProductID', 'WWDR1.1__D')]))]),
 'parse_summary-crlf': ('dict',
                        [('scs', ('dict', [('SceneShift', '0')])),
                         ('pds', ('dict', [('ProductID', 'WWDR1.1__D')]))]),
 'parse_summary-other_linebreaks': ('dict',
                                    [('scs', ('dict', [('A', '0')])),
                                     ('pds', ('dict', [('B', '1')])),
                                     ('odi', ('dict', [('C', '2')])),
                                     ('img', ('dict', [('D', '3')])),
                                     ('ach', ('dict', [('E', '4')])),
                                     ('rad', ('dict', [('F', '5')]))]),
 'parse_summary-blank_line_in_the_middle': ('raises',
                                            'ExceptionGroup',
                                            "('failed to parse the summary', [ValueError('line 01: "
                                            "invalid line')])",
                                            'failed to parse the summary',
                                            [('raises',
                                              'ValueError',
                                              "('line 01: invalid line',)")]),
 'parse_summary-invalid_lines': ('raises',
                                 'ExceptionGroup',
                                 "('failed to parse the summary', [ValueError('line 00: invalid "
                                 "line'), ValueError('line 01: invalid line')])",
                                 'failed to parse the summary',
                                 [('raises', 'ValueError', "('line 00: invalid line',)"),
                                  ('raises', 'ValueError', "('line 01: invalid line',)")]),
 'parse_summary-mixed_validity': ('raises',
                                  'ExceptionGroup',
                                  "('failed to parse the summary', [ValueError('line 01: invalid "
                                  "line'), ValueError('line 03: invalid line'), ValueError('line "
                                  "05: invalid line')])",
                                  'failed to parse the summary',
                                  [('raises', 'ValueError', "('line 01: invalid line',)"),
                                   ('raises', 'ValueError', "('line 03: invalid line',)"),
                                   ('raises', 'ValueError', "('line 05: invalid line',)")]),
 'parse_summary-many_invalid': ('raises',
                                'ExceptionGroup',
                                "('failed to parse the summary', [ValueError('line 00: invalid "
                                "line'), ValueError('line 01: invalid line'), ValueError('line 02: "
                                "invalid line'), ValueError('line 03: invalid line'), "
                                "ValueError('line 04: invalid line'), ValueError('line 05: invalid "
                                "line'), ValueError('line 06: invalid line'), ValueError('line 07: "
                                "invalid line'), ValueError('line 08: invalid line'), "
                                "ValueError('line 09: invalid line'), ValueError('line 10: invalid "
                                "line'), ValueError('line 11: invalid line'), ValueError('line 99: "
                                "invalid line'), ValueError('line 100: invalid line'), "
                                "ValueError('line 101: invalid line')])",
                                'failed to parse the summary',
                                [('raises', 'ValueError', "('line 00: invalid line',)"),
                                 ('raises', 'ValueError', "('line 01: invalid line',)"),
                                 ('raises', 'ValueError', "('line 02: invalid line',)"),
                                 ('raises', 'ValueError', "('line 03: invalid line',)"),
                                 ('raises', 'ValueError', "('line 04: invalid line',)"),
                                 ('raises', 'ValueError', "('line 05: invalid line',)"),
                                 ('raises', 'ValueError', "('line 06: invalid line',)"),
                                 ('raises', 'ValueError', "('line 07: invalid line',)"),
                                 ('raises', 'ValueError', "('line 08: invalid line',)"),
                                 ('raises', 'ValueError', "('line 09: invalid line',)"),
                                 ('raises', 'ValueError', "('line 10: invalid line',)"),
                                 ('raises', 'ValueError', "('line 11: invalid line',)"),
                                 ('raises', 'ValueError', "('line 99: invalid line',)"),
                                 ('raises', 'ValueError', "('line 100: invalid line',)"),
                                 ('raises', 'ValueError', "('line 101: invalid line',)")]),
 'parse_summary-interleaved_sections': ('dict',
                                        [('scs', ('dict', [('A', '1'), ('C', '3'), ('F', '6')])),
                                         ('pds', ('dict', [('B', '2'), ('E', '5')])),
                                         ('odi', ('dict', [('D', '4')]))]),
 'parse_summary-duplicate_keywords': ('dict',
                                      [('scs', ('dict', [('A', '3'), ('B', '2')])),
                                       ('pds', ('dict', [('A', '4')]))]),
 'parse_summary-case_variants': ('dict',
                                 [('scs', ('dict', [('A', '5')])),
                                  ('pds', ('dict', [('D', '4')]))]),
 'parse_summary-case_variants_reordered': ('dict',
                                           [('pds', ('dict', [('E', '5')])),
                                            ('scs', ('dict', [('A', '1')]))]),
 'parse_summary-unknown_sections': ('dict',
                                    [('xyz', ('dict', [('A', '1'), ('C', '3')])),
                                     ('abc', ('dict', [('B', '2')]))]),
 'parse_summary-empty_keyword_and_value': ('dict', [('scs', ('dict', [('', ''), ('A', '')]))]),
 'parse_summary-keyword_with_underscores': ('dict',
                                            [('ach', ('dict', [('PRF_Check', '')])),
                                             ('pdi', ('dict', [('NoOfPixels_1', ' 9196')]))]),
 'parse_summary-quotes_in_value': ('dict', [('scs', ('dict', [('A', 'a"b'), ('B', '=')]))]),
 'parse_summary-full': ('dict',
                        [('odi',
                          ('dict',
                           [('SceneId', 'SARD000000276461-00043-005-000'),
                            ('SiteDateTime', '20191011 14:43:15')])),
                         ('scs',
                          ('dict', [('SceneID', 'ALOS2290760600-191011'), ('SceneShift', '0')])),
                         ('pds',
                          ('dict',
                           [('ProductID', 'WWDR1.1__D'),
                            ('ResamplingMethod', 'NN'),
                            ('UTM_ZoneNo', '53'),
                            ('PixelSpacing', '25.000000')])),
                         ('img',
                          ('dict',
                           [('SceneCenterDateTime', '20191011 14:43:15.525'),
                            ('OffNadirAngle', '21.3')])),
                         ('pdi',
                          ('dict',
                           [('CntOfL11ProductFileName', '5'),
                            ('L11ProductFileName01', 'VOL-ALOS2290760600-191011-WWDR1.1__D'),
                            ('L11ProductFileName02', 'LED-ALOS2290760600-191011-WWDR1.1__D'),
                            ('L11ProductFileName03', 'IMG-HH-ALOS2290760600-191011-WWDR1.1__D-F1'),
                            ('L11ProductFileName04', 'IMG-HV-ALOS2290760600-191011-WWDR1.1__D-F1'),
                            ('L11ProductFileName05', 'TRL-ALOS2290760600-191011-WWDR1.1__D'),
                            ('NoOfPixels_1', ' 9196'),
                            ('NoOfLines_1', '60568'),
                            ('ProductDataSize', '798.2'),
                            ('ProductFormat', 'CEOS'),
                            ('BitPixel', '16')])),
                         ('ach', ('dict', [('PRF_Check', ''), ('TimeCheck', 'GOOD')])),
                         ('rad', ('dict', [('PracticeResultCode', 'GOOD')])),
                         ('lbi',
                          ('dict',
                           [('Sensor', 'SAR'),
                            ('ObservationDate', '20191011'),
                            ('ProcessFacility', 'SCMO')]))]),
 'parse_summary-bytes': ('raises',
                         'TypeError',
                         "('cannot use a string pattern on a bytes-like object',)"),
 'parse_summary-none': ('raises',
                        'AttributeError',
                        '("\'NoneType\' object has no attribute \'splitlines\'",)'),
 'open_summary-valid_lines': (('Group',
                               'summary',
                               None,
                               [('scene_specification',
                                 ('Group',
                                  'summary/scene_specification',
                                  None,
                                  [],
                                  ('dict', [('SceneShift', ('int', '0'))]))),
                                ('product_specification',
                                 ('Group',
                                  'summary/product_specification',
                                  None,
                                  [],
                                  ('dict',
                                   [('observation_mode',
                                     'ScanSAR nominal 28MHz mode dual polarization'),
                                    ('observation_direction', 'right looking'),
                                    ('processing_level', 'level 1.1'),
                                    ('processing_option', 'not specified'),
                                    ('map_projection', 'not specified'),
                                    ('orbit_direction', 'descending')])))],
                               ('dict', [])),
                              ['valid_lines.txt']),
 'open_summary-crlf': (('Group',
                        'summary',
                        None,
                        [('scene_specification',
                          ('Group',
                           'summary/scene_specification',
                           None,
                           [],
                           ('dict', [('SceneShift', ('int', '0'))]))),
                         ('product_specification',
                          ('Group',
                           'summary/product_specification',
                           None,
                           [],
                           ('dict',
                            [('observation_mode', 'ScanSAR nominal 28MHz mode dual polarization'),
                             ('observation_direction', 'right looking'),
                             ('processing_level', 'level 1.1'),
                             ('processing_option', 'not specified'),
                             ('map_projection', 'not specified'),
                             ('orbit_direction', 'descending')])))],
                        ('dict', [])),
                       ['crlf.txt']),
 'open_summary-invalid_lines': (('raises',
                                 'ExceptionGroup',
                                 "('failed to parse the summary', [ValueError('line 00: invalid "
                                 "line'), ValueError('line 01: invalid line')])",
                                 'failed to parse the summary',
                                 [('raises', 'ValueError', "('line 00: invalid line',)"),
                                  ('raises', 'ValueError', "('line 01: invalid line',)")]),
                                ['invalid_lines.txt']),
 'open_summary-mixed_validity': (('raises',
                                  'ExceptionGroup',
                                  "('failed to parse the summary', [ValueError('line 01: invalid "
                                  "line'), ValueError('line 03: invalid line'), ValueError('line "
                                  "05: invalid line')])",
                                  'failed to parse the summary',
                                  [('raises', 'ValueError', "('line 01: invalid line',)"),
                                   ('raises', 'ValueError', "('line 03: invalid line',)"),
                                   ('raises', 'ValueError', "('line 05: invalid line',)")]),
                                 ['mixed_validity.txt']),
 'open_summary-interleaved_sections': (('Group',
                                        'summary',
                                        None,
                                        [('scene_specification',
                                          ('Group',
                                           'summary/scene_specification',
                                           None,
                                           [],
                                           ('dict', [('A', '1'), ('C', '3'), ('F', '6')]))),
                                         ('product_specification',
                                          ('Group',
                                           'summary/product_specification',
                                           None,
                                           [],
                                           ('dict',
                                            [('B', ('float', '2.0')), ('E', ('float', '5.0'))]))),
                                         ('ordering_information',
                                          ('Group',
                                           'summary/ordering_information',
                                           None,
                                           [],
                                           ('dict', [('D', '4')])))],
                                        ('dict', [])),
                                       ['interleaved_sections.txt']),
 'open_summary-case_variants': (('Group',
                                 'summary',
                                 None,
                                 [('scene_specification',
                                   ('Group',
                                    'summary/scene_specification',
                                    None,
                                    [],
                                    ('dict', [('A', '5')]))),
                                  ('product_specification',
                                   ('Group',
                                    'summary/product_specification',
                                    None,
                                    [],
                                    ('dict', [('D', ('float', '4.0'))])))],
                                 ('dict', [])),
                                ['case_variants.txt']),
 'open_summary-unknown_sections': (('Group',
                                    'summary',
                                    None,
                                    [('xyz', ('dict', [('A', '1'), ('C', '3')])),
                                     ('abc', ('dict', [('B', '2')]))],
                                    ('dict', [])),
                                   ['unknown_sections.txt']),
 'open_summary-full': (('Group',
                        'summary',
                        None,
                        [('ordering_information',
                          ('Group',
                           'summary/ordering_information',
                           None,
                           [],
                           ('dict',
                            [('SceneId', 'SARD000000276461-00043-005-000'),
                             ('SiteDateTime', '20191011 14:43:15')]))),
                         ('scene_specification',
                          ('Group',
                           'summary/scene_specification',
                           None,
                           [],
                           ('dict',
                            [('mission_name', 'ALOS2'),
                             ('orbit_accumulation', ('int', '29076')),
                             ('scene_frame', ('int', '600')),
                             ('date', '2019-10-11'),
                             ('SceneShift', ('int', '0'))]))),
                         ('product_specification',
                          ('Group',
                           'summary/product_specification',
                           None,
                           [],
                           ('dict',
                            [('observation_mode', 'ScanSAR nominal 28MHz mode dual polarization'),
                             ('observation_direction', 'right looking'),
                             ('processing_level', 'level 1.1'),
                             ('processing_option', 'not specified'),
                             ('map_projection', 'not specified'),
                             ('orbit_direction', 'descending'),
                             ('ResamplingMethod', 'nearest-neighbor'),
                             ('UTM_ZoneNo', ('int', '53')),
                             ('PixelSpacing', ('float', '25.0'))]))),
                         ('image_information',
                          ('Group',
                           'summary/image_information',
                           None,
                           [],
                           ('dict',
                            [('SceneCenterDateTime', '2019-10-11T14:43:15.525'),
                             ('OffNadirAngle', ('float', '21.3'))]))),
                         ('product_information',
                          ('Group',
                           'summary/product_information',
                           None,
                           [('data_files',
                             ('Group',
                              'summary/product_information/data_files',
                              None,
                              [],
                              ('dict',
                               [('volume_directory', 'VOL-ALOS2290760600-191011-WWDR1.1__D'),
                                ('sar_leader', 'LED-ALOS2290760600-191011-WWDR1.1__D'),
                                ('sar_imagery',
                                 ('list',
                                  ['IMG-HH-ALOS2290760600-191011-WWDR1.1__D-F1',
                                   'IMG-HV-ALOS2290760600-191011-WWDR1.1__D-F1'])),
                                ('sar_trailer', 'TRL-ALOS2290760600-191011-WWDR1.1__D')]))),
                            ('shapes',
                             ('Group',
                              'summary/product_information/shapes',
                              None,
                              [],
                              ('dict', [('1', ('tuple', [('int', '9196'), ('int', '60568')]))])))],
                           ('dict',
                            [('ProductDataSize', ('float', '798.2')),
                             ('ProductFormat', 'CEOS'),
                             ('BitPixel', ('int', '16'))]))),
                         ('autocheck',
                          ('Group',
                           'summary/autocheck',
                           None,
                           [],
                           ('dict', [('PRF_Check', 'N/A'), ('TimeCheck', 'GOOD')]))),
                         ('result_information',
                          ('Group',
                           'summary/result_information',
                           None,
                           [],
                           ('dict', [('PracticeResultCode', 'GOOD')]))),
                         ('label_information',
                          ('Group',
                           'summary/label_information',
                           None,
                           [],
                           ('dict',
                            [('Sensor', 'SAR'),
                             ('ObservationDate', '2019-10-11'),
                             ('ProcessFacility',
                              'spacecraft control mission operation system')])))],
                        ('dict', [])),
                       ['full.txt']),
 'open_summary-empty': (('Group', 'summary', None, [], ('dict', [])), ['empty.txt']),
 'open_summary-not_utf8': (('raises',
                            'UnicodeDecodeError',
                            '(\'utf-8\', b\'Scs_A="\\xff"\', 7, 8, \'invalid start byte\')'),
                           ['not_utf8.txt']),
 'open_summary-string': (('raises',
                          'AttributeError',
                          '("\'str\' object has no attribute \'decode\'",)'),
                         ['string.txt']),
 'open_summary-missing': (('raises',
                           'OSError',
                           "('Cannot find the summary file (`missing.txt`). Make sure the dataset "
                           "at memory:///some/root is complete and in the JAXA CEOS format.',)",
                           ('cause',
                            "KeyError('missing.txt')",
                            'context',
                            "KeyError('missing.txt')")),
                          ['missing.txt']),
 'open_summary-other_root': (('raises',
                              'OSError',
                              "('Cannot find the summary file (`nope.txt`). Make sure the dataset "
                              "at s3://bucket/x is complete and in the JAXA CEOS format.',)",
                              ('cause', "KeyError('nope.txt')", 'context', "KeyError('nope.txt')")),
                             ['nope.txt']),
 'open_summary_fsspec-summary.txt': ('Group',
                                     'summary',
                                     None,
                                     [('ordering_information',
                                       ('Group',
                                        'summary/ordering_information',
                                        None,
                                        [],
                                        ('dict',
                                         [('SceneId', 'SARD000000276461-00043-005-000'),
                                          ('SiteDateTime', '20191011 14:43:15')]))),
                                      ('scene_specification',
                                       ('Group',
                                        'summary/scene_specification',
                                        None,
                                        [],
                                        ('dict',
                                         [('mission_name', 'ALOS2'),
                                          ('orbit_accumulation', ('int', '29076')),
                                          ('scene_frame', ('int', '600')),
                                          ('date', '2019-10-11'),
                                          ('SceneShift', ('int', '0'))]))),
                                      ('product_specification',
                                       ('Group',
                                        'summary/product_specification',
                                        None,
                                        [],
                                        ('dict',
                                         [('observation_mode',
                                           'ScanSAR nominal 28MHz mode dual polarization'),
                                          ('observation_direction', 'right looking'),
                                          ('processing_level', 'level 1.1'),
                                          ('processing_option', 'not specified'),
                                          ('map_projection', 'not specified'),
                                          ('orbit_direction', 'descending'),
                                          ('ResamplingMethod', 'nearest-neighbor'),
                                          ('UTM_ZoneNo', ('int', '53')),
                                          ('PixelSpacing', ('float', '25.0'))]))),
                                      ('image_information',
                                       ('Group',
                                        'summary/image_information',
                                        None,
                                        [],
                                        ('dict',
                                         [('SceneCenterDateTime', '2019-10-11T14:43:15.525'),
                                          ('OffNadirAngle', ('float', '21.3'))]))),
                                      ('product_information',
                                       ('Group',
                                        'summary/product_information',
                                        None,
                                        [('data_files',
                                          ('Group',
                                           'summary/product_information/data_files',
                                           None,
                                           [],
                                           ('dict',
                                            [('volume_directory',
                                              'VOL-ALOS2290760600-191011-WWDR1.1__D'),
                                             ('sar_leader', 'LED-ALOS2290760600-191011-WWDR1.1__D'),
                                             ('sar_imagery',
                                              ('list',
                                               ['IMG-HH-ALOS2290760600-191011-WWDR1.1__D-F1',
                                                'IMG-HV-ALOS2290760600-191011-WWDR1.1__D-F1'])),
                                             ('sar_trailer',
                                              'TRL-ALOS2290760600-191011-WWDR1.1__D')]))),
                                         ('shapes',
                                          ('Group',
                                           'summary/product_information/shapes',
                                           None,
                                           [],
                                           ('dict',
                                            [('1',
                                              ('tuple', [('int', '9196'), ('int', '60568')]))])))],
                                        ('dict',
                                         [('ProductDataSize', ('float', '798.2')),
                                          ('ProductFormat', 'CEOS'),
                                          ('BitPixel', ('int', '16'))]))),
                                      ('autocheck',
                                       ('Group',
                                        'summary/autocheck',
                                        None,
                                        [],
                                        ('dict', [('PRF_Check', 'N/A'), ('TimeCheck', 'GOOD')]))),
                                      ('result_information',
                                       ('Group',
                                        'summary/result_information',
                                        None,
                                        [],
                                        ('dict', [('PracticeResultCode', 'GOOD')]))),
                                      ('label_information',
                                       ('Group',
                                        'summary/label_information',
                                        None,
                                        [],
                                        ('dict',
                                         [('Sensor', 'SAR'),
                                          ('ObservationDate', '2019-10-11'),
                                          ('ProcessFacility',
                                           'spacecraft control mission operation system')])))],
                                     ('dict', [])),
 'open_summary_fsspec-broken.txt': ('raises',
                                    'ExceptionGroup',
                                    "('failed to parse the summary', [ValueError('line 01: invalid "
                                    "line'), ValueError('line 03: invalid line'), ValueError('line "
                                    "05: invalid line')])",
                                    'failed to parse the summary',
                                    [('raises', 'ValueError', "('line 01: invalid line',)"),
                                     ('raises', 'ValueError', "('line 03: invalid line',)"),
                                     ('raises', 'ValueError', "('line 05: invalid line',)")]),
 'open_summary_fsspec-latin1.txt': ('raises',
                                    'UnicodeDecodeError',
                                    '(\'utf-8\', b\'Scs_A="\\xe4"\', 7, 8, \'invalid continuation '
                                    "byte')"),
 'open_summary_fsspec-missing.txt': ('raises',
                                     'OSError',
                                     "('Cannot find the summary file (`missing.txt`). Make sure "
                                     'the dataset at /eq1/root is complete and in the JAXA CEOS '
                                     "format.',)",
                                     ('cause',
                                      "KeyError('missing.txt')",
                                      'context',
                                      "KeyError('missing.txt')")),
 'names': ['entry_re', 'parse_line', 'parse_summary', 'section_names', 'with_lineno']}


def test_equivalence():
    actual = collect()
    assert list(actual) == list(EXPECTED)
    for key in EXPECTED:
        assert actual[key] == EXPECTED[key], key
    assert actual == EXPECTED


if __name__ == "__main__":
    if "--record" in sys.argv:
        pprint.pprint(collect(), width=100, sort_dicts=False)
    else:
        test_equivalence()
        print(f"ok: {len(EXPECTED)} cases identical")
