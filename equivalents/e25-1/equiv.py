"""Equivalence check for refactoring 1 (ASCII adapters in ceos_alos2/datatypes.py).

Run as a script (`python equiv.py`) or through pytest (`pytest equiv.py`).
`python equiv.py --record` re-records the expectations (only do that on the
UNCHANGED code).
"""

import json
import pathlib
import struct
import sys

import construct

from ceos_alos2 import datatypes
from ceos_alos2.sar_image.file_descriptor import file_descriptor_record


def canon(value):
    if isinstance(value, bool) or value is None:
        return value
    if isinstance(value, (float, complex)):
        return [type(value).__name__, repr(value)]
    if isinstance(value, int):
        return ["int", value]
    if isinstance(value, str):
        return ["str", value]
    if isinstance(value, bytes):
        return ["bytes", value.hex()]
    if isinstance(value, construct.Container):
        return [
            "Container",
            [[k, canon(v)] for k, v in value.items() if not k.startswith("_")],
        ]
    if isinstance(value, (list, tuple)):
        return [type(value).__name__, [canon(v) for v in value]]
    if isinstance(value, dict):
        return ["dict", [[k, canon(v)] for k, v in value.items()]]
    return [type(value).__name__, repr(value)]


def outcome(func, *args, **kwargs):
    try:
        result = func(*args, **kwargs)
    except Exception as e:  # noqa: BLE001
        return ["raised", type(e).__module__ + "." + type(e).__name__, str(e)]
    return ["returned", canon(result)]


def describe(con):
    """structural description of a construct tree"""
    info = {"class": type(con).__module__ + "." + type(con).__name__}
    name = getattr(con, "name", None)
    if name is not None:
        info["name"] = name
    try:
        info["sizeof"] = con.sizeof()
    except Exception as e:  # noqa: BLE001
        info["sizeof"] = type(e).__name__
    for attr in ("encoding", "length", "fmtstr"):
        if hasattr(con, attr):
            info[attr] = repr(getattr(con, attr))
    if hasattr(con, "subcons"):
        info["subcons"] = [describe(c) for c in con.subcons]
    elif hasattr(con, "subcon"):
        info["subcon"] = describe(con.subcon)
    return info


integer_inputs = [
    (2, b"15"),
    (4, b"3989"),
    (4, b"  16"),
    (4, b"16  "),
    (4, b" 16 "),
    (4, b"    "),
    (4, b"\t\n\r "),
    (4, b"\x0b\x0c  "),
    (4, b"-5  "),
    (4, b"  +7"),
    (4, b"0007"),
    (4, b"1_0 "),
    (4, b"1 0 "),
    (4, b"12a "),
    (4, b"1.5 "),
    (4, b"0x1f"),
    (4, b"\x00\x00\x00\x00"),
    (4, b"12\x00\x00"),
    (4, b"\x0012 "),
    (4, b" 1\x00 "),
    (4, b"\xff\xfe12"),
    (4, b"123"),
    (4, b""),
    (4, b"12345678"),
    (0, b""),
    (0, b"1234"),
    (1, b"7"),
    (1, b" "),
    (8, b"  123456"),
    (16, b"     99999999999"),
    (32, b" " * 31 + b"1"),
    (32, b"9" * 32),
]

float_inputs = [
    (8, b"1558.423"),
    (8, b" 165.820"),
    (8, b"        "),
    (8, b"\t\n\r\x0b\x0c   "),
    (16, b"162436598487.832"),
    (16, b"     6598487.832"),
    (8, b"1e5     "),
    (8, b"  1.E-03"),
    (8, b"-1.5e+10"),
    (8, b"     inf"),
    (8, b"    -inf"),
    (8, b"     nan"),
    (8, b"NaN     "),
    (8, b"Infinity"),
    (8, b"    -0.0"),
    (8, b"      .5"),
    (8, b"      5."),
    (8, b"   1_0.5"),
    (8, b"     abc"),
    (8, b"    0x10"),
    (8, b"  1.5 2 "),
    (8, b"1.5D+03 "),
    (8, b"\x00" * 8),
    (8, b"1.5\x00\x00\x00\x00\x00"),
    (8, b"\xe9       "),
    (8, b"1.5"),
    (0, b""),
    (1, b"3"),
    (1, b" "),
    (24, b"  1.2345678901234567E+01"),
]

complex_inputs = [
    (8, b"1.558.42"),
    (8, b"        "),
    (8, b"1.55    "),
    (8, b"    8.42"),
    (16, b"162.3659487.8321"),
    (16, b" 62.3659 87.8321"),
    (16, b"     inf     1.0"),
    (16, b"     1.0     inf"),
    (16, b"    -inf    -inf"),
    (16, b"     nan     1.0"),
    (16, b"     1.0     nan"),
    (16, b"    -0.0    -0.0"),
    (16, b"     abc     1.0"),
    (16, b"     1.0     abc"),
    (7, b"1.52.5X"),
    (7, b"1.52.5"),
    (1, b""),
    (1, b"5"),
    (0, b""),
    (2, b"12"),
    (2, b" 2"),
    (2, b"1 "),
    (16, b"1.0"),
    (16, b"     1.0"),
    (32, b"  1.2345678E+01 -9.8765432E-01   "),
    (32, b"  1.2345678E+01  -9.8765432E-01  "),
]

string_inputs = [
    (4, b"ALOS"),
    (4, b"abc "),
    (4, b" abc"),
    (4, b"a b "),
    (4, b"    "),
    (4, b"\t\n a"),
    (4, b"\x00\x00\x00\x00"),
    (4, b"ab\x00\x00"),
    (4, b"\x00ab "),
    (4, b"a\x00b "),
    (4, b"\xff   "),
    (4, b"abc"),
    (4, b"abcdefgh"),
    (0, b""),
    (1, b"x"),
    (64, b"x" * 64),
    (64, b" " * 63 + b"y"),
]

# objects passed straight to the decoders (bypassing the byte parsing)
direct_integer = ["12", " 12 ", "", "   ", "-3", "x", b" 12 ", b"  ", b"", "١٢", 5, None]
direct_float = ["1.5", " 1.5 ", "", "   ", "nan", "x", b" 1.5 ", b"  ", b"", "١٫٥", 5, None]
direct_string = ["ab", " ab ", "", "   ", b" ab ", b"", 5, None]


def synthesize(con, counter):
    """build bytes matching the layout of an ascii-only record"""
    if isinstance(con, construct.Renamed):
        return synthesize(con.subcon, counter)
    if isinstance(con, construct.Struct):
        return b"".join(synthesize(c, counter) for c in con.subcons)
    counter[0] += 1
    n = con.sizeof()
    if isinstance(con, datatypes.AsciiInteger):
        mode = counter[0] % 4
        if mode == 0:
            return b" " * n
        text = str(counter[0] % 10 ** min(n, 3))
        return text.rjust(n).encode() if mode != 1 else text.ljust(n).encode()
    if isinstance(con, datatypes.PaddedString):
        mode = counter[0] % 3
        if mode == 0:
            return b" " * n
        text = ("F%d" % counter[0])[:n]
        return text.ljust(n).encode() if mode == 1 else text.rjust(n).encode()
    if isinstance(con, construct.FormatField):
        return struct.pack(con.fmtstr, counter[0])
    raise TypeError(con)


def observe():
    obs = {}

    classes = {
        "AsciiInteger": (datatypes.AsciiInteger, integer_inputs),
        "AsciiFloat": (datatypes.AsciiFloat, float_inputs),
        "AsciiComplex": (datatypes.AsciiComplex, complex_inputs),
        "PaddedString": (datatypes.PaddedString, string_inputs),
    }
    for name, (cls, inputs) in classes.items():
        obs[f"{name}.mro"] = [c.__name__ for c in cls.__mro__]
        for n_bytes, data in inputs:
            key = f"{name}({n_bytes}).parse({data!r})"
            obs[key] = outcome(lambda: cls(n_bytes).parse(data))
        for n_bytes in sorted({n for n, _ in inputs}):
            obs[f"{name}({n_bytes}).describe"] = outcome(lambda: describe(cls(n_bytes)))
            obs[f"{name}({n_bytes}).build"] = outcome(lambda: cls(n_bytes).build(1))
        for bad in (-1, None, "4", 2.0, 2.5, [4]):
            obs[f"{name}({bad!r})"] = outcome(lambda: describe(cls(bad)))
            obs[f"{name}({bad!r}).parse"] = outcome(lambda: cls(bad).parse(b"12345678"))
        obs[f"{name}()"] = outcome(lambda: cls())
        obs[f"{name}(n_bytes=4)"] = outcome(lambda: describe(cls(n_bytes=4)))
        obs[f"{name}(4, 5)"] = outcome(lambda: cls(4, 5))

    # callables as lengths are resolved against the context by construct
    dynamic = construct.Struct(
        "n" / construct.Int8ub,
        "i" / datatypes.AsciiInteger(construct.this.n),
        "f" / datatypes.AsciiFloat(construct.this.n),
        "s" / datatypes.PaddedString(construct.this.n),
    )
    for data in (b"\x02 112ab", b"\x03 12 .5 ab", b"\x00", b"\x01   ", b"\x02 1"):
        obs[f"dynamic.parse({data!r})"] = outcome(dynamic.parse, data)

    for value in direct_integer:
        obs[f"AsciiInteger._decode({value!r})"] = outcome(
            datatypes.AsciiInteger(4)._decode, value, None, "(path)"
        )
    for value in direct_float:
        obs[f"AsciiFloat._decode({value!r})"] = outcome(
            datatypes.AsciiFloat(4)._decode, value, None, "(path)"
        )
    for value in direct_string:
        obs[f"PaddedString._decode({value!r})"] = outcome(
            datatypes.PaddedString(4)._decode, value, None, "(path)"
        )
    for value in (
        construct.Container(real=1.0, imaginary=2.0),
        construct.Container(real=float("nan"), imaginary=2.0),
        construct.Container(real=1.0, imaginary=float("inf")),
        construct.Container(real=-0.0, imaginary=-0.0),
        construct.Container(real=1, imaginary=2),
        construct.Container(real=1.0),
        {"real": 1.0, "imaginary": 2.0},
        3 + 4j,
        2.5,
    ):
        obs[f"AsciiComplex._decode({value!r})"] = outcome(
            datatypes.AsciiComplex(8)._decode, value, None, "(path)"
        )
    for cls in (datatypes.AsciiInteger, datatypes.AsciiFloat, datatypes.PaddedString):
        obs[f"{cls.__name__}._encode"] = outcome(cls(4)._encode, 1, None, "(path)")
    obs["AsciiComplex._encode"] = outcome(datatypes.AsciiComplex(8)._encode, 1j, None, "(path)")

    # arrays and nesting
    array = datatypes.AsciiInteger(3)[4]
    obs["array.parse"] = outcome(array.parse, b"  1 2    400")
    nested = construct.Struct(
        "a" / datatypes.AsciiInteger(4),
        "b" / construct.Struct("c" / datatypes.AsciiFloat(8), "d" / datatypes.AsciiComplex(8)),
        "e" / datatypes.PaddedString(6),
    )
    obs["nested.describe"] = describe(nested)
    for data in (
        b"  42 3.25E+01.5  2.5  ALOS2 ",
        b"                          ",
        b"  4x 3.25E+01.5  2.5  ALOS2 ",
        b"  42 3.25E+01.5  2.y  ALOS2 ",
        b"  42 3.25",
    ):
        obs[f"nested.parse({data!r})"] = outcome(nested.parse, data)

    # a full ascii record using the adapters
    obs["file_descriptor.describe"] = describe(file_descriptor_record)
    for seed in (0, 1, 2, 3, 7, 11):
        data = synthesize(file_descriptor_record, [seed])
        obs[f"file_descriptor[{seed}].data"] = canon(data)
        obs[f"file_descriptor[{seed}].parse"] = outcome(file_descriptor_record.parse, data)
    obs["file_descriptor.blank"] = outcome(file_descriptor_record.parse, b" " * 720)
    obs["file_descriptor.short"] = outcome(file_descriptor_record.parse, b" " * 700)

    return json.loads(json.dumps(obs))


MARKER = "# --- recorded expectations (do not edit by hand) ---\n"


def load_expected():
    return json.loads(EXPECTED)


def test_equivalence():
    expected = load_expected()
    actual = observe()
    assert sorted(actual) == sorted(expected)
    different = [key for key in expected if actual[key] != expected[key]]
    for key in different:
        print("MISMATCH", key, "\n  expected:", expected[key], "\n  actual:  ", actual[key])
    assert not different
    assert len(expected) > 100


def record():
    path = pathlib.Path(__file__)
    source = path.read_text()
    head = source[: source.index(MARKER) + len(MARKER)]
    body = json.dumps(observe(), indent=0, sort_keys=True, ensure_ascii=True)
    assert '"""' not in body
    path.write_text(head + 'EXPECTED = r"""\n' + body + '\n"""\n' + TAIL)


TAIL = '''

if __name__ == "__main__":
    if "--record" in sys.argv[1:]:
        record()
        print("recorded")
    else:
        test_equivalence()
        print("equivalent:", len(load_expected()), "observations match")
'''

# --- recorded expectations (do not edit by hand) ---
EXPECTED = r"""
{
"AsciiComplex('4')": [
"raised",
"builtins.TypeError",
"unsupported operand type(s) for //: 'str' and 'int'"
],
"AsciiComplex('4').parse": [
"raised",
"builtins.TypeError",
"unsupported operand type(s) for //: 'str' and 'int'"
],
"AsciiComplex()": [
"raised",
"builtins.TypeError",
"AsciiComplex.__init__() missing 1 required positional argument: 'n_bytes'"
],
"AsciiComplex(-1)": [
"returned",
[
"dict",
[
[
"class",
[
"str",
"ceos_alos2.datatypes.AsciiComplex"
]
],
[
"sizeof",
[
"str",
"PaddingError"
]
],
[
"subcon",
[
"dict",
[
[
"class",
[
"str",
"construct.core.Struct"
]
],
[
"sizeof",
[
"str",
"PaddingError"
]
],
[
"subcons",
[
"list",
[
[
"dict",
[
[
"class",
[
"str",
"construct.core.Renamed"
]
],
[
"name",
[
"str",
"real"
]
],
[
"sizeof",
[
"str",
"PaddingError"
]
],
[
"subcon",
[
"dict",
[
[
"class",
[
"str",
"ceos_alos2.datatypes.AsciiFloat"
]
],
[
"sizeof",
[
"str",
"PaddingError"
]
],
[
"subcon",
[
"dict",
[
[
"class",
[
"str",
"construct.core.StringEncoded"
]
],
[
"sizeof",
[
"str",
"PaddingError"
]
],
[
"encoding",
[
"str",
"'ascii'"
]
],
[
"subcon",
[
"dict",
[
[
"class",
[
"str",
"construct.core.FixedSized"
]
],
[
"sizeof",
[
"str",
"PaddingError"
]
],
[
"length",
[
"str",
"-1"
]
],
[
"subcon",
[
"dict",
[
[
"class",
[
"str",
"construct.core.NullStripped"
]
],
[
"sizeof",
[
"str",
"SizeofError"
]
],
[
"subcon",
[
"dict",
[
[
"class",
[
"str",
"construct.core.GreedyBytes"
]
],
[
"sizeof",
[
"str",
"SizeofError"
]
]
]
]
]
]
]
]
]
]
]
]
]
]
]
]
]
]
],
[
"dict",
[
[
"class",
[
"str",
"construct.core.Renamed"
]
],
[
"name",
[
"str",
"imaginary"
]
],
[
"sizeof",
[
"str",
"PaddingError"
]
],
[
"subcon",
[
"dict",
[
[
"class",
[
"str",
"ceos_alos2.datatypes.AsciiFloat"
]
],
[
"sizeof",
[
"str",
"PaddingError"
]
],
[
"subcon",
[
"dict",
[
[
"class",
[
"str",
"construct.core.StringEncoded"
]
],
[
"sizeof",
[
"str",
"PaddingError"
]
],
[
"encoding",
[
"str",
"'ascii'"
]
],
[
"subcon",
[
"dict",
[
[
"class",
[
"str",
"construct.core.FixedSized"
]
],
[
"sizeof",
[
"str",
"PaddingError"
]
],
[
"length",
[
"str",
"-1"
]
],
[
"subcon",
[
"dict",
[
[
"class",
[
"str",
"construct.core.NullStripped"
]
],
[
"sizeof",
[
"str",
"SizeofError"
]
],
[
"subcon",
[
"dict",
[
[
"class",
[
"str",
"construct.core.GreedyBytes"
]
],
[
"sizeof",
[
"str",
"SizeofError"
]
]
]
]
]
]
]
]
]
]
]
]
]
]
]
]
]
]
]
]
]
]
]
]
]
]
]
],
"AsciiComplex(-1).parse": [
"raised",
"construct.core.PaddingError",
"Error in path (parsing) -> real\nlength cannot be negative"
],
"AsciiComplex(0).build": [
"raised",
"builtins.NotImplementedError",
""
],
"AsciiComplex(0).describe": [
"returned",
[
"dict",
[
[
"class",
[
"str",
"ceos_alos2.datatypes.AsciiComplex"
]
],
[
"sizeof",
[
"int",
0
]
],
[
"subcon",
[
"dict",
[
[
"class",
[
"str",
"construct.core.Struct"
]
],
[
"sizeof",
[
"int",
0
]
],
[
"subcons",
[
"list",
[
[
"dict",
[
[
"class",
[
"str",
"construct.core.Renamed"
]
],
[
"name",
[
"str",
"real"
]
],
[
"sizeof",
[
"int",
0
]
],
[
"subcon",
[
"dict",
[
[
"class",
[
"str",
"ceos_alos2.datatypes.AsciiFloat"
]
],
[
"sizeof",
[
"int",
0
]
],
[
"subcon",
[
"dict",
[
[
"class",
[
"str",
"construct.core.StringEncoded"
]
],
[
"sizeof",
[
"int",
0
]
],
[
"encoding",
[
"str",
"'ascii'"
]
],
[
"subcon",
[
"dict",
[
[
"class",
[
"str",
"construct.core.FixedSized"
]
],
[
"sizeof",
[
"int",
0
]
],
[
"length",
[
"str",
"0"
]
],
[
"subcon",
[
"dict",
[
[
"class",
[
"str",
"construct.core.NullStripped"
]
],
[
"sizeof",
[
"str",
"SizeofError"
]
],
[
"subcon",
[
"dict",
[
[
"class",
[
"str",
"construct.core.GreedyBytes"
]
],
[
"sizeof",
[
"str",
"SizeofError"
]
]
]
]
]
]
]
]
]
]
]
]
]
]
]
]
]
]
],
[
"dict",
[
[
"class",
[
"str",
"construct.core.Renamed"
]
],
[
"name",
[
"str",
"imaginary"
]
],
[
"sizeof",
[
"int",
0
]
],
[
"subcon",
[
"dict",
[
[
"class",
[
"str",
"ceos_alos2.datatypes.AsciiFloat"
]
],
[
"sizeof",
[
"int",
0
]
],
[
"subcon",
[
"dict",
[
[
"class",
[
"str",
"construct.core.StringEncoded"
]
],
[
"sizeof",
[
"int",
0
]
],
[
"encoding",
[
"str",
"'ascii'"
]
],
[
"subcon",
[
"dict",
[
[
"class",
[
"str",
"construct.core.FixedSized"
]
],
[
"sizeof",
[
"int",
0
]
],
[
"length",
[
"str",
"0"
]
],
[
"subcon",
[
"dict",
[
[
"class",
[
"str",
"construct.core.NullStripped"
]
],
[
"sizeof",
[
"str",
"SizeofError"
]
],
[
"subcon",
[
"dict",
[
[
"class",
[
"str",
"construct.core.GreedyBytes"
]
],
[
"sizeof",
[
"str",
"SizeofError"
]
]
]
]
]
]
]
]
]
]
]
]
]
]
]
]
]
]
]
]
]
]
]
]
]
]
]
],
"AsciiComplex(0).parse(b'')": [
"returned",
[
"complex",
"(nan+nanj)"
]
],
"AsciiComplex(1).build": [
"raised",
"builtins.NotImplementedError",
""
],
"AsciiComplex(1).describe": [
"returned",
[
"dict",
[
[
"class",
[
"str",
"ceos_alos2.datatypes.AsciiComplex"
]
],
[
"sizeof",
[
"int",
0
]
],
[
"subcon",
[
"dict",
[
[
"class",
[
"str",
"construct.core.Struct"
]
],
[
"sizeof",
[
"int",
0
]
],
[
"subcons",
[
"list",
[
[
"dict",
[
[
"class",
[
"str",
"construct.core.Renamed"
]
],
[
"name",
[
"str",
"real"
]
],
[
"sizeof",
[
"int",
0
]
],
[
"subcon",
[
"dict",
[
[
"class",
[
"str",
"ceos_alos2.datatypes.AsciiFloat"
]
],
[
"sizeof",
[
"int",
0
]
],
[
"subcon",
[
"dict",
[
[
"class",
[
"str",
"construct.core.StringEncoded"
]
],
[
"sizeof",
[
"int",
0
]
],
[
"encoding",
[
"str",
"'ascii'"
]
],
[
"subcon",
[
"dict",
[
[
"class",
[
"str",
"construct.core.FixedSized"
]
],
[
"sizeof",
[
"int",
0
]
],
[
"length",
[
"str",
"0"
]
],
[
"subcon",
[
"dict",
[
[
"class",
[
"str",
"construct.core.NullStripped"
]
],
[
"sizeof",
[
"str",
"SizeofError"
]
],
[
"subcon",
[
"dict",
[
[
"class",
[
"str",
"construct.core.GreedyBytes"
]
],
[
"sizeof",
[
"str",
"SizeofError"
]
]
]
]
]
]
]
]
]
]
]
]
]
]
]
]
]
]
],
[
"dict",
[
[
"class",
[
"str",
"construct.core.Renamed"
]
],
[
"name",
[
"str",
"imaginary"
]
],
[
"sizeof",
[
"int",
0
]
],
[
"subcon",
[
"dict",
[
[
"class",
[
"str",
"ceos_alos2.datatypes.AsciiFloat"
]
],
[
"sizeof",
[
"int",
0
]
],
[
"subcon",
[
"dict",
[
[
"class",
[
"str",
"construct.core.StringEncoded"
]
],
[
"sizeof",
[
"int",
0
]
],
[
"encoding",
[
"str",
"'ascii'"
]
],
[
"subcon",
[
"dict",
[
[
"class",
[
"str",
"construct.core.FixedSized"
]
],
[
"sizeof",
[
"int",
0
]
],
[
"length",
[
"str",
"0"
]
],
[
"subcon",
[
"dict",
[
[
"class",
[
"str",
"construct.core.NullStripped"
]
],
[
"sizeof",
[
"str",
"SizeofError"
]
],
[
"subcon",
[
"dict",
[
[
"class",
[
"str",
"construct.core.GreedyBytes"
]
],
[
"sizeof",
[
"str",
"SizeofError"
]
]
]
]
]
]
]
]
]
]
]
]
]
]
]
]
]
]
]
]
]
]
]
]
]
]
]
],
"AsciiComplex(1).parse(b'')": [
"returned",
[
"complex",
"(nan+nanj)"
]
],
"AsciiComplex(1).parse(b'5')": [
"returned",
[
"complex",
"(nan+nanj)"
]
],
"AsciiComplex(16).build": [
"raised",
"builtins.NotImplementedError",
""
],
"AsciiComplex(16).describe": [
"returned",
[
"dict",
[
[
"class",
[
"str",
"ceos_alos2.datatypes.AsciiComplex"
]
],
[
"sizeof",
[
"int",
16
]
],
[
"subcon",
[
"dict",
[
[
"class",
[
"str",
"construct.core.Struct"
]
],
[
"sizeof",
[
"int",
16
]
],
[
"subcons",
[
"list",
[
[
"dict",
[
[
"class",
[
"str",
"construct.core.Renamed"
]
],
[
"name",
[
"str",
"real"
]
],
[
"sizeof",
[
"int",
8
]
],
[
"subcon",
[
"dict",
[
[
"class",
[
"str",
"ceos_alos2.datatypes.AsciiFloat"
]
],
[
"sizeof",
[
"int",
8
]
],
[
"subcon",
[
"dict",
[
[
"class",
[
"str",
"construct.core.StringEncoded"
]
],
[
"sizeof",
[
"int",
8
]
],
[
"encoding",
[
"str",
"'ascii'"
]
],
[
"subcon",
[
"dict",
[
[
"class",
[
"str",
"construct.core.FixedSized"
]
],
[
"sizeof",
[
"int",
8
]
],
[
"length",
[
"str",
"8"
]
],
[
"subcon",
[
"dict",
[
[
"class",
[
"str",
"construct.core.NullStripped"
]
],
[
"sizeof",
[
"str",
"SizeofError"
]
],
[
"subcon",
[
"dict",
[
[
"class",
[
"str",
"construct.core.GreedyBytes"
]
],
[
"sizeof",
[
"str",
"SizeofError"
]
]
]
]
]
]
]
]
]
]
]
]
]
]
]
]
]
]
],
[
"dict",
[
[
"class",
[
"str",
"construct.core.Renamed"
]
],
[
"name",
[
"str",
"imaginary"
]
],
[
"sizeof",
[
"int",
8
]
],
[
"subcon",
[
"dict",
[
[
"class",
[
"str",
"ceos_alos2.datatypes.AsciiFloat"
]
],
[
"sizeof",
[
"int",
8
]
],
[
"subcon",
[
"dict",
[
[
"class",
[
"str",
"construct.core.StringEncoded"
]
],
[
"sizeof",
[
"int",
8
]
],
[
"encoding",
[
"str",
"'ascii'"
]
],
[
"subcon",
[
"dict",
[
[
"class",
[
"str",
"construct.core.FixedSized"
]
],
[
"sizeof",
[
"int",
8
]
],
[
"length",
[
"str",
"8"
]
],
[
"subcon",
[
"dict",
[
[
"class",
[
"str",
"construct.core.NullStripped"
]
],
[
"sizeof",
[
"str",
"SizeofError"
]
],
[
"subcon",
[
"dict",
[
[
"class",
[
"str",
"construct.core.GreedyBytes"
]
],
[
"sizeof",
[
"str",
"SizeofError"
]
]
]
]
]
]
]
]
]
]
]
]
]
]
]
]
]
]
]
]
]
]
]
]
]
]
]
],
"AsciiComplex(16).parse(b'     1.0     abc')": [
"raised",
"builtins.ValueError",
"could not convert string to float: 'abc'"
],
"AsciiComplex(16).parse(b'     1.0     inf')": [
"returned",
[
"complex",
"(nan+infj)"
]
],
"AsciiComplex(16).parse(b'     1.0     nan')": [
"returned",
[
"complex",
"(nan+nanj)"
]
],
"AsciiComplex(16).parse(b'     1.0')": [
"raised",
"construct.core.StreamError",
"Error in path (parsing) -> imaginary\nstream read less than specified amount, expected 8, found 0"
],
"AsciiComplex(16).parse(b'     abc     1.0')": [
"raised",
"builtins.ValueError",
"could not convert string to float: 'abc'"
],
"AsciiComplex(16).parse(b'     inf     1.0')": [
"returned",
[
"complex",
"(inf+1j)"
]
],
"AsciiComplex(16).parse(b'     nan     1.0')": [
"returned",
[
"complex",
"(nan+1j)"
]
],
"AsciiComplex(16).parse(b'    -0.0    -0.0')": [
"returned",
[
"complex",
"(-0+0j)"
]
],
"AsciiComplex(16).parse(b'    -inf    -inf')": [
"returned",
[
"complex",
"(nan-infj)"
]
],
"AsciiComplex(16).parse(b' 62.3659 87.8321')": [
"returned",
[
"complex",
"(62.3659+87.8321j)"
]
],
"AsciiComplex(16).parse(b'1.0')": [
"raised",
"construct.core.StreamError",
"Error in path (parsing) -> real\nstream read less than specified amount, expected 8, found 3"
],
"AsciiComplex(16).parse(b'162.3659487.8321')": [
"returned",
[
"complex",
"(162.3659+487.8321j)"
]
],
"AsciiComplex(2).build": [
"raised",
"builtins.NotImplementedError",
""
],
"AsciiComplex(2).describe": [
"returned",
[
"dict",
[
[
"class",
[
"str",
"ceos_alos2.datatypes.AsciiComplex"
]
],
[
"sizeof",
[
"int",
2
]
],
[
"subcon",
[
"dict",
[
[
"class",
[
"str",
"construct.core.Struct"
]
],
[
"sizeof",
[
"int",
2
]
],
[
"subcons",
[
"list",
[
[
"dict",
[
[
"class",
[
"str",
"construct.core.Renamed"
]
],
[
"name",
[
"str",
"real"
]
],
[
"sizeof",
[
"int",
1
]
],
[
"subcon",
[
"dict",
[
[
"class",
[
"str",
"ceos_alos2.datatypes.AsciiFloat"
]
],
[
"sizeof",
[
"int",
1
]
],
[
"subcon",
[
"dict",
[
[
"class",
[
"str",
"construct.core.StringEncoded"
]
],
[
"sizeof",
[
"int",
1
]
],
[
"encoding",
[
"str",
"'ascii'"
]
],
[
"subcon",
[
"dict",
[
[
"class",
[
"str",
"construct.core.FixedSized"
]
],
[
"sizeof",
[
"int",
1
]
],
[
"length",
[
"str",
"1"
]
],
[
"subcon",
[
"dict",
[
[
"class",
[
"str",
"construct.core.NullStripped"
]
],
[
"sizeof",
[
"str",
"SizeofError"
]
],
[
"subcon",
[
"dict",
[
[
"class",
[
"str",
"construct.core.GreedyBytes"
]
],
[
"sizeof",
[
"str",
"SizeofError"
]
]
]
]
]
]
]
]
]
]
]
]
]
]
]
]
]
]
],
[
"dict",
[
[
"class",
[
"str",
"construct.core.Renamed"
]
],
[
"name",
[
"str",
"imaginary"
]
],
[
"sizeof",
[
"int",
1
]
],
[
"subcon",
[
"dict",
[
[
"class",
[
"str",
"ceos_alos2.datatypes.AsciiFloat"
]
],
[
"sizeof",
[
"int",
1
]
],
[
"subcon",
[
"dict",
[
[
"class",
[
"str",
"construct.core.StringEncoded"
]
],
[
"sizeof",
[
"int",
1
]
],
[
"encoding",
[
"str",
"'ascii'"
]
],
[
"subcon",
[
"dict",
[
[
"class",
[
"str",
"construct.core.FixedSized"
]
],
[
"sizeof",
[
"int",
1
]
],
[
"length",
[
"str",
"1"
]
],
[
"subcon",
[
"dict",
[
[
"class",
[
"str",
"construct.core.NullStripped"
]
],
[
"sizeof",
[
"str",
"SizeofError"
]
],
[
"subcon",
[
"dict",
[
[
"class",
[
"str",
"construct.core.GreedyBytes"
]
],
[
"sizeof",
[
"str",
"SizeofError"
]
]
]
]
]
]
]
]
]
]
]
]
]
]
]
]
]
]
]
]
]
]
]
]
]
]
]
],
"AsciiComplex(2).parse(b' 2')": [
"returned",
[
"complex",
"(nan+2j)"
]
],
"AsciiComplex(2).parse(b'1 ')": [
"returned",
[
"complex",
"(nan+nanj)"
]
],
"AsciiComplex(2).parse(b'12')": [
"returned",
[
"complex",
"(1+2j)"
]
],
"AsciiComplex(2.0)": [
"returned",
[
"dict",
[
[
"class",
[
"str",
"ceos_alos2.datatypes.AsciiComplex"
]
],
[
"sizeof",
[
"float",
"2.0"
]
],
[
"subcon",
[
"dict",
[
[
"class",
[
"str",
"construct.core.Struct"
]
],
[
"sizeof",
[
"float",
"2.0"
]
],
[
"subcons",
[
"list",
[
[
"dict",
[
[
"class",
[
"str",
"construct.core.Renamed"
]
],
[
"name",
[
"str",
"real"
]
],
[
"sizeof",
[
"float",
"1.0"
]
],
[
"subcon",
[
"dict",
[
[
"class",
[
"str",
"ceos_alos2.datatypes.AsciiFloat"
]
],
[
"sizeof",
[
"float",
"1.0"
]
],
[
"subcon",
[
"dict",
[
[
"class",
[
"str",
"construct.core.StringEncoded"
]
],
[
"sizeof",
[
"float",
"1.0"
]
],
[
"encoding",
[
"str",
"'ascii'"
]
],
[
"subcon",
[
"dict",
[
[
"class",
[
"str",
"construct.core.FixedSized"
]
],
[
"sizeof",
[
"float",
"1.0"
]
],
[
"length",
[
"str",
"1.0"
]
],
[
"subcon",
[
"dict",
[
[
"class",
[
"str",
"construct.core.NullStripped"
]
],
[
"sizeof",
[
"str",
"SizeofError"
]
],
[
"subcon",
[
"dict",
[
[
"class",
[
"str",
"construct.core.GreedyBytes"
]
],
[
"sizeof",
[
"str",
"SizeofError"
]
]
]
]
]
]
]
]
]
]
]
]
]
]
]
]
]
]
],
[
"dict",
[
[
"class",
[
"str",
"construct.core.Renamed"
]
],
[
"name",
[
"str",
"imaginary"
]
],
[
"sizeof",
[
"float",
"1.0"
]
],
[
"subcon",
[
"dict",
[
[
"class",
[
"str",
"ceos_alos2.datatypes.AsciiFloat"
]
],
[
"sizeof",
[
"float",
"1.0"
]
],
[
"subcon",
[
"dict",
[
[
"class",
[
"str",
"construct.core.StringEncoded"
]
],
[
"sizeof",
[
"float",
"1.0"
]
],
[
"encoding",
[
"str",
"'ascii'"
]
],
[
"subcon",
[
"dict",
[
[
"class",
[
"str",
"construct.core.FixedSized"
]
],
[
"sizeof",
[
"float",
"1.0"
]
],
[
"length",
[
"str",
"1.0"
]
],
[
"subcon",
[
"dict",
[
[
"class",
[
"str",
"construct.core.NullStripped"
]
],
[
"sizeof",
[
"str",
"SizeofError"
]
],
[
"subcon",
[
"dict",
[
[
"class",
[
"str",
"construct.core.GreedyBytes"
]
],
[
"sizeof",
[
"str",
"SizeofError"
]
]
]
]
]
]
]
]
]
]
]
]
]
]
]
]
]
]
]
]
]
]
]
]
]
]
]
],
"AsciiComplex(2.0).parse": [
"raised",
"construct.core.StreamError",
"Error in path (parsing) -> real\nstream.read() failed, requested 1.0 bytes"
],
"AsciiComplex(2.5)": [
"returned",
[
"dict",
[
[
"class",
[
"str",
"ceos_alos2.datatypes.AsciiComplex"
]
],
[
"sizeof",
[
"float",
"2.0"
]
],
[
"subcon",
[
"dict",
[
[
"class",
[
"str",
"construct.core.Struct"
]
],
[
"sizeof",
[
"float",
"2.0"
]
],
[
"subcons",
[
"list",
[
[
"dict",
[
[
"class",
[
"str",
"construct.core.Renamed"
]
],
[
"name",
[
"str",
"real"
]
],
[
"sizeof",
[
"float",
"1.0"
]
],
[
"subcon",
[
"dict",
[
[
"class",
[
"str",
"ceos_alos2.datatypes.AsciiFloat"
]
],
[
"sizeof",
[
"float",
"1.0"
]
],
[
"subcon",
[
"dict",
[
[
"class",
[
"str",
"construct.core.StringEncoded"
]
],
[
"sizeof",
[
"float",
"1.0"
]
],
[
"encoding",
[
"str",
"'ascii'"
]
],
[
"subcon",
[
"dict",
[
[
"class",
[
"str",
"construct.core.FixedSized"
]
],
[
"sizeof",
[
"float",
"1.0"
]
],
[
"length",
[
"str",
"1.0"
]
],
[
"subcon",
[
"dict",
[
[
"class",
[
"str",
"construct.core.NullStripped"
]
],
[
"sizeof",
[
"str",
"SizeofError"
]
],
[
"subcon",
[
"dict",
[
[
"class",
[
"str",
"construct.core.GreedyBytes"
]
],
[
"sizeof",
[
"str",
"SizeofError"
]
]
]
]
]
]
]
]
]
]
]
]
]
]
]
]
]
]
],
[
"dict",
[
[
"class",
[
"str",
"construct.core.Renamed"
]
],
[
"name",
[
"str",
"imaginary"
]
],
[
"sizeof",
[
"float",
"1.0"
]
],
[
"subcon",
[
"dict",
[
[
"class",
[
"str",
"ceos_alos2.datatypes.AsciiFloat"
]
],
[
"sizeof",
[
"float",
"1.0"
]
],
[
"subcon",
[
"dict",
[
[
"class",
[
"str",
"construct.core.StringEncoded"
]
],
[
"sizeof",
[
"float",
"1.0"
]
],
[
"encoding",
[
"str",
"'ascii'"
]
],
[
"subcon",
[
"dict",
[
[
"class",
[
"str",
"construct.core.FixedSized"
]
],
[
"sizeof",
[
"float",
"1.0"
]
],
[
"length",
[
"str",
"1.0"
]
],
[
"subcon",
[
"dict",
[
[
"class",
[
"str",
"construct.core.NullStripped"
]
],
[
"sizeof",
[
"str",
"SizeofError"
]
],
[
"subcon",
[
"dict",
[
[
"class",
[
"str",
"construct.core.GreedyBytes"
]
],
[
"sizeof",
[
"str",
"SizeofError"
]
]
]
]
]
]
]
]
]
]
]
]
]
]
]
]
]
]
]
]
]
]
]
]
]
]
]
],
"AsciiComplex(2.5).parse": [
"raised",
"construct.core.StreamError",
"Error in path (parsing) -> real\nstream.read() failed, requested 1.0 bytes"
],
"AsciiComplex(32).build": [
"raised",
"builtins.NotImplementedError",
""
],
"AsciiComplex(32).describe": [
"returned",
[
"dict",
[
[
"class",
[
"str",
"ceos_alos2.datatypes.AsciiComplex"
]
],
[
"sizeof",
[
"int",
32
]
],
[
"subcon",
[
"dict",
[
[
"class",
[
"str",
"construct.core.Struct"
]
],
[
"sizeof",
[
"int",
32
]
],
[
"subcons",
[
"list",
[
[
"dict",
[
[
"class",
[
"str",
"construct.core.Renamed"
]
],
[
"name",
[
"str",
"real"
]
],
[
"sizeof",
[
"int",
16
]
],
[
"subcon",
[
"dict",
[
[
"class",
[
"str",
"ceos_alos2.datatypes.AsciiFloat"
]
],
[
"sizeof",
[
"int",
16
]
],
[
"subcon",
[
"dict",
[
[
"class",
[
"str",
"construct.core.StringEncoded"
]
],
[
"sizeof",
[
"int",
16
]
],
[
"encoding",
[
"str",
"'ascii'"
]
],
[
"subcon",
[
"dict",
[
[
"class",
[
"str",
"construct.core.FixedSized"
]
],
[
"sizeof",
[
"int",
16
]
],
[
"length",
[
"str",
"16"
]
],
[
"subcon",
[
"dict",
[
[
"class",
[
"str",
"construct.core.NullStripped"
]
],
[
"sizeof",
[
"str",
"SizeofError"
]
],
[
"subcon",
[
"dict",
[
[
"class",
[
"str",
"construct.core.GreedyBytes"
]
],
[
"sizeof",
[
"str",
"SizeofError"
]
]
]
]
]
]
]
]
]
]
]
]
]
]
]
]
]
]
],
[
"dict",
[
[
"class",
[
"str",
"construct.core.Renamed"
]
],
[
"name",
[
"str",
"imaginary"
]
],
[
"sizeof",
[
"int",
16
]
],
[
"subcon",
[
"dict",
[
[
"class",
[
"str",
"ceos_alos2.datatypes.AsciiFloat"
]
],
[
"sizeof",
[
"int",
16
]
],
[
"subcon",
[
"dict",
[
[
"class",
[
"str",
"construct.core.StringEncoded"
]
],
[
"sizeof",
[
"int",
16
]
],
[
"encoding",
[
"str",
"'ascii'"
]
],
[
"subcon",
[
"dict",
[
[
"class",
[
"str",
"construct.core.FixedSized"
]
],
[
"sizeof",
[
"int",
16
]
],
[
"length",
[
"str",
"16"
]
],
[
"subcon",
[
"dict",
[
[
"class",
[
"str",
"construct.core.NullStripped"
]
],
[
"sizeof",
[
"str",
"SizeofError"
]
],
[
"subcon",
[
"dict",
[
[
"class",
[
"str",
"construct.core.GreedyBytes"
]
],
[
"sizeof",
[
"str",
"SizeofError"
]
]
]
]
]
]
]
]
]
]
]
]
]
]
]
]
]
]
]
]
]
]
]
]
]
]
]
],
"AsciiComplex(32).parse(b'  1.2345678E+01  -9.8765432E-01  ')": [
"returned",
[
"complex",
"(12.345678-0.98765432j)"
]
],
"AsciiComplex(32).parse(b'  1.2345678E+01 -9.8765432E-01   ')": [
"returned",
[
"complex",
"(12.345678-0.98765432j)"
]
],
"AsciiComplex(4, 5)": [
"raised",
"builtins.TypeError",
"AsciiComplex.__init__() takes 2 positional arguments but 3 were given"
],
"AsciiComplex(7).build": [
"raised",
"builtins.NotImplementedError",
""
],
"AsciiComplex(7).describe": [
"returned",
[
"dict",
[
[
"class",
[
"str",
"ceos_alos2.datatypes.AsciiComplex"
]
],
[
"sizeof",
[
"int",
6
]
],
[
"subcon",
[
"dict",
[
[
"class",
[
"str",
"construct.core.Struct"
]
],
[
"sizeof",
[
"int",
6
]
],
[
"subcons",
[
"list",
[
[
"dict",
[
[
"class",
[
"str",
"construct.core.Renamed"
]
],
[
"name",
[
"str",
"real"
]
],
[
"sizeof",
[
"int",
3
]
],
[
"subcon",
[
"dict",
[
[
"class",
[
"str",
"ceos_alos2.datatypes.AsciiFloat"
]
],
[
"sizeof",
[
"int",
3
]
],
[
"subcon",
[
"dict",
[
[
"class",
[
"str",
"construct.core.StringEncoded"
]
],
[
"sizeof",
[
"int",
3
]
],
[
"encoding",
[
"str",
"'ascii'"
]
],
[
"subcon",
[
"dict",
[
[
"class",
[
"str",
"construct.core.FixedSized"
]
],
[
"sizeof",
[
"int",
3
]
],
[
"length",
[
"str",
"3"
]
],
[
"subcon",
[
"dict",
[
[
"class",
[
"str",
"construct.core.NullStripped"
]
],
[
"sizeof",
[
"str",
"SizeofError"
]
],
[
"subcon",
[
"dict",
[
[
"class",
[
"str",
"construct.core.GreedyBytes"
]
],
[
"sizeof",
[
"str",
"SizeofError"
]
]
]
]
]
]
]
]
]
]
]
]
]
]
]
]
]
]
],
[
"dict",
[
[
"class",
[
"str",
"construct.core.Renamed"
]
],
[
"name",
[
"str",
"imaginary"
]
],
[
"sizeof",
[
"int",
3
]
],
[
"subcon",
[
"dict",
[
[
"class",
[
"str",
"ceos_alos2.datatypes.AsciiFloat"
]
],
[
"sizeof",
[
"int",
3
]
],
[
"subcon",
[
"dict",
[
[
"class",
[
"str",
"construct.core.StringEncoded"
]
],
[
"sizeof",
[
"int",
3
]
],
[
"encoding",
[
"str",
"'ascii'"
]
],
[
"subcon",
[
"dict",
[
[
"class",
[
"str",
"construct.core.FixedSized"
]
],
[
"sizeof",
[
"int",
3
]
],
[
"length",
[
"str",
"3"
]
],
[
"subcon",
[
"dict",
[
[
"class",
[
"str",
"construct.core.NullStripped"
]
],
[
"sizeof",
[
"str",
"SizeofError"
]
],
[
"subcon",
[
"dict",
[
[
"class",
[
"str",
"construct.core.GreedyBytes"
]
],
[
"sizeof",
[
"str",
"SizeofError"
]
]
]
]
]
]
]
]
]
]
]
]
]
]
]
]
]
]
]
]
]
]
]
]
]
]
]
],
"AsciiComplex(7).parse(b'1.52.5')": [
"returned",
[
"complex",
"(1.5+2.5j)"
]
],
"AsciiComplex(7).parse(b'1.52.5X')": [
"returned",
[
"complex",
"(1.5+2.5j)"
]
],
"AsciiComplex(8).build": [
"raised",
"builtins.NotImplementedError",
""
],
"AsciiComplex(8).describe": [
"returned",
[
"dict",
[
[
"class",
[
"str",
"ceos_alos2.datatypes.AsciiComplex"
]
],
[
"sizeof",
[
"int",
8
]
],
[
"subcon",
[
"dict",
[
[
"class",
[
"str",
"construct.core.Struct"
]
],
[
"sizeof",
[
"int",
8
]
],
[
"subcons",
[
"list",
[
[
"dict",
[
[
"class",
[
"str",
"construct.core.Renamed"
]
],
[
"name",
[
"str",
"real"
]
],
[
"sizeof",
[
"int",
4
]
],
[
"subcon",
[
"dict",
[
[
"class",
[
"str",
"ceos_alos2.datatypes.AsciiFloat"
]
],
[
"sizeof",
[
"int",
4
]
],
[
"subcon",
[
"dict",
[
[
"class",
[
"str",
"construct.core.StringEncoded"
]
],
[
"sizeof",
[
"int",
4
]
],
[
"encoding",
[
"str",
"'ascii'"
]
],
[
"subcon",
[
"dict",
[
[
"class",
[
"str",
"construct.core.FixedSized"
]
],
[
"sizeof",
[
"int",
4
]
],
[
"length",
[
"str",
"4"
]
],
[
"subcon",
[
"dict",
[
[
"class",
[
"str",
"construct.core.NullStripped"
]
],
[
"sizeof",
[
"str",
"SizeofError"
]
],
[
"subcon",
[
"dict",
[
[
"class",
[
"str",
"construct.core.GreedyBytes"
]
],
[
"sizeof",
[
"str",
"SizeofError"
]
]
]
]
]
]
]
]
]
]
]
]
]
]
]
]
]
]
],
[
"dict",
[
[
"class",
[
"str",
"construct.core.Renamed"
]
],
[
"name",
[
"str",
"imaginary"
]
],
[
"sizeof",
[
"int",
4
]
],
[
"subcon",
[
"dict",
[
[
"class",
[
"str",
"ceos_alos2.datatypes.AsciiFloat"
]
],
[
"sizeof",
[
"int",
4
]
],
[
"subcon",
[
"dict",
[
[
"class",
[
"str",
"construct.core.StringEncoded"
]
],
[
"sizeof",
[
"int",
4
]
],
[
"encoding",
[
"str",
"'ascii'"
]
],
[
"subcon",
[
"dict",
[
[
"class",
[
"str",
"construct.core.FixedSized"
]
],
[
"sizeof",
[
"int",
4
]
],
[
"length",
[
"str",
"4"
]
],
[
"subcon",
[
"dict",
[
[
"class",
[
"str",
"construct.core.NullStripped"
]
],
[
"sizeof",
[
"str",
"SizeofError"
]
],
[
"subcon",
[
"dict",
[
[
"class",
[
"str",
"construct.core.GreedyBytes"
]
],
[
"sizeof",
[
"str",
"SizeofError"
]
]
]
]
]
]
]
]
]
]
]
]
]
]
]
]
]
]
]
]
]
]
]
]
]
]
]
],
"AsciiComplex(8).parse(b'        ')": [
"returned",
[
"complex",
"(nan+nanj)"
]
],
"AsciiComplex(8).parse(b'    8.42')": [
"returned",
[
"complex",
"(nan+8.42j)"
]
],
"AsciiComplex(8).parse(b'1.55    ')": [
"returned",
[
"complex",
"(nan+nanj)"
]
],
"AsciiComplex(8).parse(b'1.558.42')": [
"returned",
[
"complex",
"(1.55+8.42j)"
]
],
"AsciiComplex(None)": [
"raised",
"builtins.TypeError",
"unsupported operand type(s) for //: 'NoneType' and 'int'"
],
"AsciiComplex(None).parse": [
"raised",
"builtins.TypeError",
"unsupported operand type(s) for //: 'NoneType' and 'int'"
],
"AsciiComplex([4])": [
"raised",
"builtins.TypeError",
"unsupported operand type(s) for //: 'list' and 'int'"
],
"AsciiComplex([4]).parse": [
"raised",
"builtins.TypeError",
"unsupported operand type(s) for //: 'list' and 'int'"
],
"AsciiComplex(n_bytes=4)": [
"returned",
[
"dict",
[
[
"class",
[
"str",
"ceos_alos2.datatypes.AsciiComplex"
]
],
[
"sizeof",
[
"int",
4
]
],
[
"subcon",
[
"dict",
[
[
"class",
[
"str",
"construct.core.Struct"
]
],
[
"sizeof",
[
"int",
4
]
],
[
"subcons",
[
"list",
[
[
"dict",
[
[
"class",
[
"str",
"construct.core.Renamed"
]
],
[
"name",
[
"str",
"real"
]
],
[
"sizeof",
[
"int",
2
]
],
[
"subcon",
[
"dict",
[
[
"class",
[
"str",
"ceos_alos2.datatypes.AsciiFloat"
]
],
[
"sizeof",
[
"int",
2
]
],
[
"subcon",
[
"dict",
[
[
"class",
[
"str",
"construct.core.StringEncoded"
]
],
[
"sizeof",
[
"int",
2
]
],
[
"encoding",
[
"str",
"'ascii'"
]
],
[
"subcon",
[
"dict",
[
[
"class",
[
"str",
"construct.core.FixedSized"
]
],
[
"sizeof",
[
"int",
2
]
],
[
"length",
[
"str",
"2"
]
],
[
"subcon",
[
"dict",
[
[
"class",
[
"str",
"construct.core.NullStripped"
]
],
[
"sizeof",
[
"str",
"SizeofError"
]
],
[
"subcon",
[
"dict",
[
[
"class",
[
"str",
"construct.core.GreedyBytes"
]
],
[
"sizeof",
[
"str",
"SizeofError"
]
]
]
]
]
]
]
]
]
]
]
]
]
]
]
]
]
]
],
[
"dict",
[
[
"class",
[
"str",
"construct.core.Renamed"
]
],
[
"name",
[
"str",
"imaginary"
]
],
[
"sizeof",
[
"int",
2
]
],
[
"subcon",
[
"dict",
[
[
"class",
[
"str",
"ceos_alos2.datatypes.AsciiFloat"
]
],
[
"sizeof",
[
"int",
2
]
],
[
"subcon",
[
"dict",
[
[
"class",
[
"str",
"construct.core.StringEncoded"
]
],
[
"sizeof",
[
"int",
2
]
],
[
"encoding",
[
"str",
"'ascii'"
]
],
[
"subcon",
[
"dict",
[
[
"class",
[
"str",
"construct.core.FixedSized"
]
],
[
"sizeof",
[
"int",
2
]
],
[
"length",
[
"str",
"2"
]
],
[
"subcon",
[
"dict",
[
[
"class",
[
"str",
"construct.core.NullStripped"
]
],
[
"sizeof",
[
"str",
"SizeofError"
]
],
[
"subcon",
[
"dict",
[
[
"class",
[
"str",
"construct.core.GreedyBytes"
]
],
[
"sizeof",
[
"str",
"SizeofError"
]
]
]
]
]
]
]
]
]
]
]
]
]
]
]
]
]
]
]
]
]
]
]
]
]
]
]
],
"AsciiComplex._decode((3+4j))": [
"raised",
"builtins.AttributeError",
"'complex' object has no attribute 'imaginary'"
],
"AsciiComplex._decode(2.5)": [
"raised",
"builtins.AttributeError",
"'float' object has no attribute 'imaginary'"
],
"AsciiComplex._decode(Container(real=-0.0, imaginary=-0.0))": [
"returned",
[
"complex",
"(-0+0j)"
]
],
"AsciiComplex._decode(Container(real=1, imaginary=2))": [
"returned",
[
"complex",
"(1+2j)"
]
],
"AsciiComplex._decode(Container(real=1.0))": [
"raised",
"builtins.AttributeError",
"imaginary"
],
"AsciiComplex._decode(Container(real=1.0, imaginary=2.0))": [
"returned",
[
"complex",
"(1+2j)"
]
],
"AsciiComplex._decode(Container(real=1.0, imaginary=inf))": [
"returned",
[
"complex",
"(nan+infj)"
]
],
"AsciiComplex._decode(Container(real=nan, imaginary=2.0))": [
"returned",
[
"complex",
"(nan+2j)"
]
],
"AsciiComplex._decode({'real': 1.0, 'imaginary': 2.0})": [
"raised",
"builtins.AttributeError",
"'dict' object has no attribute 'real'"
],
"AsciiComplex._encode": [
"raised",
"builtins.NotImplementedError",
""
],
"AsciiComplex.mro": [
"AsciiComplex",
"Adapter",
"Subconstruct",
"Construct",
"object"
],
"AsciiFloat('4')": [
"returned",
[
"dict",
[
[
"class",
[
"str",
"ceos_alos2.datatypes.AsciiFloat"
]
],
[
"sizeof",
[
"str",
"TypeError"
]
],
[
"subcon",
[
"dict",
[
[
"class",
[
"str",
"construct.core.StringEncoded"
]
],
[
"sizeof",
[
"str",
"TypeError"
]
],
[
"encoding",
[
"str",
"'ascii'"
]
],
[
"subcon",
[
"dict",
[
[
"class",
[
"str",
"construct.core.FixedSized"
]
],
[
"sizeof",
[
"str",
"TypeError"
]
],
[
"length",
[
"str",
"'4'"
]
],
[
"subcon",
[
"dict",
[
[
"class",
[
"str",
"construct.core.NullStripped"
]
],
[
"sizeof",
[
"str",
"SizeofError"
]
],
[
"subcon",
[
"dict",
[
[
"class",
[
"str",
"construct.core.GreedyBytes"
]
],
[
"sizeof",
[
"str",
"SizeofError"
]
]
]
]
]
]
]
]
]
]
]
]
]
]
]
]
],
"AsciiFloat('4').parse": [
"raised",
"builtins.TypeError",
"'<' not supported between instances of 'str' and 'int'"
],
"AsciiFloat()": [
"raised",
"builtins.TypeError",
"AsciiFloat.__init__() missing 1 required positional argument: 'n_bytes'"
],
"AsciiFloat(-1)": [
"returned",
[
"dict",
[
[
"class",
[
"str",
"ceos_alos2.datatypes.AsciiFloat"
]
],
[
"sizeof",
[
"str",
"PaddingError"
]
],
[
"subcon",
[
"dict",
[
[
"class",
[
"str",
"construct.core.StringEncoded"
]
],
[
"sizeof",
[
"str",
"PaddingError"
]
],
[
"encoding",
[
"str",
"'ascii'"
]
],
[
"subcon",
[
"dict",
[
[
"class",
[
"str",
"construct.core.FixedSized"
]
],
[
"sizeof",
[
"str",
"PaddingError"
]
],
[
"length",
[
"str",
"-1"
]
],
[
"subcon",
[
"dict",
[
[
"class",
[
"str",
"construct.core.NullStripped"
]
],
[
"sizeof",
[
"str",
"SizeofError"
]
],
[
"subcon",
[
"dict",
[
[
"class",
[
"str",
"construct.core.GreedyBytes"
]
],
[
"sizeof",
[
"str",
"SizeofError"
]
]
]
]
]
]
]
]
]
]
]
]
]
]
]
]
],
"AsciiFloat(-1).parse": [
"raised",
"construct.core.PaddingError",
"Error in path (parsing)\nlength cannot be negative"
],
"AsciiFloat(0).build": [
"raised",
"builtins.NotImplementedError",
""
],
"AsciiFloat(0).describe": [
"returned",
[
"dict",
[
[
"class",
[
"str",
"ceos_alos2.datatypes.AsciiFloat"
]
],
[
"sizeof",
[
"int",
0
]
],
[
"subcon",
[
"dict",
[
[
"class",
[
"str",
"construct.core.StringEncoded"
]
],
[
"sizeof",
[
"int",
0
]
],
[
"encoding",
[
"str",
"'ascii'"
]
],
[
"subcon",
[
"dict",
[
[
"class",
[
"str",
"construct.core.FixedSized"
]
],
[
"sizeof",
[
"int",
0
]
],
[
"length",
[
"str",
"0"
]
],
[
"subcon",
[
"dict",
[
[
"class",
[
"str",
"construct.core.NullStripped"
]
],
[
"sizeof",
[
"str",
"SizeofError"
]
],
[
"subcon",
[
"dict",
[
[
"class",
[
"str",
"construct.core.GreedyBytes"
]
],
[
"sizeof",
[
"str",
"SizeofError"
]
]
]
]
]
]
]
]
]
]
]
]
]
]
]
]
],
"AsciiFloat(0).parse(b'')": [
"returned",
[
"float",
"nan"
]
],
"AsciiFloat(1).build": [
"raised",
"builtins.NotImplementedError",
""
],
"AsciiFloat(1).describe": [
"returned",
[
"dict",
[
[
"class",
[
"str",
"ceos_alos2.datatypes.AsciiFloat"
]
],
[
"sizeof",
[
"int",
1
]
],
[
"subcon",
[
"dict",
[
[
"class",
[
"str",
"construct.core.StringEncoded"
]
],
[
"sizeof",
[
"int",
1
]
],
[
"encoding",
[
"str",
"'ascii'"
]
],
[
"subcon",
[
"dict",
[
[
"class",
[
"str",
"construct.core.FixedSized"
]
],
[
"sizeof",
[
"int",
1
]
],
[
"length",
[
"str",
"1"
]
],
[
"subcon",
[
"dict",
[
[
"class",
[
"str",
"construct.core.NullStripped"
]
],
[
"sizeof",
[
"str",
"SizeofError"
]
],
[
"subcon",
[
"dict",
[
[
"class",
[
"str",
"construct.core.GreedyBytes"
]
],
[
"sizeof",
[
"str",
"SizeofError"
]
]
]
]
]
]
]
]
]
]
]
]
]
]
]
]
],
"AsciiFloat(1).parse(b' ')": [
"returned",
[
"float",
"nan"
]
],
"AsciiFloat(1).parse(b'3')": [
"returned",
[
"float",
"3.0"
]
],
"AsciiFloat(16).build": [
"raised",
"builtins.NotImplementedError",
""
],
"AsciiFloat(16).describe": [
"returned",
[
"dict",
[
[
"class",
[
"str",
"ceos_alos2.datatypes.AsciiFloat"
]
],
[
"sizeof",
[
"int",
16
]
],
[
"subcon",
[
"dict",
[
[
"class",
[
"str",
"construct.core.StringEncoded"
]
],
[
"sizeof",
[
"int",
16
]
],
[
"encoding",
[
"str",
"'ascii'"
]
],
[
"subcon",
[
"dict",
[
[
"class",
[
"str",
"construct.core.FixedSized"
]
],
[
"sizeof",
[
"int",
16
]
],
[
"length",
[
"str",
"16"
]
],
[
"subcon",
[
"dict",
[
[
"class",
[
"str",
"construct.core.NullStripped"
]
],
[
"sizeof",
[
"str",
"SizeofError"
]
],
[
"subcon",
[
"dict",
[
[
"class",
[
"str",
"construct.core.GreedyBytes"
]
],
[
"sizeof",
[
"str",
"SizeofError"
]
]
]
]
]
]
]
]
]
]
]
]
]
]
]
]
],
"AsciiFloat(16).parse(b'     6598487.832')": [
"returned",
[
"float",
"6598487.832"
]
],
"AsciiFloat(16).parse(b'162436598487.832')": [
"returned",
[
"float",
"162436598487.832"
]
],
"AsciiFloat(2.0)": [
"returned",
[
"dict",
[
[
"class",
[
"str",
"ceos_alos2.datatypes.AsciiFloat"
]
],
[
"sizeof",
[
"float",
"2.0"
]
],
[
"subcon",
[
"dict",
[
[
"class",
[
"str",
"construct.core.StringEncoded"
]
],
[
"sizeof",
[
"float",
"2.0"
]
],
[
"encoding",
[
"str",
"'ascii'"
]
],
[
"subcon",
[
"dict",
[
[
"class",
[
"str",
"construct.core.FixedSized"
]
],
[
"sizeof",
[
"float",
"2.0"
]
],
[
"length",
[
"str",
"2.0"
]
],
[
"subcon",
[
"dict",
[
[
"class",
[
"str",
"construct.core.NullStripped"
]
],
[
"sizeof",
[
"str",
"SizeofError"
]
],
[
"subcon",
[
"dict",
[
[
"class",
[
"str",
"construct.core.GreedyBytes"
]
],
[
"sizeof",
[
"str",
"SizeofError"
]
]
]
]
]
]
]
]
]
]
]
]
]
]
]
]
],
"AsciiFloat(2.0).parse": [
"raised",
"construct.core.StreamError",
"Error in path (parsing)\nstream.read() failed, requested 2.0 bytes"
],
"AsciiFloat(2.5)": [
"returned",
[
"dict",
[
[
"class",
[
"str",
"ceos_alos2.datatypes.AsciiFloat"
]
],
[
"sizeof",
[
"float",
"2.5"
]
],
[
"subcon",
[
"dict",
[
[
"class",
[
"str",
"construct.core.StringEncoded"
]
],
[
"sizeof",
[
"float",
"2.5"
]
],
[
"encoding",
[
"str",
"'ascii'"
]
],
[
"subcon",
[
"dict",
[
[
"class",
[
"str",
"construct.core.FixedSized"
]
],
[
"sizeof",
[
"float",
"2.5"
]
],
[
"length",
[
"str",
"2.5"
]
],
[
"subcon",
[
"dict",
[
[
"class",
[
"str",
"construct.core.NullStripped"
]
],
[
"sizeof",
[
"str",
"SizeofError"
]
],
[
"subcon",
[
"dict",
[
[
"class",
[
"str",
"construct.core.GreedyBytes"
]
],
[
"sizeof",
[
"str",
"SizeofError"
]
]
]
]
]
]
]
]
]
]
]
]
]
]
]
]
],
"AsciiFloat(2.5).parse": [
"raised",
"construct.core.StreamError",
"Error in path (parsing)\nstream.read() failed, requested 2.5 bytes"
],
"AsciiFloat(24).build": [
"raised",
"builtins.NotImplementedError",
""
],
"AsciiFloat(24).describe": [
"returned",
[
"dict",
[
[
"class",
[
"str",
"ceos_alos2.datatypes.AsciiFloat"
]
],
[
"sizeof",
[
"int",
24
]
],
[
"subcon",
[
"dict",
[
[
"class",
[
"str",
"construct.core.StringEncoded"
]
],
[
"sizeof",
[
"int",
24
]
],
[
"encoding",
[
"str",
"'ascii'"
]
],
[
"subcon",
[
"dict",
[
[
"class",
[
"str",
"construct.core.FixedSized"
]
],
[
"sizeof",
[
"int",
24
]
],
[
"length",
[
"str",
"24"
]
],
[
"subcon",
[
"dict",
[
[
"class",
[
"str",
"construct.core.NullStripped"
]
],
[
"sizeof",
[
"str",
"SizeofError"
]
],
[
"subcon",
[
"dict",
[
[
"class",
[
"str",
"construct.core.GreedyBytes"
]
],
[
"sizeof",
[
"str",
"SizeofError"
]
]
]
]
]
]
]
]
]
]
]
]
]
]
]
]
],
"AsciiFloat(24).parse(b'  1.2345678901234567E+01')": [
"returned",
[
"float",
"12.345678901234567"
]
],
"AsciiFloat(4, 5)": [
"raised",
"builtins.TypeError",
"AsciiFloat.__init__() takes 2 positional arguments but 3 were given"
],
"AsciiFloat(8).build": [
"raised",
"builtins.NotImplementedError",
""
],
"AsciiFloat(8).describe": [
"returned",
[
"dict",
[
[
"class",
[
"str",
"ceos_alos2.datatypes.AsciiFloat"
]
],
[
"sizeof",
[
"int",
8
]
],
[
"subcon",
[
"dict",
[
[
"class",
[
"str",
"construct.core.StringEncoded"
]
],
[
"sizeof",
[
"int",
8
]
],
[
"encoding",
[
"str",
"'ascii'"
]
],
[
"subcon",
[
"dict",
[
[
"class",
[
"str",
"construct.core.FixedSized"
]
],
[
"sizeof",
[
"int",
8
]
],
[
"length",
[
"str",
"8"
]
],
[
"subcon",
[
"dict",
[
[
"class",
[
"str",
"construct.core.NullStripped"
]
],
[
"sizeof",
[
"str",
"SizeofError"
]
],
[
"subcon",
[
"dict",
[
[
"class",
[
"str",
"construct.core.GreedyBytes"
]
],
[
"sizeof",
[
"str",
"SizeofError"
]
]
]
]
]
]
]
]
]
]
]
]
]
]
]
]
],
"AsciiFloat(8).parse(b'        ')": [
"returned",
[
"float",
"nan"
]
],
"AsciiFloat(8).parse(b'      .5')": [
"returned",
[
"float",
"0.5"
]
],
"AsciiFloat(8).parse(b'      5.')": [
"returned",
[
"float",
"5.0"
]
],
"AsciiFloat(8).parse(b'     abc')": [
"raised",
"builtins.ValueError",
"could not convert string to float: 'abc'"
],
"AsciiFloat(8).parse(b'     inf')": [
"returned",
[
"float",
"inf"
]
],
"AsciiFloat(8).parse(b'     nan')": [
"returned",
[
"float",
"nan"
]
],
"AsciiFloat(8).parse(b'    -0.0')": [
"returned",
[
"float",
"-0.0"
]
],
"AsciiFloat(8).parse(b'    -inf')": [
"returned",
[
"float",
"-inf"
]
],
"AsciiFloat(8).parse(b'    0x10')": [
"raised",
"builtins.ValueError",
"could not convert string to float: '0x10'"
],
"AsciiFloat(8).parse(b'   1_0.5')": [
"returned",
[
"float",
"10.5"
]
],
"AsciiFloat(8).parse(b'  1.5 2 ')": [
"raised",
"builtins.ValueError",
"could not convert string to float: '1.5 2'"
],
"AsciiFloat(8).parse(b'  1.E-03')": [
"returned",
[
"float",
"0.001"
]
],
"AsciiFloat(8).parse(b' 165.820')": [
"returned",
[
"float",
"165.82"
]
],
"AsciiFloat(8).parse(b'-1.5e+10')": [
"returned",
[
"float",
"-15000000000.0"
]
],
"AsciiFloat(8).parse(b'1.5')": [
"raised",
"construct.core.StreamError",
"Error in path (parsing)\nstream read less than specified amount, expected 8, found 3"
],
"AsciiFloat(8).parse(b'1.5D+03 ')": [
"raised",
"builtins.ValueError",
"could not convert string to float: '1.5D+03'"
],
"AsciiFloat(8).parse(b'1.5\\x00\\x00\\x00\\x00\\x00')": [
"returned",
[
"float",
"1.5"
]
],
"AsciiFloat(8).parse(b'1558.423')": [
"returned",
[
"float",
"1558.423"
]
],
"AsciiFloat(8).parse(b'1e5     ')": [
"returned",
[
"float",
"100000.0"
]
],
"AsciiFloat(8).parse(b'Infinity')": [
"returned",
[
"float",
"inf"
]
],
"AsciiFloat(8).parse(b'NaN     ')": [
"returned",
[
"float",
"nan"
]
],
"AsciiFloat(8).parse(b'\\t\\n\\r\\x0b\\x0c   ')": [
"returned",
[
"float",
"nan"
]
],
"AsciiFloat(8).parse(b'\\x00\\x00\\x00\\x00\\x00\\x00\\x00\\x00')": [
"returned",
[
"float",
"nan"
]
],
"AsciiFloat(8).parse(b'\\xe9       ')": [
"raised",
"construct.core.StringError",
"cannot use encoding 'ascii' to decode b'\\xe9       '"
],
"AsciiFloat(None)": [
"returned",
[
"dict",
[
[
"class",
[
"str",
"ceos_alos2.datatypes.AsciiFloat"
]
],
[
"sizeof",
[
"str",
"TypeError"
]
],
[
"subcon",
[
"dict",
[
[
"class",
[
"str",
"construct.core.StringEncoded"
]
],
[
"sizeof",
[
"str",
"TypeError"
]
],
[
"encoding",
[
"str",
"'ascii'"
]
],
[
"subcon",
[
"dict",
[
[
"class",
[
"str",
"construct.core.FixedSized"
]
],
[
"sizeof",
[
"str",
"TypeError"
]
],
[
"length",
[
"str",
"None"
]
],
[
"subcon",
[
"dict",
[
[
"class",
[
"str",
"construct.core.NullStripped"
]
],
[
"sizeof",
[
"str",
"SizeofError"
]
],
[
"subcon",
[
"dict",
[
[
"class",
[
"str",
"construct.core.GreedyBytes"
]
],
[
"sizeof",
[
"str",
"SizeofError"
]
]
]
]
]
]
]
]
]
]
]
]
]
]
]
]
],
"AsciiFloat(None).parse": [
"raised",
"builtins.TypeError",
"'<' not supported between instances of 'NoneType' and 'int'"
],
"AsciiFloat([4])": [
"returned",
[
"dict",
[
[
"class",
[
"str",
"ceos_alos2.datatypes.AsciiFloat"
]
],
[
"sizeof",
[
"str",
"TypeError"
]
],
[
"subcon",
[
"dict",
[
[
"class",
[
"str",
"construct.core.StringEncoded"
]
],
[
"sizeof",
[
"str",
"TypeError"
]
],
[
"encoding",
[
"str",
"'ascii'"
]
],
[
"subcon",
[
"dict",
[
[
"class",
[
"str",
"construct.core.FixedSized"
]
],
[
"sizeof",
[
"str",
"TypeError"
]
],
[
"length",
[
"str",
"[4]"
]
],
[
"subcon",
[
"dict",
[
[
"class",
[
"str",
"construct.core.NullStripped"
]
],
[
"sizeof",
[
"str",
"SizeofError"
]
],
[
"subcon",
[
"dict",
[
[
"class",
[
"str",
"construct.core.GreedyBytes"
]
],
[
"sizeof",
[
"str",
"SizeofError"
]
]
]
]
]
]
]
]
]
]
]
]
]
]
]
]
],
"AsciiFloat([4]).parse": [
"raised",
"builtins.TypeError",
"'<' not supported between instances of 'list' and 'int'"
],
"AsciiFloat(n_bytes=4)": [
"returned",
[
"dict",
[
[
"class",
[
"str",
"ceos_alos2.datatypes.AsciiFloat"
]
],
[
"sizeof",
[
"int",
4
]
],
[
"subcon",
[
"dict",
[
[
"class",
[
"str",
"construct.core.StringEncoded"
]
],
[
"sizeof",
[
"int",
4
]
],
[
"encoding",
[
"str",
"'ascii'"
]
],
[
"subcon",
[
"dict",
[
[
"class",
[
"str",
"construct.core.FixedSized"
]
],
[
"sizeof",
[
"int",
4
]
],
[
"length",
[
"str",
"4"
]
],
[
"subcon",
[
"dict",
[
[
"class",
[
"str",
"construct.core.NullStripped"
]
],
[
"sizeof",
[
"str",
"SizeofError"
]
],
[
"subcon",
[
"dict",
[
[
"class",
[
"str",
"construct.core.GreedyBytes"
]
],
[
"sizeof",
[
"str",
"SizeofError"
]
]
]
]
]
]
]
]
]
]
]
]
]
]
]
]
],
"AsciiFloat._decode('   ')": [
"returned",
[
"float",
"nan"
]
],
"AsciiFloat._decode(' 1.5 ')": [
"returned",
[
"float",
"1.5"
]
],
"AsciiFloat._decode('')": [
"returned",
[
"float",
"nan"
]
],
"AsciiFloat._decode('1.5')": [
"returned",
[
"float",
"1.5"
]
],
"AsciiFloat._decode('nan')": [
"returned",
[
"float",
"nan"
]
],
"AsciiFloat._decode('x')": [
"raised",
"builtins.ValueError",
"could not convert string to float: 'x'"
],
"AsciiFloat._decode('\u0661\u066b\u0665')": [
"raised",
"builtins.ValueError",
"could not convert string to float: '\u0661\u066b\u0665'"
],
"AsciiFloat._decode(5)": [
"raised",
"builtins.AttributeError",
"'int' object has no attribute 'strip'"
],
"AsciiFloat._decode(None)": [
"raised",
"builtins.AttributeError",
"'NoneType' object has no attribute 'strip'"
],
"AsciiFloat._decode(b'  ')": [
"returned",
[
"float",
"nan"
]
],
"AsciiFloat._decode(b' 1.5 ')": [
"returned",
[
"float",
"1.5"
]
],
"AsciiFloat._decode(b'')": [
"returned",
[
"float",
"nan"
]
],
"AsciiFloat._encode": [
"raised",
"builtins.NotImplementedError",
""
],
"AsciiFloat.mro": [
"AsciiFloat",
"Adapter",
"Subconstruct",
"Construct",
"object"
],
"AsciiInteger('4')": [
"returned",
[
"dict",
[
[
"class",
[
"str",
"ceos_alos2.datatypes.AsciiInteger"
]
],
[
"sizeof",
[
"str",
"TypeError"
]
],
[
"subcon",
[
"dict",
[
[
"class",
[
"str",
"construct.core.StringEncoded"
]
],
[
"sizeof",
[
"str",
"TypeError"
]
],
[
"encoding",
[
"str",
"'ascii'"
]
],
[
"subcon",
[
"dict",
[
[
"class",
[
"str",
"construct.core.FixedSized"
]
],
[
"sizeof",
[
"str",
"TypeError"
]
],
[
"length",
[
"str",
"'4'"
]
],
[
"subcon",
[
"dict",
[
[
"class",
[
"str",
"construct.core.NullStripped"
]
],
[
"sizeof",
[
"str",
"SizeofError"
]
],
[
"subcon",
[
"dict",
[
[
"class",
[
"str",
"construct.core.GreedyBytes"
]
],
[
"sizeof",
[
"str",
"SizeofError"
]
]
]
]
]
]
]
]
]
]
]
]
]
]
]
]
],
"AsciiInteger('4').parse": [
"raised",
"builtins.TypeError",
"'<' not supported between instances of 'str' and 'int'"
],
"AsciiInteger()": [
"raised",
"builtins.TypeError",
"AsciiInteger.__init__() missing 1 required positional argument: 'n_bytes'"
],
"AsciiInteger(-1)": [
"returned",
[
"dict",
[
[
"class",
[
"str",
"ceos_alos2.datatypes.AsciiInteger"
]
],
[
"sizeof",
[
"str",
"PaddingError"
]
],
[
"subcon",
[
"dict",
[
[
"class",
[
"str",
"construct.core.StringEncoded"
]
],
[
"sizeof",
[
"str",
"PaddingError"
]
],
[
"encoding",
[
"str",
"'ascii'"
]
],
[
"subcon",
[
"dict",
[
[
"class",
[
"str",
"construct.core.FixedSized"
]
],
[
"sizeof",
[
"str",
"PaddingError"
]
],
[
"length",
[
"str",
"-1"
]
],
[
"subcon",
[
"dict",
[
[
"class",
[
"str",
"construct.core.NullStripped"
]
],
[
"sizeof",
[
"str",
"SizeofError"
]
],
[
"subcon",
[
"dict",
[
[
"class",
[
"str",
"construct.core.GreedyBytes"
]
],
[
"sizeof",
[
"str",
"SizeofError"
]
]
]
]
]
]
]
]
]
]
]
]
]
]
]
]
],
"AsciiInteger(-1).parse": [
"raised",
"construct.core.PaddingError",
"Error in path (parsing)\nlength cannot be negative"
],
"AsciiInteger(0).build": [
"raised",
"builtins.NotImplementedError",
""
],
"AsciiInteger(0).describe": [
"returned",
[
"dict",
[
[
"class",
[
"str",
"ceos_alos2.datatypes.AsciiInteger"
]
],
[
"sizeof",
[
"int",
0
]
],
[
"subcon",
[
"dict",
[
[
"class",
[
"str",
"construct.core.StringEncoded"
]
],
[
"sizeof",
[
"int",
0
]
],
[
"encoding",
[
"str",
"'ascii'"
]
],
[
"subcon",
[
"dict",
[
[
"class",
[
"str",
"construct.core.FixedSized"
]
],
[
"sizeof",
[
"int",
0
]
],
[
"length",
[
"str",
"0"
]
],
[
"subcon",
[
"dict",
[
[
"class",
[
"str",
"construct.core.NullStripped"
]
],
[
"sizeof",
[
"str",
"SizeofError"
]
],
[
"subcon",
[
"dict",
[
[
"class",
[
"str",
"construct.core.GreedyBytes"
]
],
[
"sizeof",
[
"str",
"SizeofError"
]
]
]
]
]
]
]
]
]
]
]
]
]
]
]
]
],
"AsciiInteger(0).parse(b'')": [
"returned",
[
"int",
-1
]
],
"AsciiInteger(0).parse(b'1234')": [
"returned",
[
"int",
-1
]
],
"AsciiInteger(1).build": [
"raised",
"builtins.NotImplementedError",
""
],
"AsciiInteger(1).describe": [
"returned",
[
"dict",
[
[
"class",
[
"str",
"ceos_alos2.datatypes.AsciiInteger"
]
],
[
"sizeof",
[
"int",
1
]
],
[
"subcon",
[
"dict",
[
[
"class",
[
"str",
"construct.core.StringEncoded"
]
],
[
"sizeof",
[
"int",
1
]
],
[
"encoding",
[
"str",
"'ascii'"
]
],
[
"subcon",
[
"dict",
[
[
"class",
[
"str",
"construct.core.FixedSized"
]
],
[
"sizeof",
[
"int",
1
]
],
[
"length",
[
"str",
"1"
]
],
[
"subcon",
[
"dict",
[
[
"class",
[
"str",
"construct.core.NullStripped"
]
],
[
"sizeof",
[
"str",
"SizeofError"
]
],
[
"subcon",
[
"dict",
[
[
"class",
[
"str",
"construct.core.GreedyBytes"
]
],
[
"sizeof",
[
"str",
"SizeofError"
]
]
]
]
]
]
]
]
]
]
]
]
]
]
]
]
],
"AsciiInteger(1).parse(b' ')": [
"returned",
[
"int",
-1
]
],
"AsciiInteger(1).parse(b'7')": [
"returned",
[
"int",
7
]
],
"AsciiInteger(16).build": [
"raised",
"builtins.NotImplementedError",
""
],
"AsciiInteger(16).describe": [
"returned",
[
"dict",
[
[
"class",
[
"str",
"ceos_alos2.datatypes.AsciiInteger"
]
],
[
"sizeof",
[
"int",
16
]
],
[
"subcon",
[
"dict",
[
[
"class",
[
"str",
"construct.core.StringEncoded"
]
],
[
"sizeof",
[
"int",
16
]
],
[
"encoding",
[
"str",
"'ascii'"
]
],
[
"subcon",
[
"dict",
[
[
"class",
[
"str",
"construct.core.FixedSized"
]
],
[
"sizeof",
[
"int",
16
]
],
[
"length",
[
"str",
"16"
]
],
[
"subcon",
[
"dict",
[
[
"class",
[
"str",
"construct.core.NullStripped"
]
],
[
"sizeof",
[
"str",
"SizeofError"
]
],
[
"subcon",
[
"dict",
[
[
"class",
[
"str",
"construct.core.GreedyBytes"
]
],
[
"sizeof",
[
"str",
"SizeofError"
]
]
]
]
]
]
]
]
]
]
]
]
]
]
]
]
],
"AsciiInteger(16).parse(b'     99999999999')": [
"returned",
[
"int",
99999999999
]
],
"AsciiInteger(2).build": [
"raised",
"builtins.NotImplementedError",
""
],
"AsciiInteger(2).describe": [
"returned",
[
"dict",
[
[
"class",
[
"str",
"ceos_alos2.datatypes.AsciiInteger"
]
],
[
"sizeof",
[
"int",
2
]
],
[
"subcon",
[
"dict",
[
[
"class",
[
"str",
"construct.core.StringEncoded"
]
],
[
"sizeof",
[
"int",
2
]
],
[
"encoding",
[
"str",
"'ascii'"
]
],
[
"subcon",
[
"dict",
[
[
"class",
[
"str",
"construct.core.FixedSized"
]
],
[
"sizeof",
[
"int",
2
]
],
[
"length",
[
"str",
"2"
]
],
[
"subcon",
[
"dict",
[
[
"class",
[
"str",
"construct.core.NullStripped"
]
],
[
"sizeof",
[
"str",
"SizeofError"
]
],
[
"subcon",
[
"dict",
[
[
"class",
[
"str",
"construct.core.GreedyBytes"
]
],
[
"sizeof",
[
"str",
"SizeofError"
]
]
]
]
]
]
]
]
]
]
]
]
]
]
]
]
],
"AsciiInteger(2).parse(b'15')": [
"returned",
[
"int",
15
]
],
"AsciiInteger(2.0)": [
"returned",
[
"dict",
[
[
"class",
[
"str",
"ceos_alos2.datatypes.AsciiInteger"
]
],
[
"sizeof",
[
"float",
"2.0"
]
],
[
"subcon",
[
"dict",
[
[
"class",
[
"str",
"construct.core.StringEncoded"
]
],
[
"sizeof",
[
"float",
"2.0"
]
],
[
"encoding",
[
"str",
"'ascii'"
]
],
[
"subcon",
[
"dict",
[
[
"class",
[
"str",
"construct.core.FixedSized"
]
],
[
"sizeof",
[
"float",
"2.0"
]
],
[
"length",
[
"str",
"2.0"
]
],
[
"subcon",
[
"dict",
[
[
"class",
[
"str",
"construct.core.NullStripped"
]
],
[
"sizeof",
[
"str",
"SizeofError"
]
],
[
"subcon",
[
"dict",
[
[
"class",
[
"str",
"construct.core.GreedyBytes"
]
],
[
"sizeof",
[
"str",
"SizeofError"
]
]
]
]
]
]
]
]
]
]
]
]
]
]
]
]
],
"AsciiInteger(2.0).parse": [
"raised",
"construct.core.StreamError",
"Error in path (parsing)\nstream.read() failed, requested 2.0 bytes"
],
"AsciiInteger(2.5)": [
"returned",
[
"dict",
[
[
"class",
[
"str",
"ceos_alos2.datatypes.AsciiInteger"
]
],
[
"sizeof",
[
"float",
"2.5"
]
],
[
"subcon",
[
"dict",
[
[
"class",
[
"str",
"construct.core.StringEncoded"
]
],
[
"sizeof",
[
"float",
"2.5"
]
],
[
"encoding",
[
"str",
"'ascii'"
]
],
[
"subcon",
[
"dict",
[
[
"class",
[
"str",
"construct.core.FixedSized"
]
],
[
"sizeof",
[
"float",
"2.5"
]
],
[
"length",
[
"str",
"2.5"
]
],
[
"subcon",
[
"dict",
[
[
"class",
[
"str",
"construct.core.NullStripped"
]
],
[
"sizeof",
[
"str",
"SizeofError"
]
],
[
"subcon",
[
"dict",
[
[
"class",
[
"str",
"construct.core.GreedyBytes"
]
],
[
"sizeof",
[
"str",
"SizeofError"
]
]
]
]
]
]
]
]
]
]
]
]
]
]
]
]
],
"AsciiInteger(2.5).parse": [
"raised",
"construct.core.StreamError",
"Error in path (parsing)\nstream.read() failed, requested 2.5 bytes"
],
"AsciiInteger(32).build": [
"raised",
"builtins.NotImplementedError",
""
],
"AsciiInteger(32).describe": [
"returned",
[
"dict",
[
[
"class",
[
"str",
"ceos_alos2.datatypes.AsciiInteger"
]
],
[
"sizeof",
[
"int",
32
]
],
[
"subcon",
[
"dict",
[
[
"class",
[
"str",
"construct.core.StringEncoded"
]
],
[
"sizeof",
[
"int",
32
]
],
[
"encoding",
[
"str",
"'ascii'"
]
],
[
"subcon",
[
"dict",
[
[
"class",
[
"str",
"construct.core.FixedSized"
]
],
[
"sizeof",
[
"int",
32
]
],
[
"length",
[
"str",
"32"
]
],
[
"subcon",
[
"dict",
[
[
"class",
[
"str",
"construct.core.NullStripped"
]
],
[
"sizeof",
[
"str",
"SizeofError"
]
],
[
"subcon",
[
"dict",
[
[
"class",
[
"str",
"construct.core.GreedyBytes"
]
],
[
"sizeof",
[
"str",
"SizeofError"
]
]
]
]
]
]
]
]
]
]
]
]
]
]
]
]
],
"AsciiInteger(32).parse(b'                               1')": [
"returned",
[
"int",
1
]
],
"AsciiInteger(32).parse(b'99999999999999999999999999999999')": [
"returned",
[
"int",
99999999999999999999999999999999
]
],
"AsciiInteger(4).build": [
"raised",
"builtins.NotImplementedError",
""
],
"AsciiInteger(4).describe": [
"returned",
[
"dict",
[
[
"class",
[
"str",
"ceos_alos2.datatypes.AsciiInteger"
]
],
[
"sizeof",
[
"int",
4
]
],
[
"subcon",
[
"dict",
[
[
"class",
[
"str",
"construct.core.StringEncoded"
]
],
[
"sizeof",
[
"int",
4
]
],
[
"encoding",
[
"str",
"'ascii'"
]
],
[
"subcon",
[
"dict",
[
[
"class",
[
"str",
"construct.core.FixedSized"
]
],
[
"sizeof",
[
"int",
4
]
],
[
"length",
[
"str",
"4"
]
],
[
"subcon",
[
"dict",
[
[
"class",
[
"str",
"construct.core.NullStripped"
]
],
[
"sizeof",
[
"str",
"SizeofError"
]
],
[
"subcon",
[
"dict",
[
[
"class",
[
"str",
"construct.core.GreedyBytes"
]
],
[
"sizeof",
[
"str",
"SizeofError"
]
]
]
]
]
]
]
]
]
]
]
]
]
]
]
]
],
"AsciiInteger(4).parse(b'    ')": [
"returned",
[
"int",
-1
]
],
"AsciiInteger(4).parse(b'  +7')": [
"returned",
[
"int",
7
]
],
"AsciiInteger(4).parse(b'  16')": [
"returned",
[
"int",
16
]
],
"AsciiInteger(4).parse(b' 16 ')": [
"returned",
[
"int",
16
]
],
"AsciiInteger(4).parse(b' 1\\x00 ')": [
"raised",
"builtins.ValueError",
"invalid literal for int() with base 10: '1\\x00'"
],
"AsciiInteger(4).parse(b'')": [
"raised",
"construct.core.StreamError",
"Error in path (parsing)\nstream read less than specified amount, expected 4, found 0"
],
"AsciiInteger(4).parse(b'-5  ')": [
"returned",
[
"int",
-5
]
],
"AsciiInteger(4).parse(b'0007')": [
"returned",
[
"int",
7
]
],
"AsciiInteger(4).parse(b'0x1f')": [
"raised",
"builtins.ValueError",
"invalid literal for int() with base 10: '0x1f'"
],
"AsciiInteger(4).parse(b'1 0 ')": [
"raised",
"builtins.ValueError",
"invalid literal for int() with base 10: '1 0'"
],
"AsciiInteger(4).parse(b'1.5 ')": [
"raised",
"builtins.ValueError",
"invalid literal for int() with base 10: '1.5'"
],
"AsciiInteger(4).parse(b'123')": [
"raised",
"construct.core.StreamError",
"Error in path (parsing)\nstream read less than specified amount, expected 4, found 3"
],
"AsciiInteger(4).parse(b'12345678')": [
"returned",
[
"int",
1234
]
],
"AsciiInteger(4).parse(b'12\\x00\\x00')": [
"returned",
[
"int",
12
]
],
"AsciiInteger(4).parse(b'12a ')": [
"raised",
"builtins.ValueError",
"invalid literal for int() with base 10: '12a'"
],
"AsciiInteger(4).parse(b'16  ')": [
"returned",
[
"int",
16
]
],
"AsciiInteger(4).parse(b'1_0 ')": [
"returned",
[
"int",
10
]
],
"AsciiInteger(4).parse(b'3989')": [
"returned",
[
"int",
3989
]
],
"AsciiInteger(4).parse(b'\\t\\n\\r ')": [
"returned",
[
"int",
-1
]
],
"AsciiInteger(4).parse(b'\\x0012 ')": [
"raised",
"builtins.ValueError",
"invalid literal for int() with base 10: '\\x0012'"
],
"AsciiInteger(4).parse(b'\\x00\\x00\\x00\\x00')": [
"returned",
[
"int",
-1
]
],
"AsciiInteger(4).parse(b'\\x0b\\x0c  ')": [
"returned",
[
"int",
-1
]
],
"AsciiInteger(4).parse(b'\\xff\\xfe12')": [
"raised",
"construct.core.StringError",
"cannot use encoding 'ascii' to decode b'\\xff\\xfe12'"
],
"AsciiInteger(4, 5)": [
"raised",
"builtins.TypeError",
"AsciiInteger.__init__() takes 2 positional arguments but 3 were given"
],
"AsciiInteger(8).build": [
"raised",
"builtins.NotImplementedError",
""
],
"AsciiInteger(8).describe": [
"returned",
[
"dict",
[
[
"class",
[
"str",
"ceos_alos2.datatypes.AsciiInteger"
]
],
[
"sizeof",
[
"int",
8
]
],
[
"subcon",
[
"dict",
[
[
"class",
[
"str",
"construct.core.StringEncoded"
]
],
[
"sizeof",
[
"int",
8
]
],
[
"encoding",
[
"str",
"'ascii'"
]
],
[
"subcon",
[
"dict",
[
[
"class",
[
"str",
"construct.core.FixedSized"
]
],
[
"sizeof",
[
"int",
8
]
],
[
"length",
[
"str",
"8"
]
],
[
"subcon",
[
"dict",
[
[
"class",
[
"str",
"construct.core.NullStripped"
]
],
[
"sizeof",
[
"str",
"SizeofError"
]
],
[
"subcon",
[
"dict",
[
[
"class",
[
"str",
"construct.core.GreedyBytes"
]
],
[
"sizeof",
[
"str",
"SizeofError"
]
]
]
]
]
]
]
]
]
]
]
]
]
]
]
]
],
"AsciiInteger(8).parse(b'  123456')": [
"returned",
[
"int",
123456
]
],
"AsciiInteger(None)": [
"returned",
[
"dict",
[
[
"class",
[
"str",
"ceos_alos2.datatypes.AsciiInteger"
]
],
[
"sizeof",
[
"str",
"TypeError"
]
],
[
"subcon",
[
"dict",
[
[
"class",
[
"str",
"construct.core.StringEncoded"
]
],
[
"sizeof",
[
"str",
"TypeError"
]
],
[
"encoding",
[
"str",
"'ascii'"
]
],
[
"subcon",
[
"dict",
[
[
"class",
[
"str",
"construct.core.FixedSized"
]
],
[
"sizeof",
[
"str",
"TypeError"
]
],
[
"length",
[
"str",
"None"
]
],
[
"subcon",
[
"dict",
[
[
"class",
[
"str",
"construct.core.NullStripped"
]
],
[
"sizeof",
[
"str",
"SizeofError"
]
],
[
"subcon",
[
"dict",
[
[
"class",
[
"str",
"construct.core.GreedyBytes"
]
],
[
"sizeof",
[
"str",
"SizeofError"
]
]
]
]
]
]
]
]
]
]
]
]
]
]
]
]
],
"AsciiInteger(None).parse": [
"raised",
"builtins.TypeError",
"'<' not supported between instances of 'NoneType' and 'int'"
],
"AsciiInteger([4])": [
"returned",
[
"dict",
[
[
"class",
[
"str",
"ceos_alos2.datatypes.AsciiInteger"
]
],
[
"sizeof",
[
"str",
"TypeError"
]
],
[
"subcon",
[
"dict",
[
[
"class",
[
"str",
"construct.core.StringEncoded"
]
],
[
"sizeof",
[
"str",
"TypeError"
]
],
[
"encoding",
[
"str",
"'ascii'"
]
],
[
"subcon",
[
"dict",
[
[
"class",
[
"str",
"construct.core.FixedSized"
]
],
[
"sizeof",
[
"str",
"TypeError"
]
],
[
"length",
[
"str",
"[4]"
]
],
[
"subcon",
[
"dict",
[
[
"class",
[
"str",
"construct.core.NullStripped"
]
],
[
"sizeof",
[
"str",
"SizeofError"
]
],
[
"subcon",
[
"dict",
[
[
"class",
[
"str",
"construct.core.GreedyBytes"
]
],
[
"sizeof",
[
"str",
"SizeofError"
]
]
]
]
]
]
]
]
]
]
]
]
]
]
]
]
],
"AsciiInteger([4]).parse": [
"raised",
"builtins.TypeError",
"'<' not supported between instances of 'list' and 'int'"
],
"AsciiInteger(n_bytes=4)": [
"returned",
[
"dict",
[
[
"class",
[
"str",
"ceos_alos2.datatypes.AsciiInteger"
]
],
[
"sizeof",
[
"int",
4
]
],
[
"subcon",
[
"dict",
[
[
"class",
[
"str",
"construct.core.StringEncoded"
]
],
[
"sizeof",
[
"int",
4
]
],
[
"encoding",
[
"str",
"'ascii'"
]
],
[
"subcon",
[
"dict",
[
[
"class",
[
"str",
"construct.core.FixedSized"
]
],
[
"sizeof",
[
"int",
4
]
],
[
"length",
[
"str",
"4"
]
],
[
"subcon",
[
"dict",
[
[
"class",
[
"str",
"construct.core.NullStripped"
]
],
[
"sizeof",
[
"str",
"SizeofError"
]
],
[
"subcon",
[
"dict",
[
[
"class",
[
"str",
"construct.core.GreedyBytes"
]
],
[
"sizeof",
[
"str",
"SizeofError"
]
]
]
]
]
]
]
]
]
]
]
]
]
]
]
]
],
"AsciiInteger._decode('   ')": [
"returned",
[
"int",
-1
]
],
"AsciiInteger._decode(' 12 ')": [
"returned",
[
"int",
12
]
],
"AsciiInteger._decode('')": [
"returned",
[
"int",
-1
]
],
"AsciiInteger._decode('-3')": [
"returned",
[
"int",
-3
]
],
"AsciiInteger._decode('12')": [
"returned",
[
"int",
12
]
],
"AsciiInteger._decode('x')": [
"raised",
"builtins.ValueError",
"invalid literal for int() with base 10: 'x'"
],
"AsciiInteger._decode('\u0661\u0662')": [
"returned",
[
"int",
12
]
],
"AsciiInteger._decode(5)": [
"raised",
"builtins.AttributeError",
"'int' object has no attribute 'strip'"
],
"AsciiInteger._decode(None)": [
"raised",
"builtins.AttributeError",
"'NoneType' object has no attribute 'strip'"
],
"AsciiInteger._decode(b'  ')": [
"returned",
[
"int",
-1
]
],
"AsciiInteger._decode(b' 12 ')": [
"returned",
[
"int",
12
]
],
"AsciiInteger._decode(b'')": [
"returned",
[
"int",
-1
]
],
"AsciiInteger._encode": [
"raised",
"builtins.NotImplementedError",
""
],
"AsciiInteger.mro": [
"AsciiInteger",
"Adapter",
"Subconstruct",
"Construct",
"object"
],
"PaddedString('4')": [
"returned",
[
"dict",
[
[
"class",
[
"str",
"ceos_alos2.datatypes.PaddedString"
]
],
[
"sizeof",
[
"str",
"TypeError"
]
],
[
"subcon",
[
"dict",
[
[
"class",
[
"str",
"construct.core.StringEncoded"
]
],
[
"sizeof",
[
"str",
"TypeError"
]
],
[
"encoding",
[
"str",
"'ascii'"
]
],
[
"subcon",
[
"dict",
[
[
"class",
[
"str",
"construct.core.FixedSized"
]
],
[
"sizeof",
[
"str",
"TypeError"
]
],
[
"length",
[
"str",
"'4'"
]
],
[
"subcon",
[
"dict",
[
[
"class",
[
"str",
"construct.core.NullStripped"
]
],
[
"sizeof",
[
"str",
"SizeofError"
]
],
[
"subcon",
[
"dict",
[
[
"class",
[
"str",
"construct.core.GreedyBytes"
]
],
[
"sizeof",
[
"str",
"SizeofError"
]
]
]
]
]
]
]
]
]
]
]
]
]
]
]
]
],
"PaddedString('4').parse": [
"raised",
"builtins.TypeError",
"'<' not supported between instances of 'str' and 'int'"
],
"PaddedString()": [
"raised",
"builtins.TypeError",
"PaddedString.__init__() missing 1 required positional argument: 'n_bytes'"
],
"PaddedString(-1)": [
"returned",
[
"dict",
[
[
"class",
[
"str",
"ceos_alos2.datatypes.PaddedString"
]
],
[
"sizeof",
[
"str",
"PaddingError"
]
],
[
"subcon",
[
"dict",
[
[
"class",
[
"str",
"construct.core.StringEncoded"
]
],
[
"sizeof",
[
"str",
"PaddingError"
]
],
[
"encoding",
[
"str",
"'ascii'"
]
],
[
"subcon",
[
"dict",
[
[
"class",
[
"str",
"construct.core.FixedSized"
]
],
[
"sizeof",
[
"str",
"PaddingError"
]
],
[
"length",
[
"str",
"-1"
]
],
[
"subcon",
[
"dict",
[
[
"class",
[
"str",
"construct.core.NullStripped"
]
],
[
"sizeof",
[
"str",
"SizeofError"
]
],
[
"subcon",
[
"dict",
[
[
"class",
[
"str",
"construct.core.GreedyBytes"
]
],
[
"sizeof",
[
"str",
"SizeofError"
]
]
]
]
]
]
]
]
]
]
]
]
]
]
]
]
],
"PaddedString(-1).parse": [
"raised",
"construct.core.PaddingError",
"Error in path (parsing)\nlength cannot be negative"
],
"PaddedString(0).build": [
"raised",
"builtins.NotImplementedError",
""
],
"PaddedString(0).describe": [
"returned",
[
"dict",
[
[
"class",
[
"str",
"ceos_alos2.datatypes.PaddedString"
]
],
[
"sizeof",
[
"int",
0
]
],
[
"subcon",
[
"dict",
[
[
"class",
[
"str",
"construct.core.StringEncoded"
]
],
[
"sizeof",
[
"int",
0
]
],
[
"encoding",
[
"str",
"'ascii'"
]
],
[
"subcon",
[
"dict",
[
[
"class",
[
"str",
"construct.core.FixedSized"
]
],
[
"sizeof",
[
"int",
0
]
],
[
"length",
[
"str",
"0"
]
],
[
"subcon",
[
"dict",
[
[
"class",
[
"str",
"construct.core.NullStripped"
]
],
[
"sizeof",
[
"str",
"SizeofError"
]
],
[
"subcon",
[
"dict",
[
[
"class",
[
"str",
"construct.core.GreedyBytes"
]
],
[
"sizeof",
[
"str",
"SizeofError"
]
]
]
]
]
]
]
]
]
]
]
]
]
]
]
]
],
"PaddedString(0).parse(b'')": [
"returned",
[
"str",
""
]
],
"PaddedString(1).build": [
"raised",
"builtins.NotImplementedError",
""
],
"PaddedString(1).describe": [
"returned",
[
"dict",
[
[
"class",
[
"str",
"ceos_alos2.datatypes.PaddedString"
]
],
[
"sizeof",
[
"int",
1
]
],
[
"subcon",
[
"dict",
[
[
"class",
[
"str",
"construct.core.StringEncoded"
]
],
[
"sizeof",
[
"int",
1
]
],
[
"encoding",
[
"str",
"'ascii'"
]
],
[
"subcon",
[
"dict",
[
[
"class",
[
"str",
"construct.core.FixedSized"
]
],
[
"sizeof",
[
"int",
1
]
],
[
"length",
[
"str",
"1"
]
],
[
"subcon",
[
"dict",
[
[
"class",
[
"str",
"construct.core.NullStripped"
]
],
[
"sizeof",
[
"str",
"SizeofError"
]
],
[
"subcon",
[
"dict",
[
[
"class",
[
"str",
"construct.core.GreedyBytes"
]
],
[
"sizeof",
[
"str",
"SizeofError"
]
]
]
]
]
]
]
]
]
]
]
]
]
]
]
]
],
"PaddedString(1).parse(b'x')": [
"returned",
[
"str",
"x"
]
],
"PaddedString(2.0)": [
"returned",
[
"dict",
[
[
"class",
[
"str",
"ceos_alos2.datatypes.PaddedString"
]
],
[
"sizeof",
[
"float",
"2.0"
]
],
[
"subcon",
[
"dict",
[
[
"class",
[
"str",
"construct.core.StringEncoded"
]
],
[
"sizeof",
[
"float",
"2.0"
]
],
[
"encoding",
[
"str",
"'ascii'"
]
],
[
"subcon",
[
"dict",
[
[
"class",
[
"str",
"construct.core.FixedSized"
]
],
[
"sizeof",
[
"float",
"2.0"
]
],
[
"length",
[
"str",
"2.0"
]
],
[
"subcon",
[
"dict",
[
[
"class",
[
"str",
"construct.core.NullStripped"
]
],
[
"sizeof",
[
"str",
"SizeofError"
]
],
[
"subcon",
[
"dict",
[
[
"class",
[
"str",
"construct.core.GreedyBytes"
]
],
[
"sizeof",
[
"str",
"SizeofError"
]
]
]
]
]
]
]
]
]
]
]
]
]
]
]
]
],
"PaddedString(2.0).parse": [
"raised",
"construct.core.StreamError",
"Error in path (parsing)\nstream.read() failed, requested 2.0 bytes"
],
"PaddedString(2.5)": [
"returned",
[
"dict",
[
[
"class",
[
"str",
"ceos_alos2.datatypes.PaddedString"
]
],
[
"sizeof",
[
"float",
"2.5"
]
],
[
"subcon",
[
"dict",
[
[
"class",
[
"str",
"construct.core.StringEncoded"
]
],
[
"sizeof",
[
"float",
"2.5"
]
],
[
"encoding",
[
"str",
"'ascii'"
]
],
[
"subcon",
[
"dict",
[
[
"class",
[
"str",
"construct.core.FixedSized"
]
],
[
"sizeof",
[
"float",
"2.5"
]
],
[
"length",
[
"str",
"2.5"
]
],
[
"subcon",
[
"dict",
[
[
"class",
[
"str",
"construct.core.NullStripped"
]
],
[
"sizeof",
[
"str",
"SizeofError"
]
],
[
"subcon",
[
"dict",
[
[
"class",
[
"str",
"construct.core.GreedyBytes"
]
],
[
"sizeof",
[
"str",
"SizeofError"
]
]
]
]
]
]
]
]
]
]
]
]
]
]
]
]
],
"PaddedString(2.5).parse": [
"raised",
"construct.core.StreamError",
"Error in path (parsing)\nstream.read() failed, requested 2.5 bytes"
],
"PaddedString(4).build": [
"raised",
"builtins.NotImplementedError",
""
],
"PaddedString(4).describe": [
"returned",
[
"dict",
[
[
"class",
[
"str",
"ceos_alos2.datatypes.PaddedString"
]
],
[
"sizeof",
[
"int",
4
]
],
[
"subcon",
[
"dict",
[
[
"class",
[
"str",
"construct.core.StringEncoded"
]
],
[
"sizeof",
[
"int",
4
]
],
[
"encoding",
[
"str",
"'ascii'"
]
],
[
"subcon",
[
"dict",
[
[
"class",
[
"str",
"construct.core.FixedSized"
]
],
[
"sizeof",
[
"int",
4
]
],
[
"length",
[
"str",
"4"
]
],
[
"subcon",
[
"dict",
[
[
"class",
[
"str",
"construct.core.NullStripped"
]
],
[
"sizeof",
[
"str",
"SizeofError"
]
],
[
"subcon",
[
"dict",
[
[
"class",
[
"str",
"construct.core.GreedyBytes"
]
],
[
"sizeof",
[
"str",
"SizeofError"
]
]
]
]
]
]
]
]
]
]
]
]
]
]
]
]
],
"PaddedString(4).parse(b'    ')": [
"returned",
[
"str",
""
]
],
"PaddedString(4).parse(b' abc')": [
"returned",
[
"str",
"abc"
]
],
"PaddedString(4).parse(b'ALOS')": [
"returned",
[
"str",
"ALOS"
]
],
"PaddedString(4).parse(b'\\t\\n a')": [
"returned",
[
"str",
"a"
]
],
"PaddedString(4).parse(b'\\x00\\x00\\x00\\x00')": [
"returned",
[
"str",
""
]
],
"PaddedString(4).parse(b'\\x00ab ')": [
"returned",
[
"str",
"\u0000ab"
]
],
"PaddedString(4).parse(b'\\xff   ')": [
"raised",
"construct.core.StringError",
"cannot use encoding 'ascii' to decode b'\\xff   '"
],
"PaddedString(4).parse(b'a b ')": [
"returned",
[
"str",
"a b"
]
],
"PaddedString(4).parse(b'a\\x00b ')": [
"returned",
[
"str",
"a\u0000b"
]
],
"PaddedString(4).parse(b'ab\\x00\\x00')": [
"returned",
[
"str",
"ab"
]
],
"PaddedString(4).parse(b'abc ')": [
"returned",
[
"str",
"abc"
]
],
"PaddedString(4).parse(b'abc')": [
"raised",
"construct.core.StreamError",
"Error in path (parsing)\nstream read less than specified amount, expected 4, found 3"
],
"PaddedString(4).parse(b'abcdefgh')": [
"returned",
[
"str",
"abcd"
]
],
"PaddedString(4, 5)": [
"raised",
"builtins.TypeError",
"PaddedString.__init__() takes 2 positional arguments but 3 were given"
],
"PaddedString(64).build": [
"raised",
"builtins.NotImplementedError",
""
],
"PaddedString(64).describe": [
"returned",
[
"dict",
[
[
"class",
[
"str",
"ceos_alos2.datatypes.PaddedString"
]
],
[
"sizeof",
[
"int",
64
]
],
[
"subcon",
[
"dict",
[
[
"class",
[
"str",
"construct.core.StringEncoded"
]
],
[
"sizeof",
[
"int",
64
]
],
[
"encoding",
[
"str",
"'ascii'"
]
],
[
"subcon",
[
"dict",
[
[
"class",
[
"str",
"construct.core.FixedSized"
]
],
[
"sizeof",
[
"int",
64
]
],
[
"length",
[
"str",
"64"
]
],
[
"subcon",
[
"dict",
[
[
"class",
[
"str",
"construct.core.NullStripped"
]
],
[
"sizeof",
[
"str",
"SizeofError"
]
],
[
"subcon",
[
"dict",
[
[
"class",
[
"str",
"construct.core.GreedyBytes"
]
],
[
"sizeof",
[
"str",
"SizeofError"
]
]
]
]
]
]
]
]
]
]
]
]
]
]
]
]
],
"PaddedString(64).parse(b'                                                               y')": [
"returned",
[
"str",
"y"
]
],
"PaddedString(64).parse(b'xxxxxxxxxxxxxxxxxxxxxxxxxxxxxxxxxxxxxxxxxxxxxxxxxxxxxxxxxxxxxxxx')": [
"returned",
[
"str",
"xxxxxxxxxxxxxxxxxxxxxxxxxxxxxxxxxxxxxxxxxxxxxxxxxxxxxxxxxxxxxxxx"
]
],
"PaddedString(None)": [
"returned",
[
"dict",
[
[
"class",
[
"str",
"ceos_alos2.datatypes.PaddedString"
]
],
[
"sizeof",
[
"str",
"TypeError"
]
],
[
"subcon",
[
"dict",
[
[
"class",
[
"str",
"construct.core.StringEncoded"
]
],
[
"sizeof",
[
"str",
"TypeError"
]
],
[
"encoding",
[
"str",
"'ascii'"
]
],
[
"subcon",
[
"dict",
[
[
"class",
[
"str",
"construct.core.FixedSized"
]
],
[
"sizeof",
[
"str",
"TypeError"
]
],
[
"length",
[
"str",
"None"
]
],
[
"subcon",
[
"dict",
[
[
"class",
[
"str",
"construct.core.NullStripped"
]
],
[
"sizeof",
[
"str",
"SizeofError"
]
],
[
"subcon",
[
"dict",
[
[
"class",
[
"str",
"construct.core.GreedyBytes"
]
],
[
"sizeof",
[
"str",
"SizeofError"
]
]
]
]
]
]
]
]
]
]
]
]
]
]
]
]
],
"PaddedString(None).parse": [
"raised",
"builtins.TypeError",
"'<' not supported between instances of 'NoneType' and 'int'"
],
"PaddedString([4])": [
"returned",
[
"dict",
[
[
"class",
[
"str",
"ceos_alos2.datatypes.PaddedString"
]
],
[
"sizeof",
[
"str",
"TypeError"
]
],
[
"subcon",
[
"dict",
[
[
"class",
[
"str",
"construct.core.StringEncoded"
]
],
[
"sizeof",
[
"str",
"TypeError"
]
],
[
"encoding",
[
"str",
"'ascii'"
]
],
[
"subcon",
[
"dict",
[
[
"class",
[
"str",
"construct.core.FixedSized"
]
],
[
"sizeof",
[
"str",
"TypeError"
]
],
[
"length",
[
"str",
"[4]"
]
],
[
"subcon",
[
"dict",
[
[
"class",
[
"str",
"construct.core.NullStripped"
]
],
[
"sizeof",
[
"str",
"SizeofError"
]
],
[
"subcon",
[
"dict",
[
[
"class",
[
"str",
"construct.core.GreedyBytes"
]
],
[
"sizeof",
[
"str",
"SizeofError"
]
]
]
]
]
]
]
]
]
]
]
]
]
]
]
]
],
"PaddedString([4]).parse": [
"raised",
"builtins.TypeError",
"'<' not supported between instances of 'list' and 'int'"
],
"PaddedString(n_bytes=4)": [
"returned",
[
"dict",
[
[
"class",
[
"str",
"ceos_alos2.datatypes.PaddedString"
]
],
[
"sizeof",
[
"int",
4
]
],
[
"subcon",
[
"dict",
[
[
"class",
[
"str",
"construct.core.StringEncoded"
]
],
[
"sizeof",
[
"int",
4
]
],
[
"encoding",
[
"str",
"'ascii'"
]
],
[
"subcon",
[
"dict",
[
[
"class",
[
"str",
"construct.core.FixedSized"
]
],
[
"sizeof",
[
"int",
4
]
],
[
"length",
[
"str",
"4"
]
],
[
"subcon",
[
"dict",
[
[
"class",
[
"str",
"construct.core.NullStripped"
]
],
[
"sizeof",
[
"str",
"SizeofError"
]
],
[
"subcon",
[
"dict",
[
[
"class",
[
"str",
"construct.core.GreedyBytes"
]
],
[
"sizeof",
[
"str",
"SizeofError"
]
]
]
]
]
]
]
]
]
]
]
]
]
]
]
]
],
"PaddedString._decode('   ')": [
"returned",
[
"str",
""
]
],
"PaddedString._decode(' ab ')": [
"returned",
[
"str",
"ab"
]
],
"PaddedString._decode('')": [
"returned",
[
"str",
""
]
],
"PaddedString._decode('ab')": [
"returned",
[
"str",
"ab"
]
],
"PaddedString._decode(5)": [
"raised",
"builtins.AttributeError",
"'int' object has no attribute 'strip'"
],
"PaddedString._decode(None)": [
"raised",
"builtins.AttributeError",
"'NoneType' object has no attribute 'strip'"
],
"PaddedString._decode(b' ab ')": [
"returned",
[
"bytes",
"6162"
]
],
"PaddedString._decode(b'')": [
"returned",
[
"bytes",
""
]
],
"PaddedString._encode": [
"raised",
"builtins.NotImplementedError",
""
],
"PaddedString.mro": [
"PaddedString",
"Adapter",
"Subconstruct",
"Construct",
"object"
],
"array.parse": [
"returned",
[
"ListContainer",
[
[
"int",
1
],
[
"int",
2
],
[
"int",
-1
],
[
"int",
400
]
]
]
],
"dynamic.parse(b'\\x00')": [
"returned",
[
"Container",
[
[
"n",
[
"int",
0
]
],
[
"i",
[
"int",
-1
]
],
[
"f",
[
"float",
"nan"
]
],
[
"s",
[
"str",
""
]
]
]
]
],
"dynamic.parse(b'\\x01   ')": [
"returned",
[
"Container",
[
[
"n",
[
"int",
1
]
],
[
"i",
[
"int",
-1
]
],
[
"f",
[
"float",
"nan"
]
],
[
"s",
[
"str",
""
]
]
]
]
],
"dynamic.parse(b'\\x02 1')": [
"raised",
"construct.core.StreamError",
"Error in path (parsing) -> f\nstream read less than specified amount, expected 2, found 0"
],
"dynamic.parse(b'\\x02 112ab')": [
"returned",
[
"Container",
[
[
"n",
[
"int",
2
]
],
[
"i",
[
"int",
1
]
],
[
"f",
[
"float",
"12.0"
]
],
[
"s",
[
"str",
"ab"
]
]
]
]
],
"dynamic.parse(b'\\x03 12 .5 ab')": [
"returned",
[
"Container",
[
[
"n",
[
"int",
3
]
],
[
"i",
[
"int",
12
]
],
[
"f",
[
"float",
"0.5"
]
],
[
"s",
[
"str",
"ab"
]
]
]
]
],
"file_descriptor.blank": [
"returned",
[
"Container",
[
[
"preamble",
[
"Container",
[
[
"record_sequence_number",
[
"int",
538976288
]
],
[
"first_record_subtype",
[
"int",
32
]
],
[
"record_type",
[
"int",
32
]
],
[
"second_record_subtype",
[
"int",
32
]
],
[
"third_record_subtype",
[
"int",
32
]
],
[
"record_length",
[
"int",
538976288
]
]
]
]
],
[
"ascii_ebcdic_flag",
[
"str",
""
]
],
[
"blanks1",
[
"str",
""
]
],
[
"format_control_document_id",
[
"str",
""
]
],
[
"format_control_document_revision_level",
[
"str",
""
]
],
[
"file_design_descriptor_revision_letter",
[
"str",
""
]
],
[
"software_release_and_revision_number",
[
"str",
""
]
],
[
"file_number",
[
"int",
-1
]
],
[
"file_id",
[
"str",
""
]
],
[
"record_sequence_and_location_type_flag",
[
"str",
""
]
],
[
"location_sequence_number",
[
"int",
-1
]
],
[
"field_length_of_sequence_number",
[
"int",
-1
]
],
[
"record_code_and_location_type_flag",
[
"str",
""
]
],
[
"record_code_location",
[
"int",
-1
]
],
[
"record_code_field_length",
[
"int",
-1
]
],
[
"record_length_and_location_type_flag",
[
"str",
""
]
],
[
"record_length_location",
[
"int",
-1
]
],
[
"record_length_field_length",
[
"int",
-1
]
],
[
"reserved1",
[
"str",
""
]
],
[
"reserved2",
[
"str",
""
]
],
[
"reserved3",
[
"str",
""
]
],
[
"reserved4",
[
"str",
""
]
],
[
"blanks6",
[
"str",
""
]
],
[
"number_of_sar_data_records",
[
"int",
-1
]
],
[
"sar_data_record_length",
[
"int",
-1
]
],
[
"reserved5",
[
"str",
""
]
],
[
"sample_group_data",
[
"Container",
[
[
"bit_length_per_sample",
[
"int",
-1
]
],
[
"number_of_samples_per_data_group",
[
"int",
-1
]
],
[
"number_of_bytes_per_data_group",
[
"int",
-1
]
],
[
"justification_and_order_of_samples_within_data_group",
[
"str",
""
]
]
]
]
],
[
"sar_related_data_in_the_record",
[
"Container",
[
[
"number_of_sar_channels",
[
"int",
-1
]
],
[
"number_of_lines_per_dataset",
[
"int",
-1
]
],
[
"number_of_left_border_pixels_per_line",
[
"int",
-1
]
],
[
"number_of_data_groups_per_line",
[
"int",
-1
]
],
[
"number_of_right_border_pixels_per_line",
[
"int",
-1
]
],
[
"number_of_top_border_lines",
[
"int",
-1
]
],
[
"number_of_bottom_border_lines",
[
"int",
-1
]
],
[
"interleaving_id",
[
"str",
""
]
]
]
]
],
[
"record_data_in_the_file",
[
"Container",
[
[
"number_of_physical_records_per_line",
[
"int",
-1
]
],
[
"number_of_physical_records_per_multichannel_line_in_this_file",
[
"int",
-1
]
],
[
"number_of_bytes_of_prefix_data_per_record",
[
"int",
-1
]
],
[
"number_of_bytes_of_sar_data_per_record",
[
"int",
-1
]
],
[
"number_of_bytes_of_suffix_data_per_record",
[
"int",
-1
]
],
[
"prefix_suffix_repeat_flag",
[
"str",
""
]
]
]
]
],
[
"prefix_suffix_data_locators",
[
"Container",
[
[
"sample_data_line_number_locator",
[
"str",
""
]
],
[
"sar_channel_number_locator",
[
"str",
""
]
],
[
"time_of_sar_data_line_locator",
[
"str",
""
]
],
[
"left_fill_count_locator",
[
"str",
""
]
],
[
"right_fill_count_locator",
[
"str",
""
]
],
[
"pad_pixels_present_indicator",
[
"str",
""
]
],
[
"blanks",
[
"str",
""
]
],
[
"sar_data_line_quality_code_locator",
[
"str",
""
]
],
[
"calibration_information_field_locator",
[
"str",
""
]
],
[
"gain_values_field_locator",
[
"str",
""
]
],
[
"bias_values_field_locator",
[
"str",
""
]
],
[
"sar_data_format_type_indicator",
[
"str",
""
]
],
[
"sar_data_format_type_code",
[
"str",
""
]
],
[
"number_of_left_fill_bits_within_pixel",
[
"int",
-1
]
],
[
"number_of_right_fill_bits_within_pixel",
[
"int",
-1
]
],
[
"maximum_data_range_of_pixel",
[
"int",
-1
]
],
[
"number_of_burst_data",
[
"int",
-1
]
],
[
"number_of_lines_per_burst",
[
"int",
-1
]
]
]
]
],
[
"scansar_burst_data_information",
[
"Container",
[
[
"number_of_overlap_lines_with_adjacent_bursts",
[
"int",
-1
]
],
[
"blanks",
[
"str",
""
]
]
]
]
]
]
]
],
"file_descriptor.describe": {
"class": "construct.core.Struct",
"sizeof": 720,
"subcons": [
{
"class": "construct.core.Renamed",
"name": "preamble",
"sizeof": 12,
"subcons": [
{
"class": "construct.core.Renamed",
"fmtstr": "'>L'",
"length": "4",
"name": "record_sequence_number",
"sizeof": 4,
"subcon": {
"class": "construct.core.FormatField",
"fmtstr": "'>L'",
"length": "4",
"sizeof": 4
}
},
{
"class": "construct.core.Renamed",
"fmtstr": "'>B'",
"length": "1",
"name": "first_record_subtype",
"sizeof": 1,
"subcon": {
"class": "construct.core.FormatField",
"fmtstr": "'>B'",
"length": "1",
"sizeof": 1
}
},
{
"class": "construct.core.Renamed",
"fmtstr": "'>B'",
"length": "1",
"name": "record_type",
"sizeof": 1,
"subcon": {
"class": "construct.core.FormatField",
"fmtstr": "'>B'",
"length": "1",
"sizeof": 1
}
},
{
"class": "construct.core.Renamed",
"fmtstr": "'>B'",
"length": "1",
"name": "second_record_subtype",
"sizeof": 1,
"subcon": {
"class": "construct.core.FormatField",
"fmtstr": "'>B'",
"length": "1",
"sizeof": 1
}
},
{
"class": "construct.core.Renamed",
"fmtstr": "'>B'",
"length": "1",
"name": "third_record_subtype",
"sizeof": 1,
"subcon": {
"class": "construct.core.FormatField",
"fmtstr": "'>B'",
"length": "1",
"sizeof": 1
}
},
{
"class": "construct.core.Renamed",
"fmtstr": "'>L'",
"length": "4",
"name": "record_length",
"sizeof": 4,
"subcon": {
"class": "construct.core.FormatField",
"fmtstr": "'>L'",
"length": "4",
"sizeof": 4
}
}
]
},
{
"class": "construct.core.Renamed",
"name": "ascii_ebcdic_flag",
"sizeof": 2,
"subcon": {
"class": "ceos_alos2.datatypes.PaddedString",
"sizeof": 2,
"subcon": {
"class": "construct.core.StringEncoded",
"encoding": "'ascii'",
"sizeof": 2,
"subcon": {
"class": "construct.core.FixedSized",
"length": "2",
"sizeof": 2,
"subcon": {
"class": "construct.core.NullStripped",
"sizeof": "SizeofError",
"subcon": {
"class": "construct.core.GreedyBytes",
"sizeof": "SizeofError"
}
}
}
}
}
},
{
"class": "construct.core.Renamed",
"name": "blanks1",
"sizeof": 2,
"subcon": {
"class": "ceos_alos2.datatypes.PaddedString",
"sizeof": 2,
"subcon": {
"class": "construct.core.StringEncoded",
"encoding": "'ascii'",
"sizeof": 2,
"subcon": {
"class": "construct.core.FixedSized",
"length": "2",
"sizeof": 2,
"subcon": {
"class": "construct.core.NullStripped",
"sizeof": "SizeofError",
"subcon": {
"class": "construct.core.GreedyBytes",
"sizeof": "SizeofError"
}
}
}
}
}
},
{
"class": "construct.core.Renamed",
"name": "format_control_document_id",
"sizeof": 12,
"subcon": {
"class": "ceos_alos2.datatypes.PaddedString",
"sizeof": 12,
"subcon": {
"class": "construct.core.StringEncoded",
"encoding": "'ascii'",
"sizeof": 12,
"subcon": {
"class": "construct.core.FixedSized",
"length": "12",
"sizeof": 12,
"subcon": {
"class": "construct.core.NullStripped",
"sizeof": "SizeofError",
"subcon": {
"class": "construct.core.GreedyBytes",
"sizeof": "SizeofError"
}
}
}
}
}
},
{
"class": "construct.core.Renamed",
"name": "format_control_document_revision_level",
"sizeof": 2,
"subcon": {
"class": "ceos_alos2.datatypes.PaddedString",
"sizeof": 2,
"subcon": {
"class": "construct.core.StringEncoded",
"encoding": "'ascii'",
"sizeof": 2,
"subcon": {
"class": "construct.core.FixedSized",
"length": "2",
"sizeof": 2,
"subcon": {
"class": "construct.core.NullStripped",
"sizeof": "SizeofError",
"subcon": {
"class": "construct.core.GreedyBytes",
"sizeof": "SizeofError"
}
}
}
}
}
},
{
"class": "construct.core.Renamed",
"name": "file_design_descriptor_revision_letter",
"sizeof": 2,
"subcon": {
"class": "ceos_alos2.datatypes.PaddedString",
"sizeof": 2,
"subcon": {
"class": "construct.core.StringEncoded",
"encoding": "'ascii'",
"sizeof": 2,
"subcon": {
"class": "construct.core.FixedSized",
"length": "2",
"sizeof": 2,
"subcon": {
"class": "construct.core.NullStripped",
"sizeof": "SizeofError",
"subcon": {
"class": "construct.core.GreedyBytes",
"sizeof": "SizeofError"
}
}
}
}
}
},
{
"class": "construct.core.Renamed",
"name": "software_release_and_revision_number",
"sizeof": 12,
"subcon": {
"class": "ceos_alos2.datatypes.PaddedString",
"sizeof": 12,
"subcon": {
"class": "construct.core.StringEncoded",
"encoding": "'ascii'",
"sizeof": 12,
"subcon": {
"class": "construct.core.FixedSized",
"length": "12",
"sizeof": 12,
"subcon": {
"class": "construct.core.NullStripped",
"sizeof": "SizeofError",
"subcon": {
"class": "construct.core.GreedyBytes",
"sizeof": "SizeofError"
}
}
}
}
}
},
{
"class": "construct.core.Renamed",
"name": "file_number",
"sizeof": 4,
"subcon": {
"class": "ceos_alos2.datatypes.AsciiInteger",
"sizeof": 4,
"subcon": {
"class": "construct.core.StringEncoded",
"encoding": "'ascii'",
"sizeof": 4,
"subcon": {
"class": "construct.core.FixedSized",
"length": "4",
"sizeof": 4,
"subcon": {
"class": "construct.core.NullStripped",
"sizeof": "SizeofError",
"subcon": {
"class": "construct.core.GreedyBytes",
"sizeof": "SizeofError"
}
}
}
}
}
},
{
"class": "construct.core.Renamed",
"name": "file_id",
"sizeof": 16,
"subcon": {
"class": "ceos_alos2.datatypes.PaddedString",
"sizeof": 16,
"subcon": {
"class": "construct.core.StringEncoded",
"encoding": "'ascii'",
"sizeof": 16,
"subcon": {
"class": "construct.core.FixedSized",
"length": "16",
"sizeof": 16,
"subcon": {
"class": "construct.core.NullStripped",
"sizeof": "SizeofError",
"subcon": {
"class": "construct.core.GreedyBytes",
"sizeof": "SizeofError"
}
}
}
}
}
},
{
"class": "construct.core.Renamed",
"name": "record_sequence_and_location_type_flag",
"sizeof": 4,
"subcon": {
"class": "ceos_alos2.datatypes.PaddedString",
"sizeof": 4,
"subcon": {
"class": "construct.core.StringEncoded",
"encoding": "'ascii'",
"sizeof": 4,
"subcon": {
"class": "construct.core.FixedSized",
"length": "4",
"sizeof": 4,
"subcon": {
"class": "construct.core.NullStripped",
"sizeof": "SizeofError",
"subcon": {
"class": "construct.core.GreedyBytes",
"sizeof": "SizeofError"
}
}
}
}
}
},
{
"class": "construct.core.Renamed",
"name": "location_sequence_number",
"sizeof": 8,
"subcon": {
"class": "ceos_alos2.datatypes.AsciiInteger",
"sizeof": 8,
"subcon": {
"class": "construct.core.StringEncoded",
"encoding": "'ascii'",
"sizeof": 8,
"subcon": {
"class": "construct.core.FixedSized",
"length": "8",
"sizeof": 8,
"subcon": {
"class": "construct.core.NullStripped",
"sizeof": "SizeofError",
"subcon": {
"class": "construct.core.GreedyBytes",
"sizeof": "SizeofError"
}
}
}
}
}
},
{
"class": "construct.core.Renamed",
"name": "field_length_of_sequence_number",
"sizeof": 4,
"subcon": {
"class": "ceos_alos2.datatypes.AsciiInteger",
"sizeof": 4,
"subcon": {
"class": "construct.core.StringEncoded",
"encoding": "'ascii'",
"sizeof": 4,
"subcon": {
"class": "construct.core.FixedSized",
"length": "4",
"sizeof": 4,
"subcon": {
"class": "construct.core.NullStripped",
"sizeof": "SizeofError",
"subcon": {
"class": "construct.core.GreedyBytes",
"sizeof": "SizeofError"
}
}
}
}
}
},
{
"class": "construct.core.Renamed",
"name": "record_code_and_location_type_flag",
"sizeof": 4,
"subcon": {
"class": "ceos_alos2.datatypes.PaddedString",
"sizeof": 4,
"subcon": {
"class": "construct.core.StringEncoded",
"encoding": "'ascii'",
"sizeof": 4,
"subcon": {
"class": "construct.core.FixedSized",
"length": "4",
"sizeof": 4,
"subcon": {
"class": "construct.core.NullStripped",
"sizeof": "SizeofError",
"subcon": {
"class": "construct.core.GreedyBytes",
"sizeof": "SizeofError"
}
}
}
}
}
},
{
"class": "construct.core.Renamed",
"name": "record_code_location",
"sizeof": 8,
"subcon": {
"class": "ceos_alos2.datatypes.AsciiInteger",
"sizeof": 8,
"subcon": {
"class": "construct.core.StringEncoded",
"encoding": "'ascii'",
"sizeof": 8,
"subcon": {
"class": "construct.core.FixedSized",
"length": "8",
"sizeof": 8,
"subcon": {
"class": "construct.core.NullStripped",
"sizeof": "SizeofError",
"subcon": {
"class": "construct.core.GreedyBytes",
"sizeof": "SizeofError"
}
}
}
}
}
},
{
"class": "construct.core.Renamed",
"name": "record_code_field_length",
"sizeof": 4,
"subcon": {
"class": "ceos_alos2.datatypes.AsciiInteger",
"sizeof": 4,
"subcon": {
"class": "construct.core.StringEncoded",
"encoding": "'ascii'",
"sizeof": 4,
"subcon": {
"class": "construct.core.FixedSized",
"length": "4",
"sizeof": 4,
"subcon": {
"class": "construct.core.NullStripped",
"sizeof": "SizeofError",
"subcon": {
"class": "construct.core.GreedyBytes",
"sizeof": "SizeofError"
}
}
}
}
}
},
{
"class": "construct.core.Renamed",
"name": "record_length_and_location_type_flag",
"sizeof": 4,
"subcon": {
"class": "ceos_alos2.datatypes.PaddedString",
"sizeof": 4,
"subcon": {
"class": "construct.core.StringEncoded",
"encoding": "'ascii'",
"sizeof": 4,
"subcon": {
"class": "construct.core.FixedSized",
"length": "4",
"sizeof": 4,
"subcon": {
"class": "construct.core.NullStripped",
"sizeof": "SizeofError",
"subcon": {
"class": "construct.core.GreedyBytes",
"sizeof": "SizeofError"
}
}
}
}
}
},
{
"class": "construct.core.Renamed",
"name": "record_length_location",
"sizeof": 8,
"subcon": {
"class": "ceos_alos2.datatypes.AsciiInteger",
"sizeof": 8,
"subcon": {
"class": "construct.core.StringEncoded",
"encoding": "'ascii'",
"sizeof": 8,
"subcon": {
"class": "construct.core.FixedSized",
"length": "8",
"sizeof": 8,
"subcon": {
"class": "construct.core.NullStripped",
"sizeof": "SizeofError",
"subcon": {
"class": "construct.core.GreedyBytes",
"sizeof": "SizeofError"
}
}
}
}
}
},
{
"class": "construct.core.Renamed",
"name": "record_length_field_length",
"sizeof": 4,
"subcon": {
"class": "ceos_alos2.datatypes.AsciiInteger",
"sizeof": 4,
"subcon": {
"class": "construct.core.StringEncoded",
"encoding": "'ascii'",
"sizeof": 4,
"subcon": {
"class": "construct.core.FixedSized",
"length": "4",
"sizeof": 4,
"subcon": {
"class": "construct.core.NullStripped",
"sizeof": "SizeofError",
"subcon": {
"class": "construct.core.GreedyBytes",
"sizeof": "SizeofError"
}
}
}
}
}
},
{
"class": "construct.core.Renamed",
"name": "reserved1",
"sizeof": 1,
"subcon": {
"class": "ceos_alos2.datatypes.PaddedString",
"sizeof": 1,
"subcon": {
"class": "construct.core.StringEncoded",
"encoding": "'ascii'",
"sizeof": 1,
"subcon": {
"class": "construct.core.FixedSized",
"length": "1",
"sizeof": 1,
"subcon": {
"class": "construct.core.NullStripped",
"sizeof": "SizeofError",
"subcon": {
"class": "construct.core.GreedyBytes",
"sizeof": "SizeofError"
}
}
}
}
}
},
{
"class": "construct.core.Renamed",
"name": "reserved2",
"sizeof": 1,
"subcon": {
"class": "ceos_alos2.datatypes.PaddedString",
"sizeof": 1,
"subcon": {
"class": "construct.core.StringEncoded",
"encoding": "'ascii'",
"sizeof": 1,
"subcon": {
"class": "construct.core.FixedSized",
"length": "1",
"sizeof": 1,
"subcon": {
"class": "construct.core.NullStripped",
"sizeof": "SizeofError",
"subcon": {
"class": "construct.core.GreedyBytes",
"sizeof": "SizeofError"
}
}
}
}
}
},
{
"class": "construct.core.Renamed",
"name": "reserved3",
"sizeof": 1,
"subcon": {
"class": "ceos_alos2.datatypes.PaddedString",
"sizeof": 1,
"subcon": {
"class": "construct.core.StringEncoded",
"encoding": "'ascii'",
"sizeof": 1,
"subcon": {
"class": "construct.core.FixedSized",
"length": "1",
"sizeof": 1,
"subcon": {
"class": "construct.core.NullStripped",
"sizeof": "SizeofError",
"subcon": {
"class": "construct.core.GreedyBytes",
"sizeof": "SizeofError"
}
}
}
}
}
},
{
"class": "construct.core.Renamed",
"name": "reserved4",
"sizeof": 1,
"subcon": {
"class": "ceos_alos2.datatypes.PaddedString",
"sizeof": 1,
"subcon": {
"class": "construct.core.StringEncoded",
"encoding": "'ascii'",
"sizeof": 1,
"subcon": {
"class": "construct.core.FixedSized",
"length": "1",
"sizeof": 1,
"subcon": {
"class": "construct.core.NullStripped",
"sizeof": "SizeofError",
"subcon": {
"class": "construct.core.GreedyBytes",
"sizeof": "SizeofError"
}
}
}
}
}
},
{
"class": "construct.core.Renamed",
"name": "blanks6",
"sizeof": 64,
"subcon": {
"class": "ceos_alos2.datatypes.PaddedString",
"sizeof": 64,
"subcon": {
"class": "construct.core.StringEncoded",
"encoding": "'ascii'",
"sizeof": 64,
"subcon": {
"class": "construct.core.FixedSized",
"length": "64",
"sizeof": 64,
"subcon": {
"class": "construct.core.NullStripped",
"sizeof": "SizeofError",
"subcon": {
"class": "construct.core.GreedyBytes",
"sizeof": "SizeofError"
}
}
}
}
}
},
{
"class": "construct.core.Renamed",
"name": "number_of_sar_data_records",
"sizeof": 6,
"subcon": {
"class": "ceos_alos2.datatypes.AsciiInteger",
"sizeof": 6,
"subcon": {
"class": "construct.core.StringEncoded",
"encoding": "'ascii'",
"sizeof": 6,
"subcon": {
"class": "construct.core.FixedSized",
"length": "6",
"sizeof": 6,
"subcon": {
"class": "construct.core.NullStripped",
"sizeof": "SizeofError",
"subcon": {
"class": "construct.core.GreedyBytes",
"sizeof": "SizeofError"
}
}
}
}
}
},
{
"class": "construct.core.Renamed",
"name": "sar_data_record_length",
"sizeof": 6,
"subcon": {
"class": "ceos_alos2.datatypes.AsciiInteger",
"sizeof": 6,
"subcon": {
"class": "construct.core.StringEncoded",
"encoding": "'ascii'",
"sizeof": 6,
"subcon": {
"class": "construct.core.FixedSized",
"length": "6",
"sizeof": 6,
"subcon": {
"class": "construct.core.NullStripped",
"sizeof": "SizeofError",
"subcon": {
"class": "construct.core.GreedyBytes",
"sizeof": "SizeofError"
}
}
}
}
}
},
{
"class": "construct.core.Renamed",
"name": "reserved5",
"sizeof": 24,
"subcon": {
"class": "ceos_alos2.datatypes.PaddedString",
"sizeof": 24,
"subcon": {
"class": "construct.core.StringEncoded",
"encoding": "'ascii'",
"sizeof": 24,
"subcon": {
"class": "construct.core.FixedSized",
"length": "24",
"sizeof": 24,
"subcon": {
"class": "construct.core.NullStripped",
"sizeof": "SizeofError",
"subcon": {
"class": "construct.core.GreedyBytes",
"sizeof": "SizeofError"
}
}
}
}
}
},
{
"class": "construct.core.Renamed",
"name": "sample_group_data",
"sizeof": 16,
"subcons": [
{
"class": "construct.core.Renamed",
"name": "bit_length_per_sample",
"sizeof": 4,
"subcon": {
"class": "ceos_alos2.datatypes.AsciiInteger",
"sizeof": 4,
"subcon": {
"class": "construct.core.StringEncoded",
"encoding": "'ascii'",
"sizeof": 4,
"subcon": {
"class": "construct.core.FixedSized",
"length": "4",
"sizeof": 4,
"subcon": {
"class": "construct.core.NullStripped",
"sizeof": "SizeofError",
"subcon": {
"class": "construct.core.GreedyBytes",
"sizeof": "SizeofError"
}
}
}
}
}
},
{
"class": "construct.core.Renamed",
"name": "number_of_samples_per_data_group",
"sizeof": 4,
"subcon": {
"class": "ceos_alos2.datatypes.AsciiInteger",
"sizeof": 4,
"subcon": {
"class": "construct.core.StringEncoded",
"encoding": "'ascii'",
"sizeof": 4,
"subcon": {
"class": "construct.core.FixedSized",
"length": "4",
"sizeof": 4,
"subcon": {
"class": "construct.core.NullStripped",
"sizeof": "SizeofError",
"subcon": {
"class": "construct.core.GreedyBytes",
"sizeof": "SizeofError"
}
}
}
}
}
},
{
"class": "construct.core.Renamed",
"name": "number_of_bytes_per_data_group",
"sizeof": 4,
"subcon": {
"class": "ceos_alos2.datatypes.AsciiInteger",
"sizeof": 4,
"subcon": {
"class": "construct.core.StringEncoded",
"encoding": "'ascii'",
"sizeof": 4,
"subcon": {
"class": "construct.core.FixedSized",
"length": "4",
"sizeof": 4,
"subcon": {
"class": "construct.core.NullStripped",
"sizeof": "SizeofError",
"subcon": {
"class": "construct.core.GreedyBytes",
"sizeof": "SizeofError"
}
}
}
}
}
},
{
"class": "construct.core.Renamed",
"name": "justification_and_order_of_samples_within_data_group",
"sizeof": 4,
"subcon": {
"class": "ceos_alos2.datatypes.PaddedString",
"sizeof": 4,
"subcon": {
"class": "construct.core.StringEncoded",
"encoding": "'ascii'",
"sizeof": 4,
"subcon": {
"class": "construct.core.FixedSized",
"length": "4",
"sizeof": 4,
"subcon": {
"class": "construct.core.NullStripped",
"sizeof": "SizeofError",
"subcon": {
"class": "construct.core.GreedyBytes",
"sizeof": "SizeofError"
}
}
}
}
}
}
]
},
{
"class": "construct.core.Renamed",
"name": "sar_related_data_in_the_record",
"sizeof": 40,
"subcons": [
{
"class": "construct.core.Renamed",
"name": "number_of_sar_channels",
"sizeof": 4,
"subcon": {
"class": "ceos_alos2.datatypes.AsciiInteger",
"sizeof": 4,
"subcon": {
"class": "construct.core.StringEncoded",
"encoding": "'ascii'",
"sizeof": 4,
"subcon": {
"class": "construct.core.FixedSized",
"length": "4",
"sizeof": 4,
"subcon": {
"class": "construct.core.NullStripped",
"sizeof": "SizeofError",
"subcon": {
"class": "construct.core.GreedyBytes",
"sizeof": "SizeofError"
}
}
}
}
}
},
{
"class": "construct.core.Renamed",
"name": "number_of_lines_per_dataset",
"sizeof": 8,
"subcon": {
"class": "ceos_alos2.datatypes.AsciiInteger",
"sizeof": 8,
"subcon": {
"class": "construct.core.StringEncoded",
"encoding": "'ascii'",
"sizeof": 8,
"subcon": {
"class": "construct.core.FixedSized",
"length": "8",
"sizeof": 8,
"subcon": {
"class": "construct.core.NullStripped",
"sizeof": "SizeofError",
"subcon": {
"class": "construct.core.GreedyBytes",
"sizeof": "SizeofError"
}
}
}
}
}
},
{
"class": "construct.core.Renamed",
"name": "number_of_left_border_pixels_per_line",
"sizeof": 4,
"subcon": {
"class": "ceos_alos2.datatypes.AsciiInteger",
"sizeof": 4,
"subcon": {
"class": "construct.core.StringEncoded",
"encoding": "'ascii'",
"sizeof": 4,
"subcon": {
"class": "construct.core.FixedSized",
"length": "4",
"sizeof": 4,
"subcon": {
"class": "construct.core.NullStripped",
"sizeof": "SizeofError",
"subcon": {
"class": "construct.core.GreedyBytes",
"sizeof": "SizeofError"
}
}
}
}
}
},
{
"class": "construct.core.Renamed",
"name": "number_of_data_groups_per_line",
"sizeof": 8,
"subcon": {
"class": "ceos_alos2.datatypes.AsciiInteger",
"sizeof": 8,
"subcon": {
"class": "construct.core.StringEncoded",
"encoding": "'ascii'",
"sizeof": 8,
"subcon": {
"class": "construct.core.FixedSized",
"length": "8",
"sizeof": 8,
"subcon": {
"class": "construct.core.NullStripped",
"sizeof": "SizeofError",
"subcon": {
"class": "construct.core.GreedyBytes",
"sizeof": "SizeofError"
}
}
}
}
}
},
{
"class": "construct.core.Renamed",
"name": "number_of_right_border_pixels_per_line",
"sizeof": 4,
"subcon": {
"class": "ceos_alos2.datatypes.AsciiInteger",
"sizeof": 4,
"subcon": {
"class": "construct.core.StringEncoded",
"encoding": "'ascii'",
"sizeof": 4,
"subcon": {
"class": "construct.core.FixedSized",
"length": "4",
"sizeof": 4,
"subcon": {
"class": "construct.core.NullStripped",
"sizeof": "SizeofError",
"subcon": {
"class": "construct.core.GreedyBytes",
"sizeof": "SizeofError"
}
}
}
}
}
},
{
"class": "construct.core.Renamed",
"name": "number_of_top_border_lines",
"sizeof": 4,
"subcon": {
"class": "ceos_alos2.datatypes.AsciiInteger",
"sizeof": 4,
"subcon": {
"class": "construct.core.StringEncoded",
"encoding": "'ascii'",
"sizeof": 4,
"subcon": {
"class": "construct.core.FixedSized",
"length": "4",
"sizeof": 4,
"subcon": {
"class": "construct.core.NullStripped",
"sizeof": "SizeofError",
"subcon": {
"class": "construct.core.GreedyBytes",
"sizeof": "SizeofError"
}
}
}
}
}
},
{
"class": "construct.core.Renamed",
"name": "number_of_bottom_border_lines",
"sizeof": 4,
"subcon": {
"class": "ceos_alos2.datatypes.AsciiInteger",
"sizeof": 4,
"subcon": {
"class": "construct.core.StringEncoded",
"encoding": "'ascii'",
"sizeof": 4,
"subcon": {
"class": "construct.core.FixedSized",
"length": "4",
"sizeof": 4,
"subcon": {
"class": "construct.core.NullStripped",
"sizeof": "SizeofError",
"subcon": {
"class": "construct.core.GreedyBytes",
"sizeof": "SizeofError"
}
}
}
}
}
},
{
"class": "construct.core.Renamed",
"name": "interleaving_id",
"sizeof": 4,
"subcon": {
"class": "ceos_alos2.datatypes.PaddedString",
"sizeof": 4,
"subcon": {
"class": "construct.core.StringEncoded",
"encoding": "'ascii'",
"sizeof": 4,
"subcon": {
"class": "construct.core.FixedSized",
"length": "4",
"sizeof": 4,
"subcon": {
"class": "construct.core.NullStripped",
"sizeof": "SizeofError",
"subcon": {
"class": "construct.core.GreedyBytes",
"sizeof": "SizeofError"
}
}
}
}
}
}
]
},
{
"class": "construct.core.Renamed",
"name": "record_data_in_the_file",
"sizeof": 24,
"subcons": [
{
"class": "construct.core.Renamed",
"name": "number_of_physical_records_per_line",
"sizeof": 2,
"subcon": {
"class": "ceos_alos2.datatypes.AsciiInteger",
"sizeof": 2,
"subcon": {
"class": "construct.core.StringEncoded",
"encoding": "'ascii'",
"sizeof": 2,
"subcon": {
"class": "construct.core.FixedSized",
"length": "2",
"sizeof": 2,
"subcon": {
"class": "construct.core.NullStripped",
"sizeof": "SizeofError",
"subcon": {
"class": "construct.core.GreedyBytes",
"sizeof": "SizeofError"
}
}
}
}
}
},
{
"class": "construct.core.Renamed",
"name": "number_of_physical_records_per_multichannel_line_in_this_file",
"sizeof": 2,
"subcon": {
"class": "ceos_alos2.datatypes.AsciiInteger",
"sizeof": 2,
"subcon": {
"class": "construct.core.StringEncoded",
"encoding": "'ascii'",
"sizeof": 2,
"subcon": {
"class": "construct.core.FixedSized",
"length": "2",
"sizeof": 2,
"subcon": {
"class": "construct.core.NullStripped",
"sizeof": "SizeofError",
"subcon": {
"class": "construct.core.GreedyBytes",
"sizeof": "SizeofError"
}
}
}
}
}
},
{
"class": "construct.core.Renamed",
"name": "number_of_bytes_of_prefix_data_per_record",
"sizeof": 4,
"subcon": {
"class": "ceos_alos2.datatypes.AsciiInteger",
"sizeof": 4,
"subcon": {
"class": "construct.core.StringEncoded",
"encoding": "'ascii'",
"sizeof": 4,
"subcon": {
"class": "construct.core.FixedSized",
"length": "4",
"sizeof": 4,
"subcon": {
"class": "construct.core.NullStripped",
"sizeof": "SizeofError",
"subcon": {
"class": "construct.core.GreedyBytes",
"sizeof": "SizeofError"
}
}
}
}
}
},
{
"class": "construct.core.Renamed",
"name": "number_of_bytes_of_sar_data_per_record",
"sizeof": 8,
"subcon": {
"class": "ceos_alos2.datatypes.AsciiInteger",
"sizeof": 8,
"subcon": {
"class": "construct.core.StringEncoded",
"encoding": "'ascii'",
"sizeof": 8,
"subcon": {
"class": "construct.core.FixedSized",
"length": "8",
"sizeof": 8,
"subcon": {
"class": "construct.core.NullStripped",
"sizeof": "SizeofError",
"subcon": {
"class": "construct.core.GreedyBytes",
"sizeof": "SizeofError"
}
}
}
}
}
},
{
"class": "construct.core.Renamed",
"name": "number_of_bytes_of_suffix_data_per_record",
"sizeof": 4,
"subcon": {
"class": "ceos_alos2.datatypes.AsciiInteger",
"sizeof": 4,
"subcon": {
"class": "construct.core.StringEncoded",
"encoding": "'ascii'",
"sizeof": 4,
"subcon": {
"class": "construct.core.FixedSized",
"length": "4",
"sizeof": 4,
"subcon": {
"class": "construct.core.NullStripped",
"sizeof": "SizeofError",
"subcon": {
"class": "construct.core.GreedyBytes",
"sizeof": "SizeofError"
}
}
}
}
}
},
{
"class": "construct.core.Renamed",
"name": "prefix_suffix_repeat_flag",
"sizeof": 4,
"subcon": {
"class": "ceos_alos2.datatypes.PaddedString",
"sizeof": 4,
"subcon": {
"class": "construct.core.StringEncoded",
"encoding": "'ascii'",
"sizeof": 4,
"subcon": {
"class": "construct.core.FixedSized",
"length": "4",
"sizeof": 4,
"subcon": {
"class": "construct.core.NullStripped",
"sizeof": "SizeofError",
"subcon": {
"class": "construct.core.GreedyBytes",
"sizeof": "SizeofError"
}
}
}
}
}
}
]
},
{
"class": "construct.core.Renamed",
"name": "prefix_suffix_data_locators",
"sizeof": 160,
"subcons": [
{
"class": "construct.core.Renamed",
"name": "sample_data_line_number_locator",
"sizeof": 8,
"subcon": {
"class": "ceos_alos2.datatypes.PaddedString",
"sizeof": 8,
"subcon": {
"class": "construct.core.StringEncoded",
"encoding": "'ascii'",
"sizeof": 8,
"subcon": {
"class": "construct.core.FixedSized",
"length": "8",
"sizeof": 8,
"subcon": {
"class": "construct.core.NullStripped",
"sizeof": "SizeofError",
"subcon": {
"class": "construct.core.GreedyBytes",
"sizeof": "SizeofError"
}
}
}
}
}
},
{
"class": "construct.core.Renamed",
"name": "sar_channel_number_locator",
"sizeof": 8,
"subcon": {
"class": "ceos_alos2.datatypes.PaddedString",
"sizeof": 8,
"subcon": {
"class": "construct.core.StringEncoded",
"encoding": "'ascii'",
"sizeof": 8,
"subcon": {
"class": "construct.core.FixedSized",
"length": "8",
"sizeof": 8,
"subcon": {
"class": "construct.core.NullStripped",
"sizeof": "SizeofError",
"subcon": {
"class": "construct.core.GreedyBytes",
"sizeof": "SizeofError"
}
}
}
}
}
},
{
"class": "construct.core.Renamed",
"name": "time_of_sar_data_line_locator",
"sizeof": 8,
"subcon": {
"class": "ceos_alos2.datatypes.PaddedString",
"sizeof": 8,
"subcon": {
"class": "construct.core.StringEncoded",
"encoding": "'ascii'",
"sizeof": 8,
"subcon": {
"class": "construct.core.FixedSized",
"length": "8",
"sizeof": 8,
"subcon": {
"class": "construct.core.NullStripped",
"sizeof": "SizeofError",
"subcon": {
"class": "construct.core.GreedyBytes",
"sizeof": "SizeofError"
}
}
}
}
}
},
{
"class": "construct.core.Renamed",
"name": "left_fill_count_locator",
"sizeof": 8,
"subcon": {
"class": "ceos_alos2.datatypes.PaddedString",
"sizeof": 8,
"subcon": {
"class": "construct.core.StringEncoded",
"encoding": "'ascii'",
"sizeof": 8,
"subcon": {
"class": "construct.core.FixedSized",
"length": "8",
"sizeof": 8,
"subcon": {
"class": "construct.core.NullStripped",
"sizeof": "SizeofError",
"subcon": {
"class": "construct.core.GreedyBytes",
"sizeof": "SizeofError"
}
}
}
}
}
},
{
"class": "construct.core.Renamed",
"name": "right_fill_count_locator",
"sizeof": 8,
"subcon": {
"class": "ceos_alos2.datatypes.PaddedString",
"sizeof": 8,
"subcon": {
"class": "construct.core.StringEncoded",
"encoding": "'ascii'",
"sizeof": 8,
"subcon": {
"class": "construct.core.FixedSized",
"length": "8",
"sizeof": 8,
"subcon": {
"class": "construct.core.NullStripped",
"sizeof": "SizeofError",
"subcon": {
"class": "construct.core.GreedyBytes",
"sizeof": "SizeofError"
}
}
}
}
}
},
{
"class": "construct.core.Renamed",
"name": "pad_pixels_present_indicator",
"sizeof": 4,
"subcon": {
"class": "ceos_alos2.datatypes.PaddedString",
"sizeof": 4,
"subcon": {
"class": "construct.core.StringEncoded",
"encoding": "'ascii'",
"sizeof": 4,
"subcon": {
"class": "construct.core.FixedSized",
"length": "4",
"sizeof": 4,
"subcon": {
"class": "construct.core.NullStripped",
"sizeof": "SizeofError",
"subcon": {
"class": "construct.core.GreedyBytes",
"sizeof": "SizeofError"
}
}
}
}
}
},
{
"class": "construct.core.Renamed",
"name": "blanks",
"sizeof": 28,
"subcon": {
"class": "ceos_alos2.datatypes.PaddedString",
"sizeof": 28,
"subcon": {
"class": "construct.core.StringEncoded",
"encoding": "'ascii'",
"sizeof": 28,
"subcon": {
"class": "construct.core.FixedSized",
"length": "28",
"sizeof": 28,
"subcon": {
"class": "construct.core.NullStripped",
"sizeof": "SizeofError",
"subcon": {
"class": "construct.core.GreedyBytes",
"sizeof": "SizeofError"
}
}
}
}
}
},
{
"class": "construct.core.Renamed",
"name": "sar_data_line_quality_code_locator",
"sizeof": 8,
"subcon": {
"class": "ceos_alos2.datatypes.PaddedString",
"sizeof": 8,
"subcon": {
"class": "construct.core.StringEncoded",
"encoding": "'ascii'",
"sizeof": 8,
"subcon": {
"class": "construct.core.FixedSized",
"length": "8",
"sizeof": 8,
"subcon": {
"class": "construct.core.NullStripped",
"sizeof": "SizeofError",
"subcon": {
"class": "construct.core.GreedyBytes",
"sizeof": "SizeofError"
}
}
}
}
}
},
{
"class": "construct.core.Renamed",
"name": "calibration_information_field_locator",
"sizeof": 8,
"subcon": {
"class": "ceos_alos2.datatypes.PaddedString",
"sizeof": 8,
"subcon": {
"class": "construct.core.StringEncoded",
"encoding": "'ascii'",
"sizeof": 8,
"subcon": {
"class": "construct.core.FixedSized",
"length": "8",
"sizeof": 8,
"subcon": {
"class": "construct.core.NullStripped",
"sizeof": "SizeofError",
"subcon": {
"class": "construct.core.GreedyBytes",
"sizeof": "SizeofError"
}
}
}
}
}
},
{
"class": "construct.core.Renamed",
"name": "gain_values_field_locator",
"sizeof": 8,
"subcon": {
"class": "ceos_alos2.datatypes.PaddedString",
"sizeof": 8,
"subcon": {
"class": "construct.core.StringEncoded",
"encoding": "'ascii'",
"sizeof": 8,
"subcon": {
"class": "construct.core.FixedSized",
"length": "8",
"sizeof": 8,
"subcon": {
"class": "construct.core.NullStripped",
"sizeof": "SizeofError",
"subcon": {
"class": "construct.core.GreedyBytes",
"sizeof": "SizeofError"
}
}
}
}
}
},
{
"class": "construct.core.Renamed",
"name": "bias_values_field_locator",
"sizeof": 8,
"subcon": {
"class": "ceos_alos2.datatypes.PaddedString",
"sizeof": 8,
"subcon": {
"class": "construct.core.StringEncoded",
"encoding": "'ascii'",
"sizeof": 8,
"subcon": {
"class": "construct.core.FixedSized",
"length": "8",
"sizeof": 8,
"subcon": {
"class": "construct.core.NullStripped",
"sizeof": "SizeofError",
"subcon": {
"class": "construct.core.GreedyBytes",
"sizeof": "SizeofError"
}
}
}
}
}
},
{
"class": "construct.core.Renamed",
"name": "sar_data_format_type_indicator",
"sizeof": 28,
"subcon": {
"class": "ceos_alos2.datatypes.PaddedString",
"sizeof": 28,
"subcon": {
"class": "construct.core.StringEncoded",
"encoding": "'ascii'",
"sizeof": 28,
"subcon": {
"class": "construct.core.FixedSized",
"length": "28",
"sizeof": 28,
"subcon": {
"class": "construct.core.NullStripped",
"sizeof": "SizeofError",
"subcon": {
"class": "construct.core.GreedyBytes",
"sizeof": "SizeofError"
}
}
}
}
}
},
{
"class": "construct.core.Renamed",
"name": "sar_data_format_type_code",
"sizeof": 4,
"subcon": {
"class": "ceos_alos2.datatypes.PaddedString",
"sizeof": 4,
"subcon": {
"class": "construct.core.StringEncoded",
"encoding": "'ascii'",
"sizeof": 4,
"subcon": {
"class": "construct.core.FixedSized",
"length": "4",
"sizeof": 4,
"subcon": {
"class": "construct.core.NullStripped",
"sizeof": "SizeofError",
"subcon": {
"class": "construct.core.GreedyBytes",
"sizeof": "SizeofError"
}
}
}
}
}
},
{
"class": "construct.core.Renamed",
"name": "number_of_left_fill_bits_within_pixel",
"sizeof": 4,
"subcon": {
"class": "ceos_alos2.datatypes.AsciiInteger",
"sizeof": 4,
"subcon": {
"class": "construct.core.StringEncoded",
"encoding": "'ascii'",
"sizeof": 4,
"subcon": {
"class": "construct.core.FixedSized",
"length": "4",
"sizeof": 4,
"subcon": {
"class": "construct.core.NullStripped",
"sizeof": "SizeofError",
"subcon": {
"class": "construct.core.GreedyBytes",
"sizeof": "SizeofError"
}
}
}
}
}
},
{
"class": "construct.core.Renamed",
"name": "number_of_right_fill_bits_within_pixel",
"sizeof": 4,
"subcon": {
"class": "ceos_alos2.datatypes.AsciiInteger",
"sizeof": 4,
"subcon": {
"class": "construct.core.StringEncoded",
"encoding": "'ascii'",
"sizeof": 4,
"subcon": {
"class": "construct.core.FixedSized",
"length": "4",
"sizeof": 4,
"subcon": {
"class": "construct.core.NullStripped",
"sizeof": "SizeofError",
"subcon": {
"class": "construct.core.GreedyBytes",
"sizeof": "SizeofError"
}
}
}
}
}
},
{
"class": "construct.core.Renamed",
"name": "maximum_data_range_of_pixel",
"sizeof": 8,
"subcon": {
"class": "ceos_alos2.datatypes.AsciiInteger",
"sizeof": 8,
"subcon": {
"class": "construct.core.StringEncoded",
"encoding": "'ascii'",
"sizeof": 8,
"subcon": {
"class": "construct.core.FixedSized",
"length": "8",
"sizeof": 8,
"subcon": {
"class": "construct.core.NullStripped",
"sizeof": "SizeofError",
"subcon": {
"class": "construct.core.GreedyBytes",
"sizeof": "SizeofError"
}
}
}
}
}
},
{
"class": "construct.core.Renamed",
"name": "number_of_burst_data",
"sizeof": 4,
"subcon": {
"class": "ceos_alos2.datatypes.AsciiInteger",
"sizeof": 4,
"subcon": {
"class": "construct.core.StringEncoded",
"encoding": "'ascii'",
"sizeof": 4,
"subcon": {
"class": "construct.core.FixedSized",
"length": "4",
"sizeof": 4,
"subcon": {
"class": "construct.core.NullStripped",
"sizeof": "SizeofError",
"subcon": {
"class": "construct.core.GreedyBytes",
"sizeof": "SizeofError"
}
}
}
}
}
},
{
"class": "construct.core.Renamed",
"name": "number_of_lines_per_burst",
"sizeof": 4,
"subcon": {
"class": "ceos_alos2.datatypes.AsciiInteger",
"sizeof": 4,
"subcon": {
"class": "construct.core.StringEncoded",
"encoding": "'ascii'",
"sizeof": 4,
"subcon": {
"class": "construct.core.FixedSized",
"length": "4",
"sizeof": 4,
"subcon": {
"class": "construct.core.NullStripped",
"sizeof": "SizeofError",
"subcon": {
"class": "construct.core.GreedyBytes",
"sizeof": "SizeofError"
}
}
}
}
}
}
]
},
{
"class": "construct.core.Renamed",
"name": "scansar_burst_data_information",
"sizeof": 264,
"subcons": [
{
"class": "construct.core.Renamed",
"name": "number_of_overlap_lines_with_adjacent_bursts",
"sizeof": 4,
"subcon": {
"class": "ceos_alos2.datatypes.AsciiInteger",
"sizeof": 4,
"subcon": {
"class": "construct.core.StringEncoded",
"encoding": "'ascii'",
"sizeof": 4,
"subcon": {
"class": "construct.core.FixedSized",
"length": "4",
"sizeof": 4,
"subcon": {
"class": "construct.core.NullStripped",
"sizeof": "SizeofError",
"subcon": {
"class": "construct.core.GreedyBytes",
"sizeof": "SizeofError"
}
}
}
}
}
},
{
"class": "construct.core.Renamed",
"name": "blanks",
"sizeof": 260,
"subcon": {
"class": "ceos_alos2.datatypes.PaddedString",
"sizeof": 260,
"subcon": {
"class": "construct.core.StringEncoded",
"encoding": "'ascii'",
"sizeof": 260,
"subcon": {
"class": "construct.core.FixedSized",
"length": "260",
"sizeof": 260,
"subcon": {
"class": "construct.core.NullStripped",
"sizeof": "SizeofError",
"subcon": {
"class": "construct.core.GreedyBytes",
"sizeof": "SizeofError"
}
}
}
}
}
}
]
}
]
},
"file_descriptor.short": [
"raised",
"construct.core.StreamError",
"Error in path (parsing) -> scansar_burst_data_information -> blanks\nstream read less than specified amount, expected 260, found 240"
],
"file_descriptor[0].data": [
"bytes",
"000000010203040500000006463746382020202020202020202020204631463120202020202020202020202031332020202020202020202020202020204631342020202020202020202020203137202020202020202020202020313920202020202020202020202020203232202032332046462046323820202020202020202020202020202020202020202020202020202020202020202020202020202020202020202020202020202020202020202020202020323920202020202020203330463331202020202020202020202020202020202020202020202020203333202020203334204633352020202033372020202020202020333820202020202033392020202034312020202034324634332020203435202034362020202020203437202020204634392020202020204635302020202020202020463532202020202020202020204635332020202020202020463535202020202020202020202020202020202020202020202020202046353620202020202020204635382020202020202020202046353920202020202020204636312020202020202020202020202020202020202020202020202020463632202036332020202036352020202020202020363620203637202020202020202020202020202020202020202020202020202020202020202020202020202020202020202020202020202020202020202020202020202020202020202020202020202020202020202020202020202020202020202020202020202020202020202020202020202020202020202020202020202020202020202020202020202020202020202020202020202020202020202020202020202020202020202020202020202020202020202020202020202020202020202020202020202020202020202020202020202020202020202020202020202020202020202020202020202020202020202020202020202020202020202020202020202020202020202020202020"
],
"file_descriptor[0].parse": [
"returned",
[
"Container",
[
[
"preamble",
[
"Container",
[
[
"record_sequence_number",
[
"int",
1
]
],
[
"first_record_subtype",
[
"int",
2
]
],
[
"record_type",
[
"int",
3
]
],
[
"second_record_subtype",
[
"int",
4
]
],
[
"third_record_subtype",
[
"int",
5
]
],
[
"record_length",
[
"int",
6
]
]
]
]
],
[
"ascii_ebcdic_flag",
[
"str",
"F7"
]
],
[
"blanks1",
[
"str",
"F8"
]
],
[
"format_control_document_id",
[
"str",
""
]
],
[
"format_control_document_revision_level",
[
"str",
"F1"
]
],
[
"file_design_descriptor_revision_letter",
[
"str",
"F1"
]
],
[
"software_release_and_revision_number",
[
"str",
""
]
],
[
"file_number",
[
"int",
13
]
],
[
"file_id",
[
"str",
"F14"
]
],
[
"record_sequence_and_location_type_flag",
[
"str",
""
]
],
[
"location_sequence_number",
[
"int",
-1
]
],
[
"field_length_of_sequence_number",
[
"int",
17
]
],
[
"record_code_and_location_type_flag",
[
"str",
""
]
],
[
"record_code_location",
[
"int",
19
]
],
[
"record_code_field_length",
[
"int",
-1
]
],
[
"record_length_and_location_type_flag",
[
"str",
""
]
],
[
"record_length_location",
[
"int",
22
]
],
[
"record_length_field_length",
[
"int",
23
]
],
[
"reserved1",
[
"str",
""
]
],
[
"reserved2",
[
"str",
"F"
]
],
[
"reserved3",
[
"str",
"F"
]
],
[
"reserved4",
[
"str",
""
]
],
[
"blanks6",
[
"str",
"F28"
]
],
[
"number_of_sar_data_records",
[
"int",
29
]
],
[
"sar_data_record_length",
[
"int",
30
]
],
[
"reserved5",
[
"str",
"F31"
]
],
[
"sample_group_data",
[
"Container",
[
[
"bit_length_per_sample",
[
"int",
-1
]
],
[
"number_of_samples_per_data_group",
[
"int",
33
]
],
[
"number_of_bytes_per_data_group",
[
"int",
34
]
],
[
"justification_and_order_of_samples_within_data_group",
[
"str",
"F35"
]
]
]
]
],
[
"sar_related_data_in_the_record",
[
"Container",
[
[
"number_of_sar_channels",
[
"int",
-1
]
],
[
"number_of_lines_per_dataset",
[
"int",
37
]
],
[
"number_of_left_border_pixels_per_line",
[
"int",
38
]
],
[
"number_of_data_groups_per_line",
[
"int",
39
]
],
[
"number_of_right_border_pixels_per_line",
[
"int",
-1
]
],
[
"number_of_top_border_lines",
[
"int",
41
]
],
[
"number_of_bottom_border_lines",
[
"int",
42
]
],
[
"interleaving_id",
[
"str",
"F43"
]
]
]
]
],
[
"record_data_in_the_file",
[
"Container",
[
[
"number_of_physical_records_per_line",
[
"int",
-1
]
],
[
"number_of_physical_records_per_multichannel_line_in_this_file",
[
"int",
45
]
],
[
"number_of_bytes_of_prefix_data_per_record",
[
"int",
46
]
],
[
"number_of_bytes_of_sar_data_per_record",
[
"int",
47
]
],
[
"number_of_bytes_of_suffix_data_per_record",
[
"int",
-1
]
],
[
"prefix_suffix_repeat_flag",
[
"str",
"F49"
]
]
]
]
],
[
"prefix_suffix_data_locators",
[
"Container",
[
[
"sample_data_line_number_locator",
[
"str",
"F50"
]
],
[
"sar_channel_number_locator",
[
"str",
""
]
],
[
"time_of_sar_data_line_locator",
[
"str",
"F52"
]
],
[
"left_fill_count_locator",
[
"str",
"F53"
]
],
[
"right_fill_count_locator",
[
"str",
""
]
],
[
"pad_pixels_present_indicator",
[
"str",
"F55"
]
],
[
"blanks",
[
"str",
"F56"
]
],
[
"sar_data_line_quality_code_locator",
[
"str",
""
]
],
[
"calibration_information_field_locator",
[
"str",
"F58"
]
],
[
"gain_values_field_locator",
[
"str",
"F59"
]
],
[
"bias_values_field_locator",
[
"str",
""
]
],
[
"sar_data_format_type_indicator",
[
"str",
"F61"
]
],
[
"sar_data_format_type_code",
[
"str",
"F62"
]
],
[
"number_of_left_fill_bits_within_pixel",
[
"int",
63
]
],
[
"number_of_right_fill_bits_within_pixel",
[
"int",
-1
]
],
[
"maximum_data_range_of_pixel",
[
"int",
65
]
],
[
"number_of_burst_data",
[
"int",
66
]
],
[
"number_of_lines_per_burst",
[
"int",
67
]
]
]
]
],
[
"scansar_burst_data_information",
[
"Container",
[
[
"number_of_overlap_lines_with_adjacent_bursts",
[
"int",
-1
]
],
[
"blanks",
[
"str",
""
]
]
]
]
]
]
]
],
"file_descriptor[11].data": [
"bytes",
"0000000c0d0e0f1000000011202046312020202020202020204632302020463220202020202020202046323320202020463235202020202020202020202020202046323620202020202032372020202020463239202020202020333020203331204633323333202020202020202033344620464620202020202020202020202020202020202020202020202020202020202020202020202020202020202020202020202020202020202020202020202020202020202020202020343120202020202020202020202020202020202020202020202020202020202034332020202034352020463436202020343720202020202020203439202020202020202035302020353120202020353320202020202035352020353720202020202020203538202035392020202046363120202020202020202020463632202020202020202046363420202020202020202020463635202020204636372020202020202020202020202020202020202020202020202020202020204636382020202020202020463730202020202020202020204637312020202020202020202020202020202020202020202020202020202046373320202037342020373520202020202020203737202020203738202037392020202020202020202020202020202020202020202020202020202020202020202020202020202020202020202020202020202020202020202020202020202020202020202020202020202020202020202020202020202020202020202020202020202020202020202020202020202020202020202020202020202020202020202020202020202020202020202020202020202020202020202020202020202020202020202020202020202020202020202020202020202020202020202020202020202020202020202020202020202020202020202020202020202020202020202020202020202020202020202020202020202020202020202020202020202020463830"
],
"file_descriptor[11].parse": [
"returned",
[
"Container",
[
[
"preamble",
[
"Container",
[
[
"record_sequence_number",
[
"int",
12
]
],
[
"first_record_subtype",
[
"int",
13
]
],
[
"record_type",
[
"int",
14
]
],
[
"second_record_subtype",
[
"int",
15
]
],
[
"third_record_subtype",
[
"int",
16
]
],
[
"record_length",
[
"int",
17
]
]
]
]
],
[
"ascii_ebcdic_flag",
[
"str",
""
]
],
[
"blanks1",
[
"str",
"F1"
]
],
[
"format_control_document_id",
[
"str",
"F20"
]
],
[
"format_control_document_revision_level",
[
"str",
""
]
],
[
"file_design_descriptor_revision_letter",
[
"str",
"F2"
]
],
[
"software_release_and_revision_number",
[
"str",
"F23"
]
],
[
"file_number",
[
"int",
-1
]
],
[
"file_id",
[
"str",
"F25"
]
],
[
"record_sequence_and_location_type_flag",
[
"str",
"F26"
]
],
[
"location_sequence_number",
[
"int",
27
]
],
[
"field_length_of_sequence_number",
[
"int",
-1
]
],
[
"record_code_and_location_type_flag",
[
"str",
"F29"
]
],
[
"record_code_location",
[
"int",
30
]
],
[
"record_code_field_length",
[
"int",
31
]
],
[
"record_length_and_location_type_flag",
[
"str",
"F32"
]
],
[
"record_length_location",
[
"int",
33
]
],
[
"record_length_field_length",
[
"int",
34
]
],
[
"reserved1",
[
"str",
"F"
]
],
[
"reserved2",
[
"str",
""
]
],
[
"reserved3",
[
"str",
"F"
]
],
[
"reserved4",
[
"str",
"F"
]
],
[
"blanks6",
[
"str",
""
]
],
[
"number_of_sar_data_records",
[
"int",
-1
]
],
[
"sar_data_record_length",
[
"int",
41
]
],
[
"reserved5",
[
"str",
""
]
],
[
"sample_group_data",
[
"Container",
[
[
"bit_length_per_sample",
[
"int",
43
]
],
[
"number_of_samples_per_data_group",
[
"int",
-1
]
],
[
"number_of_bytes_per_data_group",
[
"int",
45
]
],
[
"justification_and_order_of_samples_within_data_group",
[
"str",
"F46"
]
]
]
]
],
[
"sar_related_data_in_the_record",
[
"Container",
[
[
"number_of_sar_channels",
[
"int",
47
]
],
[
"number_of_lines_per_dataset",
[
"int",
-1
]
],
[
"number_of_left_border_pixels_per_line",
[
"int",
49
]
],
[
"number_of_data_groups_per_line",
[
"int",
50
]
],
[
"number_of_right_border_pixels_per_line",
[
"int",
51
]
],
[
"number_of_top_border_lines",
[
"int",
-1
]
],
[
"number_of_bottom_border_lines",
[
"int",
53
]
],
[
"interleaving_id",
[
"str",
""
]
]
]
]
],
[
"record_data_in_the_file",
[
"Container",
[
[
"number_of_physical_records_per_line",
[
"int",
55
]
],
[
"number_of_physical_records_per_multichannel_line_in_this_file",
[
"int",
-1
]
],
[
"number_of_bytes_of_prefix_data_per_record",
[
"int",
57
]
],
[
"number_of_bytes_of_sar_data_per_record",
[
"int",
58
]
],
[
"number_of_bytes_of_suffix_data_per_record",
[
"int",
59
]
],
[
"prefix_suffix_repeat_flag",
[
"str",
""
]
]
]
]
],
[
"prefix_suffix_data_locators",
[
"Container",
[
[
"sample_data_line_number_locator",
[
"str",
"F61"
]
],
[
"sar_channel_number_locator",
[
"str",
"F62"
]
],
[
"time_of_sar_data_line_locator",
[
"str",
""
]
],
[
"left_fill_count_locator",
[
"str",
"F64"
]
],
[
"right_fill_count_locator",
[
"str",
"F65"
]
],
[
"pad_pixels_present_indicator",
[
"str",
""
]
],
[
"blanks",
[
"str",
"F67"
]
],
[
"sar_data_line_quality_code_locator",
[
"str",
"F68"
]
],
[
"calibration_information_field_locator",
[
"str",
""
]
],
[
"gain_values_field_locator",
[
"str",
"F70"
]
],
[
"bias_values_field_locator",
[
"str",
"F71"
]
],
[
"sar_data_format_type_indicator",
[
"str",
""
]
],
[
"sar_data_format_type_code",
[
"str",
"F73"
]
],
[
"number_of_left_fill_bits_within_pixel",
[
"int",
74
]
],
[
"number_of_right_fill_bits_within_pixel",
[
"int",
75
]
],
[
"maximum_data_range_of_pixel",
[
"int",
-1
]
],
[
"number_of_burst_data",
[
"int",
77
]
],
[
"number_of_lines_per_burst",
[
"int",
78
]
]
]
]
],
[
"scansar_burst_data_information",
[
"Container",
[
[
"number_of_overlap_lines_with_adjacent_bursts",
[
"int",
79
]
],
[
"blanks",
[
"str",
"F80"
]
]
]
]
]
]
]
],
"file_descriptor[1].data": [
"bytes",
"000000020304050600000007463820204631302020202020202020204631202046313320202020202020202020203134202020202020202020202020202020204631362031372020202020202020313846313920202020202020202032312020463232202020202020203233202020204646204620202020202020202020202020202020202020202020202020202020202020202020202020202020202020202020202020202020202020202020202020463239202020203330202020203331202020202020202020202020202020202020202020463332333320202020333420203335202020203337202020202020202033382020333920202020202020203431202020203432202034332046343434353436202034372020202020202020343920202046353020202020202020204635322020202020202020202046353320202020202020204635352020202020204635362020202020202020202020202020202020202020202020202020202046353820202020202020202020463539202020202020202046363120202020202020202020202020202020202020202020202020202020202046363220202020202020203635202020202020202036362020363720202020363920204637302020202020202020202020202020202020202020202020202020202020202020202020202020202020202020202020202020202020202020202020202020202020202020202020202020202020202020202020202020202020202020202020202020202020202020202020202020202020202020202020202020202020202020202020202020202020202020202020202020202020202020202020202020202020202020202020202020202020202020202020202020202020202020202020202020202020202020202020202020202020202020202020202020202020202020202020202020202020202020202020202020202020202020202020202020202020"
],
"file_descriptor[1].parse": [
"returned",
[
"Container",
[
[
"preamble",
[
"Container",
[
[
"record_sequence_number",
[
"int",
2
]
],
[
"first_record_subtype",
[
"int",
3
]
],
[
"record_type",
[
"int",
4
]
],
[
"second_record_subtype",
[
"int",
5
]
],
[
"third_record_subtype",
[
"int",
6
]
],
[
"record_length",
[
"int",
7
]
]
]
]
],
[
"ascii_ebcdic_flag",
[
"str",
"F8"
]
],
[
"blanks1",
[
"str",
""
]
],
[
"format_control_document_id",
[
"str",
"F10"
]
],
[
"format_control_document_revision_level",
[
"str",
"F1"
]
],
[
"file_design_descriptor_revision_letter",
[
"str",
""
]
],
[
"software_release_and_revision_number",
[
"str",
"F13"
]
],
[
"file_number",
[
"int",
14
]
],
[
"file_id",
[
"str",
""
]
],
[
"record_sequence_and_location_type_flag",
[
"str",
"F16"
]
],
[
"location_sequence_number",
[
"int",
17
]
],
[
"field_length_of_sequence_number",
[
"int",
18
]
],
[
"record_code_and_location_type_flag",
[
"str",
"F19"
]
],
[
"record_code_location",
[
"int",
-1
]
],
[
"record_code_field_length",
[
"int",
21
]
],
[
"record_length_and_location_type_flag",
[
"str",
"F22"
]
],
[
"record_length_location",
[
"int",
23
]
],
[
"record_length_field_length",
[
"int",
-1
]
],
[
"reserved1",
[
"str",
"F"
]
],
[
"reserved2",
[
"str",
"F"
]
],
[
"reserved3",
[
"str",
""
]
],
[
"reserved4",
[
"str",
"F"
]
],
[
"blanks6",
[
"str",
"F29"
]
],
[
"number_of_sar_data_records",
[
"int",
30
]
],
[
"sar_data_record_length",
[
"int",
31
]
],
[
"reserved5",
[
"str",
"F32"
]
],
[
"sample_group_data",
[
"Container",
[
[
"bit_length_per_sample",
[
"int",
33
]
],
[
"number_of_samples_per_data_group",
[
"int",
34
]
],
[
"number_of_bytes_per_data_group",
[
"int",
35
]
],
[
"justification_and_order_of_samples_within_data_group",
[
"str",
""
]
]
]
]
],
[
"sar_related_data_in_the_record",
[
"Container",
[
[
"number_of_sar_channels",
[
"int",
37
]
],
[
"number_of_lines_per_dataset",
[
"int",
38
]
],
[
"number_of_left_border_pixels_per_line",
[
"int",
39
]
],
[
"number_of_data_groups_per_line",
[
"int",
-1
]
],
[
"number_of_right_border_pixels_per_line",
[
"int",
41
]
],
[
"number_of_top_border_lines",
[
"int",
42
]
],
[
"number_of_bottom_border_lines",
[
"int",
43
]
],
[
"interleaving_id",
[
"str",
"F44"
]
]
]
]
],
[
"record_data_in_the_file",
[
"Container",
[
[
"number_of_physical_records_per_line",
[
"int",
45
]
],
[
"number_of_physical_records_per_multichannel_line_in_this_file",
[
"int",
46
]
],
[
"number_of_bytes_of_prefix_data_per_record",
[
"int",
47
]
],
[
"number_of_bytes_of_sar_data_per_record",
[
"int",
-1
]
],
[
"number_of_bytes_of_suffix_data_per_record",
[
"int",
49
]
],
[
"prefix_suffix_repeat_flag",
[
"str",
"F50"
]
]
]
]
],
[
"prefix_suffix_data_locators",
[
"Container",
[
[
"sample_data_line_number_locator",
[
"str",
""
]
],
[
"sar_channel_number_locator",
[
"str",
"F52"
]
],
[
"time_of_sar_data_line_locator",
[
"str",
"F53"
]
],
[
"left_fill_count_locator",
[
"str",
""
]
],
[
"right_fill_count_locator",
[
"str",
"F55"
]
],
[
"pad_pixels_present_indicator",
[
"str",
"F56"
]
],
[
"blanks",
[
"str",
""
]
],
[
"sar_data_line_quality_code_locator",
[
"str",
"F58"
]
],
[
"calibration_information_field_locator",
[
"str",
"F59"
]
],
[
"gain_values_field_locator",
[
"str",
""
]
],
[
"bias_values_field_locator",
[
"str",
"F61"
]
],
[
"sar_data_format_type_indicator",
[
"str",
"F62"
]
],
[
"sar_data_format_type_code",
[
"str",
""
]
],
[
"number_of_left_fill_bits_within_pixel",
[
"int",
-1
]
],
[
"number_of_right_fill_bits_within_pixel",
[
"int",
65
]
],
[
"maximum_data_range_of_pixel",
[
"int",
66
]
],
[
"number_of_burst_data",
[
"int",
67
]
],
[
"number_of_lines_per_burst",
[
"int",
-1
]
]
]
]
],
[
"scansar_burst_data_information",
[
"Container",
[
[
"number_of_overlap_lines_with_adjacent_bursts",
[
"int",
69
]
],
[
"blanks",
[
"str",
"F70"
]
]
]
]
]
]
]
],
"file_descriptor[2].data": [
"bytes",
"000000030405060700000008202046312020202020202020204631312020463120202020202020202046313420203135463136202020202020202020202020202046313720202020202031382020313920463230323120202020202020203232204632332020202020202020323520204620464620202020202020202020202020202020202020202020202020202020202020202020202020202020202020202020202020202020202020202020202020202020202020203331202020202020202020202020202020202020202020202020202020202020202033342020333520202020463337202020333820202020202033392020202034312020202020202020343220203433202020202020202034363437202020203439202020202020202035302020202046353220202020202020202020463533202020202020202046353520202020202020202020463536202020204635382020202020202020202020202020202020202020202020202020202020204635392020202020202020463631202020202020202020204636322020202020202020202020202020202020202020202020202020202046363420363520202020363620202020202036372020202036392020202037302020202020202020202020202020202020202020202020202020202020202020202020202020202020202020202020202020202020202020202020202020202020202020202020202020202020202020202020202020202020202020202020202020202020202020202020202020202020202020202020202020202020202020202020202020202020202020202020202020202020202020202020202020202020202020202020202020202020202020202020202020202020202020202020202020202020202020202020202020202020202020202020202020202020202020202020202020202020202020202020202020202020202020202020202020202020463731"
],
"file_descriptor[2].parse": [
"returned",
[
"Container",
[
[
"preamble",
[
"Container",
[
[
"record_sequence_number",
[
"int",
3
]
],
[
"first_record_subtype",
[
"int",
4
]
],
[
"record_type",
[
"int",
5
]
],
[
"second_record_subtype",
[
"int",
6
]
],
[
"third_record_subtype",
[
"int",
7
]
],
[
"record_length",
[
"int",
8
]
]
]
]
],
[
"ascii_ebcdic_flag",
[
"str",
""
]
],
[
"blanks1",
[
"str",
"F1"
]
],
[
"format_control_document_id",
[
"str",
"F11"
]
],
[
"format_control_document_revision_level",
[
"str",
""
]
],
[
"file_design_descriptor_revision_letter",
[
"str",
"F1"
]
],
[
"software_release_and_revision_number",
[
"str",
"F14"
]
],
[
"file_number",
[
"int",
15
]
],
[
"file_id",
[
"str",
"F16"
]
],
[
"record_sequence_and_location_type_flag",
[
"str",
"F17"
]
],
[
"location_sequence_number",
[
"int",
18
]
],
[
"field_length_of_sequence_number",
[
"int",
19
]
],
[
"record_code_and_location_type_flag",
[
"str",
"F20"
]
],
[
"record_code_location",
[
"int",
21
]
],
[
"record_code_field_length",
[
"int",
22
]
],
[
"record_length_and_location_type_flag",
[
"str",
"F23"
]
],
[
"record_length_location",
[
"int",
-1
]
],
[
"record_length_field_length",
[
"int",
25
]
],
[
"reserved1",
[
"str",
"F"
]
],
[
"reserved2",
[
"str",
""
]
],
[
"reserved3",
[
"str",
"F"
]
],
[
"reserved4",
[
"str",
"F"
]
],
[
"blanks6",
[
"str",
""
]
],
[
"number_of_sar_data_records",
[
"int",
31
]
],
[
"sar_data_record_length",
[
"int",
-1
]
],
[
"reserved5",
[
"str",
""
]
],
[
"sample_group_data",
[
"Container",
[
[
"bit_length_per_sample",
[
"int",
34
]
],
[
"number_of_samples_per_data_group",
[
"int",
35
]
],
[
"number_of_bytes_per_data_group",
[
"int",
-1
]
],
[
"justification_and_order_of_samples_within_data_group",
[
"str",
"F37"
]
]
]
]
],
[
"sar_related_data_in_the_record",
[
"Container",
[
[
"number_of_sar_channels",
[
"int",
38
]
],
[
"number_of_lines_per_dataset",
[
"int",
39
]
],
[
"number_of_left_border_pixels_per_line",
[
"int",
-1
]
],
[
"number_of_data_groups_per_line",
[
"int",
41
]
],
[
"number_of_right_border_pixels_per_line",
[
"int",
42
]
],
[
"number_of_top_border_lines",
[
"int",
43
]
],
[
"number_of_bottom_border_lines",
[
"int",
-1
]
],
[
"interleaving_id",
[
"str",
""
]
]
]
]
],
[
"record_data_in_the_file",
[
"Container",
[
[
"number_of_physical_records_per_line",
[
"int",
46
]
],
[
"number_of_physical_records_per_multichannel_line_in_this_file",
[
"int",
47
]
],
[
"number_of_bytes_of_prefix_data_per_record",
[
"int",
-1
]
],
[
"number_of_bytes_of_sar_data_per_record",
[
"int",
49
]
],
[
"number_of_bytes_of_suffix_data_per_record",
[
"int",
50
]
],
[
"prefix_suffix_repeat_flag",
[
"str",
""
]
]
]
]
],
[
"prefix_suffix_data_locators",
[
"Container",
[
[
"sample_data_line_number_locator",
[
"str",
"F52"
]
],
[
"sar_channel_number_locator",
[
"str",
"F53"
]
],
[
"time_of_sar_data_line_locator",
[
"str",
""
]
],
[
"left_fill_count_locator",
[
"str",
"F55"
]
],
[
"right_fill_count_locator",
[
"str",
"F56"
]
],
[
"pad_pixels_present_indicator",
[
"str",
""
]
],
[
"blanks",
[
"str",
"F58"
]
],
[
"sar_data_line_quality_code_locator",
[
"str",
"F59"
]
],
[
"calibration_information_field_locator",
[
"str",
""
]
],
[
"gain_values_field_locator",
[
"str",
"F61"
]
],
[
"bias_values_field_locator",
[
"str",
"F62"
]
],
[
"sar_data_format_type_indicator",
[
"str",
""
]
],
[
"sar_data_format_type_code",
[
"str",
"F64"
]
],
[
"number_of_left_fill_bits_within_pixel",
[
"int",
65
]
],
[
"number_of_right_fill_bits_within_pixel",
[
"int",
66
]
],
[
"maximum_data_range_of_pixel",
[
"int",
67
]
],
[
"number_of_burst_data",
[
"int",
-1
]
],
[
"number_of_lines_per_burst",
[
"int",
69
]
]
]
]
],
[
"scansar_burst_data_information",
[
"Container",
[
[
"number_of_overlap_lines_with_adjacent_bursts",
[
"int",
70
]
],
[
"blanks",
[
"str",
"F71"
]
]
]
]
]
]
]
],
"file_descriptor[3].data": [
"bytes",
"000000040506070800000009463146312020202020202020202020204631463120202020202020202020202020202020202020202020202020202020204631372020202020202020202031392020202020202020202020202020323220203233202020203235202020202020202032362046462046333120202020202020202020202020202020202020202020202020202020202020202020202020202020202020202020202020202020202020202020202020202020202020333320202020463334202020202020202020202020202020202020202020202033352020202033372020204633382020333920202020202020203431202020202020202034322020343320202020343520204634362034372020343920202020202020203530202035314635322020202020204635332020202020202020463535202020202020202020204635362020202020202020463538202020202020202020202020202020202020202020202020202046353920202020202020204636312020202020202020202046363220202020202020204636342020202020202020202020202020202020202020202020202020463635202036362020363720202020202020203639202020203730202037312020202020202020202020202020202020202020202020202020202020202020202020202020202020202020202020202020202020202020202020202020202020202020202020202020202020202020202020202020202020202020202020202020202020202020202020202020202020202020202020202020202020202020202020202020202020202020202020202020202020202020202020202020202020202020202020202020202020202020202020202020202020202020202020202020202020202020202020202020202020202020202020202020202020202020202020202020202020202020202020202020202020202020202020202020202020202020"
],
"file_descriptor[3].parse": [
"returned",
[
"Container",
[
[
"preamble",
[
"Container",
[
[
"record_sequence_number",
[
"int",
4
]
],
[
"first_record_subtype",
[
"int",
5
]
],
[
"record_type",
[
"int",
6
]
],
[
"second_record_subtype",
[
"int",
7
]
],
[
"third_record_subtype",
[
"int",
8
]
],
[
"record_length",
[
"int",
9
]
]
]
]
],
[
"ascii_ebcdic_flag",
[
"str",
"F1"
]
],
[
"blanks1",
[
"str",
"F1"
]
],
[
"format_control_document_id",
[
"str",
""
]
],
[
"format_control_document_revision_level",
[
"str",
"F1"
]
],
[
"file_design_descriptor_revision_letter",
[
"str",
"F1"
]
],
[
"software_release_and_revision_number",
[
"str",
""
]
],
[
"file_number",
[
"int",
-1
]
],
[
"file_id",
[
"str",
"F17"
]
],
[
"record_sequence_and_location_type_flag",
[
"str",
""
]
],
[
"location_sequence_number",
[
"int",
19
]
],
[
"field_length_of_sequence_number",
[
"int",
-1
]
],
[
"record_code_and_location_type_flag",
[
"str",
""
]
],
[
"record_code_location",
[
"int",
22
]
],
[
"record_code_field_length",
[
"int",
23
]
],
[
"record_length_and_location_type_flag",
[
"str",
""
]
],
[
"record_length_location",
[
"int",
25
]
],
[
"record_length_field_length",
[
"int",
26
]
],
[
"reserved1",
[
"str",
""
]
],
[
"reserved2",
[
"str",
"F"
]
],
[
"reserved3",
[
"str",
"F"
]
],
[
"reserved4",
[
"str",
""
]
],
[
"blanks6",
[
"str",
"F31"
]
],
[
"number_of_sar_data_records",
[
"int",
-1
]
],
[
"sar_data_record_length",
[
"int",
33
]
],
[
"reserved5",
[
"str",
"F34"
]
],
[
"sample_group_data",
[
"Container",
[
[
"bit_length_per_sample",
[
"int",
35
]
],
[
"number_of_samples_per_data_group",
[
"int",
-1
]
],
[
"number_of_bytes_per_data_group",
[
"int",
37
]
],
[
"justification_and_order_of_samples_within_data_group",
[
"str",
"F38"
]
]
]
]
],
[
"sar_related_data_in_the_record",
[
"Container",
[
[
"number_of_sar_channels",
[
"int",
39
]
],
[
"number_of_lines_per_dataset",
[
"int",
-1
]
],
[
"number_of_left_border_pixels_per_line",
[
"int",
41
]
],
[
"number_of_data_groups_per_line",
[
"int",
42
]
],
[
"number_of_right_border_pixels_per_line",
[
"int",
43
]
],
[
"number_of_top_border_lines",
[
"int",
-1
]
],
[
"number_of_bottom_border_lines",
[
"int",
45
]
],
[
"interleaving_id",
[
"str",
"F46"
]
]
]
]
],
[
"record_data_in_the_file",
[
"Container",
[
[
"number_of_physical_records_per_line",
[
"int",
47
]
],
[
"number_of_physical_records_per_multichannel_line_in_this_file",
[
"int",
-1
]
],
[
"number_of_bytes_of_prefix_data_per_record",
[
"int",
49
]
],
[
"number_of_bytes_of_sar_data_per_record",
[
"int",
50
]
],
[
"number_of_bytes_of_suffix_data_per_record",
[
"int",
51
]
],
[
"prefix_suffix_repeat_flag",
[
"str",
"F52"
]
]
]
]
],
[
"prefix_suffix_data_locators",
[
"Container",
[
[
"sample_data_line_number_locator",
[
"str",
"F53"
]
],
[
"sar_channel_number_locator",
[
"str",
""
]
],
[
"time_of_sar_data_line_locator",
[
"str",
"F55"
]
],
[
"left_fill_count_locator",
[
"str",
"F56"
]
],
[
"right_fill_count_locator",
[
"str",
""
]
],
[
"pad_pixels_present_indicator",
[
"str",
"F58"
]
],
[
"blanks",
[
"str",
"F59"
]
],
[
"sar_data_line_quality_code_locator",
[
"str",
""
]
],
[
"calibration_information_field_locator",
[
"str",
"F61"
]
],
[
"gain_values_field_locator",
[
"str",
"F62"
]
],
[
"bias_values_field_locator",
[
"str",
""
]
],
[
"sar_data_format_type_indicator",
[
"str",
"F64"
]
],
[
"sar_data_format_type_code",
[
"str",
"F65"
]
],
[
"number_of_left_fill_bits_within_pixel",
[
"int",
66
]
],
[
"number_of_right_fill_bits_within_pixel",
[
"int",
67
]
],
[
"maximum_data_range_of_pixel",
[
"int",
-1
]
],
[
"number_of_burst_data",
[
"int",
69
]
],
[
"number_of_lines_per_burst",
[
"int",
70
]
]
]
]
],
[
"scansar_burst_data_information",
[
"Container",
[
[
"number_of_overlap_lines_with_adjacent_bursts",
[
"int",
71
]
],
[
"blanks",
[
"str",
""
]
]
]
]
]
]
]
],
"file_descriptor[7].data": [
"bytes",
"00000008090a0b0c0000000d463120204631362020202020202020204631202046313920202020202020202020202020202020202020202020202020202020204632322020202020202032332020202046323520202020202020323620203237463238203239202020202020202033304646204620202020202020202020202020202020202020202020202020202020202020202020202020202020202020202020202020202020202020202020202020463335202020202020333720202020202020202020202020202020202020202020202020463338202033392020202034312020202020202020343320202020202020203435202020202020202034362020343720202020343920202046353035312020353320202020202020203534202035352046353620202020202020204635382020202020202020202046353920202020202020204636312020202020204636322020202020202020202020202020202020202020202020202020202046363420202020202020202020463635202020202020202046363720202020202020202020202020202020202020202020202020202020202046363820202020202037302020373120202020202020203733202020203734202037354637362020202020202020202020202020202020202020202020202020202020202020202020202020202020202020202020202020202020202020202020202020202020202020202020202020202020202020202020202020202020202020202020202020202020202020202020202020202020202020202020202020202020202020202020202020202020202020202020202020202020202020202020202020202020202020202020202020202020202020202020202020202020202020202020202020202020202020202020202020202020202020202020202020202020202020202020202020202020202020202020202020202020202020202020202020202020"
],
"file_descriptor[7].parse": [
"returned",
[
"Container",
[
[
"preamble",
[
"Container",
[
[
"record_sequence_number",
[
"int",
8
]
],
[
"first_record_subtype",
[
"int",
9
]
],
[
"record_type",
[
"int",
10
]
],
[
"second_record_subtype",
[
"int",
11
]
],
[
"third_record_subtype",
[
"int",
12
]
],
[
"record_length",
[
"int",
13
]
]
]
]
],
[
"ascii_ebcdic_flag",
[
"str",
"F1"
]
],
[
"blanks1",
[
"str",
""
]
],
[
"format_control_document_id",
[
"str",
"F16"
]
],
[
"format_control_document_revision_level",
[
"str",
"F1"
]
],
[
"file_design_descriptor_revision_letter",
[
"str",
""
]
],
[
"software_release_and_revision_number",
[
"str",
"F19"
]
],
[
"file_number",
[
"int",
-1
]
],
[
"file_id",
[
"str",
""
]
],
[
"record_sequence_and_location_type_flag",
[
"str",
"F22"
]
],
[
"location_sequence_number",
[
"int",
23
]
],
[
"field_length_of_sequence_number",
[
"int",
-1
]
],
[
"record_code_and_location_type_flag",
[
"str",
"F25"
]
],
[
"record_code_location",
[
"int",
26
]
],
[
"record_code_field_length",
[
"int",
27
]
],
[
"record_length_and_location_type_flag",
[
"str",
"F28"
]
],
[
"record_length_location",
[
"int",
29
]
],
[
"record_length_field_length",
[
"int",
30
]
],
[
"reserved1",
[
"str",
"F"
]
],
[
"reserved2",
[
"str",
"F"
]
],
[
"reserved3",
[
"str",
""
]
],
[
"reserved4",
[
"str",
"F"
]
],
[
"blanks6",
[
"str",
"F35"
]
],
[
"number_of_sar_data_records",
[
"int",
-1
]
],
[
"sar_data_record_length",
[
"int",
37
]
],
[
"reserved5",
[
"str",
"F38"
]
],
[
"sample_group_data",
[
"Container",
[
[
"bit_length_per_sample",
[
"int",
39
]
],
[
"number_of_samples_per_data_group",
[
"int",
-1
]
],
[
"number_of_bytes_per_data_group",
[
"int",
41
]
],
[
"justification_and_order_of_samples_within_data_group",
[
"str",
""
]
]
]
]
],
[
"sar_related_data_in_the_record",
[
"Container",
[
[
"number_of_sar_channels",
[
"int",
43
]
],
[
"number_of_lines_per_dataset",
[
"int",
-1
]
],
[
"number_of_left_border_pixels_per_line",
[
"int",
45
]
],
[
"number_of_data_groups_per_line",
[
"int",
46
]
],
[
"number_of_right_border_pixels_per_line",
[
"int",
47
]
],
[
"number_of_top_border_lines",
[
"int",
-1
]
],
[
"number_of_bottom_border_lines",
[
"int",
49
]
],
[
"interleaving_id",
[
"str",
"F50"
]
]
]
]
],
[
"record_data_in_the_file",
[
"Container",
[
[
"number_of_physical_records_per_line",
[
"int",
51
]
],
[
"number_of_physical_records_per_multichannel_line_in_this_file",
[
"int",
-1
]
],
[
"number_of_bytes_of_prefix_data_per_record",
[
"int",
53
]
],
[
"number_of_bytes_of_sar_data_per_record",
[
"int",
54
]
],
[
"number_of_bytes_of_suffix_data_per_record",
[
"int",
55
]
],
[
"prefix_suffix_repeat_flag",
[
"str",
"F56"
]
]
]
]
],
[
"prefix_suffix_data_locators",
[
"Container",
[
[
"sample_data_line_number_locator",
[
"str",
""
]
],
[
"sar_channel_number_locator",
[
"str",
"F58"
]
],
[
"time_of_sar_data_line_locator",
[
"str",
"F59"
]
],
[
"left_fill_count_locator",
[
"str",
""
]
],
[
"right_fill_count_locator",
[
"str",
"F61"
]
],
[
"pad_pixels_present_indicator",
[
"str",
"F62"
]
],
[
"blanks",
[
"str",
""
]
],
[
"sar_data_line_quality_code_locator",
[
"str",
"F64"
]
],
[
"calibration_information_field_locator",
[
"str",
"F65"
]
],
[
"gain_values_field_locator",
[
"str",
""
]
],
[
"bias_values_field_locator",
[
"str",
"F67"
]
],
[
"sar_data_format_type_indicator",
[
"str",
"F68"
]
],
[
"sar_data_format_type_code",
[
"str",
""
]
],
[
"number_of_left_fill_bits_within_pixel",
[
"int",
70
]
],
[
"number_of_right_fill_bits_within_pixel",
[
"int",
71
]
],
[
"maximum_data_range_of_pixel",
[
"int",
-1
]
],
[
"number_of_burst_data",
[
"int",
73
]
],
[
"number_of_lines_per_burst",
[
"int",
74
]
]
]
]
],
[
"scansar_burst_data_information",
[
"Container",
[
[
"number_of_overlap_lines_with_adjacent_bursts",
[
"int",
75
]
],
[
"blanks",
[
"str",
"F76"
]
]
]
]
]
]
]
],
"nested.describe": {
"class": "construct.core.Struct",
"sizeof": 26,
"subcons": [
{
"class": "construct.core.Renamed",
"name": "a",
"sizeof": 4,
"subcon": {
"class": "ceos_alos2.datatypes.AsciiInteger",
"sizeof": 4,
"subcon": {
"class": "construct.core.StringEncoded",
"encoding": "'ascii'",
"sizeof": 4,
"subcon": {
"class": "construct.core.FixedSized",
"length": "4",
"sizeof": 4,
"subcon": {
"class": "construct.core.NullStripped",
"sizeof": "SizeofError",
"subcon": {
"class": "construct.core.GreedyBytes",
"sizeof": "SizeofError"
}
}
}
}
}
},
{
"class": "construct.core.Renamed",
"name": "b",
"sizeof": 16,
"subcons": [
{
"class": "construct.core.Renamed",
"name": "c",
"sizeof": 8,
"subcon": {
"class": "ceos_alos2.datatypes.AsciiFloat",
"sizeof": 8,
"subcon": {
"class": "construct.core.StringEncoded",
"encoding": "'ascii'",
"sizeof": 8,
"subcon": {
"class": "construct.core.FixedSized",
"length": "8",
"sizeof": 8,
"subcon": {
"class": "construct.core.NullStripped",
"sizeof": "SizeofError",
"subcon": {
"class": "construct.core.GreedyBytes",
"sizeof": "SizeofError"
}
}
}
}
}
},
{
"class": "construct.core.Renamed",
"name": "d",
"sizeof": 8,
"subcon": {
"class": "ceos_alos2.datatypes.AsciiComplex",
"sizeof": 8,
"subcon": {
"class": "construct.core.Struct",
"sizeof": 8,
"subcons": [
{
"class": "construct.core.Renamed",
"name": "real",
"sizeof": 4,
"subcon": {
"class": "ceos_alos2.datatypes.AsciiFloat",
"sizeof": 4,
"subcon": {
"class": "construct.core.StringEncoded",
"encoding": "'ascii'",
"sizeof": 4,
"subcon": {
"class": "construct.core.FixedSized",
"length": "4",
"sizeof": 4,
"subcon": {
"class": "construct.core.NullStripped",
"sizeof": "SizeofError",
"subcon": {
"class": "construct.core.GreedyBytes",
"sizeof": "SizeofError"
}
}
}
}
}
},
{
"class": "construct.core.Renamed",
"name": "imaginary",
"sizeof": 4,
"subcon": {
"class": "ceos_alos2.datatypes.AsciiFloat",
"sizeof": 4,
"subcon": {
"class": "construct.core.StringEncoded",
"encoding": "'ascii'",
"sizeof": 4,
"subcon": {
"class": "construct.core.FixedSized",
"length": "4",
"sizeof": 4,
"subcon": {
"class": "construct.core.NullStripped",
"sizeof": "SizeofError",
"subcon": {
"class": "construct.core.GreedyBytes",
"sizeof": "SizeofError"
}
}
}
}
}
}
]
}
}
}
]
},
{
"class": "construct.core.Renamed",
"name": "e",
"sizeof": 6,
"subcon": {
"class": "ceos_alos2.datatypes.PaddedString",
"sizeof": 6,
"subcon": {
"class": "construct.core.StringEncoded",
"encoding": "'ascii'",
"sizeof": 6,
"subcon": {
"class": "construct.core.FixedSized",
"length": "6",
"sizeof": 6,
"subcon": {
"class": "construct.core.NullStripped",
"sizeof": "SizeofError",
"subcon": {
"class": "construct.core.GreedyBytes",
"sizeof": "SizeofError"
}
}
}
}
}
}
]
},
"nested.parse(b'                          ')": [
"returned",
[
"Container",
[
[
"a",
[
"int",
-1
]
],
[
"b",
[
"Container",
[
[
"c",
[
"float",
"nan"
]
],
[
"d",
[
"complex",
"(nan+nanj)"
]
]
]
]
],
[
"e",
[
"str",
""
]
]
]
]
],
"nested.parse(b'  42 3.25')": [
"raised",
"construct.core.StreamError",
"Error in path (parsing) -> b -> c\nstream read less than specified amount, expected 8, found 5"
],
"nested.parse(b'  42 3.25E+01.5  2.5  ALOS2 ')": [
"returned",
[
"Container",
[
[
"a",
[
"int",
42
]
],
[
"b",
[
"Container",
[
[
"c",
[
"float",
"3.25"
]
],
[
"d",
[
"complex",
"(1.5+2.5j)"
]
]
]
]
],
[
"e",
[
"str",
"ALOS"
]
]
]
]
],
"nested.parse(b'  42 3.25E+01.5  2.y  ALOS2 ')": [
"raised",
"builtins.ValueError",
"could not convert string to float: '2.y'"
],
"nested.parse(b'  4x 3.25E+01.5  2.5  ALOS2 ')": [
"raised",
"builtins.ValueError",
"invalid literal for int() with base 10: '4x'"
]
}
"""


if __name__ == "__main__":
    if "--record" in sys.argv[1:]:
        record()
        print("recorded")
    else:
        test_equivalence()
        print("equivalent:", len(load_expected()), "observations match")
