"""Equivalence check for refactoring 4 (ceos_alos2.sar_image: open_image and
filename_to_groupname).

Run as
    cd /tmp/wt5/e31 && PYTHONPATH=/tmp/wt5/e31 /venv/bin/python _eq/4/equiv.py
(or through pytest). The values in EXPECTED were recorded from the unchanged code at
HEAD with `equiv.py --record`; the script has to pass with and without patch.diff.
"""

import hashlib
import pathlib
import pprint
import shutil
import struct
import sys
import tempfile

import fsspec
import fsspec.implementations.dirfs as dirfs
import numpy as np

from ceos_alos2 import sar_image
from ceos_alos2.array import Array
from ceos_alos2.hierarchy import Group, Variable
from ceos_alos2.sar_image import caching

ROOT = "memory://eq4root"

# --------------------------------------------------------------------------------------
# synthetic products


def make_header(n_records, record_length, *, type_code, groups, extra=()):
    buf = bytearray(b" " * 720)
    buf[0:12] = struct.pack(">IBBBBI", 1, 50, 192, 18, 18, 720)

    def put(offset, width, value):
        buf[offset : offset + width] = str(value).rjust(width).encode("ascii")

    put(180, 6, n_records)
    put(186, 6, record_length)
    put(236, 8, n_records)
    put(248, 8, groups)
    put(268, 4, "BSQ")
    put(428, 4, type_code)
    for offset, width, value in extra:
        put(offset, width, value)
    return bytes(buf)


def make_record(kind, seq, record_length, *, record_type=None):
    prefix = {10: 544, 11: 192}[kind]
    buf = bytearray(record_length)
    rtype = kind if record_type is None else record_type
    buf[0:12] = struct.pack(">IBBBBI", seq + 1, 50, rtype, 18, 20, record_length)
    buf[12:16] = struct.pack(">I", seq + 1)
    buf[16:20] = struct.pack(">I", 1)
    buf[36:48] = struct.pack(">III", 2020, 100 + seq, 1000 * seq + 7)
    buf[48:56] = struct.pack(">HHHH", 2, 0, 0, 1)
    buf[56:60] = struct.pack(">I", 2000000 + seq)
    buf[60:64] = struct.pack(">I", 3)
    if kind == 10:
        buf[84:92] = struct.pack(">Q", 123456 * (seq + 1))
        for i in range(prefix, record_length, 4):
            buf[i : i + 4] = struct.pack(">f", float(seq * 100 + i))
    else:
        buf[64:76] = struct.pack(">III", 800000, 850000 + seq, 900000)
        for i in range(prefix, record_length):
            buf[i] = (seq * 31 + i) % 251
    return bytes(buf)


def make_file(kind, n_records, n_groups, *, type_code=None, bad_type_at=None, extra=()):
    if kind == 11:
        record_length = 192 + 2 * n_groups
        code = "IU2"
    else:
        record_length = 544 + 8 * n_groups
        code = "C*8"
    header = make_header(
        n_records,
        record_length,
        type_code=code if type_code is None else type_code,
        groups=n_groups,
        extra=extra,
    )
    return header + b"".join(
        make_record(kind, seq, record_length, record_type=(77 if seq == bad_type_at else None))
        for seq in range(n_records)
    )


# --------------------------------------------------------------------------------------
# recording wrappers

events = []
state = {}


class LoggedDirFileSystem(dirfs.DirFileSystem):
    def __init__(self, *args, **kwargs):
        events.append(("DirFileSystem", args, sorted(kwargs), kwargs.get("path")))
        super().__init__(*args, **kwargs)

    def open(self, path, *args, **kwargs):
        events.append(("fs.open", path, args, kwargs))
        f = LoggedFile(super().open(path, *args, **kwargs))
        state["file"] = f
        return f


class LoggedFile:
    """the memory file system never closes its files: track the `with` block instead"""

    def __init__(self, f):
        self._f = f
        self.status = "returned"

    def __enter__(self):
        self.status = "entered"
        events.append(("file.__enter__",))
        self._f.__enter__()
        return self

    def __exit__(self, exc_type, exc, tb):
        self.status = "exited"
        events.append(("file.__exit__", None if exc_type is None else exc_type.__qualname__))
        return self._f.__exit__(exc_type, exc, tb)

    def read(self, *args, **kwargs):
        data = self._f.read(*args, **kwargs)
        events.append(("file.read", args, kwargs, len(data)))
        return data

    def seek(self, *args, **kwargs):
        events.append(("file.seek", args, kwargs))
        return self._f.seek(*args, **kwargs)

    def tell(self):
        return self._f.tell()


_orig = {
    "read_metadata": sar_image.read_metadata,
    "transform_metadata": sar_image.transform_metadata,
    "filename_to_groupname": sar_image.filename_to_groupname,
    "decode_filename": sar_image.decode_filename,
    "Array": sar_image.Array,
    "Variable": sar_image.Variable,
    "read_cache": caching.read_cache,
    "create_cache": caching.create_cache,
    "DirFileSystem": dirfs.DirFileSystem,
    "cache_root": caching.path.cache_root,
}


_pristine = dict(_orig)


def file_state():
    f = state.get("file")
    return None if f is None else f.status


def logged(name, describe):
    func = _orig[name]

    def wrapper(*args, **kwargs):
        events.append((name, describe(*args, **kwargs), file_state()))
        try:
            result = func(*args, **kwargs)
        except Exception as e:  # noqa: BLE001
            events.append((f"{name} raised", type(e).__qualname__))
            raise
        events.append((f"{name} returned", type(result).__qualname__))
        return result

    return wrapper


def install():
    sar_image.read_metadata = logged(
        "read_metadata", lambda *a, **k: (len(a), [canon_small(x) for x in a[1:]], sorted(k.items()))
    )
    sar_image.transform_metadata = logged(
        "transform_metadata", lambda *a, **k: (len(a), [type(x).__name__ for x in a], sorted(k))
    )
    sar_image.filename_to_groupname = logged("filename_to_groupname", lambda *a, **k: (a, k))
    sar_image.decode_filename = logged("decode_filename", lambda *a, **k: (a, k))
    sar_image.Array = logged(
        "Array", lambda *a, **k: (len(a), list(k), canon_small(k.get("records_per_chunk")))
    )
    sar_image.Variable = logged(
        "Variable", lambda *a, **k: (len(a), list(k), k.get("dims"), k.get("attrs"))
    )
    caching.read_cache = logged(
        "read_cache", lambda *a, **k: (len(a), [canon_small(x) for x in a[1:]], sorted(k.items(), key=str))
    )
    caching.create_cache = logged(
        "create_cache", lambda *a, **k: (len(a), [canon_small(x) for x in a[1:]], sorted(k))
    )
    dirfs.DirFileSystem = LoggedDirFileSystem


def uninstall():
    for name in ("read_metadata", "transform_metadata", "filename_to_groupname", "decode_filename", "Array", "Variable"):
        setattr(sar_image, name, _orig[name])
    caching.read_cache = _orig["read_cache"]
    caching.create_cache = _orig["create_cache"]
    dirfs.DirFileSystem = _orig["DirFileSystem"]


def canon_small(obj):
    if isinstance(obj, Group):
        return f"Group(path={obj.path!r})"
    return f"{type(obj).__name__}:{obj!r}"


def fs_name(fs):
    return "DirFileSystem" if isinstance(fs, _pristine["DirFileSystem"]) else type(fs).__name__


def canon(obj):
    if isinstance(obj, Group):
        return (
            f"Group(path={canon(obj.path)}, url={canon(obj.url)}, data={canon(obj.data)},"
            f" attrs={canon(obj.attrs)})"
        )
    if isinstance(obj, Variable):
        return f"Variable(dims={canon(obj.dims)}, data={canon(obj.data)}, attrs={canon(obj.attrs)})"
    if isinstance(obj, Array):
        return (
            f"Array(fs={fs_name(obj.fs)}[{obj.fs.path!r},"
            f" {type(obj.fs.fs).__name__}], url={canon(obj.url)},"
            f" byte_ranges={canon(obj.byte_ranges)}, shape={canon(obj.shape)},"
            f" dtype={canon(obj.dtype)}, type_code={canon(obj.type_code)},"
            f" records_per_chunk={canon(obj.records_per_chunk)},"
            f" chunk_offsets={canon(obj.chunk_offsets)})"
        )
    if isinstance(obj, np.ndarray):
        return f"ndarray[{obj.dtype}, {obj.shape}]{obj.tolist()!r}"
    if isinstance(obj, dict):
        items = ", ".join(f"{canon(k)}: {canon(v)}" for k, v in obj.items())
        return f"{type(obj).__name__}{{{items}}}"
    if isinstance(obj, (list, tuple)):
        items = ", ".join(canon(v) for v in obj)
        return f"{type(obj).__name__}[{items}]"
    return f"{type(obj).__module__}.{type(obj).__qualname__}:{obj!r}"


def cache_listing(cache_dir):
    return sorted(
        (str(p.relative_to(cache_dir)), hashlib.sha256(p.read_bytes()).hexdigest()[:16])
        for p in cache_dir.rglob("*")
        if p.is_file()
    )


def run(cache_dir, mapper, path, *args, load=True, **kwargs):
    events.clear()
    state.clear()
    install()
    try:
        try:
            group = sar_image.open_image(mapper, path, *args, **kwargs)
            text = "ok " + canon(group) + f" name={group.name!r}"
        except Exception as e:  # noqa: BLE001
            group = None
            text = f"raised {type(e).__module__}.{type(e).__qualname__}: {e}"
        log = list(events)
        final_file_state = file_state()
    finally:
        uninstall()
    if group is not None and load and "data" in group.data:
        try:
            values = group["data"].data[(slice(None), slice(None))]
            text += " values=" + canon(values)
        except Exception as e:  # noqa: BLE001
            text += f" values raised {type(e).__qualname__}: {e}"
    remote = sorted(k for k in mapper or () if k.endswith(".index"))
    return (
        f"{text} || events={log!r} || file={final_file_state}"
        f" || cache={cache_listing(cache_dir)} || remote={remote}"
    )


NAMES = {
    "hh-scan": "IMG-HH-ALOS2225333100-180726-WWDR1.1__D-B3",
    "hv": "IMG-HV-ALOS2290760600-191011-WWDR1.5RUA",
    "vv-f": "IMG-VV-ALOS2225333100-180726-WWDR1.1__D-F1",
    "nopol": "IMG-ALOS2290760600-191011-WWDR1.5RUA",
    "nopol-scan": "IMG-ALOS2225333100-180726-WWDR1.1__D-B5",
    "invalid": "image.bin",
    "subdir": "sub/IMG-HH-ALOS2225333100-180726-WWDR1.1__D-B3",
}


def open_image_cases(out):
    cache_dir = pathlib.Path(tempfile.mkdtemp(prefix="eq4-cache-"))
    caching.path.cache_root = cache_dir
    fs = fsspec.filesystem("memory")
    try:
        if fs.exists("/eq4root"):
            fs.rm("/eq4root", recursive=True)
        mapper = fsspec.get_mapper(ROOT)
        mapper[NAMES["hh-scan"]] = make_file(
            11, 5, 4, extra=[(440, 8, 255), (448, 4, 2), (452, 4, 3), (456, 4, 1)]
        )
        mapper[NAMES["hv"]] = make_file(11, 3, 6)
        mapper[NAMES["vv-f"]] = make_file(10, 4, 3)
        mapper[NAMES["nopol"]] = make_file(11, 1, 2)
        mapper[NAMES["nopol-scan"]] = make_file(11, 0, 2)
        mapper[NAMES["invalid"]] = make_file(11, 2, 2)
        mapper[NAMES["subdir"]] = make_file(11, 2, 3)
        mapper["IMG-HH-ALOS2225333100-180726-WWDR1.1__D-B1"] = make_file(11, 2, 2, type_code="F*4")
        mapper["IMG-HH-ALOS2225333100-180726-WWDR1.1__D-B2"] = make_file(11, 4, 2, bad_type_at=2)
        mapper["IMG-HH-ALOS2225333100-180726-WWDR1.1__D-B4"] = make_file(11, 4, 2)[:1000]
        mapper["IMG-HH-ALOS2225333100-180726-WWDR1.1__D-B6"] = b""

        def step(label, path, *args, **kwargs):
            out[label] = run(cache_dir, mapper, path, *args, **kwargs)

        # plain reads, no caching involved
        for key, name in NAMES.items():
            for rpc in (1, 2, 1024):
                step(f"nocache-{key}-rpc{rpc}", name, use_cache=False, records_per_chunk=rpc)
        step("nocache-default-rpc", NAMES["hv"], use_cache=False)
        step("nocache-none-rpc", NAMES["hv"], use_cache=False, records_per_chunk=None)
        step("nocache-str-rpc", NAMES["hv"], use_cache=False, records_per_chunk="auto")
        step("nocache-zero-rpc", NAMES["hv"], use_cache=False, records_per_chunk=0)
        step("nocache-negative-rpc", NAMES["hv"], use_cache=False, records_per_chunk=-1)
        step("nocache-float-rpc", NAMES["hv"], use_cache=False, records_per_chunk=2.0)
        for index in (1, 2, 4, 6):
            step(
                f"broken-B{index}",
                f"IMG-HH-ALOS2225333100-180726-WWDR1.1__D-B{index}",
                use_cache=False,
                records_per_chunk=2,
            )
            step(
                f"broken-B{index}-create",
                f"IMG-HH-ALOS2225333100-180726-WWDR1.1__D-B{index}",
                use_cache=True,
                create_cache=True,
                records_per_chunk=2,
            )
        step("missing", "IMG-HH-ALOS2225333100-180726-WWDR1.1__D-B9", use_cache=False, records_per_chunk=2)
        step("missing-cache", "IMG-HH-ALOS2225333100-180726-WWDR1.1__D-B9", records_per_chunk=2)
        step("positional-flags", NAMES["hv"], False)
        step("no-path", None, use_cache=False, records_per_chunk=2)

        # cache protocol: miss, create, hit (local), hit (remote), broken cache files
        step("cache-miss-default", NAMES["hh-scan"], records_per_chunk=2)
        step("cache-miss-explicit", NAMES["hh-scan"], use_cache=True, create_cache=False, records_per_chunk=2)
        step("cache-create", NAMES["hh-scan"], use_cache=True, create_cache=True, records_per_chunk=2)
        step("cache-hit", NAMES["hh-scan"], use_cache=True, records_per_chunk=2)
        step("cache-hit-other-rpc", NAMES["hh-scan"], use_cache=True, records_per_chunk=1024)
        step("cache-hit-none-rpc", NAMES["hh-scan"], use_cache=True)
        step("cache-hit-create-again", NAMES["hh-scan"], use_cache=True, create_cache=True, records_per_chunk=3)
        step("cache-ignored", NAMES["hh-scan"], use_cache=False, records_per_chunk=2)
        step("cache-ignored-recreate", NAMES["hh-scan"], use_cache=False, create_cache=True, records_per_chunk=1)
        step("cache-create-signal", NAMES["vv-f"], use_cache=False, create_cache=True, records_per_chunk=3)
        step("cache-hit-signal", NAMES["vv-f"], records_per_chunk=3)
        step("cache-create-subdir", NAMES["subdir"], create_cache=True, records_per_chunk=3)
        step("cache-hit-subdir", NAMES["subdir"], records_per_chunk=3)
        step("cache-create-invalid-name", NAMES["invalid"], create_cache=True, records_per_chunk=3)
        step("cache-create-empty", NAMES["nopol-scan"], create_cache=True, records_per_chunk=3)
        step("cache-hit-empty", NAMES["nopol-scan"], records_per_chunk=3)

        # remote cache: move the local file into the store
        local = caching.path.local_cache_location(mapper.root, NAMES["hh-scan"])
        mapper[NAMES["hh-scan"] + ".index"] = local.read_bytes()
        local.unlink()
        step("remote-hit", NAMES["hh-scan"], records_per_chunk=2)
        step("remote-hit-create", NAMES["hh-scan"], create_cache=True, records_per_chunk=2)
        step("remote-ignored", NAMES["hh-scan"], use_cache=False, records_per_chunk=2)

        # broken caches
        mapper[NAMES["hv"] + ".index"] = b"{ not json"
        step("remote-broken", NAMES["hv"], records_per_chunk=2)
        step("remote-broken-create", NAMES["hv"], create_cache=True, records_per_chunk=2)
        step("remote-broken-shadowed", NAMES["hv"], records_per_chunk=2)
        mapper[NAMES["nopol"] + ".index"] = b"{}"
        step("remote-incomplete", NAMES["nopol"], records_per_chunk=2)
        mapper[NAMES["nopol"] + ".index"] = b"[1, 2]"
        step("remote-wrong-shape", NAMES["nopol"], records_per_chunk=2)
        mapper[NAMES["nopol"] + ".index"] = b"\xff\xfe"
        step("remote-undecodable", NAMES["nopol"], records_per_chunk=2)
        local = caching.path.local_cache_location(mapper.root, NAMES["vv-f"])
        local.write_text("")
        step("local-empty", NAMES["vv-f"], records_per_chunk=2)
        step("local-empty-create", NAMES["vv-f"], create_cache=True, records_per_chunk=2)
        step("local-recreated", NAMES["vv-f"], records_per_chunk=2)

        # replaced cache functions
        def failing_read_cache(mapper, path, records_per_chunk):
            raise caching.CachingError("nothing here")

        def file_not_found(mapper, path, records_per_chunk):
            raise FileNotFoundError("plain")

        class Sub(caching.CachingError):
            pass

        def sub_error(mapper, path, records_per_chunk):
            raise Sub("sub")

        def returns_none(mapper, path, records_per_chunk):
            return None

        def returns_marker(mapper, path, records_per_chunk):
            return ("marker", path, records_per_chunk)

        def failing_create_cache(mapper, path, data):
            raise OSError("read-only")

        for label, replacement in (
            ("caching-error", failing_read_cache),
            ("file-not-found", file_not_found),
            ("sub-error", sub_error),
            ("returns-none", returns_none),
            ("returns-marker", returns_marker),
        ):
            _orig["read_cache"] = replacement
            try:
                step(f"replaced-{label}", NAMES["nopol"], records_per_chunk=2)
                step(f"replaced-{label}-off", NAMES["nopol"], use_cache=False, records_per_chunk=2)
            finally:
                _orig["read_cache"] = _pristine["read_cache"]
        _orig["create_cache"] = failing_create_cache
        try:
            step("replaced-create", NAMES["nopol"], use_cache=False, create_cache=True, records_per_chunk=2)
            step("replaced-create-off", NAMES["nopol"], use_cache=False, records_per_chunk=2)
        finally:
            _orig["create_cache"] = _pristine["create_cache"]

        # other mapper roots
        nested = fsspec.get_mapper(ROOT + "/sub")
        out["nested-root"] = run(
            cache_dir, nested, "IMG-HH-ALOS2225333100-180726-WWDR1.1__D-B3", use_cache=False, records_per_chunk=2
        )
        out["nested-root-cache"] = run(
            cache_dir, nested, "IMG-HH-ALOS2225333100-180726-WWDR1.1__D-B3", create_cache=True, records_per_chunk=2
        )
        out["mapper-none"] = run(cache_dir, None, NAMES["hv"], use_cache=False, records_per_chunk=2)
        out["mapper-none-cache"] = run(cache_dir, None, NAMES["hv"], records_per_chunk=2)
    finally:
        caching.path.cache_root = _orig["cache_root"]
        shutil.rmtree(cache_dir, ignore_errors=True)
        if fs.exists("/eq4root"):
            fs.rm("/eq4root", recursive=True)


def groupname_cases(out):
    names = [
        "IMG-HH-ALOS2225333100-180726-WWDR1.1__D-B3",
        "IMG-HV-ALOS2290760600-191011-WWDR1.5RUA",
        "IMG-VH-ALOS2225333100-180726-WWDR1.1__D-F0",
        "IMG-VV-ALOS2225333100-180726-WWDR1.1__D-B9",
        "IMG-ALOS2290760600-191011-WWDR1.5RUA",
        "IMG-ALOS2225333100-180726-WWDR1.1__D-B5",
        "LED-ALOS2290760600-191011-WWDR1.5RUA",
        "VOL-ALOS2290760600-191011-WWDR1.5RUA",
        "TRL-HH-ALOS2290760600-191011-FBDR1.1__A",
        "IMG-HH-ALOS2290760600-191011-XXXR1.5RUA",
        "IMG-HH-ALOS2290760600-191011-WWDR1.5RUA-B",
        "IMG-HH-ALOS2290760600-191011-WWDR1.5RUA-X3",
        "IMG-HH-ALOS2290760600-191311-WWDR1.5RUA",
        "IMG-HX-ALOS2290760600-191011-WWDR1.5RUA",
        "IMG-HHH-ALOS2290760600-191011-WWDR1.5RUA",
        "IMG-HH-ALOS2290760600-191011-WWDR1.5RUA ",
        "sub/IMG-HH-ALOS2225333100-180726-WWDR1.1__D-B3",
        "img-hh-alos2290760600-191011-wwdr1.5rua",
        "",
        "summary.txt",
    ]
    for index, name in enumerate(names):
        out[f"groupname-{index}"] = outcome(sar_image.filename_to_groupname, name)
    out["groupname-kw"] = outcome(sar_image.filename_to_groupname, path=names[0])
    for index, bad in enumerate((None, 1, b"IMG-HV-ALOS2290760600-191011-WWDR1.5RUA", ["a"])):
        out[f"groupname-bad-{index}"] = outcome(sar_image.filename_to_groupname, bad)

    # replaced decoder: arbitrary info mappings
    infos = [
        {},
        {"polarization": "HH"},
        {"polarization": None, "scan_number": "3"},
        {"polarization": "", "scan_number": ""},
        {"polarization": "HV", "scan_number": None},
        {"polarization": "HV", "scan_number": 0},
        {"scan_number": 7},
        {"scan_number": "1", "polarization": "VV", "other": 1},
        {"polarization": 5, "scan_number": 1},
        {"polarization": ["HH"], "scan_number": 1},
        {"polarization": 0, "scan_number": 1},
        {"polarization": b"HH"},
        None,
        [("polarization", "HH")],
        "polarization",
    ]
    for index, info in enumerate(infos):
        sar_image.decode_filename = lambda path, info=info: info
        try:
            out[f"groupname-info-{index}"] = outcome(sar_image.filename_to_groupname, "x")
        finally:
            sar_image.decode_filename = _orig["decode_filename"]


def outcome(func, *args, **kwargs):
    try:
        result = func(*args, **kwargs)
        return f"ok {type(result).__name__}:{result!r}"
    except Exception as e:  # noqa: BLE001
        return f"raised {type(e).__module__}.{type(e).__qualname__}: {e}"


def cases():
    out = {}
    groupname_cases(out)
    open_image_cases(out)
    return out


def digest(text):
    if len(text) <= 600:
        return text
    return f"sha256:{hashlib.sha256(text.encode()).hexdigest()} len={len(text)}"


# EXPECTED-BEGIN
EXPECTED = {'groupname-0': "ok str:'HH_scan3'",
 'groupname-1': "ok str:'HV'",
 'groupname-2': "ok str:'VH_scan0'",
 'groupname-3': "ok str:'VV_scan9'",
 'groupname-4': "ok str:''",
 'groupname-5': "ok str:'scan5'",
 'groupname-6': "ok str:''",
 'groupname-7': "ok str:''",
 'groupname-8': "ok str:'HH'",
 'groupname-9': 'raised builtins.ValueError: invalid product id: XXXR1.5RUA',
 'groupname-10': 'raised builtins.ValueError: invalid file name: '
                 'IMG-HH-ALOS2290760600-191011-WWDR1.5RUA-B',
 'groupname-11': 'raised builtins.ValueError: invalid file name: '
                 'IMG-HH-ALOS2290760600-191011-WWDR1.5RUA-X3',
 'groupname-12': 'raised builtins.ValueError: invalid scene id: ALOS2290760600-191311',
 'groupname-13': 'raised builtins.ValueError: invalid file name: '
                 'IMG-HX-ALOS2290760600-191011-WWDR1.5RUA',
 'groupname-14': 'raised builtins.ValueError: invalid file name: '
                 'IMG-HHH-ALOS2290760600-191011-WWDR1.5RUA',
 'groupname-15': 'raised builtins.ValueError: invalid file name: '
                 'IMG-HH-ALOS2290760600-191011-WWDR1.5RUA ',
 'groupname-16': 'raised builtins.ValueError: invalid file name: '
                 'sub/IMG-HH-ALOS2225333100-180726-WWDR1.1__D-B3',
 'groupname-17': 'raised builtins.ValueError: invalid file name: '
                 'img-hh-alos2290760600-191011-wwdr1.5rua',
 'groupname-18': 'raised builtins.ValueError: invalid file name: ',
 'groupname-19': 'raised builtins.ValueError: invalid file name: summary.txt',
 'groupname-kw': "ok str:'HH_scan3'",
 'groupname-bad-0': 'raised builtins.TypeError: expected string or bytes-like object, got '
                    "'NoneType'",
 'groupname-bad-1': "raised builtins.TypeError: expected string or bytes-like object, got 'int'",
 'groupname-bad-2': 'raised builtins.TypeError: cannot use a string pattern on a bytes-like object',
 'groupname-bad-3': "raised builtins.TypeError: expected string or bytes-like object, got 'list'",
 'groupname-info-0': "ok str:''",
 'groupname-info-1': "ok str:'HH'",
 'groupname-info-2': "ok str:'scan3'",
 'groupname-info-3': "ok str:'scan'",
 'groupname-info-4': "ok str:'HV_scanNone'",
 'groupname-info-5': "ok str:'HV_scan0'",
 'groupname-info-6': "ok str:'scan7'",
 'groupname-info-7': "ok str:'VV_scan1'",
 'groupname-info-8': 'raised builtins.TypeError: sequence item 0: expected str instance, int found',
 'groupname-info-9': 'raised builtins.TypeError: sequence item 0: expected str instance, list '
                     'found',
 'groupname-info-10': "ok str:'scan1'",
 'groupname-info-11': 'raised builtins.TypeError: sequence item 0: expected str instance, bytes '
                      'found',
 'groupname-info-12': "raised builtins.TypeError: argument of type 'NoneType' is not iterable",
 'groupname-info-13': "raised builtins.AttributeError: 'list' object has no attribute 'get'",
 'groupname-info-14': "raised builtins.AttributeError: 'str' object has no attribute 'get'",
 'nocache-hh-scan-rpc1': 'sha256:292f973dc2753262676324528d9edc44281ab9982cbc7665f5dea9fc258646cc '
                         'len=10363',
 'nocache-hh-scan-rpc2': 'sha256:e5f33cd5b35d0320cde7da55719b8ae713d4b0d41ff4015f3951b47199a31d6c '
                         'len=10050',
 'nocache-hh-scan-rpc1024': 'sha256:de7203c9677cb7ee9eb186fa09fabe4e50cc85cb9c886e311c0b17fbb9141997 '
                            'len=9790',
 'nocache-hv-rpc1': 'sha256:3db996712114afafaea3aa4377bcef1e03829e27a7b98d431213e9bfcb670399 '
                    'len=8714',
 'nocache-hv-rpc2': 'sha256:2c1153cfbd4a3bf637a3a9bc9de180c593e74a755aca4e7e82f82ea026a06a81 '
                    'len=8581',
 'nocache-hv-rpc1024': 'sha256:474177ba00e46d99f5b3b369b1abbbbf04ac01fe20d4edc932b60048fe888535 '
                       'len=8453',
 'nocache-vv-f-rpc1': 'sha256:4aab0c699858eeab281147dbc820d0f556ca180d2711dd2e56474ab9afee6d23 '
                      'len=15252',
 'nocache-vv-f-rpc2': 'sha256:3cf4b64f3c7213c3471f5c4151ff1c54e87e7902b3ddbb97687522c3cb47eaca '
                      'len=14990',
 'nocache-vv-f-rpc1024': 'sha256:9a7fb310eedf70ebf0de27ff0294b7cd8aacde29ceb9ccdbc445894cfaa2581c '
                         'len=14860',
 'nocache-nopol-rpc1': 'sha256:91f67d95cf33c7c31ef29f147a812f514cadc70219a85313e73fc7dfec900ab1 '
                       'len=7282',
 'nocache-nopol-rpc2': 'sha256:877803e3928194cb4e4aad8bca0fbcbe15393a291033423b616bb1eea6475be6 '
                       'len=7282',
 'nocache-nopol-rpc1024': 'sha256:121469337065200ed792038d1749f8460bcd4c70ea917af37ec0fb787c7ab682 '
                          'len=7288',
 'nocache-nopol-scan-rpc1': 'sha256:7d58d9290af51579c756c03cfdd4bb67431e7dcb4b2c04d202d02b7a9114b611 '
                            'len=1532',
 'nocache-nopol-scan-rpc2': 'sha256:5d08c5b9cf1c2b5183511adde79143a5cff0e50f9b382088f20d40f8e125092f '
                            'len=1532',
 'nocache-nopol-scan-rpc1024': 'sha256:95c396608fd68b8b9b52090de943bd2cc1ecfb98eb44c3fae27a42afc8f6fb6e '
                               'len=1538',
 'nocache-invalid-rpc1': 'sha256:5d09cf06739d400fd5fb490186ce326ef31cb7d05f072f9b14ae2d8a82c22f30 '
                         'len=950',
 'nocache-invalid-rpc2': 'sha256:4a798c9e13fc78c8c81faf2ae1fbb0a72982a48024d36c400a401b68422fbe20 '
                         'len=918',
 'nocache-invalid-rpc1024': 'sha256:48ce4cf0851347066bbfbab868e8ef8b1492b70046722012a51e630d906de7ff '
                            'len=924',
 'nocache-subdir-rpc1': 'sha256:532ca6af90cbc28cfd910b6037beacb00bed5767e94abae323fa87e063e055eb '
                        'len=1098',
 'nocache-subdir-rpc2': 'sha256:dade9413931abb507d6d325fd2e3733d051a976228bb62f9aa6bf7a74347964f '
                        'len=1066',
 'nocache-subdir-rpc1024': 'sha256:f99b26301dec04d0fb55b26bec5c624bfd98f27c2bd78754439752182a94d588 '
                           'len=1072',
 'nocache-default-rpc': "raised builtins.TypeError: unsupported operand type(s) for /: 'int' and "
                        "'NoneType' || events=[('fs.open', "
                        "'IMG-HV-ALOS2290760600-191011-WWDR1.5RUA', (), {'mode': 'rb'}), "
                        "('file.__enter__',), ('read_metadata', (2, ['NoneType:None'], []), "
                        "'entered'), ('file.read', (720,), {}, 720), ('read_metadata raised', "
                        "'TypeError'), ('file.__exit__', 'TypeError')] || file=exited || cache=[] "
                        '|| remote=[]',
 'nocache-none-rpc': "raised builtins.TypeError: unsupported operand type(s) for /: 'int' and "
                     "'NoneType' || events=[('fs.open', 'IMG-HV-ALOS2290760600-191011-WWDR1.5RUA', "
                     "(), {'mode': 'rb'}), ('file.__enter__',), ('read_metadata', (2, "
                     "['NoneType:None'], []), 'entered'), ('file.read', (720,), {}, 720), "
                     "('read_metadata raised', 'TypeError'), ('file.__exit__', 'TypeError')] || "
                     'file=exited || cache=[] || remote=[]',
 'nocache-str-rpc': "raised builtins.TypeError: unsupported operand type(s) for /: 'int' and 'str' "
                    "|| events=[('fs.open', 'IMG-HV-ALOS2290760600-191011-WWDR1.5RUA', (), "
                    "{'mode': 'rb'}), ('file.__enter__',), ('read_metadata', (2, "
                    '["str:\'auto\'"], []), \'entered\'), (\'file.read\', (720,), {}, 720), '
                    "('read_metadata raised', 'TypeError'), ('file.__exit__', 'TypeError')] || "
                    'file=exited || cache=[] || remote=[]',
 'nocache-zero-rpc': "raised builtins.ZeroDivisionError: division by zero || events=[('fs.open', "
                     "'IMG-HV-ALOS2290760600-191011-WWDR1.5RUA', (), {'mode': 'rb'}), "
                     "('file.__enter__',), ('read_metadata', (2, ['int:0'], []), 'entered'), "
                     "('file.read', (720,), {}, 720), ('read_metadata raised', "
                     "'ZeroDivisionError'), ('file.__exit__', 'ZeroDivisionError')] || file=exited "
                     '|| cache=[] || remote=[]',
 'nocache-negative-rpc': 'sha256:7671a29b3e84c6e53a489075f5f9322c6ce5782264065e5ec38b77cba200f274 '
                         'len=1528',
 'nocache-float-rpc': "raised builtins.TypeError: argument should be integer or None, not 'float' "
                      "|| events=[('fs.open', 'IMG-HV-ALOS2290760600-191011-WWDR1.5RUA', (), "
                      "{'mode': 'rb'}), ('file.__enter__',), ('read_metadata', (2, ['float:2.0'], "
                      "[]), 'entered'), ('file.read', (720,), {}, 720), ('read_metadata raised', "
                      "'TypeError'), ('file.__exit__', 'TypeError')] || file=exited || cache=[] || "
                      'remote=[]',
 'broken-B1': "raised builtins.ValueError: unknown type code: F*4 || events=[('fs.open', "
              "'IMG-HH-ALOS2225333100-180726-WWDR1.1__D-B1', (), {'mode': 'rb'}), "
              "('file.__enter__',), ('read_metadata', (2, ['int:2'], []), 'entered'), "
              "('file.read', (720,), {}, 720), ('file.read', (392,), {}, 392), ('read_metadata "
              "returned', 'tuple'), ('transform_metadata', (2, ['dict', 'list'], []), 'entered'), "
              "('transform_metadata raised', 'ValueError'), ('file.__exit__', 'ValueError')] || "
              'file=exited || cache=[] || remote=[]',
 'broken-B1-create': 'sha256:ba5beafe87f49f4ab106cddd0935f354e9ab4466641de0e90b4d2ad05cc3e9fd '
                     'len=640',
 'broken-B2': "raised builtins.ValueError: unknown record type code: 77 || events=[('fs.open', "
              "'IMG-HH-ALOS2225333100-180726-WWDR1.1__D-B2', (), {'mode': 'rb'}), "
              "('file.__enter__',), ('read_metadata', (2, ['int:2'], []), 'entered'), "
              "('file.read', (720,), {}, 720), ('file.read', (392,), {}, 392), ('file.read', "
              "(392,), {}, 392), ('read_metadata raised', 'ValueError'), ('file.__exit__', "
              "'ValueError')] || file=exited || cache=[] || remote=[]",
 'broken-B2-create': 'raised builtins.ValueError: unknown record type code: 77 || '
                     "events=[('read_cache', (2, "
                     '["str:\'IMG-HH-ALOS2225333100-180726-WWDR1.1__D-B2\'"], '
                     "[('records_per_chunk', 2)]), None), ('read_cache raised', 'CachingError'), "
                     "('fs.open', 'IMG-HH-ALOS2225333100-180726-WWDR1.1__D-B2', (), {'mode': "
                     "'rb'}), ('file.__enter__',), ('read_metadata', (2, ['int:2'], []), "
                     "'entered'), ('file.read', (720,), {}, 720), ('file.read', (392,), {}, 392), "
                     "('file.read', (392,), {}, 392), ('read_metadata raised', 'ValueError'), "
                     "('file.__exit__', 'ValueError')] || file=exited || cache=[] || remote=[]",
 'broken-B4': 'raised builtins.ValueError: sizes mismatch: chunksize is 196 but got 280 bytes || '
              "events=[('fs.open', 'IMG-HH-ALOS2225333100-180726-WWDR1.1__D-B4', (), {'mode': "
              "'rb'}), ('file.__enter__',), ('read_metadata', (2, ['int:2'], []), 'entered'), "
              "('file.read', (720,), {}, 720), ('file.read', (392,), {}, 280), ('read_metadata "
              "raised', 'ValueError'), ('file.__exit__', 'ValueError')] || file=exited || cache=[] "
              '|| remote=[]',
 'broken-B4-create': 'raised builtins.ValueError: sizes mismatch: chunksize is 196 but got 280 '
                     "bytes || events=[('read_cache', (2, "
                     '["str:\'IMG-HH-ALOS2225333100-180726-WWDR1.1__D-B4\'"], '
                     "[('records_per_chunk', 2)]), None), ('read_cache raised', 'CachingError'), "
                     "('fs.open', 'IMG-HH-ALOS2225333100-180726-WWDR1.1__D-B4', (), {'mode': "
                     "'rb'}), ('file.__enter__',), ('read_metadata', (2, ['int:2'], []), "
                     "'entered'), ('file.read', (720,), {}, 720), ('file.read', (392,), {}, 280), "
                     "('read_metadata raised', 'ValueError'), ('file.__exit__', 'ValueError')] || "
                     'file=exited || cache=[] || remote=[]',
 'broken-B6': 'raised construct.core.StreamError: Error in path (parsing) -> preamble -> '
              'record_sequence_number\n'
              "stream read less than specified amount, expected 4, found 0 || events=[('fs.open', "
              "'IMG-HH-ALOS2225333100-180726-WWDR1.1__D-B6', (), {'mode': 'rb'}), "
              "('file.__enter__',), ('read_metadata', (2, ['int:2'], []), 'entered'), "
              "('file.read', (720,), {}, 0), ('read_metadata raised', 'StreamError'), "
              "('file.__exit__', 'StreamError')] || file=exited || cache=[] || remote=[]",
 'broken-B6-create': 'sha256:05241acc7b0986c0012256898e896b8720933837af5344d5c38f0fe5d969f46b '
                     'len=610',
 'missing': 'raised builtins.FileNotFoundError: '
            "/eq4root/IMG-HH-ALOS2225333100-180726-WWDR1.1__D-B9 || events=[('fs.open', "
            "'IMG-HH-ALOS2225333100-180726-WWDR1.1__D-B9', (), {'mode': 'rb'})] || file=None || "
            'cache=[] || remote=[]',
 'missing-cache': 'raised builtins.FileNotFoundError: '
                  "/eq4root/IMG-HH-ALOS2225333100-180726-WWDR1.1__D-B9 || events=[('read_cache', "
                  '(2, ["str:\'IMG-HH-ALOS2225333100-180726-WWDR1.1__D-B9\'"], '
                  "[('records_per_chunk', 2)]), None), ('read_cache raised', 'CachingError'), "
                  "('fs.open', 'IMG-HH-ALOS2225333100-180726-WWDR1.1__D-B9', (), {'mode': 'rb'})] "
                  '|| file=None || cache=[] || remote=[]',
 'positional-flags': 'raised builtins.TypeError: open_image() takes 2 positional arguments but 3 '
                     'were given || events=[] || file=None || cache=[] || remote=[]',
 'no-path': "raised builtins.TypeError: 'NoneType' object is not iterable || events=[('fs.open', "
            "None, (), {'mode': 'rb'})] || file=None || cache=[] || remote=[]",
 'cache-miss-default': 'sha256:c54a58e1f490ab9639813aa6dffb12cd200f1b6c4e1b889492bb33a726feb9f4 '
                       'len=10198',
 'cache-miss-explicit': 'sha256:c54a58e1f490ab9639813aa6dffb12cd200f1b6c4e1b889492bb33a726feb9f4 '
                        'len=10198',
 'cache-create': 'sha256:78357bb31c2efd63d641664a53668736db095b9dacf93535f123daeec8f8fc4b '
                 'len=10491',
 'cache-hit': 'sha256:a145f1ba8b2531aadc8d469a4e51ce310b5a755fcb86debf2131de5a23b9c2d9 len=8092',
 'cache-hit-other-rpc': 'sha256:4f6f35dfa0e6def26a129f273df77a4af77f1620587c63ed5339727047dd6215 '
                        'len=7840',
 'cache-hit-none-rpc': 'sha256:6e919687518a5da585d188392c58aa989317fb78503159890ee4eedf4b1122f8 '
                       'len=7843',
 'cache-hit-create-again': 'sha256:00ee4d47b2ee95cea3865d5e7a447b22b384a2654b2e7bf8b78b7a370bdf0f3c '
                           'len=7940',
 'cache-ignored': 'sha256:b8b84a783240ad707135f1cb9d3ebca2924f062a049c5fc96293b3068db1aa6d '
                  'len=10187',
 'cache-ignored-recreate': 'sha256:9a9d11e1ccce2a0db760db5780a3e26687f7c88dca9ae755bf83523565309735 '
                           'len=10605',
 'cache-create-signal': 'sha256:8b95e0aa41063c9087c9bf691ac246db452226b381c60890b4a12946ce030fde '
                        'len=15420',
 'cache-hit-signal': 'sha256:41b6c6b1aa5b11bfdbf034f2dc9274359889b090e16d67c6c36c02b6ea2b7dc3 '
                     'len=10287',
 'cache-create-subdir': 'sha256:d4f934a1a0669de8dddef42e8c0c059a2fc31982afa6c2e3e9aa018774d4e230 '
                        'len=8083',
 'cache-hit-subdir': 'sha256:d4f934a1a0669de8dddef42e8c0c059a2fc31982afa6c2e3e9aa018774d4e230 '
                     'len=8083',
 'cache-create-invalid-name': 'sha256:4e34afcc17055e9cbeabb389f4d5b8a2172469404526a92e74404ebd19c046c2 '
                              'len=1309',
 'cache-create-empty': 'sha256:ea395589aa6df26c258e2b1f29253231809cdecaada4b41ce18ce87f8057d242 '
                       'len=2239',
 'cache-hit-empty': 'sha256:4666fb41da7202de3354233953a9b38d629388c2bfa63f980b29a85cf64e01e8 '
                    'len=1309',
 'remote-hit': 'sha256:0208f9e88d78941b2a578a65e291dddb09a2c4dca12dce449d117282eff7451b len=8227',
 'remote-hit-create': 'sha256:0208f9e88d78941b2a578a65e291dddb09a2c4dca12dce449d117282eff7451b '
                      'len=8227',
 'remote-ignored': 'sha256:9bf110817fa9f78a8b3f2786ab2e11b13cdbe81a86913ca4a342842a309201c0 '
                   'len=10373',
 'remote-broken': 'sha256:8a5abc8fab8b55a0eb39033c1e8e00164e30c069f967353d91964c07c3d6f012 '
                  'len=9098',
 'remote-broken-create': 'sha256:f66bf319b321112284f7f13cce33487d303e45d85b45083bf52b47f5ecb66bb2 '
                         'len=9381',
 'remote-broken-shadowed': 'sha256:c782af8ad9acc3ff0db121ccba4e7929bb3a78f5ff49438a26b9a25762dd6a3c '
                           'len=7667',
 'remote-incomplete': 'sha256:e164c7e33ec21b7433f303eeac36ce2efb3aefe9b10802c0679286ed0af44ec8 '
                      'len=808',
 'remote-wrong-shape': 'sha256:10f6a8b282ff5868ad553512efaea8294daab2ceeb8737c9e835c8bcf1a4f3f9 '
                       'len=815',
 'remote-undecodable': 'sha256:e3f633522d438213c5f8d7f76a8374fa86ffa48a813fe967becedf83c90c9899 '
                       'len=857',
 'local-empty': 'sha256:881c6cb50024585f1abda13ed86adfd8448a3877ed5e03d052243998abbcd8f8 len=15692',
 'local-empty-create': 'sha256:0bcc79125bfbe86ceb0e71856450401efc9782c69e9352d04ee9c75849265d39 '
                       'len=15848',
 'local-recreated': 'sha256:07ad6968c91b5642f4a54245d43eee1423890f7a150a33ba9fdba22ce9ce0e59 '
                    'len=10565',
 'replaced-caching-error': 'sha256:8a59a00937bc955e48d0936bac5b0b26f5b9724f6761c83680c70e5b8504b544 '
                           'len=7978',
 'replaced-caching-error-off': 'sha256:80d67fb79dd650aa39f9f5d4323b91b43c21f2ead5708d77b84b4fb5972bf374 '
                               'len=7836',
 'replaced-file-not-found': 'sha256:54ec3733719124a430d67d48cd5583be982072ba2683a8d3af8a58db6c7a7dc1 '
                            'len=790',
 'replaced-file-not-found-off': 'sha256:80d67fb79dd650aa39f9f5d4323b91b43c21f2ead5708d77b84b4fb5972bf374 '
                                'len=7836',
 'replaced-sub-error': 'sha256:c32dd5905282337837be801a82f6f40f8cd18fadda14fcc6224b1f113defde53 '
                       'len=7995',
 'replaced-sub-error-off': 'sha256:80d67fb79dd650aa39f9f5d4323b91b43c21f2ead5708d77b84b4fb5972bf374 '
                           'len=7836',
 'replaced-returns-none': 'sha256:bf515f4b3d94c4ad22a090f00a2cb69b9c9accc0250ba55e0949f3af1849dce1 '
                          'len=816',
 'replaced-returns-none-off': 'sha256:80d67fb79dd650aa39f9f5d4323b91b43c21f2ead5708d77b84b4fb5972bf374 '
                              'len=7836',
 'replaced-returns-marker': 'sha256:aaf1f0c6a78accf2011a20a9779c987547935e35072d16481f3bb5b4e4fb669e '
                            'len=810',
 'replaced-returns-marker-off': 'sha256:80d67fb79dd650aa39f9f5d4323b91b43c21f2ead5708d77b84b4fb5972bf374 '
                                'len=7836',
 'replaced-create': 'sha256:b977b53178a6f8fc2da504eb04b8e75cec8cd1597eee9ce99276c23e730f68ce '
                    'len=1661',
 'replaced-create-off': 'sha256:80d67fb79dd650aa39f9f5d4323b91b43c21f2ead5708d77b84b4fb5972bf374 '
                        'len=7836',
 'nested-root': 'sha256:7534d237d1f22e1fc86329a9170c38b2aabbffbdbc7841490ef114ad69454826 len=8341',
 'nested-root-cache': 'sha256:f0f220fc8e41bfd0230419ed38cdd625e176030d8f2950be09ad5ae85ba85c3a '
                      'len=8729',
 'mapper-none': 'sha256:0197e6db3824d70ebc735a91c5aa3f5c0014cdb7710d4d4278b89f5ab3e94e93 len=672',
 'mapper-none-cache': 'sha256:724e6d6f1f043245e95d2b6ceabe20be9b9feba2272e53cbe26bcc63e3676d85 '
                      'len=817'}
# EXPECTED-END


def test_equivalence():
    actual = {name: digest(text) for name, text in cases().items()}
    assert list(actual) == list(EXPECTED)
    for name, value in actual.items():
        assert value == EXPECTED[name], name


def test_signature():
    import inspect

    signature = inspect.signature(sar_image.open_image)
    assert str(signature) == (
        "(mapper, path, *, use_cache=True, create_cache=False, records_per_chunk=None)"
    )
    assert str(inspect.signature(sar_image.filename_to_groupname)) == "(path)"


if __name__ == "__main__":
    if "--record" in sys.argv:
        actual = {name: digest(text) for name, text in cases().items()}
        path = pathlib.Path(__file__)
        source = path.read_text()
        head, rest = source.split("# EXPECTED-BEGIN\n", 1)
        _, tail = rest.split("# EXPECTED-END\n", 1)
        body = "EXPECTED = " + pprint.pformat(actual, width=100, sort_dicts=False) + "\n"
        path.write_text(head + "# EXPECTED-BEGIN\n" + body + "# EXPECTED-END\n" + tail)
        print(f"recorded {len(actual)} cases")
    else:
        test_equivalence()
        test_signature()
        print(f"ok: {len(EXPECTED)} cases identical")
