"""Equivalence check for refactoring 4 (ceos_alos2.io.open).

``io.open`` only orchestrates the readers of the individual files, so the readers of the
binary files are replaced by recording stand-ins with the signatures of the real ones;
the mapper and the summary are real (fsspec's memory file system).  Every request (creation
of the mapper, reads through the mapper, calls of the readers with their arguments) is
recorded in order.

Run as ``python _eq/4/equiv.py`` (or through pytest).  ``python _eq/4/equiv.py --record``
prints the observations instead of comparing them; EXPECTED below was recorded that way
from the unchanged code.
"""

import hashlib
import inspect
import pprint
import sys

import fsspec

import ceos_alos2
from ceos_alos2 import io, sar_image
from ceos_alos2.hierarchy import Group, Variable

try:
    ExceptionGroup
except NameError:  # pragma: no cover
    from exceptiongroup import ExceptionGroup


def describe(obj):
    if isinstance(obj, Group):
        return [
            "Group",
            repr(obj.path),
            repr(obj.url),
            [[repr(name), describe(value)] for name, value in obj.data.items()],
            describe(obj.attrs),
        ]
    if isinstance(obj, Variable):
        return ["Variable", repr(obj.dims), repr(obj.data), describe(obj.attrs)]
    if isinstance(obj, dict):
        return [type(obj).__name__, [[repr(k), describe(v)] for k, v in obj.items()]]
    return repr(obj)


def describe_exception(e):
    if e is None:
        return None
    if isinstance(e, ExceptionGroup):
        info = [type(e).__name__, e.message, [describe_exception(sub) for sub in e.exceptions]]
    else:
        # the name of this module depends on how the file is run
        info = [type(e).__name__, repr(e.args).replace(f"{__name__}.", "")]
    info.append(describe_exception(e.__cause__))
    info.append(type(e.__context__).__name__)
    info.append(e.__suppress_context__)
    return info


class RecordingMapper:
    """proxy of a ``FSMap`` that records the reads"""

    def __init__(self, mapper, events):
        self._mapper = mapper
        self._events = events
        self.root = mapper.root
        self.fs = mapper.fs

    def __getitem__(self, key):
        self._events.append(["read", key])
        return self._mapper[key]

    def __repr__(self):
        return f"<mapper {self.root}>"


def make_summary(filenames, extra=()):
    lines = [f'Pdi_CntOfL11ProductFileName="{len(filenames)}"']
    lines.extend(
        f'Pdi_L11ProductFileName{index:02d}="{name}"' for index, name in enumerate(filenames, 1)
    )
    lines.extend(extra)
    return "\n".join(lines).encode()


class Harness:
    def __init__(self, fail=None, volume_attrs=None):
        self.events = []
        self.fail = fail or {}
        self.volume_attrs = {"volume": 1} if volume_attrs is None else volume_attrs

    def _maybe_fail(self, stage, key):
        error = self.fail.get((stage, key), self.fail.get(stage))
        if error is not None:
            raise error

    # the stand-ins have the signatures of the functions they replace
    def get_mapper(self, url="", check=False, create=False, missing_exceptions=None, **kwargs):
        self.events.append(["get_mapper", repr(url), sorted(kwargs.items())])
        self._maybe_fail("get_mapper", url)
        return RecordingMapper(self.original_get_mapper(url, **kwargs), self.events)

    def open_volume_directory(self, mapper, path):
        self.events.append(["volume_directory", repr(mapper), repr(path)])
        self._maybe_fail("volume_directory", path)
        return Group(path=None, url=None, data={}, attrs=dict(self.volume_attrs))

    def open_sar_leader(self, mapper, path):
        self.events.append(["sar_leader", repr(mapper), repr(path)])
        self._maybe_fail("sar_leader", path)
        var = Variable("x", [1, 2], {})
        return Group(path=None, url=None, data={"v": var}, attrs={"leader": path})

    def open_image(self, mapper, path, *, use_cache=True, create_cache=False, records_per_chunk=None):
        self.events.append(
            [
                "image",
                repr(mapper),
                repr(path),
                repr(use_cache),
                repr(create_cache),
                repr(records_per_chunk),
            ]
        )
        self._maybe_fail("image", path)
        # same naming scheme as the real reader: polarization (and scan)
        name = path.split("-")[1] if "-" in path else path
        return Group(path=name, url=None, data={}, attrs={"image": path})

    def run(self, *args, full=True, **kwargs):
        saved = (
            fsspec.get_mapper,
            io.open_volume_directory,
            io.open_sar_leader,
            sar_image.open_image,
        )
        self.original_get_mapper = saved[0]
        fsspec.get_mapper = self.get_mapper
        io.open_volume_directory = self.open_volume_directory
        io.open_sar_leader = self.open_sar_leader
        sar_image.open_image = self.open_image
        try:
            try:
                result = io.open(*args, **kwargs)
            except BaseException as e:  # noqa: B902
                outcome = ["raises", describe_exception(e)]
            else:
                outcome = ["returns", describe(result)]
                if not full:
                    # the complete tree is long: only keep a digest of its description
                    digest = hashlib.sha1(repr(outcome).encode()).hexdigest()
                    outcome = ["returns (digest)", digest]
        finally:
            (
                fsspec.get_mapper,
                io.open_volume_directory,
                io.open_sar_leader,
                sar_image.open_image,
            ) = saved

        return [outcome, self.events]


FILES5 = ["VOL-X", "LED-X", "IMG-HH-X", "IMG-HV-X", "TRL-X"]


def setup_products():
    fs = fsspec.filesystem("memory")
    products = {
        "two_images": make_summary(FILES5),
        "no_images": make_summary(["VOL-X", "LED-X", "TRL-X"]),
        "one_image": make_summary(["VOL-X", "LED-X", "IMG-VV-X-F3", "TRL-X"]),
        "many_images": make_summary(
            ["v", "l", "IMG-HH-X-F1", "IMG-HH-X-F2", "IMG-HV-X-F1", "plain", "IMG-HH-X-F1", "t"]
        ),
        "with_other_sections": make_summary(
            FILES5,
            extra=[
                'Ach_TimeCheck=""',
                'Pdi_BitPixel="16"',
                'Pdi_NoOfPixels_1="3"',
                'Pdi_NoOfLines_1="4"',
                'Xyz_a="b"',
            ],
        ),
        "too_few_files": make_summary(["VOL-X", "LED-X"]),
        "no_product_info": b'Ach_TimeCheck=""',
        "no_data_files": b'Pdi_BitPixel="16"',
        "broken_summary": b"broken\n" + make_summary(FILES5) + b"\nalso broken",
        "empty_summary": b"",
    }
    for name, content in products.items():
        fs.pipe(f"/eq4/{name}/summary.txt", content)
    fs.pipe("/eq4/no_summary/other.txt", b"")

    return list(products)


def scenarios():
    names = setup_products()
    results = []

    def add(label, harness, *args, full=False, **kwargs):
        results.append([label, harness.run(*args, full=full, **kwargs)])

    for name in names + ["no_summary", "does_not_exist"]:
        add(name, Harness(), f"memory://eq4/{name}", full=name in ("two_images", "many_images"))

    url = "memory://eq4/two_images"
    add("trailing_slash", Harness(), url + "/")
    add("create_cache", Harness(), url, create_cache=True)
    add("no_cache", Harness(), url, use_cache=False)
    add("records_per_chunk", Harness(), url, records_per_chunk=7)
    add("records_per_chunk_none", Harness(), url, records_per_chunk=None)
    add(
        "all_options",
        Harness(),
        url,
        storage_options={},
        create_cache=1,
        use_cache=0,
        records_per_chunk="4096",
    )
    add("storage_options", Harness(), url, storage_options={"b": 2, "a": 1})
    add("storage_options_not_a_mapping", Harness(), url, storage_options=None)
    add("storage_options_duplicate", Harness(), url, storage_options={"url": "x"})
    add("positional_option", Harness(), url, {})
    add("unknown_option", Harness(), url, chunks=3)
    add("no_path", Harness())
    add("path_keyword", Harness(), path=url)

    # the attributes of the volume directory lose against the reference document
    add(
        "volume_attrs_override",
        Harness(volume_attrs={"reference_document": "old", "z": 1, "a": 2}),
        url,
        full=True,
    )
    add("volume_attrs_empty", Harness(volume_attrs={}), url)

    # failures in the individual stages: nothing after the failing stage is requested
    add("fail_get_mapper", Harness(fail={"get_mapper": ValueError("mapper")}), url)
    add("fail_volume_directory", Harness(fail={"volume_directory": OSError("vol")}), url)
    add("fail_sar_leader", Harness(fail={"sar_leader": FileNotFoundError("led")}), url)
    add("fail_first_image", Harness(fail={("image", "IMG-HH-X"): KeyError("hh")}), url)
    add("fail_second_image", Harness(fail={("image", "IMG-HV-X"): RuntimeError("hv")}), url)
    # a TypeError raised by the reader itself is not swallowed
    add("fail_image_type_error", Harness(fail={"image": TypeError("genuine")}), url)
    # ... but a StopIteration silently ends the list of images
    add("fail_image_stop_iteration", Harness(fail={"image": StopIteration("stop")}), url, full=True)
    add(
        "fail_second_image_stop_iteration",
        Harness(fail={("image", "IMG-HV-X"): StopIteration()}),
        url,
    )
    add(
        "fail_many",
        Harness(
            fail={
                ("image", "IMG-HV-X-F1"): ValueError("third"),
                ("image", "plain"): ValueError("fourth"),
            }
        ),
        "memory://eq4/many_images",
    )

    return results


def signature():
    sig = inspect.signature(io.open)
    return [
        [name, str(p.kind), repr(p.default)] for name, p in sig.parameters.items()
    ] + [repr(io.open.__defaults__), repr(io.open.__kwdefaults__), io.open.__name__, io.open.__module__]


def namespace():
    return [
        ceos_alos2.io is io,
        io.open_summary is ceos_alos2.summary.open_summary,
        io.sar_image is sar_image,
        io.Group is Group,
        io.fsspec is fsspec,
        callable(io.open_volume_directory),
        callable(io.open_sar_leader),
    ]


def collect():
    return {"scenarios": scenarios(), "signature": signature(), "namespace": namespace()}


EXPECTED = {'scenarios': [['two_images',
                [['returns',
                  ['Group',
                   "'/'",
                   "'/eq4/two_images'",
                   [["'summary'",
                     ['Group',
                      "'/summary'",
                      "'/eq4/two_images'",
                      [["'product_information'",
                        ['Group',
                         "'/summary/product_information'",
                         "'/eq4/two_images'",
                         [["'data_files'",
                           ['Group',
                            "'/summary/product_information/data_files'",
                            "'/eq4/two_images'",
                            [],
                            ['dict',
                             [["'volume_directory'", "'VOL-X'"],
                              ["'sar_leader'", "'LED-X'"],
                              ["'sar_imagery'", "['IMG-HH-X', 'IMG-HV-X']"],
                              ["'sar_trailer'", "'TRL-X'"]]]]]],
                         ['dict', []]]]],
                      ['dict', []]]],
                    ["'metadata'",
                     ['Group',
                      "'/metadata'",
                      "'/eq4/two_images'",
                      [["'v'", ['Variable', "['x']", '[1, 2]', ['dict', []]]]],
                      ['dict', [["'leader'", "'LED-X'"]]]]],
                    ["'imagery'",
                     ['Group',
                      "'/imagery'",
                      "'/eq4/two_images'",
                      [["'HH'",
                        ['Group',
                         "'/imagery/HH'",
                         "'/eq4/two_images'",
                         [],
                         ['dict', [["'image'", "'IMG-HH-X'"]]]]],
                       ["'HV'",
                        ['Group',
                         "'/imagery/HV'",
                         "'/eq4/two_images'",
                         [],
                         ['dict', [["'image'", "'IMG-HV-X'"]]]]]],
                      ['dict', []]]]],
                   ['dict',
                    [["'volume'", '1'],
                     ["'reference_document'",
                      "'https://www.eorc.jaxa.jp/ALOS-2/en/doc/fdata/PALSAR-2_xx_Format_CEOS_E_f.pdf'"]]]]],
                 [['get_mapper', "'memory://eq4/two_images'", []],
                  ['read', 'summary.txt'],
                  ['volume_directory', '<mapper /eq4/two_images>', "'VOL-X'"],
                  ['sar_leader', '<mapper /eq4/two_images>', "'LED-X'"],
                  ['image', '<mapper /eq4/two_images>', "'IMG-HH-X'", 'True', 'False', '1024'],
                  ['image', '<mapper /eq4/two_images>', "'IMG-HV-X'", 'True', 'False', '1024']]]],
               ['no_images',
                [['returns (digest)', 'f7f457687c22030addf3486ada1fa32e373c9a97'],
                 [['get_mapper', "'memory://eq4/no_images'", []],
                  ['read', 'summary.txt'],
                  ['volume_directory', '<mapper /eq4/no_images>', "'VOL-X'"],
                  ['sar_leader', '<mapper /eq4/no_images>', "'LED-X'"]]]],
               ['one_image',
                [['returns (digest)', '613f5d26d9189c200353ee17da6c54f345858645'],
                 [['get_mapper', "'memory://eq4/one_image'", []],
                  ['read', 'summary.txt'],
                  ['volume_directory', '<mapper /eq4/one_image>', "'VOL-X'"],
                  ['sar_leader', '<mapper /eq4/one_image>', "'LED-X'"],
                  ['image', '<mapper /eq4/one_image>', "'IMG-VV-X-F3'", 'True', 'False', '1024']]]],
               ['many_images',
                [['returns',
                  ['Group',
                   "'/'",
                   "'/eq4/many_images'",
                   [["'summary'",
                     ['Group',
                      "'/summary'",
                      "'/eq4/many_images'",
                      [["'product_information'",
                        ['Group',
                         "'/summary/product_information'",
                         "'/eq4/many_images'",
                         [["'data_files'",
                           ['Group',
                            "'/summary/product_information/data_files'",
                            "'/eq4/many_images'",
                            [],
                            ['dict',
                             [["'volume_directory'", "'v'"],
                              ["'sar_leader'", "'l'"],
                              ["'sar_imagery'",
                               "['IMG-HH-X-F1', 'IMG-HH-X-F2', 'IMG-HV-X-F1', 'plain', "
                               "'IMG-HH-X-F1']"],
                              ["'sar_trailer'", "'t'"]]]]]],
                         ['dict', []]]]],
                      ['dict', []]]],
                    ["'metadata'",
                     ['Group',
                      "'/metadata'",
                      "'/eq4/many_images'",
                      [["'v'", ['Variable', "['x']", '[1, 2]', ['dict', []]]]],
                      ['dict', [["'leader'", "'l'"]]]]],
                    ["'imagery'",
                     ['Group',
                      "'/imagery'",
                      "'/eq4/many_images'",
                      [["'HH'",
                        ['Group',
                         "'/imagery/HH'",
                         "'/eq4/many_images'",
                         [],
                         ['dict', [["'image'", "'IMG-HH-X-F1'"]]]]],
                       ["'HV'",
                        ['Group',
                         "'/imagery/HV'",
                         "'/eq4/many_images'",
                         [],
                         ['dict', [["'image'", "'IMG-HV-X-F1'"]]]]],
                       ["'plain'",
                        ['Group',
                         "'/imagery/plain'",
                         "'/eq4/many_images'",
                         [],
                         ['dict', [["'image'", "'plain'"]]]]]],
                      ['dict', []]]]],
                   ['dict',
                    [["'volume'", '1'],
                     ["'reference_document'",
                      "'https://www.eorc.jaxa.jp/ALOS-2/en/doc/fdata/PALSAR-2_xx_Format_CEOS_E_f.pdf'"]]]]],
                 [['get_mapper', "'memory://eq4/many_images'", []],
                  ['read', 'summary.txt'],
                  ['volume_directory', '<mapper /eq4/many_images>', "'v'"],
                  ['sar_leader', '<mapper /eq4/many_images>', "'l'"],
                  ['image', '<mapper /eq4/many_images>', "'IMG-HH-X-F1'", 'True', 'False', '1024'],
                  ['image', '<mapper /eq4/many_images>', "'IMG-HH-X-F2'", 'True', 'False', '1024'],
                  ['image', '<mapper /eq4/many_images>', "'IMG-HV-X-F1'", 'True', 'False', '1024'],
                  ['image', '<mapper /eq4/many_images>', "'plain'", 'True', 'False', '1024'],
                  ['image',
                   '<mapper /eq4/many_images>',
                   "'IMG-HH-X-F1'",
                   'True',
                   'False',
                   '1024']]]],
               ['with_other_sections',
                [['returns (digest)', '5e4e110be771a2279acaeb57dc7c09021069b18e'],
                 [['get_mapper', "'memory://eq4/with_other_sections'", []],
                  ['read', 'summary.txt'],
                  ['volume_directory', '<mapper /eq4/with_other_sections>', "'VOL-X'"],
                  ['sar_leader', '<mapper /eq4/with_other_sections>', "'LED-X'"],
                  ['image',
                   '<mapper /eq4/with_other_sections>',
                   "'IMG-HH-X'",
                   'True',
                   'False',
                   '1024'],
                  ['image',
                   '<mapper /eq4/with_other_sections>',
                   "'IMG-HV-X'",
                   'True',
                   'False',
                   '1024']]]],
               ['too_few_files',
                [['raises',
                  ['ValueError',
                   "('not enough values to unpack (expected at least 3, got 2)',)",
                   None,
                   'NoneType',
                   False]],
                 [['get_mapper', "'memory://eq4/too_few_files'", []], ['read', 'summary.txt']]]],
               ['no_product_info',
                [['raises', ['KeyError', "('product_information',)", None, 'NoneType', False]],
                 [['get_mapper', "'memory://eq4/no_product_info'", []], ['read', 'summary.txt']]]],
               ['no_data_files',
                [['raises', ['KeyError', "('data_files',)", None, 'NoneType', False]],
                 [['get_mapper', "'memory://eq4/no_data_files'", []], ['read', 'summary.txt']]]],
               ['broken_summary',
                [['raises',
                  ['ExceptionGroup',
                   'failed to parse the summary',
                   [['ValueError', "('line 00: invalid line',)", None, 'NoneType', False],
                    ['ValueError', "('line 07: invalid line',)", None, 'NoneType', False]],
                   None,
                   'NoneType',
                   False]],
                 [['get_mapper', "'memory://eq4/broken_summary'", []], ['read', 'summary.txt']]]],
               ['empty_summary',
                [['raises', ['KeyError', "('product_information',)", None, 'NoneType', False]],
                 [['get_mapper', "'memory://eq4/empty_summary'", []], ['read', 'summary.txt']]]],
               ['no_summary',
                [['raises',
                  ['OSError',
                   "('Cannot find the summary file (`summary.txt`). Make sure the dataset at "
                   "/eq4/no_summary is complete and in the JAXA CEOS format.',)",
                   ['KeyError',
                    "('summary.txt',)",
                    ['FileNotFoundError',
                     "('/eq4/no_summary/summary.txt',)",
                     ['KeyError', "('/eq4/no_summary/summary.txt',)", None, 'NoneType', False],
                     'KeyError',
                     True],
                    'FileNotFoundError',
                    True],
                   'KeyError',
                   True]],
                 [['get_mapper', "'memory://eq4/no_summary'", []], ['read', 'summary.txt']]]],
               ['does_not_exist',
                [['raises',
                  ['OSError',
                   "('Cannot find the summary file (`summary.txt`). Make sure the dataset at "
                   "/eq4/does_not_exist is complete and in the JAXA CEOS format.',)",
                   ['KeyError',
                    "('summary.txt',)",
                    ['FileNotFoundError',
                     "('/eq4/does_not_exist/summary.txt',)",
                     ['KeyError', "('/eq4/does_not_exist/summary.txt',)", None, 'NoneType', False],
                     'KeyError',
                     True],
                    'FileNotFoundError',
                    True],
                   'KeyError',
                   True]],
                 [['get_mapper', "'memory://eq4/does_not_exist'", []], ['read', 'summary.txt']]]],
               ['trailing_slash',
                [['returns (digest)', '63b1f7ef3ccd67ff61d631147d5c8c8138eadc2b'],
                 [['get_mapper', "'memory://eq4/two_images/'", []],
                  ['read', 'summary.txt'],
                  ['volume_directory', '<mapper /eq4/two_images>', "'VOL-X'"],
                  ['sar_leader', '<mapper /eq4/two_images>', "'LED-X'"],
                  ['image', '<mapper /eq4/two_images>', "'IMG-HH-X'", 'True', 'False', '1024'],
                  ['image', '<mapper /eq4/two_images>', "'IMG-HV-X'", 'True', 'False', '1024']]]],
               ['create_cache',
                [['returns (digest)', '63b1f7ef3ccd67ff61d631147d5c8c8138eadc2b'],
                 [['get_mapper', "'memory://eq4/two_images'", []],
                  ['read', 'summary.txt'],
                  ['volume_directory', '<mapper /eq4/two_images>', "'VOL-X'"],
                  ['sar_leader', '<mapper /eq4/two_images>', "'LED-X'"],
                  ['image', '<mapper /eq4/two_images>', "'IMG-HH-X'", 'True', 'True', '1024'],
                  ['image', '<mapper /eq4/two_images>', "'IMG-HV-X'", 'True', 'True', '1024']]]],
               ['no_cache',
                [['returns (digest)', '63b1f7ef3ccd67ff61d631147d5c8c8138eadc2b'],
                 [['get_mapper', "'memory://eq4/two_images'", []],
                  ['read', 'summary.txt'],
                  ['volume_directory', '<mapper /eq4/two_images>', "'VOL-X'"],
                  ['sar_leader', '<mapper /eq4/two_images>', "'LED-X'"],
                  ['image', '<mapper /eq4/two_images>', "'IMG-HH-X'", 'False', 'False', '1024'],
                  ['image', '<mapper /eq4/two_images>', "'IMG-HV-X'", 'False', 'False', '1024']]]],
               ['records_per_chunk',
                [['returns (digest)', '63b1f7ef3ccd67ff61d631147d5c8c8138eadc2b'],
                 [['get_mapper', "'memory://eq4/two_images'", []],
                  ['read', 'summary.txt'],
                  ['volume_directory', '<mapper /eq4/two_images>', "'VOL-X'"],
                  ['sar_leader', '<mapper /eq4/two_images>', "'LED-X'"],
                  ['image', '<mapper /eq4/two_images>', "'IMG-HH-X'", 'True', 'False', '7'],
                  ['image', '<mapper /eq4/two_images>', "'IMG-HV-X'", 'True', 'False', '7']]]],
               ['records_per_chunk_none',
                [['returns (digest)', '63b1f7ef3ccd67ff61d631147d5c8c8138eadc2b'],
                 [['get_mapper', "'memory://eq4/two_images'", []],
                  ['read', 'summary.txt'],
                  ['volume_directory', '<mapper /eq4/two_images>', "'VOL-X'"],
                  ['sar_leader', '<mapper /eq4/two_images>', "'LED-X'"],
                  ['image', '<mapper /eq4/two_images>', "'IMG-HH-X'", 'True', 'False', 'None'],
                  ['image', '<mapper /eq4/two_images>', "'IMG-HV-X'", 'True', 'False', 'None']]]],
               ['all_options',
                [['returns (digest)', '63b1f7ef3ccd67ff61d631147d5c8c8138eadc2b'],
                 [['get_mapper', "'memory://eq4/two_images'", []],
                  ['read', 'summary.txt'],
                  ['volume_directory', '<mapper /eq4/two_images>', "'VOL-X'"],
                  ['sar_leader', '<mapper /eq4/two_images>', "'LED-X'"],
                  ['image', '<mapper /eq4/two_images>', "'IMG-HH-X'", '0', '1', "'4096'"],
                  ['image', '<mapper /eq4/two_images>', "'IMG-HV-X'", '0', '1', "'4096'"]]]],
               ['storage_options',
                [['returns (digest)', '63b1f7ef3ccd67ff61d631147d5c8c8138eadc2b'],
                 [['get_mapper', "'memory://eq4/two_images'", [('a', 1), ('b', 2)]],
                  ['read', 'summary.txt'],
                  ['volume_directory', '<mapper /eq4/two_images>', "'VOL-X'"],
                  ['sar_leader', '<mapper /eq4/two_images>', "'LED-X'"],
                  ['image', '<mapper /eq4/two_images>', "'IMG-HH-X'", 'True', 'False', '1024'],
                  ['image', '<mapper /eq4/two_images>', "'IMG-HV-X'", 'True', 'False', '1024']]]],
               ['storage_options_not_a_mapping',
                [['raises',
                  ['TypeError',
                   "('Harness.get_mapper() argument after ** must be a mapping, not NoneType',)",
                   None,
                   'NoneType',
                   False]],
                 []]],
               ['storage_options_duplicate',
                [['raises',
                  ['TypeError',
                   '("Harness.get_mapper() got multiple values for argument \'url\'",)',
                   None,
                   'NoneType',
                   False]],
                 []]],
               ['positional_option',
                [['raises',
                  ['TypeError',
                   "('open() takes 1 positional argument but 2 were given',)",
                   None,
                   'NoneType',
                   False]],
                 []]],
               ['unknown_option',
                [['raises',
                  ['TypeError',
                   '("open() got an unexpected keyword argument \'chunks\'",)',
                   None,
                   'NoneType',
                   False]],
                 []]],
               ['no_path',
                [['raises',
                  ['TypeError',
                   '("open() missing 1 required positional argument: \'path\'",)',
                   None,
                   'NoneType',
                   False]],
                 []]],
               ['path_keyword',
                [['returns (digest)', '63b1f7ef3ccd67ff61d631147d5c8c8138eadc2b'],
                 [['get_mapper', "'memory://eq4/two_images'", []],
                  ['read', 'summary.txt'],
                  ['volume_directory', '<mapper /eq4/two_images>', "'VOL-X'"],
                  ['sar_leader', '<mapper /eq4/two_images>', "'LED-X'"],
                  ['image', '<mapper /eq4/two_images>', "'IMG-HH-X'", 'True', 'False', '1024'],
                  ['image', '<mapper /eq4/two_images>', "'IMG-HV-X'", 'True', 'False', '1024']]]],
               ['volume_attrs_override',
                [['returns',
                  ['Group',
                   "'/'",
                   "'/eq4/two_images'",
                   [["'summary'",
                     ['Group',
                      "'/summary'",
                      "'/eq4/two_images'",
                      [["'product_information'",
                        ['Group',
                         "'/summary/product_information'",
                         "'/eq4/two_images'",
                         [["'data_files'",
                           ['Group',
                            "'/summary/product_information/data_files'",
                            "'/eq4/two_images'",
                            [],
                            ['dict',
                             [["'volume_directory'", "'VOL-X'"],
                              ["'sar_leader'", "'LED-X'"],
                              ["'sar_imagery'", "['IMG-HH-X', 'IMG-HV-X']"],
                              ["'sar_trailer'", "'TRL-X'"]]]]]],
                         ['dict', []]]]],
                      ['dict', []]]],
                    ["'metadata'",
                     ['Group',
                      "'/metadata'",
                      "'/eq4/two_images'",
                      [["'v'", ['Variable', "['x']", '[1, 2]', ['dict', []]]]],
                      ['dict', [["'leader'", "'LED-X'"]]]]],
                    ["'imagery'",
                     ['Group',
                      "'/imagery'",
                      "'/eq4/two_images'",
                      [["'HH'",
                        ['Group',
                         "'/imagery/HH'",
                         "'/eq4/two_images'",
                         [],
                         ['dict', [["'image'", "'IMG-HH-X'"]]]]],
                       ["'HV'",
                        ['Group',
                         "'/imagery/HV'",
                         "'/eq4/two_images'",
                         [],
                         ['dict', [["'image'", "'IMG-HV-X'"]]]]]],
                      ['dict', []]]]],
                   ['dict',
                    [["'reference_document'",
                      "'https://www.eorc.jaxa.jp/ALOS-2/en/doc/fdata/PALSAR-2_xx_Format_CEOS_E_f.pdf'"],
                     ["'z'", '1'],
                     ["'a'", '2']]]]],
                 [['get_mapper', "'memory://eq4/two_images'", []],
                  ['read', 'summary.txt'],
                  ['volume_directory', '<mapper /eq4/two_images>', "'VOL-X'"],
                  ['sar_leader', '<mapper /eq4/two_images>', "'LED-X'"],
                  ['image', '<mapper /eq4/two_images>', "'IMG-HH-X'", 'True', 'False', '1024'],
                  ['image', '<mapper /eq4/two_images>', "'IMG-HV-X'", 'True', 'False', '1024']]]],
               ['volume_attrs_empty',
                [['returns (digest)', 'e7df18280b7f7281483d302582c804c4d2f6a7f9'],
                 [['get_mapper', "'memory://eq4/two_images'", []],
                  ['read', 'summary.txt'],
                  ['volume_directory', '<mapper /eq4/two_images>', "'VOL-X'"],
                  ['sar_leader', '<mapper /eq4/two_images>', "'LED-X'"],
                  ['image', '<mapper /eq4/two_images>', "'IMG-HH-X'", 'True', 'False', '1024'],
                  ['image', '<mapper /eq4/two_images>', "'IMG-HV-X'", 'True', 'False', '1024']]]],
               ['fail_get_mapper',
                [['raises', ['ValueError', "('mapper',)", None, 'NoneType', False]],
                 [['get_mapper', "'memory://eq4/two_images'", []]]]],
               ['fail_volume_directory',
                [['raises', ['OSError', "('vol',)", None, 'NoneType', False]],
                 [['get_mapper', "'memory://eq4/two_images'", []],
                  ['read', 'summary.txt'],
                  ['volume_directory', '<mapper /eq4/two_images>', "'VOL-X'"]]]],
               ['fail_sar_leader',
                [['raises', ['FileNotFoundError', "('led',)", None, 'NoneType', False]],
                 [['get_mapper', "'memory://eq4/two_images'", []],
                  ['read', 'summary.txt'],
                  ['volume_directory', '<mapper /eq4/two_images>', "'VOL-X'"],
                  ['sar_leader', '<mapper /eq4/two_images>', "'LED-X'"]]]],
               ['fail_first_image',
                [['raises', ['KeyError', "('hh',)", None, 'NoneType', False]],
                 [['get_mapper', "'memory://eq4/two_images'", []],
                  ['read', 'summary.txt'],
                  ['volume_directory', '<mapper /eq4/two_images>', "'VOL-X'"],
                  ['sar_leader', '<mapper /eq4/two_images>', "'LED-X'"],
                  ['image', '<mapper /eq4/two_images>', "'IMG-HH-X'", 'True', 'False', '1024']]]],
               ['fail_second_image',
                [['raises', ['RuntimeError', "('hv',)", None, 'NoneType', False]],
                 [['get_mapper', "'memory://eq4/two_images'", []],
                  ['read', 'summary.txt'],
                  ['volume_directory', '<mapper /eq4/two_images>', "'VOL-X'"],
                  ['sar_leader', '<mapper /eq4/two_images>', "'LED-X'"],
                  ['image', '<mapper /eq4/two_images>', "'IMG-HH-X'", 'True', 'False', '1024'],
                  ['image', '<mapper /eq4/two_images>', "'IMG-HV-X'", 'True', 'False', '1024']]]],
               ['fail_image_type_error',
                [['raises', ['TypeError', "('genuine',)", None, 'NoneType', False]],
                 [['get_mapper', "'memory://eq4/two_images'", []],
                  ['read', 'summary.txt'],
                  ['volume_directory', '<mapper /eq4/two_images>', "'VOL-X'"],
                  ['sar_leader', '<mapper /eq4/two_images>', "'LED-X'"],
                  ['image', '<mapper /eq4/two_images>', "'IMG-HH-X'", 'True', 'False', '1024']]]],
               ['fail_image_stop_iteration',
                [['returns',
                  ['Group',
                   "'/'",
                   "'/eq4/two_images'",
                   [["'summary'",
                     ['Group',
                      "'/summary'",
                      "'/eq4/two_images'",
                      [["'product_information'",
                        ['Group',
                         "'/summary/product_information'",
                         "'/eq4/two_images'",
                         [["'data_files'",
                           ['Group',
                            "'/summary/product_information/data_files'",
                            "'/eq4/two_images'",
                            [],
                            ['dict',
                             [["'volume_directory'", "'VOL-X'"],
                              ["'sar_leader'", "'LED-X'"],
                              ["'sar_imagery'", "['IMG-HH-X', 'IMG-HV-X']"],
                              ["'sar_trailer'", "'TRL-X'"]]]]]],
                         ['dict', []]]]],
                      ['dict', []]]],
                    ["'metadata'",
                     ['Group',
                      "'/metadata'",
                      "'/eq4/two_images'",
                      [["'v'", ['Variable', "['x']", '[1, 2]', ['dict', []]]]],
                      ['dict', [["'leader'", "'LED-X'"]]]]],
                    ["'imagery'", ['Group', "'/imagery'", "'/eq4/two_images'", [], ['dict', []]]]],
                   ['dict',
                    [["'volume'", '1'],
                     ["'reference_document'",
                      "'https://www.eorc.jaxa.jp/ALOS-2/en/doc/fdata/PALSAR-2_xx_Format_CEOS_E_f.pdf'"]]]]],
                 [['get_mapper', "'memory://eq4/two_images'", []],
                  ['read', 'summary.txt'],
                  ['volume_directory', '<mapper /eq4/two_images>', "'VOL-X'"],
                  ['sar_leader', '<mapper /eq4/two_images>', "'LED-X'"],
                  ['image', '<mapper /eq4/two_images>', "'IMG-HH-X'", 'True', 'False', '1024']]]],
               ['fail_second_image_stop_iteration',
                [['returns (digest)', '07e228ab311fe3dbad76be7645eef47459238986'],
                 [['get_mapper', "'memory://eq4/two_images'", []],
                  ['read', 'summary.txt'],
                  ['volume_directory', '<mapper /eq4/two_images>', "'VOL-X'"],
                  ['sar_leader', '<mapper /eq4/two_images>', "'LED-X'"],
                  ['image', '<mapper /eq4/two_images>', "'IMG-HH-X'", 'True', 'False', '1024'],
                  ['image', '<mapper /eq4/two_images>', "'IMG-HV-X'", 'True', 'False', '1024']]]],
               ['fail_many',
                [['raises', ['ValueError', "('third',)", None, 'NoneType', False]],
                 [['get_mapper', "'memory://eq4/many_images'", []],
                  ['read', 'summary.txt'],
                  ['volume_directory', '<mapper /eq4/many_images>', "'v'"],
                  ['sar_leader', '<mapper /eq4/many_images>', "'l'"],
                  ['image', '<mapper /eq4/many_images>', "'IMG-HH-X-F1'", 'True', 'False', '1024'],
                  ['image', '<mapper /eq4/many_images>', "'IMG-HH-X-F2'", 'True', 'False', '1024'],
                  ['image',
                   '<mapper /eq4/many_images>',
                   "'IMG-HV-X-F1'",
                   'True',
                   'False',
                   '1024']]]]],
 'signature': [['path', 'POSITIONAL_OR_KEYWORD', "<class 'inspect._empty'>"],
               ['storage_options', 'KEYWORD_ONLY', '{}'],
               ['create_cache', 'KEYWORD_ONLY', 'False'],
               ['use_cache', 'KEYWORD_ONLY', 'True'],
               ['records_per_chunk', 'KEYWORD_ONLY', '1024'],
               'None',
               "{'storage_options': {}, 'create_cache': False, 'use_cache': True, "
               "'records_per_chunk': 1024}",
               'open',
               'ceos_alos2.io'],
 'namespace': [True, True, True, True, True, True, True]}


def test_equivalence():
    actual = collect()
    assert sorted(actual) == sorted(EXPECTED)
    for name, expected in EXPECTED.items():
        assert len(actual[name]) == len(expected), name
        for index, (a, e) in enumerate(zip(actual[name], expected)):
            assert a == e, (name, index, a, e)


if __name__ == "__main__":
    if "--record" in sys.argv:
        pprint.pprint(collect(), width=100, sort_dicts=False)
    else:
        test_equivalence()
        print("ok:", sum(len(v) for v in EXPECTED.values()), "observations identical")
